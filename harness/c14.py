"""C14 - history browsing and accept.
Model: coq/Model/C14_HistoryNav.v; theorems: coq/Props/C14.v.

A case is ((storage ...) ehs vwt keep validator ((flag op) ...)) - see run_C14.
It is run at two levels on the real code:
  * buffer level: a real Buffer + InMemoryHistory subclass whose load() waits
    for a permit before every item (so that population steps can be
    interleaved with navigation), driven through Buffer methods and the
    named readline commands, inside a running asyncio loop with a real
    Application as current app;
  * session level: a real PromptSession over a pipe input, several consecutive
    prompt_async() calls on the same session, keys parsed by the real
    Vt100Parser and fed to the application's KeyProcessor (and through the
    type-ahead store for keys that arrive before the prompt starts).
The state is observed after every operation / key.
"""
import asyncio
import itertools
import types

from common import *  # noqa

PROP = "C14"
TABLES = ["Whitespace", "C14_Handlers"]
MODELS = [("c14", "Extract/ExC14.v", "run_C14L")]

OPN = {1: "history_backward", 2: "history_forward", 3: "go_to_history", 4: "auto_up", 5: "auto_down",
       6: "end-of-history", 7: "insert_text", 8: "delete_before_cursor", 9: "delete", 10: "set_text",
       11: "set_cursor_position", 12: "cursor_left", 13: "cursor_right", 14: "validate", 15: "accept",
       16: "reset", 17: "load_history_if_not_yet_loaded", 18: "population_step", 19: "population_all",
       20: "set_enable_history_search", 21: "append_to_history", 22: "new_session_same_backend",
       23: "apply_search->(index,cursor)", 24: "apply_search", 25: "selection", 26: "loader_thread_step",
       27: "key_handler", 28: "yank_arg"}
NAV = (1, 2, 3, 4, 5, 6, 11, 12, 13, 20, 23, 25)
HIST_STEP = (1, 2, 4, 5)
EDIT = (7, 8, 9, 10, 28)      # 28 = [28, last, arg]: the named command yank-nth-arg (last=0) / yank-last-arg (last=1)
POP = (18, 19, 26)
BIG = 10 ** 9

# op 27 = [27, h, arg]: a real key handler called with a KeyPressEvent whose _arg is None ([]), "-" ([0]) or
# the numeral str(z) ([1, z]).  h -> (where the handler lives, its function name, the oracle's own reading of the
# Buffer call it makes, as a base operation, n = event.arg)
HANDLERS = {
    1: ("named", "previous-history", lambda n, a: [1, n]),
    2: ("named", "next-history", lambda n, a: [2, n]),
    3: ("named", "beginning-of-history", lambda n, a: [3, 0]),
    4: ("named", "end-of-history", lambda n, a: [6]),
    5: ("vi", "_go_up", lambda n, a: [4, n, 1]),                      # k
    6: ("vi", "_go_down2", lambda n, a: [5, n, 1]),                   # j
    7: ("vi", "_to_nth_history_line", lambda n, a: [3, n - 1]),       # <n>G (bound only with an argument)
    8: ("vi", "_up_in_navigation", lambda n, a: [4, n, 0]),           # up / c-p in navigation mode
    9: ("vi", "_go_down", lambda n, a: [5, n, 0]),                    # down / c-n in navigation mode
    10: ("emacs", "_prev", lambda n, a: [4, n, 0]),                   # c-p
    11: ("emacs", "_next", lambda n, a: [5, 1, 0]),                   # c-n: auto_down() without count
    12: ("basic", "_go_up", lambda n, a: [4, n, 0]),                  # up
    13: ("basic", "_go_down", lambda n, a: [5, n, 0]),                # down
}
HANDLER_NAMES = {1: "previous-history", 2: "next-history", 3: "beginning-of-history", 4: "end-of-history", 5: "vi:k", 6: "vi:j",
                 7: "vi:G", 8: "vi:up", 9: "vi:down", 10: "emacs:c-p", 11: "emacs:c-n", 12: "basic:up", 13: "basic:down"}
_HCACHE = {}


def arg_string(a):
    """wire argument -> KeyPressEvent._arg"""
    if a == []:
        return None
    if a == [0]:
        return "-"
    return str(a[1])


def oracle_arg(a):
    """the oracle's own reading of KeyPressEvent.arg"""
    if a == []:
        return 1
    if a == [0]:
        return -1
    if abs(a[1]) >= 10 ** 7:                    # more than seven significant digits (7b1fd9f)
        return -1 if a[1] < 0 else 1
    return 1 if a[1] >= 1000000 else a[1]


from c14_handlers import find_handler  # noqa: E402  (the same lookup the table generator uses)


def base_op(o):
    """op 27 as the base operation the oracle judges it as"""
    if o[0] != 27:
        return o
    return HANDLERS[o[1]][2](oracle_arg(o[2]), o[2])


# --------------------------------------------------------------------------
# harness-side validator (independent of the model's run_validator)

def rule_fires(cond, text, cur):
    k = cond[0]
    if k == 1:
        return True
    if k == 2:
        return chr(cond[1]) in text
    if k == 3:
        return len(text) < cond[1]
    if k == 4:
        return text.startswith(unS(cond[1]))
    if k == 5:
        return text == unS(cond[1])
    if k == 6:
        return cur == cond[1]
    raise ValueError(cond)


def verdict(rules, text, cur):
    """None = valid, else the reported cursor position"""
    if rules is None:
        return None
    for cond, pos in rules:
        if rule_fires(cond, text, cur):
            return {0: pos[1], 1: len(text) + pos[1], 2: cur + pos[1]}[pos[0]]
    return None


def make_validator(rules, gate=None):
    """gate: an asyncio.Event; when given, validate_async (the validate-while-
    typing path) waits for it, so a validation can be in flight while the text
    changes.  The verdict is the one of the document that was passed in."""
    from prompt_toolkit.validation import ValidationError, Validator

    class RuleValidator(Validator):
        def validate(self, document):
            p = verdict(rules, document.text, document.cursor_position)
            if p is not None:
                raise ValidationError(cursor_position=p, message="rejected")

        async def validate_async(self, document):
            if gate is not None:
                await gate.wait()
            self.validate(document)
    return RuleValidator()


def rules_ignore_cursor(rules):
    return rules is None or all(cond[0] != 6 for cond, pos in rules)


# --------------------------------------------------------------------------
# implementation side

def make_history(strings, path=None):
    """A History whose load() delivers one item per permit; every item is still
    produced by History.load() itself.  path: FileHistory on that file (the
    strings are ignored: the file is the storage), else InMemoryHistory."""
    from prompt_toolkit.history import FileHistory, InMemoryHistory
    base = FileHistory if path else InMemoryHistory

    class GatedHistory(base):
        def __init__(self, arg):
            super().__init__(arg)
            self.permits = 0
            self.ev = asyncio.Event()

        async def load(self):
            self.permits = 0
            agen = super().load()
            while True:
                while self.permits <= 0:
                    self.ev.clear()
                    await self.ev.wait()
                self.permits -= 1
                try:
                    item = await agen.__anext__()
                except StopAsyncIteration:
                    return
                yield item

        def grant(self, n):
            self.permits += n
            self.ev.set()
    return GatedHistory(path if path else strings)


class ThreadCtl:
    """Drives the loader thread of a real ThreadedHistory one item at a time:
    the inner history's load_history_strings() waits for a permit before it
    hands out each item and once more before it ends."""

    def __init__(self):
        import threading
        self.sem = threading.Semaphore(0)
        self.free = False
        self.granted = 0
        self.n_items = None       # size of the snapshot the thread took
        self.prep_at_thread_start = None

    def wait(self):
        if not self.free:
            self.sem.acquire(timeout=20)

    def release_all(self):
        self.free = True
        for _ in range(64):
            self.sem.release()


def make_threaded_history(strings, path, ctl):
    """ThreadedHistory(InMemoryHistory | FileHistory) with a gated inner load"""
    from prompt_toolkit.history import FileHistory, InMemoryHistory, ThreadedHistory
    base = FileHistory if path else InMemoryHistory

    class GatedInner(base):
        def load_history_strings(self):
            items = list(super().load_history_strings())
            ctl.n_items = len(items)
            for item in items:
                ctl.wait()
                yield item
            ctl.wait()
    return ThreadedHistory(GatedInner(path if path else strings))


def storage_of(h):
    h = getattr(h, "history", h)          # ThreadedHistory -> its inner history
    """the stored history, oldest first: InMemoryHistory's list, or what a NEW
    FileHistory object reads back from the file"""
    if hasattr(h, "_storage"):
        return list(h._storage)
    from prompt_toolkit.history import FileHistory
    return list(reversed(list(FileHistory(h.filename).load_history_strings())))


VST = {"UNKNOWN": 0, "VALID": 1, "INVALID": 2}


def snapshot(b, h, status, ret):
    # History.get_strings() loads the history as a side effect; the harness reads
    # the raw list (what is loaded so far) so that observing changes nothing.
    return [status, None if ret is None else [S(ret)],
            [S(x) for x in b._working_lines], b.working_index, b.cursor_position,
            None if b.history_search_text is None else [S(b.history_search_text)],
            None if b.preferred_column is None else [b.preferred_column],
            VST[b.validation_state.name], [S(x) for x in h._loaded_strings[::-1]], [S(x) for x in storage_of(h)],
            1 if b.selection_state is not None else 0,
            None if b.yank_nth_arg_state is None else [[b.yank_nth_arg_state.history_position, b.yank_nth_arg_state.n,
                                                         S(b.yank_nth_arg_state.previous_inserted_word)]]]


async def spin(n=6):
    for _ in range(n):
        await asyncio.sleep(0)


class _Out:
    def bell(self):
        pass


def make_event(buf, arg=1):
    app = types.SimpleNamespace(output=_Out(), current_buffer=buf)
    return types.SimpleNamespace(current_buffer=buf, arg=arg, data="", app=app, is_repeat=False, key_sequence=[])


def exc_status(e):
    if isinstance(e, AssertionError):
        return 1
    if isinstance(e, IndexError):
        return 2
    return 99


_APP = {}


def get_dummy_app():
    from prompt_toolkit.application import Application
    from prompt_toolkit.input import DummyInput
    from prompt_toolkit.output import DummyOutput
    if "app" not in _APP:
        _APP["app"] = Application(input=DummyInput(), output=DummyOutput())
    return _APP["app"]


_FILE = {"dir": None, "n": 0}


def new_history_file():
    import tempfile
    if _FILE["dir"] is None:
        _FILE["dir"] = tempfile.mkdtemp(prefix="c14-fh-", dir="/var/tmp")
    _FILE["n"] += 1
    return os.path.join(_FILE["dir"], "h%d" % _FILE["n"])


def cleanup_history_files():
    import shutil
    if _FILE["dir"]:
        shutil.rmtree(_FILE["dir"], ignore_errors=True)
        _FILE["dir"] = None


async def settle_threaded(b, h, ctl, track):
    """ThreadedHistory: wait until the loader thread has done what it was
    allowed to do and the Buffer's load() has consumed what is available.
    Only the implementation's own state is consulted."""
    import time
    t0 = time.time()
    while time.time() - t0 < 3.0:
        await asyncio.sleep(0)
        ok = True
        if h._load_thread is not None:
            if ctl.prep_at_thread_start is None:
                ctl.prep_at_thread_start = track.get("prep_at_task", 0)
            if ctl.n_items is None:
                ok = False
            else:
                want_items = min(ctl.granted, ctl.n_items)
                have = len(h._loaded_strings) - (h._num_prepended - ctl.prep_at_thread_start)
                if have != want_items or bool(h._loaded) != (ctl.granted > ctl.n_items):
                    ok = False
        lt = b._load_history_task
        if ok and lt is not None and not lt.cancelled() and track.get("task") is lt:
            if h._load_thread is None:
                ok = False
            else:
                avail = len(h._loaded_strings) - (h._num_prepended - track["prep_at_task"])
                got = len(b._working_lines) - track["lines_at_task"]
                if got != avail or (h._loaded and not lt.done()):
                    ok = False
        if ok:
            await spin(3)
            return True
        await asyncio.sleep(0.0005)
    return False


async def impl_buffer_case(case, slow=False, file_backend=False, threaded=False, history=None):
    """-> list of snapshots, one per observed op.  history: a History object made by the caller
    (shared-start-up-list family) instead of a new one.  slow: the validator's
    validate_async is gated; the gate is closed while operations flagged
    "deferred" run (their scheduled validation starts but stays in flight) and
    opened after every other operation until everything has settled."""
    from prompt_toolkit.application.current import set_app
    from prompt_toolkit.buffer import Buffer
    from prompt_toolkit.document import Document
    from prompt_toolkit.filters import Condition
    from prompt_toolkit.key_binding.bindings.named_commands import get_by_name
    storage, ehs, vwt, keep, rules, ops = case[:6]
    flags = {"ehs": bool(ehs)}
    rets = []

    def handler(buff):
        rets.append(buff.text)
        return bool(keep)
    path = None
    ctl = ThreadCtl() if threaded else None
    track = {}
    if file_backend:
        # the initial history is written by the real FileHistory.store_string
        from prompt_toolkit.history import FileHistory
        path = new_history_file()
        fh = FileHistory(path)
        for x in storage:
            fh.store_string(unS(x))
    if history is not None:
        h = history
    elif threaded:
        h = make_threaded_history([unS(x) for x in storage], path, ctl)
    else:
        h = make_history([unS(x) for x in storage], path)
    gate = asyncio.Event() if slow else None
    with set_app(get_dummy_app()):
        b = Buffer(history=h, validator=None if rules is None else make_validator(rules, gate),
                   validate_while_typing=bool(vwt), enable_history_search=Condition(lambda: flags["ehs"]),
                   accept_handler=handler, multiline=True)
        out = []
        try:
            for flag, op in ops:
                k = op[0]
                status, ret = 0, None
                del rets[:]
                try:
                    if k == 1:
                        get_by_name("previous-history").handler(make_event(b, op[1]))
                    elif k == 2:
                        get_by_name("next-history").handler(make_event(b, op[1]))
                    elif k == 3:
                        b.go_to_history(op[1])
                    elif k == 4:
                        b.auto_up(count=op[1], go_to_start_of_line_if_history_changes=bool(op[2]))
                    elif k == 5:
                        b.auto_down(count=op[1], go_to_start_of_line_if_history_changes=bool(op[2]))
                    elif k == 6:
                        get_by_name("end-of-history").handler(make_event(b))
                    elif k == 7:
                        b.insert_text(unS(op[1]))
                    elif k == 8:
                        b.delete_before_cursor(op[1])
                    elif k == 9:
                        b.delete(op[1])
                    elif k == 10:
                        b.text = unS(op[1])
                    elif k == 11:
                        b.cursor_position = op[1]
                    elif k == 12:
                        b.cursor_left(op[1])
                    elif k == 13:
                        b.cursor_right(op[1])
                    elif k == 14:
                        b.validate(set_cursor=bool(op[1]))
                    elif k == 15:
                        get_by_name("accept-line").handler(make_event(b))
                        if rets:
                            ret = rets[0]
                    elif k == 16:
                        b.reset(Document(unS(op[1]), op[2]), append_to_history=bool(op[3]))
                    elif k == 17:
                        before = b._load_history_task
                        b.load_history_if_not_yet_loaded()
                        if threaded and b._load_history_task is not before:
                            track.update(task=b._load_history_task, prep_at_task=h._num_prepended,
                                         lines_at_task=len(b._working_lines))
                    elif k == 26:
                        if threaded and h._load_thread is not None and not h._loaded:
                            ctl.granted += 1
                            ctl.sem.release()
                    elif k in (18, 19) and threaded:
                        pass
                    elif k == 18:
                        h.grant(1)
                    elif k == 19:
                        h.grant(BIG)
                    elif k == 20:
                        flags["ehs"] = bool(op[1])
                    elif k == 21:
                        b.append_to_history()
                    elif k == 25:
                        if op[1]:
                            b.start_selection()
                        else:
                            b.exit_selection()
                    elif k == 22:
                        # next run of the program: new History object on the same storage, new buffer state
                        if threaded:
                            ctl.release_all()
                            if h._load_thread is not None:
                                h._load_thread.join(5)
                            ctl = ThreadCtl()
                            track.clear()
                            h = make_threaded_history(storage_of(h), path, ctl)
                        else:
                            h = make_history(storage_of(h), path)
                        b.history = h
                        b.reset()
                    elif k == 27:
                        # a real key handler with a real KeyPressEvent.arg computed from _arg
                        from prompt_toolkit.key_binding.key_processor import KeyPressEvent
                        ev = make_event(b)
                        ev._arg = arg_string(op[2])
                        ev.arg = KeyPressEvent.arg.fget(ev)
                        ev.arg_present = ev._arg is not None
                        find_handler(op[1])(ev)
                    elif k == 28:
                        # the real named command yank-nth-arg / yank-last-arg with the real event.arg / arg_present
                        from prompt_toolkit.key_binding.key_processor import KeyPressEvent
                        ev = make_event(b)
                        ev._arg = arg_string(op[2])
                        ev.arg = KeyPressEvent.arg.fget(ev)
                        ev.arg_present = KeyPressEvent.arg_present.fget(ev)
                        get_by_name("yank-last-arg" if op[1] else "yank-nth-arg").handler(ev)
                    elif k == 24:
                        # incremental-search landing: the search itself is C16's; what it found is
                        # recorded in the case (op 23) and applied by the real apply_search
                        from prompt_toolkit.search import SearchDirection, SearchState
                        st8 = SearchState(unS(op[1]), SearchDirection.FORWARD if op[2] else SearchDirection.BACKWARD)
                        found = b._search(st8, include_current_position=bool(op[3]), count=op[4])
                        b.apply_search(st8, include_current_position=bool(op[3]), count=op[4])
                        op[:] = [23] + (list(found) if found is not None else [-1, 0])
                    else:
                        raise ValueError(k)
                except (AssertionError, IndexError) as e:
                    status = exc_status(e)
                if threaded:
                    await spin()
                    if not await settle_threaded(b, h, ctl, track):
                        status = 97         # the loader did not reach the expected state in time
                elif gate is not None:
                    await spin()            # scheduled tasks start (and wait at the gate)
                    if flag < 2:
                        gate.set()
                        await spin(16)
                        gate.clear()
                elif flag < 2:
                    await spin()
                if flag & 1:
                    out.append(snapshot(b, h, status, ret))
        finally:
            if gate is not None:
                gate.set()
            if threaded:
                ctl.release_all()
                if h._load_thread is not None:
                    h._load_thread.join(5)
            if b._load_history_task is not None:
                b._load_history_task.cancel()
            await spin(3)
    return out


async def impl_shared_pair(a, b):
    """Two sessions whose InMemoryHistory objects are constructed from ONE start-up list owned by the caller
    (`seed`): session A runs, then session B.  -> (snapshots of A, snapshots of B, the caller's list afterwards,
    A's stored history after B ran)"""
    seed = [unS(x) for x in a[0]]
    ha = make_history(seed)
    hb = make_history(seed)
    ra = await impl_buffer_case(a, history=ha)
    rb = await impl_buffer_case(b, history=hb)
    return ra, rb, [S(x) for x in seed], [S(x) for x in storage_of(ha)]


# ---- session level --------------------------------------------------------

KEYS = {"up": "\x1b[A", "down": "\x1b[B", "right": "\x1b[C", "left": "\x1b[D", "c-up": "\x1b[1;5A",
        "c-down": "\x1b[1;5B", "pageup": "\x1b[5~", "pagedown": "\x1b[6~", "backspace": "\x7f",
        "enter": "\r", "m-<": "\x1b<", "m->": "\x1b>"}


def parse_keys(data):
    from prompt_toolkit.input.vt100_parser import Vt100Parser
    out = []
    p = Vt100Parser(out.append)
    p.feed(data)
    p.flush()
    return out


def key_bytes(key):
    """key = (name-or-char, arg) ; arg None = no numeric argument"""
    name, arg = key
    pre = ""
    if arg is not None:
        pre = "\x1b-" if arg == -1 else "".join("\x1b" + d if i == 0 else d for i, d in enumerate(str(arg)))
    return pre + KEYS.get(name, name)


def key_op(key):
    name, arg = key
    a = 1 if arg is None else arg
    if name == "up":
        return [4, a, 0]
    if name == "down":
        return [5, a, 0]
    if name in ("c-up", "pageup"):
        return [1, a]
    if name in ("c-down", "pagedown"):
        return [2, a]
    if name == "left":
        return [12, a]
    if name == "right":
        return [13, a]
    if name == "backspace":
        return [8, a] if a >= 0 else [9, -a]
    if name == "enter":
        return [15]
    if name == "m-<":
        return [3, 0]
    if name == "m->":
        return [6]
    return [7, S(name * a)]


async def impl_session_case(script, threaded=False):
    """script = (storage, ehs, vwt, rules, prompts) with prompts = [(default, typeahead keys, live keys)].
    Returns (case, results): the model case is assembled while the script runs
    (a new prompt is started whenever the previous one returned)."""
    from prompt_toolkit import PromptSession
    from prompt_toolkit.application.current import create_app_session
    from prompt_toolkit.input import create_pipe_input
    from prompt_toolkit.input.typeahead import store_typeahead
    from prompt_toolkit.output import DummyOutput
    storage, ehs, vwt, rules, prompts = script
    ops, out = [], []
    from prompt_toolkit.history import InMemoryHistory
    ctl, track = None, {}
    if threaded:
        ctl = ThreadCtl()
        h = make_threaded_history([unS(x) for x in storage], None, ctl)
    else:
        h = InMemoryHistory([unS(x) for x in storage])
    with create_pipe_input() as inp:
        with create_app_session(input=inp, output=DummyOutput()):
            session = PromptSession(history=h, validator=None if rules is None else make_validator(rules),
                                    validate_while_typing=bool(vwt), enable_history_search=bool(ehs),
                                    complete_while_typing=False)
            b = session.default_buffer
            app = session.app
            broken = False
            for default, ta, live in prompts:
                if broken:
                    break
                if ta:
                    store_typeahead(inp, parse_keys("".join(key_bytes(k) for k in ta)))
                task = asyncio.ensure_future(session.prompt_async(default=default, set_exception_handler=False))
                for _ in range(400):
                    await asyncio.sleep(0)
                    lt = b._load_history_task
                    if task.done() or (app._is_running and lt is not None and (threaded or lt.done())):
                        break
                await spin()
                if threaded and not task.done():
                    lt = b._load_history_task
                    # the buffer was reset to one line; no append can have happened since load() started
                    track.update(task=lt, prep_at_task=h._num_prepended, lines_at_task=1)
                    await settle_threaded(b, h, ctl, track)
                ops.append([2, [16, S(default), len(default), 0]])
                for k in ta:
                    ops.append([2, key_op(k)])
                if task.done():
                    # accepted (or failed) while the type-ahead was processed
                    ops[-1][0] = 1
                    try:
                        ret = task.result()
                        out.append(snapshot(b, h, 0, ret))
                    except (AssertionError, IndexError) as e:
                        out.append(snapshot(b, h, exc_status(e), None))
                        broken = True
                    continue
                if threaded:
                    ops.append([1, [17]])
                else:
                    ops.append([2, [17]])
                    ops.append([1, [19]])
                out.append(snapshot(b, h, 0, None))
                for k in live:
                    status, ret = 0, None
                    if k[0] == "@thread":
                        # the loader thread reads one more item
                        if h._load_thread is not None and not h._loaded:
                            ctl.granted += 1
                            ctl.sem.release()
                        await spin()
                        await settle_threaded(b, h, ctl, track)
                        ops.append([1, [26]])
                        out.append(snapshot(b, h, 0, None))
                        continue
                    for kp in parse_keys(key_bytes(k)):
                        app.key_processor.feed(kp)
                    try:
                        app.context.copy().run(app.key_processor.process_keys)
                    except (AssertionError, IndexError) as e:
                        status = exc_status(e)
                    await spin()
                    if threaded and not task.done():
                        await settle_threaded(b, h, ctl, track)
                    if status == 0 and task.done():
                        ret = task.result()
                    ops.append([1, key_op(k)])
                    out.append(snapshot(b, h, status, ret))
                    if status != 0:
                        broken = True
                        break
                    if task.done():
                        break
                if not task.done():
                    try:
                        app.exit(exception=EOFError())
                    except Exception:  # noqa
                        task.cancel()
                    try:
                        await asyncio.wait_for(task, 3)
                    except BaseException:  # noqa
                        pass
    if threaded:
        ctl.release_all()
        if h._load_thread is not None:
            h._load_thread.join(5)
    case = [storage, ehs, vwt, 1, rules if rules is not None else [], ops] + ([1] if threaded else [])
    return case, out


class Runner:
    def __init__(self):
        self.loop = asyncio.new_event_loop()

    def run(self, coro_fn, seconds=60):      # generous: on a loaded machine an alarm that fires inside an asyncio callback kills a background task instead of the case
        def go():
            return self.loop.run_until_complete(coro_fn())
        try:
            return with_watchdog(go, seconds)
        except Hang:
            try:
                self.loop.close()
            except Exception:  # noqa
                pass
            _APP.clear()
            self.loop = asyncio.new_event_loop()
            raise

    def close(self):
        try:
            self.loop.close()
        except Exception:  # noqa
            pass


def wire(case):
    """python case -> the sx value given to the model"""
    storage, ehs, vwt, keep, rules, ops = case[:6]
    w = [storage, ehs, vwt, keep, None if rules is None else [rules], ops]
    if len(case) > 6 and case[6]:
        w.append(1)                      # ThreadedHistory (over InMemoryHistory: 1, over FileHistory: 2 - the model does not care)
    return w


# --------------------------------------------------------------------------
# oracle: the theorem statements transcribed over the implementation's results.
# snapshot = [status, ret, wl, wi, cur, hst, pref, vst, get_strings, storage]

def starts(a, p):
    return a[:len(p)] == p


def append_family(threaded, gs0, sto0, sto, text):
    """family tag of an 'appended exactly once' violation.  'threaded-nothing-loaded' is exactly the shape
    of finding C14-F3: a ThreadedHistory of which nothing is loaded yet, the accepted text equals the newest
    STORED entry and the only thing wrong is that it was stored once more."""
    if threaded and gs0 == [] and sto0 and sto0[-1] == text and sto == sto0 + [text]:
        return "threaded-nothing-loaded"
    if threaded:
        return "threaded-append"
    return "history-not-loaded" if gs0 != sto0 else "history-loaded"


def text_has_passing_cursor(rules, text):
    return any(verdict(rules, text, c) is None for c in range(len(text) + 1))


def oracle_case(case, results):
    """yields (clause, family, opname, detail) for every violated clause"""
    storage, ehs0, vwt, keep, rules, ops = case[:6]
    ops = [[f, base_op(o)] for f, o in ops]
    threaded = len(case) > 6 and bool(case[6])
    init = [0, None, [[]], 0, 0, None, None, 0, [], list(storage)]
    obs = [i for i, (f, o) in enumerate(ops) if f & 1]
    if len(obs) != len(results):
        return
    ehs = bool(ehs0)
    prev = init
    prev_i = -1
    clean_text, load_started = None, False   # text given to the last reset while only navigation/population followed
    last = None                   # (op, before, after) of the previous single observed op
    for i, after in zip(obs, results):
        between = [o for (f, o) in ops[prev_i + 1:i + 1]]
        single = len(between) == 1
        op = between[-1]
        k = op[0]
        name = OPN[k]
        st, ret, wl, wi, cur, hst, pref, vst, gs, sto = after[:10]
        _, _, wl0, wi0, cur0, hst0, _, vst0, gs0, sto0 = prev[:10]
        text0 = wl0[wi0] if -len(wl0) <= wi0 < len(wl0) else []
        text1 = wl[wi] if -len(wl) <= wi < len(wl) else []
        kinds = set(o[0] for o in between)
        for o in between:
            if o[0] == 20:
                ehs = bool(o[1])
        ehs_before = ehs if k != 20 else None
        # --- browsing never alters the stored history
        NAVX = NAV + (14,) + (() if threaded else (17,))     # with a ThreadedHistory starting a load may deliver entries at once
        POPX = POP + ((17,) if threaded else ())
        if kinds <= set(NAV + EDIT + POP + (14, 17)):
            if sto != sto0:
                yield ("browse_pure: stored history changed by %s" % name, "storage", name, (sto0, sto))
            # (get_strings() may at any time start to show the whole stored history: loading is lazy)
            if kinds <= set(NAVX + EDIT) and gs != gs0 and gs != sto:
                yield ("browse_pure: History.get_strings() changed by %s" % name, "get_strings", name, (gs0, gs))
        # --- working lines change only at the working index and only by edits
        if kinds <= set(NAVX) and wl != wl0:
            yield ("edits_kept: working lines changed by navigation (%s)" % name, "nav-changes-lines", name, (wl0, wl))
        if single and k in EDIT and st == 0:
            if len(wl) != len(wl0) or any(a != c for j, (a, c) in enumerate(zip(wl0, wl)) if j != wi0 % max(1, len(wl0))):
                yield ("edits_kept: an edit changed an entry other than the current one", "edit-elsewhere", name, (wl0, wl))
            if wi != wi0:
                yield ("edits_kept: an edit moved the working index", "edit-moves", name, (wi0, wi))
        # --- the search prefix is what was typed: any change of the text forgets it
        if single and k in EDIT and st == 0 and text1 != text0 and hst is not None:
            yield ("prefix: a text edit must reset the history search text", "stale-prefix", name, (hst0, hst))
        # --- population never changes what is displayed, only prepends
        if kinds <= set(POPX) and st == 0:
            add = len(wl) - len(wl0)
            if add < 0 or wl[add:] != wl0 or wi != wi0 + add:
                yield ("population_safe: population must only prepend entries and shift the index", "prepend", name, (wl0, wi0, wl, wi))
            if 0 <= wi0 < len(wl0) and (text1 != text0 or cur != cur0 or hst != hst0):
                yield ("population_safe: population changed the displayed entry/cursor", "displayed", name, (text0, cur0, text1, cur))
        # --- prefix search: an entry reached by an up/down step starts with the captured prefix
        if single and k in HIST_STEP and st == 0 and ehs_before and wi != wi0:
            p = hst0[0] if hst0 is not None else text0[:cur0]
            if not starts(text1, p):
                yield ("prefix: entry reached by %s does not start with the prefix" % name, "prefix", name, (p, text1))
            if hst is None or hst[0] != p:
                yield ("prefix: captured prefix is not the text before the cursor at the first step", "capture", name, (p, hst))
        # --- back k then forward k
        if single and last and k == 2 and last[0][0] == 1 and last[0][1] == op[1] and st == 0 and not ehs:
            b0 = last[1]
            kk = op[1]
            if b0[5] is None and 0 <= kk <= b0[3] and 0 <= b0[3] < len(b0[2]) and last[2][0] == 0:
                if wi != b0[3] or text1 != b0[2][b0[3]] or wl != b0[2]:
                    yield ("back_forth: back %d then forward %d from entry %d of %d ended at entry %d" % (kk, kk, b0[3], len(b0[2]), wi),
                           "count=0" if kk == 0 else "count>=1", "history_backward+history_forward", (b0[2], b0[3], kk, wi))
        # --- ... and with prefix search: the starting entry matches its own freshly captured prefix, so back k /
        # forward k over prefix-matching entries returns to it, when k such entries exist before it
        if single and last and k == 2 and last[0][0] == 1 and last[0][1] == op[1] and st == 0 and ehs and ehs_before:
            b0 = last[1]
            kk = op[1]
            if kk >= 0 and 0 <= b0[3] < len(b0[2]) and last[2][0] == 0 and 0 <= b0[4] <= len(b0[2][b0[3]]):
                # the prefix: the captured search text, else the text before the cursor (theorem C14_back_forth_prefix:
                # the displayed entry has to start with it, which is automatic when nothing is captured yet)
                p0 = b0[5][0] if b0[5] is not None else b0[2][b0[3]][:b0[4]]
                nmatch = sum(1 for e in b0[2][:b0[3]] if starts(e, p0)) if starts(b0[2][b0[3]], p0) else -1
                if kk <= nmatch and (wi != b0[3] or text1 != b0[2][b0[3]] or wl != b0[2]):
                    yield ("back_forth: with prefix search %r, back %d then forward %d from entry %d of %d ended at entry %d"
                           % (unS(p0), kk, kk, b0[3], len(b0[2]), wi),
                           "prefix-search", "history_backward+history_forward", (b0[2], b0[3], kk, wi))
        # --- accept
        if single and k == 15 and st == 0:
            if vst0 == 0:
                v = verdict(rules, unS(text0), cur0)
            else:
                v = None if vst0 == 1 else "stale"
            # a cached VALID verdict must be one for the current document, cursor included ("succeeds only if
            # the validator passes").  'stale-valid-cursor-moved' names the shape of the repaired finding
            # C14-F4 (validator looks at the cursor and passes this text at another cursor position); it is a
            # violation like any other.
            if vst0 == 1 and ret is not None and verdict(rules, unS(text0), cur0) is not None:
                fam4 = ("stale-valid-cursor-moved" if (not rules_ignore_cursor(rules)) and text_has_passing_cursor(rules, unS(text0))
                        else "accepted-invalid-stale")
                yield ("accept: input accepted although the validator rejects it (stale VALID verdict)", fam4, name, (text0, cur0))
            if v is not None:
                if ret is not None:
                    yield ("accept: input accepted although the validator rejects it", "accepted-invalid", name, (text0,))
                if wl != wl0 or wi != wi0:
                    yield ("accept: rejected input changed the text", "invalid-text", name, (wl0, wl))
                if sto != sto0 or (gs != gs0 and gs != sto):
                    yield ("accept: rejected input changed the history", "invalid-history", name, (sto0, sto))
                if v != "stale" and cur != min(max(0, v), len(text0)):
                    yield ("accept: fresh verdict must place the cursor at clamp(%d, 0, %d), got %d" % (v, len(text0), cur),
                           "invalid-cursor", name, (v, cur))
            else:
                if ret is None or ret[0] != text0:
                    yield ("accept: returned text is not the buffer text", "returned", name, (text0, ret))
                skip = (not text0) or (sto0 and sto0[-1] == text0)
                exp = sto0 if skip else sto0 + [text0]
                if sto != exp:
                    fam = append_family(threaded, gs0, sto0, sto, text0)
                    yield ("accept: history must become %r, got %r (text %r; appended exactly once unless empty or equal to the newest entry)"
                           % ([unS(x) for x in exp], [unS(x) for x in sto], unS(text0)), fam, name, (sto0, sto))
                if not keep and (wl != [[]] or wi != 0 or cur != 0):
                    yield ("accept: buffer not reset to a clean entry list", "not-reset", name, (wl, wi))
        # --- accept at the end of a type-ahead batch: only the returned text and the history can be judged
        if not single and k == 15 and st == 0 and ret is not None and not (kinds & {21}) \
                and sum(1 for o in between if o[0] == 15) == 1 and not any(o[0] == 16 and o[3] for o in between):
            t = ret[0]
            skip = (not t) or (sto0 and sto0[-1] == t)
            exp = sto0 if skip else sto0 + [t]
            if sto != exp:
                fam = append_family(threaded, gs0, sto0, sto, t)
                yield ("accept: history must become %r, got %r (text %r; appended exactly once unless empty or equal to the newest entry)"
                       % ([unS(x) for x in exp], [unS(x) for x in sto], unS(t)), fam, name, (sto0, sto))
        # --- reset: clean entry list; after full population = history ++ [new]
        for o in between:
            if o[0] == 22:
                clean_text, load_started = [], False
            elif o[0] == 16:
                clean_text, load_started = o[1], False
                if o[3]:
                    clean_text = None
            elif o[0] == 17:
                load_started = True
            elif o[0] not in NAV + POP + (14,):
                clean_text = None
        if k == 22 and st == 0 and (sto != sto0 or wl != [[]] or wi != 0):
            yield ("reset_clean: a new session must see exactly the stored history and start from a clean entry list",
                   "new-session", name, (sto0, sto, wl))
        if k == 16 and st == 0:
            if wl != [op[1]] or wi != 0 or cur != op[2] or hst is not None:
                yield ("reset_clean: after reset the entry list must be [new text]", "reset", name, (wl, wi, cur))
        if k == 19 and st == 0 and clean_text is not None and load_started and not threaded:
            if wl != gs + [clean_text] or sto != gs:
                yield ("reset_clean: after reset and population the entries must be history ++ [new]", "populated", name, (gs, wl))
        last = (op, prev, after) if single else None
        prev = after
        prev_i = i


# --------------------------------------------------------------------------
# generators

HIST_POOL = ["a", "ab", "abc", "b", "ba", "a\nb", "ab\ncd\ne", "", "界a", "b\n", "a b", "b 'a b' ab"]
TYPE_POOL = ["a", "b", "ab", "x", "界"]
POSITIONS = [-7, -1, 0, 1, 2, 3, 50]


def rand_rules(rng):
    r = rng.random()
    if r < 0.25:
        return None
    if r < 0.35:
        return []
    rules = []
    for _ in range(rng.randint(1, 2)):
        k = rng.choice([1, 2, 2, 3, 4, 5, 6])
        if k == 1:
            cond = [1]
        elif k == 2:
            cond = [2, ord(rng.choice("ab\nx"))]
        elif k == 3:
            cond = [3, rng.randint(1, 4)]
        elif k in (4, 5):
            cond = [k, S(rng.choice(["a", "ab", "b", "", "abc"]))]
        else:
            cond = [6, rng.randint(0, 3)]
        pos = [rng.choice([0, 0, 1, 2]), rng.choice(POSITIONS)]
        rules.append([cond, pos])
    return rules


def rand_storage(rng, maxn=5):
    n = rng.choice([0, 1, 2, 3, 3, 4, maxn])
    return [S(rng.choice(HIST_POOL)) for _ in range(n)]


def rand_count(rng):
    return rng.choice([1, 1, 1, 1, 2, 2, 3, 5, 0, -1, 100])


def rand_buffer_op(rng, loaded):
    r = rng.random()
    if r < 0.025:
        return [28, rng.randint(0, 1), rng.choice([[], [], [], [0], [1, 0], [1, 1], [1, 2], [1, -1], [1, -3], [1, 7]])]
    if r < 0.065:
        hnd = rng.choice(sorted(HANDLERS))
        a = rng.choice([[], [], [0], [1, 0], [1, 1], [1, 2], [1, 3], [1, 5], [1, -1], [1, 1000000]])
        if hnd == 7 and a == []:
            a = [1, 2]
        return [27, hnd, a]
    if r < 0.34:
        k = rng.choice([1, 1, 2, 2, 4, 4, 4, 5, 5, 5])
        if k in (1, 2):
            return [k, rand_count(rng)]
        return [k, rand_count(rng), rng.choice([0, 0, 1])]
    if r < 0.40:
        return [3, rng.choice([0, 1, 2, 3, 4, 9, -1, -5])]
    if r < 0.43:
        return [6]
    if r < 0.58:
        k = rng.choice([7, 7, 7, 8, 9, 10])
        if k == 7:
            return [7, S(rng.choice(TYPE_POOL + ["\n", "a\nb"]))]
        if k in (8, 9):
            return [k, rng.choice([0, 1, 1, 2, 9])]
        return [10, S(rng.choice(HIST_POOL))]
    if r < 0.68:
        k = rng.choice([11, 12, 13])
        return [k, rng.choice([-1, 0, 1, 1, 2, 5])]
    if r < 0.72:
        return [14, rng.randint(0, 1)]
    if r < 0.80:
        return [15]
    if r < 0.84:
        t = rng.choice(["", "", "a", "ab", "a\nb"])
        return [16, S(t), rng.choice([len(t), len(t), 0]), rng.choice([0, 0, 0, 1])]
    if r < 0.89:
        return [17]
    if r < 0.95:
        return [18]
    if r < 0.97:
        return [19]
    if r < 0.975:
        return [20, rng.randint(0, 1)]
    if r < 0.982:
        return [25, rng.choice([1, 1, 0])]
    if r < 0.99:
        return [24, S(rng.choice(["a", "b", "ab", "", "x", "\n"])), rng.randint(0, 1), rng.randint(0, 1), rng.choice([1, 1, 2, 0])]
    return [21]


def fl(ops):
    return [[1, o] for o in ops]


def gen_buffer_cases(chk):
    rng = chk.rng
    thorough = chk.tier == "thorough"
    cases = []
    dist = {}

    def add(fam, storage, ehs, vwt, keep, rules, ops):
        cases.append([storage, ehs, vwt, keep, rules, fl(ops)])
        dist[fam] = dist.get(fam, 0) + 1

    # 1. exhaustive navigation words over small histories, with and without prefix search
    hists = [[], ["a"], ["a", "b"], ["ab", "b", "a"], ["a", "ab", "a", "abc"], ["a\nb", "a", "a\nb"]]
    nav_alpha = [[1, 1], [2, 1], [4, 1, 0], [5, 1, 0], [1, 2], [2, 2], [3, 0], [6], [12, 1], [7, S("a")], [8, 1],
                 [24, S("a"), 0, 0, 1]]      # + an incremental backward search for "a" landing somewhere
    depth = 4 if thorough else 3
    for hh in hists:
        for ehs in (0, 1):
            for typed in ("", "a"):
                pre = [[17], [19]] + ([[7, S(typed)]] if typed else [])
                for n in range(1, depth + 1):
                    for w in itertools.product(nav_alpha, repeat=n):
                        if n == depth and not thorough and rng.random() > 0.16:
                            continue
                        add("exhaustive_nav_words", [S(x) for x in hh], ehs, 0, 0, None, pre + [list(o) for o in w])
    # 1b. selection on/off mixed with Up/Down, an edit (which drops the selection) and a cursor move
    sel_alpha = [[25, 1], [25, 0], [4, 1, 0], [5, 1, 0], [7, S("a")], [12, 1]]
    for hh in (["a"], ["ab", "b", "a"], ["a\nb", "a", "a\nb"]):
        for n in range(1, 4):
            for w in itertools.product(sel_alpha, repeat=n):
                add("selection_words", [S(x) for x in hh], 0, 0, 0, None, [[17], [19], [4, 1, 0]] + [list(o) for o in w])
    # 2. back k / forward k from every index
    for hh in hists[1:]:
        for start in range(len(hh) + 1):
            for k in (0, 1, 2, 3, 4):
                for vwt in (0, 1):
                    add("back_forth", [S(x) for x in hh], 0, vwt, 0, [] if vwt else None,
                        [[17], [19], [3, start], [1, k], [2, k]])
    # 2b. back k / forward k WITH prefix search: every start entry x typed/recalled prefix (cursor position) x k
    for hh in (["a", "ab", "b", "abc"], ["ab", "b", "ab", "a", "abc"], ["a\nb", "a", "b", "a\nc"]):
        for start in range(len(hh) + 1):
            for typed in (None, "", "a", "ab", "b"):
                if typed is not None and start != len(hh):
                    continue
                curs = (None,) if typed is not None else (0, 1, 2)
                for cpos in curs:
                    for k in (0, 1, 2, 3, 4):
                        pre = [[17], [19], [3, start]]
                        if typed is not None:
                            pre.append([10, S(typed)])
                        else:
                            pre.append([11, cpos])
                        add("back_forth_prefix", [S(x) for x in hh], 1, 0, 0, None, pre + [[1, k], [2, k], [1, k], [2, k]])
    # 3. accept: validators x texts x reported positions x loaded or not
    for text in ("", "a", "ab", "a\nb"):
        for pos in POSITIONS:
            for pk in (0, 1, 2):
                for sc in (0, 1):
                    rules = [[[2, ord("a")], [pk, pos]]]
                    pre = [[17], [19]] if sc else []
                    add("accept_positions", [S("z")], 0, 0, 0, rules,
                        pre + [[7, S(text)], [11, 1], [15], [15], [7, S("b")], [8, 2], [15]])
    for hh in hists:
        for text in ("", "a", "b", "a\nb", "abc"):
            for keep in (0, 1):
                for load in (0, 1, 2):
                    pre = [[], [[17]], [[17], [19]]][load]
                    add("accept_append", [S(x) for x in hh], 0, 0, keep, None,
                        pre + [[7, S(text)], [15], [16, S(""), 0, 0], [17], [19], [4, 1, 0], [15]])
    # 3b. a validator that looks at the cursor: verdict cached at one cursor position, accept at another
    for pos in (0, 1, 2):
        rules = [[[6, pos], [0, pos]]]            # rejects when the cursor is at `pos`
        for text in ("ab", "a"):
            for vwt in (0, 1):
                for mv in ([11, 0], [11, 1], [11, 2], [12, 1], [13, 1]):
                    add("cursor_dependent_validator", [], 0, vwt, 1, rules,
                        [[7, S(text)], [14, 0], mv, [15], [16, S(""), 0, 0], [7, S(text)], mv, [14, 0], [15]])
    # 4. population interleaved with navigation (every placement of the population steps)
    for hh in (["a", "b"], ["a", "ab", "b"]):
        navs = [[4, 1, 0], [4, 1, 0], [5, 1, 0], [1, 2]]
        for ehs in (0, 1):
            for mask in range(1 << (len(navs) + 1)):
                ops = [[17]]
                for j in range(len(navs) + 1):
                    if mask >> j & 1:
                        ops.append([18])
                    if j < len(navs):
                        ops.append(navs[j])
                ops += [[19], [4, 1, 0]]
                add("population_interleaved", [S(x) for x in hh], ehs, 0, 0, None, ops)
    # 4b. key handlers with numeric arguments: every handler x every kind of argument x start index
    ARGS = [[], [0], [1, 0], [1, 1], [1, 2], [1, 3], [1, -2], [1, 7], [1, 999999], [1, 1000000], [1, 12345678], [1, -9999999], [1, -10000000], [1, 123456789012]]
    for hh in (["a", "b"], ["ab", "b", "a", "abc"], ["a\nb", "a", "a\nb"]):
        for start in sorted(set([0, 1, len(hh)])):
            for hnd in sorted(HANDLERS):
                for a in ARGS:
                    if hnd == 7 and a == []:
                        continue
                    for ehs in (0, 1):
                        if ehs and (a not in ([], [1, 2], [0]) or start != len(hh)):
                            continue
                        add("key_handlers_with_arg", [S(x) for x in hh], ehs, 0, 0, None,
                            [[17], [19], [3, start]] + ([[7, S("a")]] if ehs else []) + [[27, hnd, a], [27, 2, a], [27, hnd, [1, 1]]])
    # 4c. yank-nth-arg / yank-last-arg: every argument (none, '-', 0.., negative, out of range) on histories of
    # multi-word / quoted / multi-line entries; repeated (rotation through the history, beyond its oldest entry);
    # mixed with cursor moves, edits and browsing (which drop the yank state); before the history is loaded
    YH = [['echo "hello world" foo', "ls -la /tmp", "git commit -m 'a b' x"], ["one"], ["a\nb c", "  lead  trail  ", 'say "unterminated x'],
          ["tab\tsep\x0bvt\x1cfs", "", "'q' \"r s\"t"], []]
    YARGS = [[], [0], [1, 0], [1, 1], [1, 2], [1, 3], [1, 9], [1, -1], [1, -2], [1, -9], [1, 1000000]]
    for hh in YH:
        st = [S(x) for x in hh]
        for last in (0, 1):
            for a in YARGS:
                for load in (0, 1):
                    pre = [[17], [19]] if load else []
                    add("yank_arg", st, 0, 0, 0, None, pre + [[28, last, a], [28, last, []], [28, last, []], [28, last, []], [28, 1 - last, a]])
            for mid in ([12, 1], [7, S("x")], [4, 1, 0], [8, 1], [11, 0], [14, 0], [17], [25, 1], [10, S("")], [15]):
                add("yank_arg", st, 0, 0, 1, None, [[17], [19], [7, S("cmd ")], [28, last, []], mid, [28, last, []], [28, last, [1, 0]], mid, [28, 0, [1, -1]]])
    # 5. random sessions
    nrand = 8000 if thorough else 1500
    for _ in range(nrand):
        storage = rand_storage(rng)
        ops = []
        if rng.random() < 0.7:
            ops += [[17], [19]]
        for _ in range(rng.randint(1, 40 if thorough else 18)):
            ops.append(rand_buffer_op(rng, True))
        add("random_buffer_session", storage, rng.randint(0, 1), rng.randint(0, 1), rng.randint(0, 1), rand_rules(rng), ops)
    return cases, dist


ADV_TEXTS = ["ok", "echo hi\n", "\n", "a\n\nb", "a\r", "t\r\n", "b\x0bc", "x\x0c", "p\x1cq", "\x1d", "m\x1e",
             "n\x85o", "u\u2028v", "w\u2029", "if x:\n    y", " lead", "trail ", "+plus", "# hash", ""]


def gen_shared_cases(chk):
    """Pairs of sessions whose histories are built from one shared start-up list (an application that keeps
    its list of start-up entries and makes an InMemoryHistory per session/tab from it).  Histories are separate
    objects: what session A accepts is appended to A's history exactly once - and to nothing else."""
    rng = chk.rng
    thorough = chk.tier == "thorough"
    pairs = []
    for hh in ([], ["one"], ["one", "two"], ["a", "ab", "a\nb"]):
        st = [S(x) for x in hh]
        for t in ("alpha", "two", "a\nb"):
            a_scripts = ([[17], [19], [10, S(t)], [15]],                      # load, type, accept
                         [[10, S(t)], [15], [17], [19], [4, 1, 0]],            # accept before loading, then browse
                         [[17], [19], [4, 1, 0], [7, S(t)], [15], [16, S(""), 0, 0], [17], [19], [4, 1, 0], [15]])
            b_scripts = ([[17], [19], [4, 1, 0], [15]],                        # one step up, accept
                         [[17], [19], [1, 1], [1, 1], [2, 1], [6]],            # browse only
                         [[10, S("beta")], [15], [17], [19], [4, 1, 0], [4, 1, 0]])
            for sa in a_scripts:
                for sb in b_scripts:
                    pairs.append(([st, 0, 0, 0, None, fl(sa)], [st, 0, 0, 0, None, fl(sb)]))
    for _ in range(300 if thorough else 40):
        st = rand_storage(rng)
        both = []
        for _ in range(2):
            ops = [[17], [19]] if rng.random() < 0.7 else []
            for _ in range(rng.randint(2, 14)):
                o = rand_buffer_op(rng, True)
                if o[0] == 15 or rng.random() < 0.15:
                    ops.append([10, S(rng.choice(TYPE_POOL + HIST_POOL))])
                    o = [15]
                ops.append(o)
            both.append([st, rng.randint(0, 1), rng.randint(0, 1), rng.randint(0, 1), rand_rules(rng), fl(ops)])
        pairs.append((both[0], both[1]))
    return pairs


def gen_file_cases(chk):
    """History persisted by a real FileHistory; 'new session' = a new FileHistory object on the same file
    (what the next run of the program sees).  Texts from the alphabet of characters that str.splitlines,
    the '+' record format or whitespace stripping could mistreat."""
    rng = chk.rng
    thorough = chk.tier == "thorough"
    cases = []
    for t in ADV_TEXTS:
        for pre in ([], ["first"], ["first", t]):
            st = [S(x) for x in pre]
            # accept t; next session: recall it with C-Up and accept it again; a third session sees it once
            cases.append([st, 0, 0, 0, None, fl([[17], [19], [10, S(t)], [15], [22], [17], [19], [1, 1], [15],
                                                  [22], [17], [19], [1, 1], [10, S(t)], [15], [22], [17], [19]])])
            # the same with the text given as the prompt's default and kept by the accept handler
            cases.append([st, 0, 0, 1, None, fl([[16, S(t), len(t), 0], [17], [19], [15], [22], [16, S(t), 0, 0], [15],
                                                  [22], [17], [19], [4, 1, 0]])])
    for _ in range(1200 if thorough else 150):
        ops = []
        for _ in range(rng.randint(3, 20)):
            r = rng.random()
            if r < 0.22:
                ops.append([10, S(rng.choice(ADV_TEXTS))])
            elif r < 0.30:
                t = rng.choice(ADV_TEXTS)
                ops.append([16, S(t), rng.choice([0, len(t)]), rng.choice([0, 0, 1])])
            elif r < 0.45:
                ops.append([15])
            elif r < 0.57:
                ops.append([22])
            elif r < 0.70:
                ops += [[17], [19]]
            else:
                o = rand_buffer_op(rng, True)
                ops.append(o)
        storage = [S(rng.choice(ADV_TEXTS + HIST_POOL)) for _ in range(rng.choice([0, 1, 2, 3]))]
        storage = [x for x in storage if x]      # an empty string cannot be told from "no entry" in the file format
        cases.append([storage, rng.randint(0, 1), rng.randint(0, 1), rng.randint(0, 1), rand_rules(rng), fl(ops)])
    return cases


def gen_threaded_cases(chk):
    """A real ThreadedHistory(InMemoryHistory) (7th element 1) or ThreadedHistory(FileHistory) (2) behind the
    Buffer; op 26 lets the loader thread read one more item (or finish), entries arrive while browsing, appends
    happen meanwhile, several prompts on one History object."""
    rng = chk.rng
    thorough = chk.tier == "thorough"
    cases = []
    for kind in (1, 2):
        for keep in (0, 1):
            for storage in (["x"], ["a", "b", "x"], []):
                st = [S(x) for x in storage]
                load = [[17]] + [[26]] * (len(storage) + 1)
                nxt = ([[16, S(""), 0, 0]] if keep else []) + [[17]]
                # several prompts: the same line twice in a row, another one, the first entry again, browse and accept
                ops = list(load)
                for t in ("make", "make", "ls", "x"):
                    ops += [[10, S(t)], [15]] + nxt
                ops += [[4, 1, 0], [4, 1, 0], [15]] + nxt
                cases.append([st, 0, 0, keep, None, fl(ops), kind])
                # entries arriving while browsing, an append meanwhile
                ops = [[17], [26], [4, 1, 0], [10, S("new")], [21], [26], [4, 1, 0], [26], [26], [4, 2, 0], [15]] + nxt + [[4, 1, 0], [4, 1, 0]]
                cases.append([st, 0, 0, keep, None, fl(ops), kind])
                # accept before anything is loaded
                cases.append([st, 0, 0, keep, None, fl([[10, S("x")], [15]] + nxt + [[26]] * (len(storage) + 2) + [[10, S("x")], [15]]), kind])
    # back k / forward k with entries arriving from the loader thread in between (with and without prefix search)
    for storage in (["a", "ab", "b", "abc", "a"], ["b", "a", "ab"]):
        st = [S(x) for x in storage]
        for ehs in (0, 1):
            for nloaded in range(1, len(storage) + 1):
                for k in (1, 2):
                    for mid in (0, 1, 2):
                        ops = [[17]] + [[26]] * nloaded + [[10, S("a")] if ehs else [10, S("zz")], [1, k]] + [[26]] * mid + [[2, k]] + [[26]] * 2 + [[1, k], [2, k]]
                        cases.append([st, ehs, 0, 0, None, fl(ops), 1])
    for _ in range(500 if thorough else 70):
        ops = []
        for _ in range(rng.randint(4, 22)):
            r = rng.random()
            if r < 0.18:
                ops.append([17])
            elif r < 0.42:
                ops.append([26])
            elif r < 0.52:
                ops.append([10, S(rng.choice(["a", "b", "ab", "x", "make", ""]))])
            elif r < 0.64:
                ops.append([15])
            elif r < 0.70:
                ops.append([16, S(rng.choice(["", "a"])), 0, rng.choice([0, 0, 1])])
            elif r < 0.73:
                ops.append([22])
            elif r < 0.76:
                ops.append([21])
            else:
                o = rand_buffer_op(rng, True)
                if o[0] in (18, 19):
                    o = [26]
                ops.append(o)
        storage = [S(rng.choice(["a", "b", "ab", "x", "a\nb"])) for _ in range(rng.choice([0, 1, 2, 3, 4]))]
        cases.append([storage, rng.randint(0, 1), rng.randint(0, 1), rng.randint(0, 1), rand_rules(rng), fl(ops), rng.choice([1, 1, 2])])
    return cases


def gen_slow_cases(chk):
    """validate-while-typing with a validator that is still running when the
    next operations arrive (flag 3 = observed, no event-loop settling after it)"""
    rng = chk.rng
    thorough = chk.tier == "thorough"
    cases = []
    bad = [[[2, ord("x")], [0, 0]]]               # texts containing x are rejected
    for storage in ([], ["ox"], ["41", "ax", "7"]):
        st = [S(x) for x in storage]
        pre = [[1, [17]], [1, [19]]]
        for keep in (0, 1):
            for first in ("1", "ab"):
                # type something valid, then make it invalid while the validation is in flight
                cases.append([st, 0, 1, keep, bad, pre + [[3, [7, S(first)]], [1, [7, S("x")]], [1, [15]], [1, [8, 1]], [1, [15]]]])
                cases.append([st, 0, 1, keep, bad, pre + [[3, [7, S(first)]], [3, [7, S("x")]], [3, [12, 1]], [1, [15]]]])
                # ... or recall another entry meanwhile
                cases.append([st, 0, 1, keep, bad, pre + [[3, [7, S(first)]], [1, [4, 1, 0]], [1, [15]], [1, [5, 1, 0]], [1, [15]]]])
                cases.append([st, 0, 1, keep, bad, pre + [[3, [7, S(first)]], [3, [1, 2]], [3, [15]], [1, [2, 1]], [1, [15]]]])
    for _ in range(1500 if thorough else 250):
        rules = rand_rules(rng)
        while rules is None:
            rules = rand_rules(rng)
        ops = [[1, [17]], [1, [19]]] if rng.random() < 0.8 else []
        for _ in range(rng.randint(2, 16)):
            o = rand_buffer_op(rng, True)
            if o[0] in (3,) and o[1] < 0:
                continue
            ops.append([3 if rng.random() < 0.45 else 1, o])
        ops.append([1, [15]])
        cases.append([rand_storage(rng), rng.randint(0, 1), 1, rng.randint(0, 1), rules, ops])
    # in this family the event loop DOES run after a deferred operation: the scheduled validation starts and waits
    # inside the validator (flag bit 2), it is in flight for the document of that moment
    for c in cases:
        c[5] = [[f | 4 if f >= 2 else f, o] for f, o in c[5]]
    return cases


def rand_key(rng, allow_bad_arg=True):
    r = rng.random()
    arg = None
    if rng.random() < 0.18:
        arg = rng.choice([2, 2, 3, 0, -1] if allow_bad_arg else [2, 3])
    if r < 0.30:
        return ("up", arg)
    if r < 0.42:
        return ("down", arg)
    if r < 0.50:
        return (rng.choice(["c-up", "pageup"]), arg)
    if r < 0.56:
        return (rng.choice(["c-down", "pagedown"]), arg)
    if r < 0.72:
        return (rng.choice(["a", "b", "a", "x", "界"]), arg if arg in (None, 2, 3) else None)
    if r < 0.78:
        return ("backspace", arg if arg in (None, 2) else None)
    if r < 0.86:
        return (rng.choice(["left", "right"]), arg)
    if r < 0.89:
        return (rng.choice(["m-<", "m->"]), None)
    return ("enter", None)


def gen_threaded_session_scripts(chk):
    """several prompts on one PromptSession over a real ThreadedHistory; '@thread' lets the loader thread
    read one more item between keys"""
    rng = chk.rng
    thorough = chk.tier == "thorough"
    TH = ("@thread", None)
    scripts = []

    def typed(t):
        return [(ch, None) for ch in t] + [("enter", None)]
    # the same line twice in a row, another one, the oldest again, browse and accept
    scripts.append(([S("x")], 0, 0, None,
                    [("", [], [TH, TH] + typed("make")), ("", [], typed("make")), ("", [], typed("ls")),
                     ("", [], typed("x")), ("", [], [("up", None), ("up", None), ("enter", None)])]))
    scripts.append(([S("a"), S("b")], 0, 1, None,
                    [("", [], [("up", None), TH, ("up", None), TH, ("up", None), TH, ("up", None), ("enter", None)]),
                     ("", [], [("up", None), ("enter", None)]), ("", [], [("up", None), ("up", None), ("enter", None)])]))
    for _ in range(250 if thorough else 35):
        storage = rand_storage(rng, 4)
        storage = [x for x in storage]
        prompts = []
        for _ in range(rng.randint(2, 5)):
            live = []
            for _ in range(rng.randint(1, 9)):
                live.append(TH if rng.random() < 0.3 else rand_key(rng, False))
            live = [k for k in live if k[0] != "enter"]
            if rng.random() < 0.85:
                live.append(("enter", None))
            prompts.append((rng.choice(["", "", "a"]), [], live))
        scripts.append((storage, rng.randint(0, 1), rng.randint(0, 1), rand_rules(rng), prompts))
    return scripts


def gen_session_scripts(chk):
    rng = chk.rng
    thorough = chk.tier == "thorough"
    scripts = []
    # fixed scenarios (reproducers of the known findings, at the level of a real prompt)
    scripts.append(([S("ls")], 0, 0, None, [("", [("l", None), ("s", None), ("enter", None)], [])]))
    scripts.append(([S("a"), S("b"), S("c")], 0, 0, None,
                    [("", [], [("up", None), ("up", None), ("c-up", 0), ("c-down", 0), ("enter", None)])]))
    scripts.append(([S("ls")], 0, 1, None, [("", [("up", None)], [("up", None), ("enter", None)]),
                                             ("", [], [("up", None), ("enter", None)])]))
    # validate-while-typing with a validator that rejects cursor position 0: type, move left, Enter (was finding C14-F4)
    scripts.append(([], 0, 1, [[[6, 0], [0, 0]]], [("", [], [("a", None), ("left", None), ("enter", None), ("right", None), ("enter", None)])]))
    n = 900 if thorough else 150
    for _ in range(n):
        storage = rand_storage(rng, 4)
        rules = rand_rules(rng)
        prompts = []
        for _ in range(rng.randint(1, 4)):
            default = rng.choice(["", "", "", "a", "a\nb"])
            ta = []
            if rng.random() < 0.3:
                ta = [rand_key(rng, False) for _ in range(rng.randint(1, 3))]
                ta = [k for k in ta if k[0] != "enter"]
                if rng.random() < 0.4:
                    ta.append(("enter", None))
            live = [rand_key(rng) for _ in range(rng.randint(1, 14 if thorough else 9))]
            if rng.random() < 0.8:
                live.append(("enter", None))
            prompts.append((default, ta, live))
        scripts.append((storage, rng.randint(0, 1), rng.randint(0, 1), rules, prompts))
    return scripts


MALFORMED = [[], [[], 0, 0, 0, None], [[], 0, 0, 0, None, [[1, [99]]]], [[], 0, 0, 0, None, [[9, [1, 1]]]], [[], 0, 0, 0, None, [[4, [1, 1]]]], [[], 0, 0, 0, None, [[5, [1, 1]]]], [[], 0, 0, 0, None, [[-1, [1, 1]]]],
             [[], 0, 0, 0, [[[[9], [0, 0]]]], []], [[], 0, 0, 0, None, [[1, [16, [97], 5, 0]]]], [[5], 0, 0, 0, None, []],
             [[], 0, 0, 0, None, [[1, [27, 99, []]]]], [[], 0, 0, 0, None, [[1, [27, 7, []]]]], [[], 0, 0, 0, None, [[1, [27, 1, [2]]]]], [[], 0, 0, 0, None, [[1, [28, 0, [2]]]]], [[], 0, 0, 0, None, [[1, [28, 0]]]]]


# --------------------------------------------------------------------------

def fmt_ops(ops, n=8):
    def one(o):
        if o[0] == 27:
            return "key_handler(%s,arg=%r)" % (HANDLER_NAMES.get(o[1], o[1]), arg_string(o[2]))
        if o[0] == 28:
            return "%s(arg=%r)" % ("yank-last-arg" if o[1] else "yank-nth-arg", arg_string(o[2]))
        a = []
        for x in o[1:]:
            a.append(repr(unS(x)) if isinstance(x, list) else str(x))
        return "%s(%s)" % (OPN.get(o[0], "?"), ",".join(a))
    # "~" marks an operation after which the event loop was not allowed to settle (type-ahead / validator still running)
    return " ; ".join(one(o) + ("~" if f >= 2 else "") for f, o in ops[:n]) + (" ; ..." if len(ops) > n else "")


def describe_case(case):
    storage, ehs, vwt, keep, rules, ops = case[:6]
    return ("ThreadedHistory " if len(case) > 6 and case[6] else "") + "history=%r ehs=%d validate_while_typing=%d keep_text=%d validator=%r ops=[%s]" % (
        [unS(x) for x in storage], ehs, vwt, keep, rules, fmt_ops(ops, 12))


def run_impl(runner, level, item):
    """-> (case, results) ; Hang/unknown exceptions become a one-element result"""
    try:
        if level == "buffer":
            return item, runner.run(lambda: impl_buffer_case(item))
        if level == "buffer-slow":
            return item, runner.run(lambda: impl_buffer_case(item, slow=True))
        if level == "buffer-file":
            return item, runner.run(lambda: impl_buffer_case(item, file_backend=True))
        if level == "buffer-threaded":
            return item, runner.run(lambda: impl_buffer_case(item, threaded=True, file_backend=bool(item[6] == 2)), 90)
        if level == "buffer-shared":
            return item, runner.run(lambda: impl_shared_pair(item[0], item[1]), 60)
        if level == "session-threaded":
            return runner.run(lambda: impl_session_case(item, threaded=True), 90)
        return runner.run(lambda: impl_session_case(item), 60)
    except Hang:
        if level == "buffer-shared":
            return item, ([["HANG"]], [["HANG"]], None, None)
        if level in ("buffer", "buffer-slow", "buffer-file", "buffer-threaded"):
            return item, [["HANG"]]
        return [item[0], item[1], item[2], 1, item[3] if item[3] is not None else [], []] + ([1] if level == "session-threaded" else []), [["HANG"]]


def main(tier):
    chk = Check(PROP, tier)
    pr = chk.proofs("Props/C14.v", tables=TABLES)
    okm, logm = build_model("c14", "Extract/ExC14.v", "run_C14L", tables=TABLES)
    if not okm:
        chk.violation("tie", "model does not build: " + logm[-400:], {"kind": "model-build"}, {"log": logm[-3000:]}, no_input=True)
        return chk.finish()

    bcases, dist = gen_buffer_cases(chk)
    corpus = load_corpus(PROP)
    scripts = gen_session_scripts(chk)
    runner = Runner()
    cases, results, levels = [], [], []
    for c in corpus:
        c2 = [c[0], c[1], c[2], c[3], (c[4][0] if c[4] else None), c[5]]
        case, res = run_impl(runner, "buffer", c2)
        cases.append(case); results.append(res); levels.append("buffer")
    for c in bcases:
        case, res = run_impl(runner, "buffer", c)
        cases.append(case); results.append(res); levels.append("buffer")
    fcases = gen_file_cases(chk)
    for c in fcases:
        case, res = run_impl(runner, "buffer-file", c)
        cases.append(case); results.append(res); levels.append("buffer-file")
    dist["file_history_sessions"] = len(fcases)
    cleanup_history_files()
    tcases = gen_threaded_cases(chk)
    for c in tcases:
        case, res = run_impl(runner, "buffer-threaded", c)
        cases.append(case); results.append(res); levels.append("buffer-threaded")
    dist["threaded_history_sessions"] = len(tcases)
    cleanup_history_files()
    shared = gen_shared_cases(chk)
    partner = {}
    shared_bad = []
    for a, b in shared:
        _, (ra, rb, seed_after, a_after) = run_impl(runner, "buffer-shared", (a, b))
        ia = len(cases)
        cases.append(a); results.append(ra); levels.append("buffer-shared")
        cases.append(b); results.append(rb); levels.append("buffer-shared")
        partner[ia] = (b, "A")
        partner[ia + 1] = (a, "B")
        if seed_after is not None and seed_after != a[0]:
            shared_bad.append((ia, "accept: the list of start-up entries the histories were constructed from was modified: %r -> %r"
                               % ([unS(x) for x in a[0]], [unS(x) for x in seed_after]), "caller-list"))
        if a_after is not None and ra and ra[-1] != ["HANG"] and a_after != ra[-1][9] and all(f & 1 for f, o in a[5]):
            shared_bad.append((ia, "browse_pure: the stored history of session A changed while only session B ran: %r -> %r"
                               % ([unS(x) for x in ra[-1][9]], [unS(x) for x in a_after]), "other-session"))
    dist["shared_startup_list_pairs"] = len(shared)
    scases = gen_slow_cases(chk)
    for c in scases:
        case, res = run_impl(runner, "buffer-slow", c)
        cases.append(case); results.append(res); levels.append("buffer-slow")
    dist["slow_validator_sessions"] = len(scases)
    nkeys = 0
    for sc in scripts:
        case, res = run_impl(runner, "session", sc)
        cases.append(case); results.append(res); levels.append("session")
        nkeys += len(res)
    tscripts = gen_threaded_session_scripts(chk)
    for sc in tscripts:
        case, res = run_impl(runner, "session-threaded", sc)
        cases.append(case); results.append(res); levels.append("session-threaded")
        nkeys += len(res)
    dist["threaded_session_scripts"] = len(tscripts)
    runner.close()
    dist["session_scripts"] = len(scripts)
    dist["session_observed_keys"] = nkeys
    dist["corpus"] = len(corpus)

    oracle_bad = set()
    opcount = {}

    def rep_of(i, **kw):
        d = {"case": wire(cases[i]), "level": levels[i]}
        if i in partner:
            d["shared_with"] = wire(partner[i][0])
            d["role"] = partner[i][1]
        d.update(kw)
        return d
    for ia, what, fam in shared_bad:
        oracle_bad.add(ia)
        chk.violation("oracle", "%s | session A: %s | session B: %s" % (what, describe_case(cases[ia]), describe_case(cases[ia + 1])),
                      {"clause": what.split(":")[0], "family": "shared-startup-list/" + fam, "op": "accept"},
                      rep_of(ia, clause=what))
    for i, (case, res) in enumerate(zip(cases, results)):
        if res and res[0] == ["HANG"]:
            chk.violation("oracle", "implementation hangs: " + describe_case(case), {"family": "hang", "level": levels[i]},
                          {"case": wire(case), "level": levels[i]})
            oracle_bad.add(i)
            continue
        nontrivial = any(r[3] != 0 or len(r[2]) > 1 for r in res)
        chk.count_case(wire(case), nontrivial)
        for f, o in case[5]:
            opcount[OPN[o[0]]] = opcount.get(OPN[o[0]], 0) + 1
        for clause, fam, opname, detail in oracle_case(case, res):
            oracle_bad.add(i)
            shared_note = ""
            if i in partner:
                fam = "shared-startup-list/" + fam
                shared_note = " | session %s of a pair built from one start-up list; the other session: %s" % (
                    partner[i][1], describe_case(partner[i][0]))
            chk.violation("oracle", "%s | %s%s" % (clause, describe_case(case), shared_note),
                          {"clause": clause.split(":")[0], "family": fam, "op": opname},
                          rep_of(i, clause=clause, detail=detail,
                           how= "./check --replay re-runs the case at its level (buffer*: real Buffer + gated history, "
                                  "session*: real PromptSession, keys rebuilt from the operations)"))
        if i % 499 == 0:
            chk.sample({"level": levels[i], "case": describe_case(case), "last_observed": res[-1] if res else None})
    dist["ops"] = opcount
    chk.coverage["input_distribution"] = dist

    def tagger(c, a, m):
        obs = [o for f, o in c[5] if f & 1]
        for j, (x, y) in enumerate(zip(a, m if isinstance(m, list) else [])):
            if x != y:
                return {"op": OPN.get(obs[j][0], "?") if j < len(obs) else "?", "step": j}
        return {"op": "?"}

    wcases = [wire(c) for c in cases]
    model_results, nbad = correspondence(
        chk, "c14", wcases, results, tagger,
        describe=lambda c, a, m: "%s impl=%r model=%r" % (
            describe_case([c[0], c[1], c[2], c[3], (c[4][0] if c[4] else None), c[5]]),
            next(([x, y] for x, y in zip(a, m) if x != y), a[-1:]) if isinstance(m, list) else a[:1], "see replay"),
        oracle_failed=lambda i: i in oracle_bad)

    # malformed cases: the model must answer bad_case
    mres = run_model("c14", MALFORMED)
    for c, m in zip(MALFORMED, mres):
        if m != [-999]:
            chk.violation("tie", "model accepts a malformed case %r -> %r" % (c, m), {"kind": "malformed"}, {"case": c}, no_input=True)
    chk.coverage["malformed_cases"] = len(MALFORMED)

    k = 800 if chk.tier == "thorough" else 150
    idx = sorted(chk.rng.sample(range(len(cases)), min(k, len(cases))))
    pairs = [(wcases[i], results[i]) for i in idx]
    bad, logs = vm_crosscheck(PROP, "run_C14L", "Model.C14_Layer", pairs, per_file=100)
    chk.coverage["vm_compute_crosschecked"] = len(pairs)
    model_bad = set(i for i, (a, m) in enumerate(zip(results, model_results)) if sx_norm(a) != m)
    vm_bad = set(idx[b] for b in bad if isinstance(b, int))
    if any(not isinstance(b, int) for b in bad):
        chk.violation("tie", "vm_compute cross-check failed to run: " + (logs[0] if logs else ""), {"kind": "vm"}, {"log": logs}, no_input=True)
    if vm_bad != (model_bad & set(idx)):
        chk.violation("tie", "extracted model and in-Coq evaluation disagree on cases %r" % sorted(vm_bad ^ (model_bad & set(idx)))[:5],
                      {"kind": "extraction"}, {"cases": [wcases[i] for i in sorted(vm_bad ^ (model_bad & set(idx)))[:5]]}, no_input=True)

    proof_gate(chk, pr)
    chk.coverage["rule"] = (
        "case = (initial history, enable_history_search, validate_while_typing, keep_text, validator rules, operation list) "
        "run on the real code and on the Coq model, state compared after every observed operation. Buffer level: all navigation "
        "words of length <= %d over a 12-letter alphabet (incl. a search landing) x 6 histories x prefix search on/off x typed prefix; back k/forward k from every "
        "index for k = 0..4; accept over validators x texts x reported positions %r x loaded/unloaded history; every placement of "
        "population steps among 4 navigation steps; random sessions over all 21 operations. Session level: random key scripts "
        "(up/down/C-up/C-down/PageUp/PageDown/Left/Right/Backspace/Esc-digit/Esc-</Esc->/characters/Enter, type-ahead keys) over "
        "1-4 consecutive prompt_async() calls on one PromptSession. non-trivial = some observed state has working_index != 0 or "
        "more than one working line; distinct by hash of the whole case. Plus a slow-validator family at buffer level (validate_async gated, validations in flight across edits/navigation/accept); "
        "round 6: every history-related key handler (4 named commands, vi k/j/<n>G/up/down, emacs c-p/c-n, basic up/down) x 11 numeric arguments (none, '-', 0, 1, 2, 3, -2, 7, 999999, 1000000, 12345678) x 3 histories x start index; "
        "148 / 408 pairs of sessions whose InMemoryHistory objects are built from one shared start-up list (caller's list and the other session's storage inspected)." % (4 if chk.tier == "thorough" else 3, POSITIONS))
    chk.assumptions += [
        "completion state is absent (auto_up/auto_down never take their complete_previous/complete_next branch: still open); selection state is a flag; read-only buffers, undo stack, events are outside the model",
        "yank-nth-arg/yank-last-arg (op 28, the real named commands with the real event.arg/arg_present) are modelled in a layer over the base state (Model/C14_Layer.v); the layer reconstructs whether _text_changed/_cursor_position_changed/reset() ran (operation proper changed index, text or cursor; population steps never notify) - an assumption checked by comparing yank_nth_arg_state in every snapshot of every family; the two named-command bodies are hand-written",
        "a validate-while-typing run scheduled by an operation completes before the next operation unless that operation is flagged deferred (type-ahead batches; slow-validator family where validate_async waits at a gate while later operations run); thread-level asynchrony (ThreadedValidator) is outside",
        "history backends: the model's storage is an abstract list (exact round trip); InMemoryHistory and a real FileHistory (storage = what a new FileHistory reads back) are run against it; the gated histories delegate every item to History.load()",
        "ThreadedHistory model: the loader thread's snapshot of the backend is taken when load() first runs, and thread step / consumer chunk / append_string are atomic and occur in the order the harness chooses (a semaphore in the inner load_history_strings and quiescence waits enforce that order on the real object); the real generator takes its snapshot a little later, inside the thread, so an append racing with the thread's start is not explored (C13's subject)",
        "since round 6 the theorems about navigation/edits/prefix/back-forth (with and without prefix search)/reset hold for either kind of History object (no thr hypothesis: entries delivered by the ThreadedHistory consumer are prepended and shift the index); still for the InMemoryHistory/FileHistory kind only: C14_reset_clean (uninterrupted pop_all; the ThreadedHistory counterpart is C14_reset_clean_threaded), C14_new_session_clean, C14_recall_next_session, C14_append_once/C14_accept_history (ThreadedHistory: C14_append_once_threaded, known finding C14-F3)",
        "key handlers with a numeric argument (op 27): the real handler function (named command, or the unique binding of load_vi_bindings/load_emacs_bindings/load_basic_bindings carrying that function) is called with an event whose arg is computed by the real KeyPressEvent.arg from _arg; what each handler does is regenerated on every run from the handler's SOURCE by a fail-closed AST translator (gen/gen_t_c14.py -> Gen/C14_Handlers.v: calls on event.current_buffer with count = event.arg - k / constant / signature default; the constants of KeyPressEvent.arg too), so a handler edit changes the model or stops the check; the oracle keeps its own hand-written reading (HANDLERS); vi-mode key SEQUENCES (Escape, operators) are not driven through a PromptSession",
        "two sessions constructed from one start-up list (shared_startup_list_pairs): the model has no aliasing - every History object owns its storage; the harness runs session A then session B on two gated InMemoryHistory objects built from the same Python list and also inspects that list and A's storage afterwards",
        "the validator is an arbitrary function (text, cursor) -> option position in the theorems; the harness instantiates it with rule lists",
        "vi-mode keys k, j, <n>G, up, down are exercised through their real handler functions at buffer level (op 27), not through key sequences of a vi-mode PromptSession",
    ]
    return chk.finish()


def infer_level(w, given=None):
    """level of a replayed case: recorded by oracle violations; for model/implementation differences it is
    inferred (a session case starts with an unobserved reset; the 7th element says ThreadedHistory)"""
    thr = len(w) > 6 and bool(w[6])
    if given in ("buffer", "buffer-slow", "buffer-file", "buffer-threaded", "buffer-shared", "session", "session-threaded"):
        return given
    if any(f >= 4 for f, o in w[5]):
        return "buffer-slow"
    sessionlike = bool(w[5]) and w[5][0][0] == 2 and w[5][0][1][0] == 16
    if sessionlike:
        return "session-threaded" if thr else "session"
    return "buffer-threaded" if thr else "buffer"


KEY_OF_OP = {4: "up", 5: "down", 1: "c-up", 2: "c-down", 12: "left", 13: "right"}


def keys_of_op(o):
    k = o[0]
    if k in KEY_OF_OP:
        return [(KEY_OF_OP[k], None if o[1] == 1 else o[1])]
    if k == 8:
        return [("backspace", None if o[1] == 1 else o[1])]
    if k == 9:
        return [("backspace", -o[1])]
    if k == 15:
        return [("enter", None)]
    if k == 3 and o[1] == 0:
        return [("m-<", None)]
    if k == 6:
        return [("m->", None)]
    if k == 26:
        return [("@thread", None)]
    if k == 7:
        t = unS(o[1])
        if len(t) > 1 and len(set(t)) == 1:
            return [(t[0], len(t))]
        return [(ch, None) for ch in t]
    raise ValueError("operation %r has no key" % (o,))


def script_from_case(w):
    """rebuild the key script of a session-level case from its operation list"""
    prompts = []
    cur = None
    for f, o in w[5]:
        if o[0] == 16:
            cur = [unS(o[1]), [], [], False]
            prompts.append(cur)
        elif o[0] in (17, 19):
            if cur is not None:
                cur[3] = True
        elif cur is not None:
            (cur[2] if cur[3] else cur[1]).extend(keys_of_op(o))
    rules = w[4][0] if w[4] else None
    return (w[0], w[1], w[2], rules, [(d, ta, live) for d, ta, live, _ in prompts])


def replay(data):
    rep = data["replay"]
    w = rep["case"]
    lvl = infer_level(w, rep.get("level"))
    runner = Runner()
    unw = lambda x: [x[0], x[1], x[2], x[3], (x[4][0] if x[4] else None), x[5]] + ([x[6]] if len(x) > 6 else [])
    if lvl == "buffer-shared" and rep.get("shared_with"):
        case, other = unw(w), unw(rep["shared_with"])
        a, b = (case, other) if rep.get("role") == "A" else (other, case)
        print("level buffer-shared: two InMemoryHistory objects constructed from ONE start-up list; session A runs, then session B;"
              " the replayed case is session %s" % rep.get("role"))
        print("session A: " + describe_case(a))
        print("session B: " + describe_case(b))
        _, (ra, rb, seed_after, a_after) = run_impl(runner, lvl, (a, b))
        res = ra if rep.get("role") == "A" else rb
        print("the caller's start-up list afterwards: %r (was %r)" % (None if seed_after is None else [unS(x) for x in seed_after], [unS(x) for x in a[0]]))
        print("session A's stored history after session B ran: %r" % (None if a_after is None else [unS(x) for x in a_after],))
        if seed_after is not None and seed_after != a[0]:
            print("ORACLE FAILS: the start-up list was modified [shared-startup-list/caller-list]")
    elif lvl.startswith("session"):
        script = script_from_case(w)
        print("level %s: keys rebuilt from the operations: %r" % (lvl, script[4]))
        case, res = run_impl(runner, lvl, script)
    else:
        case = [w[0], w[1], w[2], w[3], (w[4][0] if w[4] else None), w[5]] + ([w[6]] if len(w) > 6 else [])
        print("level %s" % lvl)
        _, res = run_impl(runner, lvl, case)
    runner.close()
    cleanup_history_files()
    print(describe_case(case))
    obs = [o for f, o in case[5] if f & 1]
    for o, r in zip(obs, res):
        print("  after %-28s status=%s ret=%r lines=%r index=%s cursor=%s search=%r validation=%s get_strings=%r storage=%r" % (
            fmt_ops([[1, o]]), r[0], None if r[1] is None else unS(r[1][0]), [unS(x) for x in r[2]], r[3], r[4],
            None if r[5] is None else unS(r[5][0]), r[7], [unS(x) for x in r[8]], [unS(x) for x in r[9]]))
    rc = 0
    for clause, fam, opname, detail in oracle_case(case, res):
        print("ORACLE FAILS: %s [%s]" % (clause, fam))
        rc = 1
    if rc == 0:
        print("oracle ok")
    m = run_model("c14", [wire(case)])[0]
    print("model agrees" if m == sx_norm(res) else "model differs")
    return rc
