"""C09 - whatever a kill or cut removes is exactly what the next paste inserts.
Model: coq/Model/C09_Kill.v; theorems: coq/Props/C09.v.

A case is (vi, text, cursor, ring0, commands); every command is typed into a
real Application (emacs or Vi navigation mode) through its KeyProcessor, so
is_repeat, the numeric argument and document_before_paste are the real ones.
After every command the text, cursor, the whole kill ring, the
document_before_paste snapshot, the selection and the named registers are
compared with the Coq model, and an independent oracle (the theorem statements
transcribed) is evaluated on the implementation's own results."""
import itertools

from common import *  # noqa

PROP = "C09"
TABLES = ["Whitespace"]
MODELS = [("c09", "Extract/ExC09.v", "run_C09")]

CMD = {1: "kill-line", 2: "kill-word(M-d)", 3: "kill-word(C-Delete)", 4: "C-w", 5: "backward-kill-word",
       6: "unix-line-discard", 7: "yank", 8: "yank-pop", 9: "set-mark", 10: "copy-region(M-w)",
       11: "forward-char", 12: "backward-char", 13: "beginning-of-line", 14: "end-of-line",
       15: "self-insert", 16: "C-g", 17: "yank(C-x r y)", 18: "kill-region(C-x r k)", 19: "set-cursor",
       21: "cursor-position-report",
       31: "vi-x", 32: "vi-X", 33: "vi-D", 34: "vi-dd", 35: "vi-yy", 36: "vi-p", 37: "vi-P",
       38: 'vi-"rp', 39: 'vi-"rP', 40: "vi-visual", 51: "vi-s+Esc", 52: "vi-C+Esc", 53: "vi-S+Esc",
       60: "vi-operator-motion"}
VKEY = {0: "d", 1: "y", 2: "x", 3: '"rd', 4: '"ry'}
# navigation mode [count]["r]<operator>[count]<motion>: op 60 = [60, arg, operator, register or -1, motion(, motion count)]
NAV_OPS = "dyc"
NAV_MOT = ["l", "h", "$", "0", "^", "e", "b", "B", "w", "W"]
INSERT_ONLY = {1, 2, 3, 5, 6, 7, 8, 15, 17}


def op_arg(op):
    """argument field () | (n) | (n f) | (() f) -> (n or None, f); f: where cursor position reports
    are slipped in (bit 0: between the argument keys and the command, bit 1: after the command's first key)"""
    a = op[1]
    if not a:
        return None, 0
    n = a[0] if isinstance(a[0], int) else None
    return n, (a[1] if len(a) > 1 else 0)


def cpr_key():
    from prompt_toolkit.keys import Keys
    return _kp(Keys.CPRResponse, "\x1b[7;3R")


def cmd_name(op):
    if op[0] == 40:
        return "vi-visual-" + VKEY.get(op[4], "?")
    if op[0] == 60:
        try:
            return "vi-%s%s%s%s" % ('"r' if op[3] >= 0 else "", NAV_OPS[op[2]], "<n>" if len(op) > 5 and op[5] else "", NAV_MOT[op[4]])
        except Exception:  # noqa
            return "vi-operator-motion"
    return CMD.get(op[0], "?")


# --------------------------------------------------------------------------
# implementation runner

_APPS = {}


def get_app(vi):
    from prompt_toolkit.application import Application
    from prompt_toolkit.buffer import Buffer
    from prompt_toolkit.clipboard import InMemoryClipboard
    from prompt_toolkit.enums import EditingMode
    from prompt_toolkit.input import DummyInput
    from prompt_toolkit.layout import BufferControl, Layout, Window
    from prompt_toolkit.output import DummyOutput
    if vi not in _APPS:
        buf = Buffer(multiline=True)
        app = Application(layout=Layout(Window(BufferControl(buf))), input=DummyInput(), output=DummyOutput(),
                          clipboard=InMemoryClipboard(),
                          editing_mode=EditingMode.VI if vi else EditingMode.EMACS)
        app.timeoutlen = None
        app.ttimeoutlen = None
        _APPS[vi] = (app, buf)
    return _APPS[vi]


def _kp(key, data=None):
    from prompt_toolkit.key_binding.key_processor import KeyPress
    return KeyPress(key, data if data is not None else (key if isinstance(key, str) and len(key) == 1 else ""))


def arg_keys(n, vi):
    from prompt_toolkit.keys import Keys
    if vi:
        assert n >= 1
        return [_kp(ch) for ch in str(n)]
    if n < 0:
        ks = [_kp(Keys.Escape, "\x1b"), _kp("-")]
        if n != -1:
            ks += [_kp(ch) for ch in str(-n)]
        return ks
    s = str(n)
    return [_kp(Keys.Escape, "\x1b"), _kp(s[0])] + [_kp(ch) for ch in s[1:]]


def cmd_keys(op):
    from prompt_toolkit.keys import Keys
    ESC = _kp(Keys.Escape, "\x1b")
    k = op[0]
    table = {1: [_kp(Keys.ControlK, "\x0b")], 2: [ESC, _kp("d")], 3: [_kp(Keys.ControlDelete, "\x1b[3;5~")],
             4: [_kp(Keys.ControlW, "\x17")], 5: [ESC, _kp(Keys.Backspace, "\x7f")], 6: [_kp(Keys.ControlU, "\x15")],
             7: [_kp(Keys.ControlY, "\x19")], 8: [ESC, _kp("y")], 9: [_kp(Keys.ControlAt, "\x00")], 10: [ESC, _kp("w")],
             11: [_kp(Keys.ControlF, "\x06")], 12: [_kp(Keys.ControlB, "\x02")], 13: [_kp(Keys.ControlA, "\x01")],
             14: [_kp(Keys.ControlE, "\x05")], 16: [_kp(Keys.ControlG, "\x07")],
             17: [_kp(Keys.ControlX, "\x18"), _kp("r"), _kp("y")], 18: [_kp(Keys.ControlX, "\x18"), _kp("r"), _kp("k")],
             31: [_kp("x")], 32: [_kp("X")], 33: [_kp("D")], 34: [_kp("d"), _kp("d")], 35: [_kp("y"), _kp("y")],
             36: [_kp("p")], 37: [_kp("P")],
             51: [_kp("s"), ESC], 52: [_kp("C"), ESC], 53: [_kp("S"), ESC]}
    if k in table:
        return table[k]
    if k == 21:
        return [cpr_key()]
    if k == 15:
        return [_kp(chr(op[2]))]
    if k in (38, 39):
        return [_kp('"'), _kp(chr(op[2])), _kp("p" if k == 38 else "P")]
    if k == 40:
        key, r = op[4], op[5]
        if key in (0, 1, 2):
            return [_kp("dyx"[key])]
        return [_kp('"'), _kp(chr(r)), _kp("d" if key == 3 else "y")]
    if k == 60:
        o, r, m = op[2], op[3], op[4]
        marg = op[5] if len(op) > 5 else 0
        return (([_kp('"'), _kp(chr(r))] if r >= 0 else []) + [_kp(NAV_OPS[o])]
                + ([_kp(ch) for ch in str(marg)] if marg else []) + [_kp(NAV_MOT[m])]
                + ([ESC] if o == 2 else []))
    raise ValueError(op)


def snapshot(app, buf):
    from prompt_toolkit.selection import SelectionType
    ty = {SelectionType.CHARACTERS: 0, SelectionType.LINES: 1, SelectionType.BLOCK: 2}
    ring = [[S(d.text), ty[d.type]] for d in app.clipboard._ring]
    dbp = buf.document_before_paste
    sel = buf.selection_state
    regs = sorted((ord(k), [S(v.text), ty[v.type]]) for k, v in app.vi_state.named_registers.items() if len(k) == 1)
    return [S(buf.text), buf.cursor_position, ring,
            [] if dbp is None else [[S(dbp.text), dbp.cursor_position]],
            [] if sel is None else [[sel.original_cursor_position, ty[sel.type]]],
            [[k, v] for k, v in regs]]


def case_valid(case):
    vi, text, cur, ring0, ops = case
    return (vi in (0, 1) and isinstance(cur, int) and 0 <= cur <= len(text) and len(ring0) <= 60)


def impl_case(case):
    """-> (list of [status]+snapshot per command, trace of (op, before, status, after))"""
    from prompt_toolkit.application.current import set_app
    from prompt_toolkit.clipboard import ClipboardData
    from prompt_toolkit.document import Document
    from prompt_toolkit.key_binding.vi_state import InputMode
    from prompt_toolkit.selection import SelectionState, SelectionType
    if not case_valid(case):
        return [-999], []
    vi, text, cur, ring0, ops = case
    app, buf = get_app(vi)
    TY = [SelectionType.CHARACTERS, SelectionType.LINES, SelectionType.BLOCK]
    out, trace = [], []
    with set_app(app):
        buf.reset(Document(unS(text), cur))
        app.clipboard._ring.clear()
        for t, ty in reversed(ring0):
            app.clipboard.set_data(ClipboardData(unS(t), TY[ty]))
        kp = app.key_processor
        kp.reset()
        app.vi_state.reset()
        app.vi_state.named_registers.clear()
        if vi:
            app.vi_state.input_mode = InputMode.NAVIGATION
        for op in ops:
            k = op[0]
            status = 0
            unmodelled = False
            if k == 19:
                before = snapshot(app, buf)

                def go():
                    buf.cursor_position = op[2]
            else:
                if (k >= 31) != bool(vi):
                    unmodelled = True
                if buf.selection_state is not None and k in INSERT_ONLY:
                    unmodelled = True
                if buf.selection_state is None and k in (10, 18):
                    unmodelled = True
                if vi and buf.selection_state is not None and k != 40:
                    unmodelled = True
                if k == 40 and not (0 <= op[2] <= len(buf.text)):
                    unmodelled = True
                argn, cprf = op_arg(op)
                if k == 21:
                    unmodelled = False      # a report is delivered in every mode and state
                if argn is not None and not unmodelled:
                    # the numeric argument is typed first (its digit handlers may move the Vi cursor)
                    for key in arg_keys(argn, vi) + ([cpr_key()] if cprf & 1 else []):
                        kp.feed(key)
                        kp.process_keys()
                before = snapshot(app, buf)
                keys = cmd_keys(op)
                if cprf & 2:
                    keys = keys[:1] + [cpr_key()] + keys[1:]
                if cprf & 1 and argn is None:
                    keys = [cpr_key()] + keys

                def go():
                    if k == 40:
                        buf.selection_state = SelectionState(op[2], TY[op[3]])
                    for key in keys:
                        kp.feed(key)
                        kp.process_keys()
            if unmodelled:
                status = 7
            else:
                try:
                    with_watchdog(go, 5)
                except AssertionError:
                    status = 1
                except IndexError:
                    status = 2
                except Hang:
                    status = 98
                except Exception:  # noqa
                    status = 99
                if status and (kp.key_buffer or kp.arg):
                    kp.reset()
            after = snapshot(app, buf)
            out.append([status] + after)
            trace.append((op, before, status, after))
    return out, trace


# --------------------------------------------------------------------------
# oracle: the theorem statements of Props/C09.v transcribed for the
# implementation's own results.  Never calls the model.

def _ring_after_push(ring0, entry):
    return ([entry] + ring0)[:60]


def _line_bounds(t, c):
    a = t.rfind("\n", 0, c) + 1
    e = t.find("\n", c)
    return a, (len(t) if e < 0 else e)


class Oracle:
    """Walks one trace; returns (clause, family) for the first broken clause."""

    def __init__(self, vi):
        self.vi = vi
        self.prev = None          # (code, had_arg) of the previous successfully handled key command
        self.kill_base = None     # text before the immediately preceding kill
        self.kill_chain = None    # (code, text before the first kill of a run of consecutive identical word kills)
        self.paste_base = None    # (text, cursor, ring) before the last yank, while the yank/yank-pop chain is unbroken
        self.npops = 0
        self.prev_killed = False
        self.rep_after_noop = False
        self.tainted = False
        self.moved_since_key = False
        self.loose_rep = False
        self.vi_kill = None       # (text before, cursor) of an x / D that immediately precedes

    def step(self, op, before, status, after):
        k = op[0]
        argn, _ = op_arg(op)
        arg = argn if argn is not None else 1
        if arg >= 1000000:          # KeyPressEvent.arg: "Don't exceed a million"
            arg = 1
        had_arg = argn is not None
        t0, c0, ring0, dbp0, sel0, regs0 = unS(before[0]), before[1], before[2], before[3], before[4], before[5]
        t1, c1, ring1, dbp1, sel1, regs1 = unS(after[0]), after[1], after[2], after[3], after[4], after[5]
        name = cmd_name(op)
        if status == 7:
            return None
        if k == 21:
            # a terminal report is not a command: it changes nothing, and the commands around it stay
            # "consecutive" (no bookkeeping here)
            if status != 0:
                return ("a cursor position report raised (status %d)" % status, "raise")
            if before != after:
                return ("a cursor position report changed text, cursor, ring, selection or registers", "cpr")
            return None
        head0 = unS(ring0[0][0]) if ring0 else ""
        # is_repeat: the previous handler call was the same binding and no argument key came in between
        # (C-w with a selection is emacs.py's _cut, without one basic.py's unix-word-rubout: two bindings)
        eff = 20 if (k == 4 and sel0) else k
        rep = (not had_arg) and self.prev is not None and self.prev[0] == eff
        self.rep_after_noop = rep and not self.prev_killed
        # buffer.cursor_position = v (op 19) is not a key: the KeyProcessor still sees a repeat, but the
        # kills are no longer next to each other in the text, so the property demands nothing about
        # accumulation for the first kill after it (either form is accepted)
        self.loose_rep = rep and self.moved_since_key
        bad = self._step(k, arg, had_arg, rep, op, name, status, t0, c0, ring0, sel0, regs0, t1, c1, ring1, regs1, head0)
        # bookkeeping for the clauses that relate consecutive commands
        if k != 19 and status == 0:
            kills = (1, 2, 3, 5, 6) + ((4,) if not sel0 else ())
            # (a full ring of identical entries receiving the same entry again looks unchanged)
            killed = ring1 != ring0 or (k in kills and k != 6 and t1 != t0 and len(ring0) >= 60)
            if k in kills or (k in (4, 18) and sel0):
                accumulating = rep and self.prev_killed and k in (2, 3, 4, 5)
                if killed and (self.rep_after_noop or self.loose_rep):
                    self.tainted = True          # the head now starts with an unrelated entry (finding C09-F1) ...
                elif killed and not accumulating:
                    self.tainted = False
                if not killed or self.tainted:
                    self.kill_base = None        # ... and so does every kill accumulated on top of it
                elif not (accumulating and self.kill_base is not None):
                    self.kill_base = t0          # else: a run of accumulating word kills keeps its first text
            else:
                self.kill_base = None
            if k in (7, 17):
                self.paste_base = (t0, c0)
            elif k == 8:
                pass
            elif (t1, c1) != (t0, c0):
                self.paste_base = None
            self.prev = (eff, had_arg)
            self.prev_killed = killed
            self.moved_since_key = False
            self.vi_kill = (t0, c0) if (k in (31, 33) and ring1 != ring0 and t1 != t0) else None
        elif k == 19:
            if c1 != c0:
                self.paste_base = None
                self.moved_since_key = True
            self.kill_base = None
            self.vi_kill = None
        else:
            self.vi_kill = None
            self.prev = None
            self.prev_killed = False
            self.kill_base = None
            self.paste_base = None
        return bad

    def _kill_clause(self, name, fwd, rep, t0, c0, ring0, t1, c1, ring1, head0, span=None):
        """text = pre+removed+post, text' = pre+post, removed adjacent to the cursor,
        ring head = removed (or accumulated in text order on a repeat), rest of the ring shifted."""
        n = len(t0) - len(t1)
        if n < 0:
            return (name + ": text grew", "kill-exact")
        removed = t0[c0:c0 + n] if fwd else t0[c0 - n:c0] if n <= c0 else None
        if removed is None or (t1 != (t0[:c0] + t0[c0 + n:] if fwd else t0[:c0 - n] + t0[c0:])):
            return (name + ": text' is not text with one span next to the cursor removed", "kill-exact")
        if c1 != (c0 if fwd else c0 - n):
            return (name + ": cursor not at the place of the removed span", "kill-cursor")
        if span is not None and removed != span:
            return ("%s: removed %r, expected %r" % (name, removed, span), "kill-span")
        if ring1 == ring0:
            if n == 0:
                return None        # nothing found, nothing killed
            return (name + ": removed %r but the kill ring is untouched" % removed, "kill-ring")
        acc = rep and not self.rep_after_noop
        want = (head0 + removed if fwd else removed + head0) if acc else removed
        accumulated = _ring_after_push(ring0, [S(head0 + removed if fwd else removed + head0), 0])
        if self.loose_rep and ring1 in (accumulated, _ring_after_push(ring0, [S(removed), 0])):
            return None
        if ring1 != _ring_after_push(ring0, [S(want), 0]):
            got = unS(ring1[0][0]) if ring1 else None
            fam = "kill-accumulate" if acc else "kill-ring"
            # finding C09-F1 is about kill-word (the forward word kill) only
            if fwd and self.rep_after_noop and ring1 == accumulated:
                fam = "kill-accumulate-after-noop"
            return ("%s: removed %r, ring head %r, expected %r%s" % (
                name, removed, got, want, " (accumulated with the previous kill)" if acc else
                " (the previous identical command killed nothing, so there is nothing to accumulate with)" if self.rep_after_noop else ""), fam)
        return None

    def _step(self, k, arg, had_arg, rep, op, name, status, t0, c0, ring0, sel0, regs0, t1, c1, ring1, regs1, head0):
        if status != 0:
            # no command of this family may raise on a consistent state
            return (name + " raised (status %d)" % status, "raise")
        if k == 1:
            a, e = _line_bounds(t0, c0)
            if arg < 0:
                return self._kill_clause(name, False, False, t0, c0, ring0, t1, c1, ring1, head0, span=t0[a:c0])
            span = t0[c0:e] if e > c0 else t0[c0:c0 + 1]
            return self._kill_clause(name, True, False, t0, c0, ring0, t1, c1, ring1, head0, span=span)
        if k in (2, 3):
            # a negative argument makes kill-word use Python's negative slice count; the span is still
            # after the cursor (see design.d/C09.md, observation O1)
            return self._kill_clause(name, True, rep, t0, c0, ring0, t1, c1, ring1, head0)
        if k == 5 or (k == 4 and not sel0):
            return self._kill_clause(name, False, rep, t0, c0, ring0, t1, c1, ring1, head0)
        if k == 6:
            a, e = _line_bounds(t0, c0)
            if c0 > 0 and a == c0:
                if t1 != t0[:c0 - 1] + t0[c0:] or ring1 != ring0:
                    return ("unix-line-discard at column 0 must join the lines and leave the ring alone", "discard-col0")
                return None
            return self._kill_clause(name, False, False, t0, c0, ring0, t1, c1, ring1, head0, span=t0[a:c0])
        if k in (4, 18, 10) and sel0:
            m = sel0[0][0]
            a, e = min(m, c0), max(m, c0)
            removed = t0[a:e]
            if ring1 != _ring_after_push(ring0, [S(removed), 0]):
                return (name + ": ring head is not the region %r" % removed, "region-ring")
            if k == 10:
                if t1 != t0:
                    return ("copy-region changed the text", "region-copy")
            elif t1 != t0[:a] + t0[e:] or c1 != a:
                return (name + ": text' is not text without the region", "region-cut")
            return None
        if k in (7, 17):
            if ring1 != ring0:
                return ("yank changed the kill ring", "yank-ring")
            if ring0 and ring0[0][1] != 0:
                return None     # LINES/BLOCK data cannot be produced in emacs mode; covered by the Vi clauses
            ins = head0 * max(arg, 0)
            if t1 != t0[:c0] + ins + t0[c0:]:
                return ("yank: text' != before + head*arg + after", "yank-insert")
            if arg >= 1 and c1 != c0 + len(ins):
                return ("yank: cursor not after the inserted text", "yank-cursor")
            if arg == 1 and not had_arg and self.kill_base is not None and t1 != self.kill_base:
                return ("kill then yank at the same spot did not restore the text: %r" % self.kill_base, "kill-yank-restore")
            return None
        if k == 8:
            if sorted(map(repr, ring1)) != sorted(map(repr, ring0)):
                return ("yank-pop lost or invented a kill-ring entry", "yankpop-multiset")
            if self.prev is not None and self.prev[0] in (7, 17, 8) and self.paste_base is not None:
                # directly after a yank / yank-pop: rotate by one and show the new head at the yank position
                # (by induction: yank; yank-pop^k shows ring[k mod n] of the ring at the yank)
                tb, cb = self.paste_base
                if not ring0:
                    return None if t1 == t0 else ("yank-pop with an empty ring changed the text", "yankpop-empty")
                if ring1 != ring0[1:] + ring0[:1]:
                    return ("yank-pop did not rotate the ring by one", "yankpop-rotate")
                want = ring1[0]
                if want[1] == 0 and t1 != tb[:cb] + unS(want[0]) + tb[cb:]:
                    return ("yank-pop must replace the yanked text by the next ring entry %r at the yank position" % unS(want[0]),
                            "yankpop-cycle")
                return None
            if self.paste_base is None and (t1 != t0 or ring1 != ring0) and (self.prev is None or self.prev[0] not in (7, 17, 8)):
                return ("yank-pop acted although the previous command was not a yank", "yankpop-without-yank")
            return None
        if k in (9, 11, 12, 13, 14, 16, 19):
            if t1 != t0 or ring1 != ring0:
                return (name + " changed text or ring", "motion")
            return None
        if k == 15:
            if ring1 != ring0:
                return ("self-insert changed the ring", "motion")
            return None
        # ---- Vi
        if k == 31:
            a, e = _line_bounds(t0, c0)
            return self._kill_clause(name, True, False, t0, c0, ring0, t1, c0, ring1, head0, span=t0[c0:min(e, c0 + arg)])
        if k == 32:
            a, e = _line_bounds(t0, c0)
            n = min(arg, c0 - a)
            return self._kill_clause(name, False, False, t0, c0, ring0, t1, c0 - n, ring1, head0, span=t0[c0 - n:c0])
        if k == 33:
            a, e = _line_bounds(t0, c0)
            return self._kill_clause(name, True, False, t0, c0, ring0, t1, c0, ring1, head0, span=t0[c0:e])
        if k == 51:      # s: the next arg characters (line ends included) go to the register
            return self._kill_clause(name, True, False, t0, c0, ring0, t1, c0, ring1, head0, span=t0[c0:c0 + arg])
        if k == 52:      # C = D
            a, e = _line_bounds(t0, c0)
            return self._kill_clause(name, True, False, t0, c0, ring0, t1, c0, ring1, head0, span=t0[c0:e])
        if k == 53:      # S / cc: the whole line is stored line-wise, the line keeps its leading white space only
            a, e = _line_bounds(t0, c0)
            line = t0[a:e]
            if ring1 != _ring_after_push(ring0, [S(line), 1]):
                return ("S: register is not the current line %r with type LINES" % line, "vi-lines-register")
            if t1 != t0[:a] + line[:len(line) - len(line.lstrip())] + t0[e:]:
                return ("S: text outside the current line changed / line not emptied to its margin", "vi-change-line")
            return None
        if k in (34, 35):
            ls = t0.split("\n")
            row = t0.count("\n", 0, c0)
            taken = ls[row:row + arg]
            if ring1 != _ring_after_push(ring0, [S("\n".join(taken)), 1]):
                return (name + ": register is not the addressed lines %r with type LINES" % taken, "vi-lines-register")
            if k == 35:
                return None if t1 == t0 else ("yy changed the text", "vi-yank-pure")
            if t1.split("\n") != (ls[:row] + ls[row + arg:] or [""]):
                return ("dd: lines %r left, expected %r (the register holds %r)" % (
                    t1.split("\n"), ls[:row] + ls[row + arg:] or [""], taken), "vi-dd-lines")
            return None
        if k in (36, 37, 38, 39):
            if k in (36, 37):
                data = ring0[0] if ring0 else [[], 0]
            else:
                r = [v for kk, v in regs0 if kk == op[2]]
                if not r or not (chr(op[2]).islower() and chr(op[2]).isascii() or chr(op[2]).isdigit()):
                    return None if (t1 == t0 and ring1 == ring0) else ("paste from an empty/invalid register changed something", "vi-paste-empty")
                data = r[0]
            if ring1 != ring0 or regs1 != regs0:
                return ("paste changed a register", "vi-paste-register")
            # C09_vi_x/D_then_paste_restores: right after x / D, P restores when the cursor fix-up left the
            # cursor at the kill position, p restores when it moved it
            if k in (36, 37) and not had_arg and self.vi_kill is not None:
                tb, ck = self.vi_kill
                if (k == 37) == (c0 == ck) and t1 != tb:
                    return ("%s right after x/D did not restore the text %r" % (name, tb), "vi-kill-paste-restore")
            want = paste_spec(t0, c0, unS(data[0]), data[1], k in (37, 39), arg)
            if t1 != want:
                return ("%s x%d of %r (type %d): text %r, expected %r" % (name, arg, unS(data[0]), data[1], t1, want),
                        "vi-paste-%d" % data[1])
            return None
        if k == 40:
            m, ty, key, r = op[2], op[3], op[4], op[5]
            a, e = min(m, c0), max(m, c0)
            ls = t0.split("\n")
            if ty == 0:
                spans = [(a, min(e + 1, len(t0)))]
                text = t0[a:e + 1]
            elif ty == 1:
                la, _ = _line_bounds(t0, a)
                _, le = _line_bounds(t0, e)
                spans = None
                text = t0[la:le]
            else:
                starts = [0]
                for l in ls:
                    starts.append(starts[-1] + len(l) + 1)
                r1, r2 = t0.count("\n", 0, a), t0.count("\n", 0, e)
                ca, ce = sorted([a - starts[r1], e - starts[r2]])
                spans = [(starts[i] + ca, starts[i] + min(len(ls[i]), ce + 1)) for i in range(r1, r2 + 1) if ca <= len(ls[i])]
                text = "\n".join(t0[x:y] for x, y in spans)
            cut = key in (0, 2, 3)
            to_reg = key in (3, 4)
            validreg = chr(r).isascii() and (chr(r).islower() or chr(r).isdigit())
            # LINES data stands for its lines plus a line ending: when the selection ends on an empty last
            # line the implementation stores the lines without that empty one (same lines once pasted)
            texts = [text] + ([text[:-1]] if ty == 1 and text.endswith("\n") and le == len(t0) else [])
            fam = "vi-register"
            okay = False
            for tx in texts:
                entry = [S(tx), ty]
                stored_expected = (not to_reg or validreg) and (tx != "" or key == 2)
                if to_reg:
                    want_regs = dict((kk, v) for kk, v in regs0)
                    if stored_expected:
                        want_regs[r] = entry
                    okay = okay or (dict((kk, v) for kk, v in regs1) == want_regs and ring1 == ring0)
                else:
                    okay = okay or (ring1 == (_ring_after_push(ring0, entry) if stored_expected else ring0) and regs1 == regs0)
            if not okay:
                return ("%s: the %s register does not hold the selected text %r (type %d)" % (
                    name, repr(chr(r)) if to_reg else "unnamed", text, ty), fam)
            if not cut:
                return None if t1 == t0 else (name + " changed the text", "vi-yank-pure")
            if ty == 1:
                la, _ = _line_bounds(t0, a)
                _, le = _line_bounds(t0, e)
                if le == len(t0):
                    # the selection ends on the last line: its content goes; the line ending before it may
                    # stay (as the code does: an empty last line remains, observation O6) or go with it
                    ok = [t0[:la] + t0[le:]] + ([t0[:la - 1] + t0[le:]] if la > 0 else [])
                else:
                    ok = [t0[:la] + t0[le + 1:]]
                if t1 not in ok:
                    return (name + ": text' is not text without the selected lines", "vi-cut-lines")
                return None
            want, last = "", 0
            for x, y in spans:
                want += t0[last:x]
                last = y
            want += t0[last:]
            if t1 != want:
                return (name + ": text' is not text without the selected span(s)",
                        "vi-cut")
            return None
        if k == 60:
            # navigation mode [count]["r] d / y / c + motion: the register (named when a valid name was
            # given, else the unnamed one) receives exactly the text the motion spans, type CHARACTERS;
            # d / c remove exactly that text, y changes nothing; nothing else is touched
            o, r, m = op[2], op[3], op[4]
            # a count typed between operator and motion multiplies the one typed before the operator
            marg = op[5] if len(op) > 5 and op[5] else 1
            narg = arg * (1 if marg >= 1000000 else marg)
            span = nav_span(t0, c0, m, 1 if narg >= 1000000 else narg)
            validreg = r >= 0 and chr(r).isascii() and (chr(r).islower() or chr(r).isdigit())
            if span is None or span[0] >= span[1]:
                if t1 != t0 or ring1 != ring0 or regs1 != regs0:
                    return ("%s: the motion spans nothing, but text or registers changed" % name, "vi-nav-empty")
                return None
            x, y = span
            text = t0[x:y]
            entry = [S(text), 0]
            if r >= 0:
                want_regs = dict((kk, v) for kk, v in regs0)
                if validreg:
                    want_regs[r] = entry
                if dict((kk, v) for kk, v in regs1) != want_regs or ring1 != ring0:
                    return ("%s: register %r does not receive exactly the spanned text %r (registers %r, unnamed changed: %r)" % (
                        name, chr(r), text, [(chr(kk), unS(v[0]), v[1]) for kk, v in regs1], ring1 != ring0), "vi-nav-register")
            elif ring1 != _ring_after_push(ring0, entry) or regs1 != regs0:
                return ("%s: the unnamed register does not receive exactly the spanned text %r (head %r)" % (
                    name, text, unS(ring1[0][0]) if ring1 else None), "vi-nav-register")
            if o == 1:
                return None if t1 == t0 else (name + " changed the text", "vi-yank-pure")
            if t1 != t0[:x] + t0[y:]:
                return ("%s: text' %r is not text without the spanned text %r" % (name, t1, text), "vi-nav-cut")
            return None
        return None


_WORD_RE = None


def nav_span(t, c, m, n):
    """[x, y): the text a navigation-mode motion spans from cursor c (count n); None = no motion.
    l h $ 0 ^ stay on the line; e = through the end of the n-th word after the cursor character;
    b / B = back to the n-th word / WORD start before the cursor; w / W = forward to the n-th word / WORD start.  An exclusive span that ends at
    column 0 ends before that line's separator (Vi's rule for exclusive motions)."""
    import re
    global _WORD_RE
    if _WORD_RE is None:
        _WORD_RE = (re.compile(r"([a-zA-Z0-9_]+|[^a-zA-Z0-9_\s]+)"), re.compile(r"([^\s]+)"))
    a, e = _line_bounds(t, c)
    if m == 0:
        x, y = c, min(e, c + n)
    elif m == 1:
        x, y = max(a, c - n), c
    elif m == 2:
        x, y = c, e
    elif m == 3:
        x, y = a, c
    elif m == 4:
        line = t[a:e]
        p = a + len(line) - len(line.lstrip())
        x, y = min(p, c), max(p, c)
    elif m == 5:
        ends = [mm.end() for mm in _WORD_RE[0].finditer(t) if mm.end() > c + 1]
        if len(ends) < n:
            return None
        return c, ends[n - 1]
    elif m in (8, 9):
        # w / W: up to the n-th word start after the cursor, or to the end of the text
        starts = [mm.start() for mm in _WORD_RE[1 if m == 9 else 0].finditer(t) if mm.start() > c]
        x, y = c, (starts[n - 1] if 1 <= n <= len(starts) else len(t))
    else:
        starts = [mm.start() for mm in _WORD_RE[1 if m == 7 else 0].finditer(t) if mm.start() < c]
        if len(starts) < n or n < 1:
            return None
        x, y = starts[-n], c
    if x == y:
        return None
    if y > 0 and t[y - 1] == "\n":
        y -= 1
    return x, y


def paste_spec(t, c, text, ty, before, n):
    """C09_paste_*: what pasting `text` of type ty n times must produce."""
    n = max(n, 0)
    ls = t.split("\n")
    row = t.count("\n", 0, c)
    if ty == 0:
        at = c if before else min(c + 1, len(t))
        return t[:at] + text * n + t[at:]
    if ty == 1:
        at = row if before else row + 1
        return "\n".join(ls[:at] + [text] * n + ls[at:])
    col = c - (t.rfind("\n", 0, c) + 1) + (0 if before else 1)
    for i, part in enumerate(text.split("\n")):
        if row + i >= len(ls):
            ls.append("")
        l = ls[row + i]
        l = l + " " * (col - len(l))
        ls[row + i] = l[:col] + part * n + l[col:]
    return "\n".join(ls)


def oracle_case(case, trace):
    """All broken clauses of one trace, as (step, (clause, family))."""
    o = Oracle(case[0])
    out = []
    for j, (op, before, status, after) in enumerate(trace):
        bad = o.step(op, before, status, after)
        if bad:
            out.append((j, bad))
            o.kill_base = None      # a broken kill has no "text to restore"
            if bad[1] != "kill-accumulate-after-noop":
                o.tainted = True    # nor has anything accumulated on top of it
    return out


# --------------------------------------------------------------------------
# Vi navigation mode: "<register><operator><motion> for motions OUTSIDE the model (command 60
# models l h $ 0 ^ e b B; the other text objects are C08's subject): checked differentially on
# the implementation itself: the named register must receive what the same operator + motion
# without a register prefix puts in the unnamed one.

NAV_MOTIONS = ["w", "e", "$", "iw", "fz", "b", "l"]


def vi_type(text, cur, keys):
    from prompt_toolkit.application.current import set_app
    from prompt_toolkit.document import Document
    from prompt_toolkit.key_binding.vi_state import InputMode
    app, buf = get_app(1)
    status = 0
    with set_app(app):
        buf.reset(Document(text, cur))
        app.clipboard._ring.clear()
        app.key_processor.reset()
        app.vi_state.reset()
        app.vi_state.named_registers.clear()
        app.vi_state.input_mode = InputMode.NAVIGATION

        def go():
            for ch in keys:
                app.key_processor.feed(_kp(ch))
                app.key_processor.process_keys()
        try:
            with_watchdog(go, 5)
        except IndexError:
            status = 2
        except AssertionError:
            status = 1
        except Hang:
            status = 98
        except Exception:  # noqa
            status = 99
        if status:
            app.key_processor.reset()
            app.vi_state.reset()
        snap = snapshot(app, buf)
    return status, snap


def nav_register_probe(chk):
    n = 0
    texts = [("foo bar baz", 4), ("ab cd\nef", 1), ("xyz", 0), ("a z", 0)]
    for text, cur in texts:
        for opk in ("d", "y"):
            for mot in NAV_MOTIONS:
                for reg in ("a", "q", "7"):
                    st0, plain = vi_type(text, cur, opk + mot)
                    st1, named = vi_type(text, cur, '"' + reg + opk + mot)
                    n += 1
                    chk.count_case([1, S(text), cur, [], S('"' + reg + opk + mot)], True)
                    want = plain[2][0] if plain[2] else None
                    got = dict((k, v) for k, v in named[5])
                    ok_ = (st1 == st0 == 0 and named[0] == plain[0] and named[2] == []
                           and ((want is None and (not got or list(got) == [ord(reg)] and got[ord(reg)][0] == []))
                                or (want is not None and got == {ord(reg): want})))
                    if st0 == 0 and not ok_:
                        what = ('Vi navigation mode, text=%r cursor=%d: keys "%s%s%s -> status=%d text=%r registers=%r; '
                                'the same without the register prefix stores %r in the unnamed register: the named register %r must '
                                'receive exactly that' % (text, cur, reg, opk, mot, st1, unS(named[0]),
                                                          [(chr(k), unS(v[0]), v[1]) for k, v in named[5]],
                                                          None if want is None else (unS(want[0]), want[1]), reg))
                        chk.violation("oracle", what, {"op": "vi-register-operator", "family": "vi-nav-register-name"},
                                      {"vi_keys": '"' + reg + opk + mot, "text": text, "cursor": cur, "clause": "C09 Vi register fidelity",
                                       "how": "harness/c09.py vi_type: Vi navigation mode, keys typed through KeyProcessor"})
    return n


# --------------------------------------------------------------------------
# generators

ALPHA_E = ["a", " ", "\n", "-"]
ALPHA_V = ["a", " ", "\n"]
RAND_ALPHA = ["a", "b", "C", "_", "9", " ", " ", "\n", "\n", "\t", "-", "(", "界", "é", " ", "\U0001F600", "x"]
ARGS_E = [[], [-1], [0], [2], [9], [-2]]
KILLS = [1, 2, 3, 4, 5, 6]


def texts_upto(alpha, n):
    out = [""]
    for k in range(1, n + 1):
        out += ["".join(t) for t in itertools.product(alpha, repeat=k)]
    return out


def rand_text(rng, maxlen):
    n = rng.choice([0, 1, 2, 3, 5, 8, 13, maxlen])
    words = []
    while sum(map(len, words)) < n:
        r = rng.random()
        if r < 0.35:
            words.append("".join(rng.choice("abcXY_09") for _ in range(rng.randint(1, 4))))
        elif r < 0.6:
            words.append(rng.choice([" ", "  ", "\n", " \n", "\t"]))
        elif r < 0.8:
            words.append(rng.choice(["-", "--", "(", ").", "/"]))
        else:
            words.append(rng.choice(RAND_ALPHA))
    return "".join(words)[:maxlen]


def rand_ring(rng):
    r = rng.random()
    if r < 0.3:
        n = 0
    elif r < 0.8:
        n = rng.randint(1, 4)
    else:
        n = rng.choice([58, 59, 60])
    return [[S(rng.choice(["K%d" % i, "k\n%d" % i, "", "界%d" % i])), 0] for i in range(n)]


def rand_arg(rng, vi, tlen):
    if vi:
        return rng.choice([[], [], [], [2], [3], [tlen + 1], [99]])
    return rng.choice([[], [], [], [], [-1], [0], [2], [3], [-2], [-3], [tlen + 1], [99], [-99], [1000000]])


def rand_paste_arg(rng, vi):
    # pastes in a long random session keep small counts (99 copies of 99 copies ... makes the
    # list-based model crawl); large counts are exercised by the single-paste families
    if vi:
        return rng.choice([[], [], [], [2], [3], [5]])
    return rng.choice([[], [], [], [2], [3], [0], [-1], [-2], [5], [1000000]])


def with_cpr(rng, arg):
    """now and then a cursor position report arrives among the keys of a command"""
    if rng.random() < 0.12:
        f = rng.choice([1, 2, 3])
        return [arg[0], f] if arg else [[], f]
    return arg


def rand_emacs_ops(rng, tlen, n):
    ops = []
    sel = False
    while len(ops) < n:
        r = rng.random()
        if rng.random() < 0.08:
            ops.append([21, []])
        if sel:
            k = rng.choice([4, 4, 18, 10, 10, 11, 12, 13, 14, 16, 9])
            if k in (4, 18, 10, 16):
                sel = False
            ops.append([k, rand_arg(rng, 0, tlen) if k in (11, 12) else []])
            continue
        if r < 0.45:
            k = rng.choice([1, 2, 2, 2, 3, 4, 4, 5, 5, 6])
            ops.append([k, with_cpr(rng, rand_arg(rng, 0, tlen))])
            if rng.random() < 0.5:      # consecutive identical word kills
                if rng.random() < 0.3:  # ... with a terminal report in between
                    ops.append([21, []])
                ops.append([k, with_cpr(rng, [])])
        elif r < 0.6:
            ops.append([rng.choice([7, 7, 17]), with_cpr(rng, rand_paste_arg(rng, 0) if rng.random() < 0.3 else [])])
            for _ in range(rng.choice([0, 0, 1, 2, 3, 5, 61])):
                if rng.random() < 0.05:
                    ops.append([21, []])
                ops.append([8, with_cpr(rng, [])])
        elif r < 0.65:
            ops.append([8, []])
        elif r < 0.8:
            ops.append([rng.choice([11, 12, 13, 14]), rand_arg(rng, 0, tlen) if rng.random() < 0.4 else []])
        elif r < 0.88:
            ops.append([15, [rng.choice([2, 3])] if rng.random() < 0.2 else [], ord(rng.choice("ab z-"))])
        elif r < 0.94:
            ops.append([19, [], rng.randint(-1, tlen + 2)])
        else:
            ops.append([9, []])
            sel = True          # becomes a selection only when the text is not empty; the runner re-checks
    return ops[:n]


def fix_emacs_ops(ops, text):
    """The generator tracks the selection approximately (C-@ on an empty buffer does not
    select); commands that would be outside the modelled dispatch are still emitted rarely
    and are answered 'unmodelled' (status 7) by both sides."""
    return ops


def rand_vi_ops(rng, tlen, n):
    ops = []
    regs = [ord(c) for c in "abz09"] + [ord("A"), ord("-")]
    for _ in range(n):
        r = rng.random()
        if rng.random() < 0.06:
            ops.append([21, []])
        if r < 0.3:
            k = rng.choice([31, 32, 33, 34, 35, 51, 52, 53])
            ops.append([k, with_cpr(rng, rand_arg(rng, 1, tlen) if k not in (33, 52, 53) else [])])
        elif r < 0.55:
            k = rng.choice([36, 37])
            ops.append([k, rand_paste_arg(rng, 1)])
        elif r < 0.65:
            ops.append([rng.choice([38, 39]), rand_paste_arg(rng, 1), rng.choice(regs)])
        elif r < 0.8:
            ops.append([40, [], rng.randint(0, tlen), rng.choice([0, 0, 1, 2]), rng.choice([0, 1, 2, 3, 4]), rng.choice(regs)])
        elif r < 0.93:
            ops.append([60, rng.choice([[], [], [2], [3], [tlen + 1]]), rng.choice([0, 0, 1, 1, 2]),
                        rng.choice([-1, -1] + regs), rng.randrange(len(NAV_MOT)), rng.choice([0, 0, 0, 2, 3, 1000000])])
            if ops[-1][4] == 3:
                ops[-1][5] = 0      # "d20" is d with count 20, not d2 + the motion 0
        else:
            ops.append([19, [], rng.randint(0, tlen)])
    return ops


def gen_cases(chk):
    rng = chk.rng
    thorough = chk.tier == "thorough"
    cases = []
    dist = {}

    def add(fam, c, p=1.0):
        if p >= 1.0 or rng.random() < p:
            cases.append(c)
            dist[fam] = dist.get(fam, 0) + 1

    ring1 = [[S("Z"), 0], [S("yy"), 0]]
    # A. every kill command x argument on every small document, then yank, yank-pop, yank-pop
    maxn = 5 if thorough else 4
    pA = 1.0 if thorough else 0.1
    for t in texts_upto(ALPHA_E, maxn):
        if len(t) == 5 and not thorough:
            continue
        pa = pA * (0.12 if len(t) == 5 else 1.0)
        for cur in range(len(t) + 1):
            for k in KILLS:
                for a in ARGS_E:
                    add("emacs_kill_yank_exhaustive", [0, S(t), cur, ring1, [[k, a], [7, []], [8, []], [8, []], [8, []]]], pa)
    # B. consecutive word kills (accumulation), then yank
    pB = 1.0 if thorough else 0.25
    for t in texts_upto(ALPHA_E, 5 if thorough else 4):
        for cur in range(len(t) + 1):
            for k in (2, 3, 4, 5):
                add("emacs_repeat_kill_exhaustive", [0, S(t), cur, ring1, [[k, []], [k, []], [k, []], [7, []]]], pB * (0.25 if len(t) == 5 else 1))
            add("emacs_repeat_kill_exhaustive", [0, S(t), cur, ring1, [[2, []], [3, []], [7, []]]], pB * 0.3)
            # terminal reports between two kills, between Esc and the letter, between an argument and its command
            for k in (2, 4, 5):
                add("emacs_kills_with_cpr", [0, S(t), cur, ring1, [[k, []], [21, []], [k, [[], 2]], [21, []], [7, []], [21, []], [8, []]]], pB * (0.1 if len(t) == 5 else 0.5))
                add("emacs_kills_with_cpr", [0, S(t), cur, ring1, [[k, [2, 1]], [k, [[], 1]], [7, [2, 3]]]], pB * (0.06 if len(t) == 5 else 0.3))
            add("emacs_repeat_kill_exhaustive", [0, S(t), cur, ring1, [[5, [2]], [5, []], [7, []]]], pB * 0.3)
    # C. region kill / copy for every mark and point
    for t in texts_upto(ALPHA_E, 4 if thorough else 3):
        for cur in range(len(t) + 1):
            for m in range(len(t) + 1):
                for k in (4, 18, 10):
                    add("emacs_region_exhaustive", [0, S(t), m, ring1, [[9, []], [19, [], cur], [k, []], [7, []]]])
    # D. random emacs sessions
    for _ in range(10000 if thorough else 1200):
        t = rand_text(rng, 30)
        ops = rand_emacs_ops(rng, len(t), rng.randint(1, 40 if thorough else 16))
        add("emacs_random_session", [0, S(t), rng.randint(0, len(t)), rand_ring(rng), ops])
    # E. Vi: every simple delete/yank on every small document, then paste
    pE = 1.0 if thorough else 0.15
    vring = [[S("Q"), 0]]
    for t in texts_upto(ALPHA_V, 5 if thorough else 4):
        for cur in range(len(t) + 1):
            for k in (31, 32, 33, 34, 35, 51, 52, 53):
                for a in ([], [2], [5]):
                    if k in (33, 52, 53) and a:
                        continue
                    for pk in ([36, []], [37, []], [36, [3]]):
                        add("vi_delete_paste_exhaustive", [1, S(t), cur, vring, [[k, a], pk]], pE * (0.12 if len(t) == 5 else 1))
            for m in range(len(t) + 1):
                for ty in (0, 1, 2):
                    for key in (0, 1, 2, 3, 4):
                        pk = [38, [], 97] if key >= 3 else [36, []]
                        pk2 = [39, [2], 97] if key >= 3 else [37, [2]]
                        add("vi_visual_exhaustive", [1, S(t), cur, vring, [[40, [], m, ty, key, 97], pk, pk2]], pE * (0.15 if len(t) == 5 else 1))
    # every register name
    for r in list(range(97, 123)) + list(range(48, 58)) + [65, 45, 34, 0x754c]:
        for key in (3, 4):
            add("vi_all_registers", [1, S("ab cd\nef"), 1, vring, [[40, [], 4, 0, key, r], [38, [], r], [39, [2], r], [38, [], 98]]])
    # E2. navigation mode [count]["r] d / y / c + motion on every small document, then a paste of that register
    pN = 0.1 if thorough else 0.013
    for t in texts_upto(ALPHA_E, 4):
        for cur in range(len(t) + 1):
            for o in (0, 1, 2):
                for r in (-1, 97):
                    for m in range(len(NAV_MOT)):
                        for a, marg in (([], 0), ([2], 0), ([], 2), ([2], 2)):
                            if m == 3 and marg:
                                continue    # a 0 after a digit continues the count
                            pk = [38, [], 97] if r >= 0 else [37, []]
                            add("vi_operator_motion_exhaustive", [1, S(t), cur, vring, [[60, a, o, r, m, marg], pk]], pN)
    # counts on both sides of the operator on a longer text: 2"ad2w, d3l, ...
    for cur in (0, 3, 7):
        for o in (0, 1, 2):
            for r in (-1, 97):
                for m in (0, 1, 5, 6, 8, 9):
                    for a, marg in (([2], 2), ([], 3), ([3], 0), ([], 1000000), ([1000], 1000)):
                        add("vi_operator_motion_counts", [1, S("ab cd-ef gh\nij kl mn op"), cur + (12 if m in (1, 6) else 0), vring,
                                                         [[60, a, o, r, m, marg], [38, [], 97] if r >= 0 else [37, []]]])
    for r in (65, 45, 0x754c, 122, 48):
        for o in (0, 1, 2):
            for m in (0, 5, 6):
                add("vi_operator_motion_registers", [1, S("ab cd\nef"), 4, vring, [[60, [], o, r, m], [38, [], r], [36, []]]])
    # F. paste of every data type / mode / count on small documents (data preloaded in the ring)
    datas = [["xy", 0], ["", 0], ["x\ny", 0], ["xy", 1], ["x\ny", 1], ["", 1], ["xy", 2], ["x\nyy", 2], ["", 2], ["x\n\ny", 2]]
    pF = 1.0 if thorough else 0.4
    for t in texts_upto(ALPHA_V, 4 if thorough else 3):
        for cur in range(len(t) + 1):
            for d, ty in datas:
                for pk in (36, 37):
                    for a in ([], [2], [3], [40]):
                        add("vi_paste_exhaustive", [1, S(t), cur, [[S(d), ty]], [[pk, a]]], pF)
                if ty == 0:
                    continue
                for a in ([], [0], [-1], [2], [99]):
                    add("emacs_yank_typed_data", [0, S(t), cur, [[S(d), ty], [S("k"), 0]], [[7, a], [8, []]]], pF)
    # G. random Vi sessions
    for _ in range(8000 if thorough else 800):
        t = rand_text(rng, 24)
        ops = rand_vi_ops(rng, len(t), rng.randint(1, 30 if thorough else 12))
        ring = [[S(rng.choice(["r%d" % i, "l\n%d" % i, ""])), rng.choice([0, 0, 1, 2])] for i in range(rng.choice([0, 1, 2, 60]))]
        add("vi_random_session", [1, S(t), rng.randint(0, len(t)), ring, ops])
    # H. malformed cases: both sides must refuse them
    for c in ([0, S("ab"), 3, [], [[1, []]]], [0, S("ab"), -1, [], [[1, []]]], [2, S("ab"), 0, [], []],
              [0, S("ab"), 0, [[S("x"), 0]] * 61, [[7, []]]]):
        add("malformed", c)
    return cases, dist


# --------------------------------------------------------------------------

def nontrivial(trace):
    return any(st == 0 and (b[0] != a[0] or b[2] != a[2] or b[5] != a[5]) for (op, b, st, a) in trace)


def describe_trace(case, trace, upto):
    out = []
    for (op, b, st, a) in trace[:upto + 1]:
        out.append("%s%s -> status=%d text=%r cursor=%d ring=%r%s" % (
            cmd_name(op), (" arg=%d" % op_arg(op)[0]) if op_arg(op)[0] is not None else "", st, unS(a[0]), a[1],
            [(unS(x[0]), x[1]) for x in a[2][:4]], (" regs=%r" % [(chr(k), unS(v[0]), v[1]) for k, v in a[5]]) if a[5] else ""))
    return "; ".join(out)


def main(tier):
    chk = Check(PROP, tier)
    pr = chk.proofs("Props/C09.v", tables=TABLES)
    okm, logm = build_model("c09", "Extract/ExC09.v", "run_C09", tables=TABLES)
    if not okm:
        chk.violation("tie", "model does not build: " + logm[-400:], {"kind": "model-build"}, {"log": logm[-3000:]}, no_input=True)
        return chk.finish()

    cases, dist = gen_cases(chk)
    corpus = load_corpus(PROP)
    cases = corpus + cases
    impl_results = []
    oracle_bad = set()
    opcount = {}
    for i, c in enumerate(cases):
        out, trace = impl_case(c)
        impl_results.append(out)
        chk.count_case(c, nontrivial(trace))
        for tr in trace:
            n = cmd_name(tr[0])
            opcount[n] = opcount.get(n, 0) + 1
        for j, (clause, fam) in oracle_case(c, trace):
            oracle_bad.add(i)
            op = trace[j][0]
            chk.violation("oracle", "%s [%s mode, text=%r cursor=%d ring=%r: %s]" % (
                clause, "vi" if c[0] else "emacs", unS(c[1]), c[2], [(unS(x[0]), x[1]) for x in c[3][:3]], describe_trace(c, trace, j)),
                {"op": cmd_name(op), "family": fam},
                {"case": sx_norm(c), "step": j, "clause": clause,
                 "how": "harness/c09.py impl_case: Application + Buffer, keys typed through KeyProcessor"})
        if i % 1499 == 0 and trace:
            chk.sample({"mode": "vi" if c[0] else "emacs", "text": unS(c[1]), "cursor": c[2], "ops": c[4][:4],
                        "after_first_op": {"text": unS(out[0][1]), "cursor": out[0][2], "ring_head": out[0][3][:1]}})
    dist["vi_navigation_register_probe(oracle only)"] = nav_register_probe(chk)
    chk.coverage["input_distribution"] = dict(dist, corpus=len(corpus), ops=opcount)

    def tagger(c, a, m):
        if not isinstance(m, list) or not isinstance(a, list):
            return {"op": "?"}
        for j, (x, y) in enumerate(zip(a, m)):
            if x != y:
                if isinstance(c, list) and len(c) == 5 and j < len(c[4]):
                    return {"op": cmd_name(c[4][j]), "step": j}
                break
        return {"op": "?"}

    def describe(c, a, m):
        j = next((j for j, (x, y) in enumerate(zip(a, m if isinstance(m, list) else [])) if x != y), 0)
        try:
            return "mode=%s text=%r cursor=%d ops=%r first difference at step %d: impl=%r model=%r" % (
                "vi" if c[0] else "emacs", unS(c[1]), c[2], c[4][:j + 1], j, a[j], m[j] if isinstance(m, list) and j < len(m) else m)
        except Exception:  # noqa
            return "case=%r impl=%r model=%r" % (c, a, m)

    model_results, nbad = correspondence(chk, "c09", cases, impl_results, tagger, describe=describe,
                                         oracle_failed=lambda i: i in oracle_bad)

    k = 1000 if chk.tier == "thorough" else 250
    idx = sorted(chk.rng.sample(range(len(cases)), min(k, len(cases))))
    pairs = [(cases[i], impl_results[i]) for i in idx]
    bad, logs = vm_crosscheck(PROP, "run_C09", "Model.C09_Kill", pairs, per_file=125)
    chk.coverage["vm_compute_crosschecked"] = len(pairs)
    model_bad = set(i for i, (a, m) in enumerate(zip(impl_results, model_results)) if sx_norm(a) != m)
    vm_bad = set(idx[b] for b in bad if isinstance(b, int))
    if any(not isinstance(b, int) for b in bad):
        chk.violation("tie", "vm_compute cross-check failed to run: " + (logs[0] if logs else ""), {"kind": "vm"}, {"log": logs}, no_input=True)
    if vm_bad != (model_bad & set(idx)):
        d = sorted(vm_bad ^ (model_bad & set(idx)))[:5]
        chk.violation("tie", "extracted model and in-Coq evaluation disagree on cases %r" % d,
                      {"kind": "extraction"}, {"cases": [cases[i] for i in d]}, no_input=True)

    proof_gate(chk, pr)
    chk.coverage["rule"] = (
        "case = (mode, text, cursor, initial kill ring, commands); each command is typed into a real Application "
        "(KeyProcessor, default emacs / Vi bindings, InMemoryClipboard) and run on the Coq model; compared after every "
        "command: text, cursor, full ring, document_before_paste, selection, named registers. Exhaustive: every kill "
        "command x 6 arguments x all documents of length <= %d over %r x all cursors followed by yank and 3 yank-pops; "
        "repeated word kills; every (mark, point) region; Vi x/X/D/dd/yy x counts and every visual selection "
        "(both ends, 3 types, d/y/x/\"rd/\"ry) on all documents <= %d over %r followed by pastes; every paste type x mode x count; "
        "all 36 register names + 4 invalid ones; navigation-mode [count][\"r]d/y/c[count] + motion (l h $ 0 ^ e b B w W) on all documents "
        "<= 4 over the emacs alphabet followed by a paste of that register (sampled); random sessions in both modes (rings of 58-60 entries included). "
        "non-trivial = some command succeeded and changed text, ring or registers; quick tier samples the exhaustive families "
        "(10-50%%)." % (5 if chk.tier == "thorough" else 4, ALPHA_E, 5 if chk.tier == "thorough" else 4, ALPHA_V))
    chk.assumptions += [
        "key dispatch (which binding a key reaches, filters) is outside the model: commands that are not bound in the current "
        "state (insert-mode commands while a selection is active) are answered 'unmodelled' by both sides and never asserted on",
        "Vi operator + motion in navigation mode is modelled for d / y / c x optional register x count x the motions "
        "l h $ 0 ^ e b B w W (command 60), counts before the operator and between operator and motion; other motions and text objects (iw, f<c>, j, k, ...) are only covered by the "
        "oracle-only differential register probe",
        "re's \\s class and [a-zA-Z0-9_] are modelled by Gen/Whitespace.re_space_table and ASCII ranges; CPython slicing, "
        "split, join, ljust, rfind are re-implemented in Coq and tied by this correspondence only",
        "clipboard is the default InMemoryClipboard(max_size=60); system clipboards are outside"]
    return chk.finish()


def replay(data):
    rep = data["replay"]
    if "vi_keys" in rep:
        st, snap = vi_type(rep["text"], rep["cursor"], rep["vi_keys"])
        plain = vi_type(rep["text"], rep["cursor"], rep["vi_keys"][2:])[1]
        print("vi navigation mode text=%r cursor=%d keys=%r -> status=%d text=%r unnamed=%r registers=%r" % (
            rep["text"], rep["cursor"], rep["vi_keys"], st, unS(snap[0]), [(unS(x[0]), x[1]) for x in snap[2]],
            [(chr(k), unS(v[0]), v[1]) for k, v in snap[5]]))
        print("without the register prefix the unnamed register gets %r" % ([(unS(x[0]), x[1]) for x in plain[2]],))
        want = plain[2][0] if plain[2] else None
        got = dict((k, v) for k, v in snap[5])
        r = ord(rep["vi_keys"][1])
        good = st == 0 and (got == {r: want} if want else (not got or (list(got) == [r] and got[r][0] == [])))
        print("oracle ok" if good else "ORACLE FAILS: the named register does not receive that text")
        return 0 if good else 1
    case = rep["case"]
    out, trace = impl_case(case)
    rc = 0
    print("mode=%s text=%r cursor=%d ring0=%r" % ("vi" if case[0] else "emacs", unS(case[1]), case[2],
                                                [(unS(x[0]), x[1]) for x in case[3]]))
    o = Oracle(case[0])
    for j, (op, before, status, after) in enumerate(trace):
        bad = o.step(op, before, status, after)
        print("  %s%s%s -> status=%d text=%r cursor=%d ring=%r regs=%r  %s" % (
            cmd_name(op), (" arg=%d" % op_arg(op)[0]) if op_arg(op)[0] is not None else "", " " + repr(op[2:]) if len(op) > 2 else "",
            status, unS(after[0]), after[1], [(unS(x[0]), x[1]) for x in after[2][:5]],
            [(chr(k), unS(v[0]), v[1]) for k, v in after[5]], ("ORACLE FAILS: " + bad[0]) if bad else "oracle ok"))
        if bad:
            rc = 1
    m = run_model("c09", [case])[0]
    print("model agrees" if m == sx_norm(out) else "model differs: %r" % (m,))
    return rc
