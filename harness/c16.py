"""C16 - search lands on a real, nearest occurrence in the requested direction.
Model: coq/Model/C16_Search.v; theorems: coq/Props/C16.v."""
import asyncio
import itertools
import re
from collections import deque

from common import *  # noqa

PROP = "C16"
TABLES = ["Whitespace", "C16_CaseFold", "C16_Sre"]
MODELS = [("c16", "Extract/ExC16.v", "run_C16")]

ALPHA = ["a", "A", "b", "\n", "."]
NEEDLE_ALPHA = ["a", "A", "b", "\n", ".", "*", "\\"]
# cased non-ASCII letters with irregular folding (must stay inside gen/gen_t_c16.py's alphabet)
FOLD_ALPHA = list("aAkKsSiI") + list("éÉßẞſKıİσςΣµμ") + [".", "\\"]
QUERIES = [(d, icp, c) for d in (0, 1) for icp in (0, 1) for c in (-1, 0, 1, 2, 3)]

KEYNAMES = {1: "C-r", 2: "C-s", 3: "char", 4: "Enter", 5: "C-g", 6: "Backspace", 7: "Escape",
            8: "n", 9: "N", 10: "/", 11: "?", 12: "Up", 13: "Down",
            14: "Left", 15: "Right", 16: "Home", 17: "End", 18: "Delete", 19: "*", 20: "#"}
TYPING = (3, 6, 10, 11, 14, 15, 16, 17, 18)


# --------------------------------------------------------------------------
# character relation used by the oracle: what `re` itself does for ONE
# character (the stated assumption of the model); positions, directions,
# entries and counts are the oracle's own.

_ceq_cache = {}


def ceq(ic, p, t):
    if not ic:
        return p == t
    k = (p, t)
    v = _ceq_cache.get(k)
    if v is None:
        v = _ceq_cache[k] = re.fullmatch(re.escape(p), t, re.IGNORECASE) is not None
    return v


def occ(ic, needle, text, p):
    if p < 0 or p + len(needle) > len(text):
        return False
    return all(ceq(ic, needle[j], text[p + j]) for j in range(len(needle)))


def occs(ic, needle, text):
    return [p for p in range(len(text) + 1) if occ(ic, needle, text, p)]


# --------------------------------------------------------------------------
# implementation runner: Buffer level

def set_state(b, wl, wi, cur):
    b._working_lines = deque(wl)
    b._Buffer__working_index = wi
    b._Buffer__cursor_position = cur
    b.selection_state = None


def mk_state(needle, d, ic):
    from prompt_toolkit.search import SearchDirection, SearchState
    return SearchState(needle, SearchDirection.FORWARD if d == 0 else SearchDirection.BACKWARD, bool(ic))


_BUF = []


def the_buffer():
    from prompt_toolkit.buffer import Buffer
    if not _BUF:
        _BUF.append(Buffer())
    return _BUF[0]


def canon_search(r):
    return [] if r is None else [r[0], r[1]]


def impl_buffer_case(case):
    """-> (canonical result, facts for the oracle)"""
    _, wl_s, wi, cur, nd_s, ic = case
    wl = [unS(x) for x in wl_s]
    needle = unS(nd_s)
    b = the_buffer()
    out = []
    raw = {}
    for (d, icp, c) in QUERIES:
        st = mk_state(needle, d, ic)
        row = []
        # _search
        set_state(b, wl, wi, cur)
        try:
            r = b._search(st, include_current_position=bool(icp), count=c)
            row.append(canon_search(r))
            raw[(d, icp, c)] = r
        except AssertionError:
            row.append(-1)
            raw[(d, icp, c)] = "assert"
        except Hang:
            raise
        except Exception as e:  # noqa
            row.append(-3)
            raw[(d, icp, c)] = "raise " + type(e).__name__
        # apply_search
        set_state(b, wl, wi, cur)
        try:
            b.apply_search(st, include_current_position=bool(icp), count=c)
            row.append([b.working_index, b.cursor_position])
            raw[("apply", d, icp, c)] = (b.working_index, b.cursor_position, list(b._working_lines))
        except AssertionError:
            row.append(-1)
        except Hang:
            raise
        except Exception as e:  # noqa
            row.append(-3)
        # get_search_position
        set_state(b, wl, wi, cur)
        try:
            p = b.get_search_position(st, include_current_position=bool(icp), count=c)
            row.append([p])
            raw[("gsp", d, icp, c)] = (p, b.working_index, b.cursor_position)
        except AssertionError:
            row.append(-1)
        except Hang:
            raise
        except Exception as e:  # noqa
            row.append(-3)
        out.append(row)
    docs = []
    for d in (0, 1):
        set_state(b, wl, wi, cur)
        try:
            doc = b.document_for_search(mk_state(needle, d, ic))
            docs.append([S(doc.text), doc.cursor_position])
            raw[("dfs", d)] = (doc.text, doc.cursor_position, b.working_index, b.cursor_position)
        except Hang:
            raise
        except Exception as e:  # noqa
            docs.append(-3)
            raw[("dfs", d)] = "raise " + type(e).__name__
    # count = k as k successive single searches (the implementation's own single searches)
    for d in (0, 1):
        for icp in (0, 1):
            st = mk_state(needle, d, ic)
            w, c = wi, cur
            chain = []
            for _ in range(3):
                set_state(b, wl, w, c)
                try:
                    r = b._search(st, include_current_position=bool(icp), count=1)
                except Hang:
                    raise
                except Exception:  # noqa
                    r = None
                chain.append(r)
                if r is None:
                    break
                w, c = r
            raw[("chain", d, icp)] = chain
    return [out, docs], raw


def impl_document_case(case):
    from prompt_toolkit.document import Document
    _, t, cur, sub, ic, count = case
    d = Document(unS(t), cur)
    s = unS(sub)
    f0 = d.find(s, include_current_position=False, ignore_case=bool(ic), count=count)
    f1 = d.find(s, include_current_position=True, ignore_case=bool(ic), count=count)
    fb = d.find_backwards(s, ignore_case=bool(ic), count=count)
    return [[] if x is None else [x] for x in (f0, f1, fb)]


# --------------------------------------------------------------------------
# oracle: the property text / theorem statements over the implementation's results

def oracle_single(wl, wi, cur, needle, d, ic, icp, r):
    """One single search (count = 1) from (wi, cur) answered r (None or (w', c')).
    Returns None or (clause, family)."""
    n = len(wl)
    L = len(needle)
    text = wl[wi]
    if d == 0:
        lo = cur if icp else cur + 1
        ahead_here = [p for p in occs(ic, needle, text) if p >= lo]
        ahead_entries = list(range(wi + 1, n))
    else:
        # what lies before the cursor: occurrences wholly before it
        ahead_here = [p for p in occs(ic, needle, text) if p + L <= cur]
        ahead_entries = list(range(wi - 1, -1, -1))
    exists_ahead = bool(ahead_here) or any(occs(ic, needle, wl[e]) for e in ahead_entries)
    dname = "forward" if d == 0 else "backward"
    if r is None:
        if exists_ahead:
            return ("%s search found nothing although an occurrence exists ahead" % dname, "complete")
        return None
    w2, c2 = r
    if not (0 <= w2 < n) or not (0 <= c2 <= len(wl[w2])):
        return ("search result outside the working lines", "range")
    if not occ(ic, needle, wl[w2], c2):
        return ("%s search moved to a position where the needle does not occur" % dname, "real")
    # nearest / no skip
    if ahead_here:
        want = ahead_here[0] if d == 0 else ahead_here[-1]
        if (w2, c2) != (wi, want):
            return ("%s search skipped the nearest occurrence in the current entry" % dname, "skip-entry")
        return None
    # nothing ahead in this entry: entries ahead in order, nearest occurrence inside
    for e in ahead_entries:
        ps = occs(ic, needle, wl[e])
        if ps:
            want = ps[0] if d == 0 else ps[-1]
            if (w2, c2) != (e, want):
                return ("%s search skipped an occurrence in an entry ahead" % dname, "skip-history")
            return None
    # nothing ahead at all: the search wrapped around.  Whatever entry it
    # lands in, it must be the nearest occurrence of that entry coming from the
    # far end, and no entry passed over on the way may contain one.
    ps = occs(ic, needle, wl[w2])
    want = ps[0] if d == 0 else ps[-1]
    if c2 != want:
        return ("%s wrap-around did not land on the nearest occurrence of the entry it wrapped to" % dname, "skip-wrap")
    passed = range(0, w2) if d == 0 else range(n - 1, w2, -1)
    for e in passed:
        if occs(ic, needle, wl[e]):
            return ("%s wrap-around passed over an entry containing an occurrence" % dname, "skip-wrap")
    return None


def judge_outcome(wl, wi, cur, needle, d, ic, icp, pos):
    """The property's clauses for ONE applied search whose visible outcome is
    the position `pos`: when the position did not change this is either
    'nothing found' or 'found where we already are' - whichever reading
    satisfies the property."""
    cands = [None, pos] if pos == (wi, cur) else [pos]
    bads = [oracle_single(wl, wi, cur, needle, d, ic, icp, r) for r in cands]
    return bads[-1] if all(bads) else None


def oracle_buffer(case, raw):
    """Only what the property text states (everything else - that
    apply_search, get_search_position and _search agree with each other, what a
    count below 1 does, that count=k is all-or-nothing - is code semantics: it
    is modelled, proved about the model and tied by CORRESPONDENCE, where a
    difference is searched for a property-failing input in the normal way):
      * count 1, non-empty needle: _search and apply_search land on a real,
        nearest occurrence / nothing skipped / complete (oracle_single);
      * any count >= 1: a landing position is inside the working lines and
        the needle really occurs there; no working line's text changes;
      * document_for_search (the preview) is the document apply_search with
        include_current_position moves to, and computing it moves nothing."""
    _, wl_s, wi, cur, nd_s, ic = case
    wl = [unS(x) for x in wl_s]
    needle = unS(nd_s)
    n = len(wl)
    for (d, icp, c) in QUERIES:
        if c < 1:
            continue
        r = raw[(d, icp, c)]
        tag = {"dir": d, "icp": icp, "count": c}
        if isinstance(r, str):
            return ("_search raised (%s) for count %d" % (r, c), dict(tag, family="raise"))
        a = raw.get(("apply", d, icp, c))
        if a is None:
            return ("apply_search raised for count %d" % c, dict(tag, family="raise"))
        if a[2] != wl:
            return ("apply_search changed the text of a working line", dict(tag, family="apply-text"))
        if len(needle) == 0:
            continue
        if c == 1:
            bad = oracle_single(wl, wi, cur, needle, d, ic, icp, r)
            if bad:
                return (bad[0], dict(tag, family=bad[1]))
            bad = judge_outcome(wl, wi, cur, needle, d, ic, icp, (a[0], a[1]))
            if bad:
                return ("apply_search: " + bad[0], dict(tag, family=bad[1], api="apply_search"))
        else:
            apos = None if (a[0], a[1]) == (wi, cur) else (a[0], a[1])
            for nm, pos in (("_search", r), ("apply_search", apos)):
                if pos is None:
                    continue
                if not (0 <= pos[0] < n) or not (0 <= pos[1] <= len(wl[pos[0]])):
                    return ("%s(count=%d) answered a position outside the working lines" % (nm, c), dict(tag, family="range"))
                if not occ(ic, needle, wl[pos[0]], pos[1]):
                    return ("%s(count=%d) moved to a position where the needle does not occur" % (nm, c), dict(tag, family="real"))
            # a repeat count k means k successive searches: when k successive single
            # searches (the implementation's own, each link judged against the property
            # right here) all succeed, the count-k search lands where the k-th lands.
            # When fewer succeed the text demands nothing definite: staying put and any
            # partial progress along the chain are both accepted (the code is all-or-nothing;
            # that is modelled and tied by correspondence).
            chain = raw[("chain", d, icp)][:c]
            w0, c0 = wi, cur
            for link in chain:
                bad = oracle_single(wl, w0, c0, needle, d, ic, icp, link)
                if bad:
                    break       # a wrong single search is reported by its own count-1 case
                if link is None:
                    break
                w0, c0 = link
            else:
                bad = None
            if not bad:
                full = len(chain) == c and all(x is not None for x in chain)
                for nm, pos in (("_search", r), ("apply_search", apos)):
                    if nm == "apply_search" and pos is None and r is not None and tuple(r) == (wi, cur):
                        continue        # landed on the starting position: indistinguishable from "unchanged"
                    if full and (pos is None or tuple(pos) != tuple(chain[c - 1])) and not (
                            nm == "apply_search" and pos is None and tuple(chain[c - 1]) == (wi, cur)):
                        return ("%s(count=%d) did not land where %d successive single searches land (%r vs %r)" % (
                            nm, c, c, pos, chain[c - 1]), dict(tag, family="count"))
                    if not full and pos is not None and tuple(pos) not in [tuple(x) for x in chain if x is not None]:
                        return ("%s(count=%d) landed at %r, which is not on the chain of successive single searches %r" % (
                            nm, c, pos, chain), dict(tag, family="count"))
    for d in (0, 1):
        a = raw.get(("apply", d, 1, 1))
        if isinstance(raw[("dfs", d)], str):
            return ("document_for_search raised", {"dir": d, "family": "raise"})
        if a is None:
            continue
        t, c, bw, bc = raw[("dfs", d)]
        if (t, c) != (wl[a[0]], a[1]) or (bw, bc) != (wi, cur):
            return ("document_for_search is not the document apply_search(include_current_position=True) moves to, or computing it moved the buffer",
                    {"dir": d, "family": "preview"})
    return None


def oracle_document(case, res):
    """Document.find / find_backwards, what the property states:
    count 1, non-empty needle: the nearest occurrence after (at, with
    include_current_position) the cursor resp. wholly before it, None iff there
    is none.  count >= 2: a returned offset is a real occurrence on the right
    side of the cursor (whether the count-th is counted with or without
    overlaps - re.finditer counts without - is code semantics: modelled, proved
    as C16_find_*_nth and tied by correspondence only)."""
    _, t_s, cur, sub_s, ic, count = case
    t, sub = unS(t_s), unS(sub_s)
    L = len(sub)
    if count < 1 or not sub:
        return None
    ps = occs(ic, sub, t)
    sides = ((lambda q: q >= cur + 1, "find"), (lambda q: q >= cur, "find(include_current_position)"),
             (lambda q: q + L <= cur, "find_backwards"))
    for k, (ok, name) in enumerate(sides):
        side = [q for q in ps if ok(q)]
        fam = "doc-find-backwards" if k == 2 else "doc-find"
        if count == 1:
            want = [] if not side else [(side[-1] if k == 2 else side[0]) - cur]
            if res[k] != want:
                return ("Document.%s: not the nearest occurrence on that side of the cursor" % name, {"family": fam, "count": 1})
        else:
            # the count-th occurrence on that side, counted with overlaps (every
            # occurrence) or without (re.finditer, the code): both readings are accepted
            order = side[::-1] if k == 2 else side
            acc = set()
            acc.add(order[count - 1] - cur if len(order) >= count else None)
            nov, last = [], None
            for q in order:
                if last is None or (q >= last + max(1, L) if k != 2 else q + max(1, L) <= last):
                    nov.append(q)
                    last = q
            acc.add(nov[count - 1] - cur if len(nov) >= count else None)
            got = res[k][0] if res[k] else None
            if got not in acc:
                return ("Document.%s(count=%d) answered %r: neither the count-th occurrence on that side of the cursor "
                        "counted with overlaps nor without (%r)" % (name, count, got, sorted(acc, key=lambda x: (x is None, x))),
                        {"family": fam, "count": 2})
    return None


# --------------------------------------------------------------------------
# implementation runner: key-level sessions on a real PromptSession

class Sess:
    """One PromptSession whose KeyProcessor is driven directly (inside set_app,
    inside a running asyncio loop, never through prompt())."""

    def __init__(self, vi, ic, history=None, ro=False):
        from prompt_toolkit.enums import EditingMode
        from prompt_toolkit.history import InMemoryHistory
        from prompt_toolkit.input.defaults import create_pipe_input
        from prompt_toolkit.output import DummyOutput
        from prompt_toolkit.shortcuts import PromptSession
        self.vi, self.ic = vi, ic
        self._inp_cm = create_pipe_input()
        self.inp = self._inp_cm.__enter__()
        self.s = PromptSession(message="", input=self.inp, output=DummyOutput(),
                               history=InMemoryHistory(history or []),
                               editing_mode=EditingMode.VI if vi else EditingMode.EMACS,
                               search_ignore_case=bool(ic))
        self.app = self.s.app
        self.buf = self.s.default_buffer
        self.ctrl = self.s.layout.current_control
        assert self.ctrl.buffer is self.buf
        self.ro = bool(ro)
        if ro:
            from prompt_toolkit.filters import to_filter
            self.buf.read_only = to_filter(True)
        self.seen = []
        orig = self.ctrl._create_get_processed_line_func

        def spy(document, w, h):
            self.seen.append(document)
            return orig(document, w, h)
        self.ctrl._create_get_processed_line_func = spy

    def close(self):
        self._inp_cm.__exit__(None, None, None)

    def reset(self, wl, wi, cur):
        from prompt_toolkit.key_binding.vi_state import InputMode
        from prompt_toolkit.search import SearchDirection
        app = self.app
        app.layout.search_links.clear()
        app.layout.focus(self.buf)
        self.s.search_buffer.reset()
        set_state(self.buf, wl, wi, cur)
        ss = self.ctrl.search_state
        ss.text = ""
        ss.direction = SearchDirection.FORWARD
        app.key_processor.reset()
        app.vi_state.reset()
        app.vi_state.input_mode = InputMode.NAVIGATION if self.vi else InputMode.INSERT

    def shown(self):
        self.ctrl.create_content(80, 10)
        return self.seen[-1]

    def observe(self):
        from prompt_toolkit.search import SearchDirection
        d = self.shown()
        del self.seen[:]
        ss = self.ctrl.search_state
        b = self.buf
        return [b.working_index, b.cursor_position, [S(x) for x in b._working_lines],
                S(self.s.search_buffer.text), self.s.search_buffer.cursor_position,
                1 if self.app.layout.is_searching else 0,
                S(ss.text), 0 if ss.direction == SearchDirection.FORWARD else 1,
                S(d.text), d.cursor_position]

    def press(self, k):
        from prompt_toolkit.key_binding.key_processor import KeyPress
        from prompt_toolkit.keys import Keys
        kp = self.app.key_processor
        code = k[0]
        seq = []
        if code == 1:
            seq = [(Keys.ControlR, "\x12")]
        elif code == 2:
            seq = [(Keys.ControlS, "\x13")]
        elif code == 3:
            seq = [(chr(k[1]), chr(k[1]))]
        elif code == 4:
            seq = [(Keys.ControlM, "\r")]
        elif code == 5:
            seq = [(Keys.ControlG, "\x07")]
        elif code == 6:
            seq = [(Keys.ControlH, "\x7f")]
        elif code == 7:
            seq = [(Keys.Escape, "\x1b")]
        elif code in (8, 9) and getattr(self, "ro", False):
            # emacs: the repeat count is a numeric argument (Escape digit)
            ch = "n" if code == 8 else "N"
            seq = ([(Keys.Escape, "\x1b"), (str(k[1]), str(k[1]))] if k[1] != 1 else []) + [(ch, ch)]
        elif code in (8, 9):
            ch = "n" if code == 8 else "N"
            seq = ([(str(k[1]), str(k[1]))] if k[1] != 1 else []) + [(ch, ch)]
        elif code == 10:
            seq = [("/", "/")]
        elif code == 11:
            seq = [("?", "?")]
        elif code == 12:
            seq = [(Keys.Up, "")]
        elif code == 13:
            seq = [(Keys.Down, "")]
        elif code in (14, 15, 16, 17, 18):
            kk = {14: Keys.Left, 15: Keys.Right, 16: Keys.Home, 17: Keys.End, 18: Keys.Delete}[code]
            seq = [(kk, "")]
        elif code in (19, 20):
            ch = "*" if code == 19 else "#"
            seq = ([(str(k[1]), str(k[1]))] if k[1] != 1 else []) + [(ch, ch)]
        else:
            raise ValueError(k)
        for key, data in seq:
            kp.feed(KeyPress(key, data))
        kp.process_keys()


class Sess2(Sess):
    """A hand-built Application: two BufferControls (A, B) that share ONE
    SearchBufferControl, emacs bindings; KeyProcessor driven directly."""

    def __init__(self, ic):
        from prompt_toolkit.application import Application
        from prompt_toolkit.buffer import Buffer
        from prompt_toolkit.input.defaults import create_pipe_input
        from prompt_toolkit.layout import HSplit, Layout, Window
        from prompt_toolkit.layout.controls import BufferControl, SearchBufferControl
        from prompt_toolkit.output import DummyOutput
        self.vi, self.ic = 0, ic
        self._inp_cm = create_pipe_input()
        self.inp = self._inp_cm.__enter__()
        self.sbuf = Buffer()
        self.sc = SearchBufferControl(buffer=self.sbuf, ignore_case=bool(ic))
        self.bufs = [Buffer(), Buffer()]
        self.ctrls = [BufferControl(buffer=b, search_buffer_control=self.sc, preview_search=True) for b in self.bufs]
        self.app = Application(layout=Layout(HSplit([Window(self.ctrls[0]), Window(self.ctrls[1]), Window(self.sc)]),
                                             focused_element=self.ctrls[0]),
                               input=self.inp, output=DummyOutput())
        self.seen = [[], []]
        for j in (0, 1):
            orig = self.ctrls[j]._create_get_processed_line_func

            def spy(document, w, h, _j=j, _orig=orig):
                self.seen[_j].append(document)
                return _orig(document, w, h)
            self.ctrls[j]._create_get_processed_line_func = spy
        self.focus = 0

    def reset2(self, a, b):
        from prompt_toolkit.search import SearchDirection
        app = self.app
        app.layout.search_links.clear()
        app.layout.focus(self.ctrls[0])
        self.focus = 0
        self.sbuf.reset()
        set_state(self.bufs[0], *a)
        set_state(self.bufs[1], *b)
        ss = self.sc.searcher_search_state
        ss.text = ""
        ss.direction = SearchDirection.FORWARD
        app.key_processor.reset()

    def switch(self):
        self.focus = 1 - self.focus
        self.app.layout.focus(self.ctrls[self.focus])

    def observe2(self):
        from prompt_toolkit.search import SearchDirection
        docs = []
        for j in (0, 1):
            self.ctrls[j].create_content(80, 10)
            docs.append(self.seen[j][-1])
            del self.seen[j][:]
        f, o = self.focus, 1 - self.focus
        ss = self.sc.searcher_search_state
        if self.ctrls[0].search_state is not ss or self.ctrls[1].search_state is not ss:
            raise RuntimeError("the two controls do not share one SearchState")
        b, ob = self.bufs[f], self.bufs[o]
        # while searching, the focus is on the search field and the target is the control that had it
        tgt = self.app.layout.search_target_buffer_control
        if self.app.layout.is_searching and tgt is not self.ctrls[f]:
            raise RuntimeError("search target is not the control that had the focus")
        main = [b.working_index, b.cursor_position, [S(x) for x in b._working_lines],
                S(self.sbuf.text), self.sbuf.cursor_position, 1 if self.app.layout.is_searching else 0,
                S(ss.text), 0 if ss.direction == SearchDirection.FORWARD else 1,
                S(docs[f].text), docs[f].cursor_position]
        return [main, 1 if f == 0 else 0, ob.working_index, ob.cursor_position, [S(x) for x in ob._working_lines],
                S(docs[o].text), docs[o].cursor_position]


def impl_shared_case(sess, case):
    from prompt_toolkit.application.current import set_app
    _, wa, ia, ca, wb, ib, cb, ic, keys = case
    out, trace = [], []
    with set_app(sess.app):
        sess.reset2(([unS(x) for x in wa], ia, ca), ([unS(x) for x in wb], ib, cb))
        prev = sess.observe2()
        for k in keys:
            searching = prev[0][5]
            if (k[0] == 21 and searching) or (k[0] != 21 and not enabled(0, searching, k)):
                out.append(-2)
                break
            try:
                if k[0] == 21:
                    sess.switch()
                else:
                    with_watchdog(lambda: sess.press(k), 10)
                obs = sess.observe2()
            except Hang:
                out.append(-98)
                trace.append((prev, k, "hang"))
                break
            except Exception as e:  # noqa
                out.append(-3)
                trace.append((prev, k, "raise %s: %s" % (type(e).__name__, e)))
                break
            out.append(obs)
            trace.append((prev, k, obs))
            prev = obs
    return out, trace


def oracle_shared(case, trace):
    """The control that is not being searched keeps text, cursor, index and
    shows its own document; the searched one obeys the single-control clauses."""
    ic = case[7]
    sub = []
    for prev, k, obs in trace:
        if isinstance(obs, str):
            return ("key %s: %s" % (KEYNAMES.get(k[0], "switch"), obs), {"key": KEYNAMES.get(k[0], "switch"), "family": "raise", "layout": "shared"})
        if k[0] == 21:
            continue
        if obs[2:5] != prev[2:5]:
            return ("key %s changed the buffer of the control that is not searched" % KEYNAMES[k[0]],
                    {"key": KEYNAMES[k[0]], "family": "shared-other", "layout": "shared"})
        ot = unS(obs[4][obs[2]])
        if (unS(obs[5]), obs[6]) != (ot, obs[3]):
            return ("the control that is not searched displays a search preview", {"key": KEYNAMES[k[0]], "family": "shared-preview", "layout": "shared"})
        sub.append((prev[0], k, obs[0]))
    bad = oracle_session([3, 0, None, None, None, ic, None], sub)
    if bad:
        return (bad[0], dict(bad[1], layout="shared"))
    return None


def gen_shared_cases(chk, dist):
    rng = chk.rng
    thorough = chk.tier == "thorough"
    cases = []
    for _ in range(2500 if thorough else 350):
        hs = []
        for _j in (0, 1):
            h = ["".join(rng.choice(["a", "a", "A", "b", ".", "\n"]) for _ in range(rng.randint(0, 4)))
                 for _ in range(rng.randint(1, 4))]
            wi = rng.randrange(len(h))
            hs.append((h, wi, rng.randint(0, len(h[wi]))))
        keys, searching, flen = [], False, 0
        for _k in range(rng.randint(3, 14)):
            if not searching and rng.random() < 0.25:
                keys.append([21])
                continue
            k = rand_keys_one(rng, searching)
            keys.append(k)
            c = k[0]
            if not searching:
                if c in (1, 2):
                    searching = True
            elif c in (4, 5, 7):
                searching = False
        cases.append([4, [S(x) for x in hs[0][0]], hs[0][1], hs[0][2], [S(x) for x in hs[1][0]], hs[1][1], hs[1][2],
                      rng.randint(0, 1), keys])
    dist["shared_search_field_sessions"] = len(cases)
    return cases


def rand_keys_one(rng, searching):
    while True:
        if searching:
            k = rng.choice([[1], [2], [1], [3], [3], [3], [4], [4], [5], [6], [7], [12], [13], [14], [15], [16], [17], [18]])
        else:
            k = rng.choice([[1], [2], [1], [3], [6]])
        if k[0] == 3:
            k = [3, ord(rng.choice(["a", "a", "A", "b", "."]))]
        if enabled(0, searching, k):
            return k


def enabled(vi, searching, k):
    """Keys of the model in this state (mirror of key_step's None cases; the
    generator only emits these)."""
    c = k[0]
    if searching:
        if c in (8, 9, 19, 20):
            return False
        if vi == 1 and c in (7, 12, 13):
            return False
        return True
    if vi == 1:
        return c in (8, 9, 10, 11, 19, 20)
    if vi == "ro":       # emacs mode, read-only main buffer (key_step_ro)
        return c in (1, 2, 8, 9, 10, 11)
    return c in (1, 2, 3, 6, 10, 11)


def impl_session_case(sess, case, patience=5):
    """-> (canonical list per key, trace for the oracle)"""
    from prompt_toolkit.application.current import set_app
    if case[0] == 7:
        _, wl_s, wi, cur, ic, keys = case
        mode = "ro"
        if not getattr(sess, "ro", False):
            raise RuntimeError("a read-only case needs a read-only session")
    else:
        _, mode, wl_s, wi, cur, ic, keys = case
    wl = [unS(x) for x in wl_s]
    out, trace = [], []
    with set_app(sess.app):
        sess.reset(wl, wi, cur)
        prev = sess.observe()
        for k in keys:
            if not enabled(mode, prev[5], k):
                out.append(-2)
                break
            if k[0] in (19, 20):
                # the word under the cursor is an input of the model (C02 models
                # Document.get_word_under_cursor); it is read off the real document
                k[2:] = [S(sess.buf.document.get_word_under_cursor())]
            try:
                with_watchdog(lambda: sess.press(k), patience)
                obs = sess.observe()
            except Hang:
                out.append(-98)
                trace.append((prev, k, "hang"))
                break
            except Exception as e:  # noqa
                out.append(-3)
                trace.append((prev, k, "raise %s: %s" % (type(e).__name__, e)))
                break
            out.append(obs)
            trace.append((prev, k, obs))
            prev = obs
    return out, trace


def oracle_session(case, trace):
    ro = False
    if case[0] == 7:        # emacs, read-only main buffer: "/" "?" start a search, n / N repeat it
        ro = True
        case = [3, 0] + list(case[1:])
    _, mode, wl_s, wi0, cur0, ic, keys = case
    nav_since_start = False       # C-r/C-s/Up/Down pressed while searching, since this search was started
    for prev, k, obs in trace:
        kn = KEYNAMES[k[0]]
        if isinstance(obs, str):
            return ("key %s: %s" % (kn, obs), {"key": kn, "family": "raise"})
        pw, pc, pwl, pfield, pfcur, psearch, psst, psd, ppt, ppc = prev
        w, c, wl_, field, fcur_, search, sst, sd, pt, pcur = obs
        main_same = (w, c, wl_) == (pw, pc, pwl)
        lines = [unS(x) for x in pwl]
        if wl_ != pwl and psearch:
            return ("key %s while searching changed the text of the main buffer" % kn, {"key": kn, "family": "text"})
        if psearch and k[0] in TYPING and not (mode and k[0] == 6 and not pfield):
            # typing in the search field
            if not main_same:
                return ("typing %s in the search field moved the real cursor or changed the text" % kn,
                        {"key": kn, "family": "typing"})
        elif not psearch and k[0] in (1, 2, 10, 11) and (mode or ro or k[0] in (1, 2)):
            nav_since_start = False
            if not main_same:
                return ("starting a search moved the real cursor", {"key": kn, "family": "start"})
        elif psearch and k[0] in (4, 7):
            # accept: the document displayed before the key is where we are now
            # (a Vi session returns to navigation mode, which never leaves the
            # cursor after the last character of a non-empty line)
            if not pfield and not psst:
                continue        # empty needle: outside the property
            want = (unS(ppt), fix_start(mode, unS(ppt), ppc))
            if not search and (unS(wl_[w]), c) != want:
                fam = "preview"
                if not pfield:
                    # finding C16-F1 is exactly: nothing typed, and Enter lands where a correct
                    # search for the REMEMBERED text (stored direction, current position
                    # included) lands.  Any other landing is a different defect.
                    bad = oracle_single(lines, pw, pc, unS(psst), psd, ic, 1, (w, c))
                    if bad:
                        return ("accept with an empty field and remembered text %r: %s" % (unS(psst), bad[0]),
                                {"key": "accept", "family": bad[1], "dir": psd})
                    fam = "accept-empty-field-remembered-text"
                return ("accepting the search moved to entry %d cursor %d but the display before the key showed %r cursor %d" % (
                    w, c, unS(ppt), ppc), {"key": "accept", "family": fam})
        elif psearch and (k[0] == 5 or (mode and k[0] == 6 and not pfield)):
            # abort.  The property says nothing about abort itself; it does say that typing
            # alone never moves the real cursor: a search that was started, only typed into
            # and aborted must leave everything as it was (modulo Vi's end-of-line rule).
            # Once C-r/C-s/Up/Down moved the cursor during the search, staying there or
            # going back to the start (the docstring's promise) are both acceptable.
            if not nav_since_start and (wl_ != pwl or w != pw or c != fix_start(mode, unS(pwl[pw]), pc)):
                return ("a search that was only typed into and then aborted moved the real cursor or changed the text",
                        {"key": kn, "family": "abort-after-typing-only"})
        elif (psearch and k[0] in (1, 2, 12, 13)) or (not psearch and k[0] in (8, 9, 19, 20)):
            if psearch:
                nav_since_start = True
                d = 1 if k[0] in (1, 12) else 0
                needle, count = unS(pfield), 1
                if d != psd and main_same:
                    continue        # a direction change alone only turns the search around
            elif k[0] in (19, 20):
                d = 0 if k[0] == 19 else 1
                needle, count = unS(k[2]), k[1]
            else:
                d = psd if k[0] == 8 else 1 - psd
                needle, count = unS(psst), k[1]
            if needle and count == 1:
                cands = [None, (w, c)] if main_same else [(w, c)]
                bads = [oracle_single(lines, pw, pc, needle, d, ic, 0, r) for r in cands]
                if all(bads):
                    b = bads[-1]
                    return ("key %s: %s" % (kn, b[0]), {"key": kn, "family": b[1], "dir": d})
    return None


# --------------------------------------------------------------------------
# kinds 5 and 6: what `re` does with re.escape(needle) and with one character
# under IGNORECASE (Model/C16_Regex.v)

OUTSIDE_ESCAPES = "0123456789xuUN"     # numeric / hex / unicode escapes: not modelled (re.escape never makes them)


def sre_parse_literals(p):
    """-> list of code points when the sre parser reads `p` as a plain literal
    sequence, else None (also None for the escapes outside the model)."""
    import warnings
    from re import _parser
    i = 0
    while i < len(p):
        if p[i] == "\\":
            if i + 1 < len(p) and p[i + 1] in OUTSIDE_ESCAPES:
                return None
            i += 2
        elif p[i] in "[(":
            return None     # sets (a one-element set is a LITERAL for the parser), groups / flags / comments: not modelled
        else:
            i += 1
    try:
        with warnings.catch_warnings():
            warnings.simplefilter("ignore")
            items = list(_parser.parse(p))
    except Hang:
        raise
    except Exception:  # noqa  (re.error, RecursionError, ...)
        return None
    out = []
    for op, av in items:
        if str(op) != "LITERAL":
            return None
        out.append(int(av))
    return out


def impl_regex_case(case):
    s = unS(case[1])
    esc = re.escape(s)
    a = sre_parse_literals(s)
    b = sre_parse_literals(esc)
    return [S(esc), [] if a is None else [a], [] if b is None else [b]]


def oracle_regex(case, res):
    """The needle is searched literally: the escaped pattern is the needle's own
    characters as literals, and it matches the needle itself."""
    s = unS(case[1])
    if res[2] != [[ord(c) for c in s]]:
        return ("re.escape(%r) = %r is not read back by the regex parser as the literal characters of the needle (got %r)" % (
            s, unS(res[0]), res[2]), {"family": "escape", "op": "re.escape"})
    try:
        if re.fullmatch(re.escape(s), s) is None:
            return ("re.escape(%r) does not match the needle itself" % s, {"family": "escape", "op": "re.escape"})
    except re.error as e:
        return ("re.escape(%r) does not compile: %s" % (s, e), {"family": "escape", "op": "re.escape"})
    return None


def impl_fold_case(case):
    _, p, t = case
    return [1 if re.fullmatch(re.escape(chr(p)), chr(t), re.IGNORECASE) is not None else 0,
            1 if re.fullmatch(re.escape(chr(t)), chr(p), re.IGNORECASE) is not None else 0]


def oracle_fold(case, res):
    _, p, t = case
    if p < 128 and t < 128:
        want = 1 if chr(p).lower() == chr(t).lower() else 0
        if res != [want, want]:
            return ("ignore-case comparison of %r and %r answers %r" % (chr(p), chr(t), res), {"family": "casefold", "op": "re.IGNORECASE"})
    if p == t and res != [1, 1]:
        return ("%r does not match itself under IGNORECASE" % chr(p), {"family": "casefold", "op": "re.IGNORECASE"})
    return None


REGEX_ALPHA = sorted(set("()[]{}?*+-|^$\\.&~# \t\n\r\v\f" + "anbdswAZ01,xuN" + "\u00e9\u017f"))


def gen_regex_cases(chk, dist):
    rng = chk.rng
    thorough = chk.tier == "thorough"
    cases = [[5, S("")]]
    for n in (1, 2):
        for t in itertools.product(REGEX_ALPHA, repeat=n):
            cases.append([5, S("".join(t))])
    k3 = 20000 if thorough else 1500
    for _ in range(k3):
        cases.append([5, S("".join(rng.choice(REGEX_ALPHA) for _ in range(3)))])
    for _ in range(6000 if thorough else 600):
        cases.append([5, S("".join(rng.choice(REGEX_ALPHA) for _ in range(rng.randint(4, 9))))])
    # patterns that ARE escaped needles followed by one more character (a trailing backslash, an unescaped special)
    for _ in range(3000 if thorough else 300):
        nd = "".join(rng.choice(REGEX_ALPHA) for _ in range(rng.randint(0, 4)))
        cases.append([5, S(re.escape(nd) + rng.choice(REGEX_ALPHA))])
    dist["regex_escape_parse"] = len(cases)
    return cases


def impl_finditer_case(case):
    from prompt_toolkit.document import Document
    _, t, nd, ic = case
    text, needle = unS(t), unS(nd)
    starts = [m.start() for m in re.finditer(re.escape(needle), text, re.IGNORECASE if ic else 0)]
    d = Document(text, len(text) // 2)
    if d.find_all(needle, ignore_case=bool(ic)) != starts:
        return ["find_all differs from re.finditer"]
    f0 = d.find(needle, include_current_position=False, ignore_case=bool(ic), count=1)
    f1 = d.find(needle, include_current_position=True, ignore_case=bool(ic), count=2)
    fb = d.find_backwards(needle, ignore_case=bool(ic), count=1)
    return [[starts]] + [[[] if x is None else [x]] for x in (f0, f1, fb)]


def oracle_finditer(case, res):
    """What the yielded starts must be, from naively enumerated occurrences: real
    occurrences, increasing, and every occurrence is yielded or overlapped by an
    earlier yielded one (leftmost, nothing skipped)."""
    _, t, nd, ic = case
    text, needle = unS(t), unS(nd)
    if not (isinstance(res, list) and len(res) == 4):
        return ("%r" % (res,), {"family": "finditer", "op": "re.finditer"})
    ys = res[0][0]
    O = occs(ic, needle, text)
    L = max(1, len(needle))
    if any(y not in O for y in ys):
        return ("re.finditer(re.escape(%r), %r) yields %r: not all real occurrences" % (needle, text, ys), {"family": "real", "op": "re.finditer"})
    if any(b < a + L for a, b in zip(ys, ys[1:])):
        return ("re.finditer(re.escape(%r), %r) yields overlapping or unordered matches %r" % (needle, text, ys), {"family": "finditer", "op": "re.finditer"})
    for o in O:
        if o not in ys and not any(y < o < y + L for y in ys):
            return ("re.finditer(re.escape(%r), %r) = %r skips the occurrence at %d" % (needle, text, ys, o), {"family": "skip-entry", "op": "re.finditer"})
    return None


def gen_finditer_cases(chk, dist):
    rng = chk.rng
    thorough = chk.tier == "thorough"
    cases = []
    nds = texts_upto(["a", "A", "b"], 2)
    p = 1.0 if thorough else 0.25
    for t in texts_upto(["a", "A", "b"], 4):
        for nd in nds:
            for ic in (0, 1):
                if p >= 1.0 or rng.random() < p:
                    cases.append([8, S(t), S(nd), ic])
    for _ in range(6000 if thorough else 600):
        al = rng.choice([["a", "b"], ["a", "A", "\n"], FOLD_ALPHA, ["a", ".", "*", "\\", "{", "[", "("]])
        t = "".join(rng.choice(al) for _ in range(rng.randint(0, 12)))
        if t and rng.random() < 0.6:
            a = rng.randrange(len(t))
            nd = t[a:a + rng.choice([1, 1, 2, 2, 3])]
        else:
            nd = "".join(rng.choice(al) for _ in range(rng.randint(0, 3)))
        cases.append([8, S(t), S(nd), rng.randint(0, 1)])
    dist["finditer_escaped_needle"] = len(cases)
    return cases


def case_variants(c):
    out = {c}
    for f in (str.lower, str.upper, str.title, str.casefold, str.swapcase):
        for x in list(out):
            y = f(x)
            if len(y) == 1:
                out.add(y)
    return out


def cased_chars():
    import _sre
    return [c for c in range(0x110000) if _sre.unicode_iscased(c)]


def gen_fold_cases(chk, dist):
    rng = chk.rng
    thorough = chk.tier == "thorough"
    cases = []
    for p in range(128):
        for t in range(128):
            if thorough or rng.random() < 0.2:
                cases.append([6, p, t])
    cased = cased_chars()
    ps = cased if thorough else rng.sample(cased, 700)
    for p in ps:
        vs = sorted(case_variants(chr(p)))
        for v in vs:
            cases.append([6, p, ord(v)])
            for v2 in sorted(case_variants(v)):
                cases.append([6, p, ord(v2)])
        cases.append([6, p, rng.choice(cased)])
        cases.append([6, p, rng.randrange(0x110000)])
        cases.append([6, rng.randrange(0x110000), p])
    # the characters sre treats specially (re._casefix._EXTRA_CASES), among each other
    try:
        from re import _casefix
        ex = sorted(set(_casefix._EXTRA_CASES) | set(x for v in _casefix._EXTRA_CASES.values() for x in v))
    except Exception:  # noqa
        ex = []
    for p in ex:
        for t in ex:
            if thorough or rng.random() < 0.15:
                cases.append([6, p, t])
    for _ in range(5000 if thorough else 500):
        cases.append([6, rng.randrange(0x110000), rng.randrange(0x110000)])
    dist["ignorecase_char_pairs"] = len(cases)
    return cases


def gen_unicode_buffer_cases(chk, dist):
    """Buffer cases whose alphabet is a random cased character of ANY script with its case variants."""
    rng = chk.rng
    thorough = chk.tier == "thorough"
    cased = cased_chars()
    cases = []
    for _ in range(4000 if thorough else 300):
        al = set()
        for _j in range(rng.choice([1, 1, 2])):
            al |= case_variants(chr(rng.choice(cased)))
        al = sorted(al) + rng.choice([[], ["."], ["a"], ["\n"]])
        n = rng.choice([1, 2, 3])
        h = ["".join(rng.choice(al) for _ in range(rng.choice([0, 1, 2, 3, 4]))) for _ in range(n)]
        wi = rng.randrange(n)
        cur = rng.randint(0, len(h[wi]))
        nd = "".join(rng.choice(al) for _ in range(rng.choice([1, 1, 2])))
        cases.append([1, [S(x) for x in h], wi, cur, S(nd), rng.choice([1, 1, 1, 0])])
    dist["random_history_any_cased_script"] = len(cases)
    return cases


def gen_ro_cases(chk, dist):
    """emacs sessions on a read-only main buffer: / ? C-r C-s start, n / N (with Escape-digit counts) repeat."""
    rng = chk.rng
    thorough = chk.tier == "thorough"
    cases = []
    for _ in range(3000 if thorough else 400):
        if rng.random() < 0.5:
            h = rng.choice(SESSION_HISTORIES)
        else:
            h = ["".join(rng.choice(["a", "a", "A", "b", ".", "\n"]) for _ in range(rng.randint(0, 4)))
                 for _ in range(rng.randint(1, 5))]
        wi = rng.choice([len(h) - 1, rng.randrange(len(h))])
        cur = rng.randint(0, len(h[wi]))
        keys, searching = [], False
        for _k in range(rng.randint(3, 12)):
            if searching:
                k = rng.choice([[1], [2], [3], [3], [3], [4], [4], [4], [5], [6], [7], [12], [13], [14], [15], [18]])
                if k[0] == 3:
                    k = [3, ord(rng.choice(["a", "a", "A", "b", ".", "n", "N", "/"]))]
                if k[0] in (4, 5, 7):
                    searching = False
            else:
                k = rng.choice([[1], [2], [10], [10], [11], [8], [8], [8], [9], [9]])
                if k[0] in (8, 9):
                    k = [k[0], rng.choice([1, 1, 1, 2, 3, 0])]
                else:
                    searching = True
            keys.append(k)
        cases.append([7, [S(x) for x in h], wi, cur, rng.randint(0, 1), keys])
    # systematic: start (/ ? C-r C-s), type one needle, Enter, then every n / N sequence of length <= 3
    # (the landing of Enter is a match start: n must leave it, N must turn around)
    nseq = 0
    for h in SESSION_HISTORIES:
        for st in ([10], [11], [1], [2]):
            for nd in ("a", "b"):
                for n in (1, 2, 3):
                    for tail in itertools.product([8, 9], repeat=n):
                        if not thorough and rng.random() > 0.3:
                            continue
                        wi = rng.randrange(len(h))
                        cur = rng.randint(0, len(h[wi]))
                        keys = [list(st), [3, ord(nd)], [4]] + [[t, rng.choice([1, 1, 1, 2])] for t in tail]
                        cases.append([7, [S(x) for x in h], wi, cur, rng.randint(0, 1), keys])
                        nseq += 1
    dist["emacs_read_only_sessions"] = len(cases) - nseq
    dist["emacs_read_only_search_then_n_N"] = nseq
    return cases


def check_sre_tables(chk):
    """The tables behind Model/C16_Regex.v (regenerated by gen/gen_t_c16.py) against `re` itself over ALL of
    Unicode: thorough = every cased pattern character + 20000 uncased ones, quick = a random sample."""
    sys.path.insert(0, os.path.join(VERIF, "gen"))
    try:
        import gen_t_c16
        T = gen_t_c16.sre_tables()
    except SystemExit:
        chk.violation("tie", "gen/gen_t_c16.py could not read CPython's re tables", {"kind": "sre-tables"}, {}, no_input=True)
        return
    finally:
        sys.path.pop(0)
    rng = chk.rng
    thorough = chk.tier == "thorough"
    cased = set(T["cased"])
    ps = sorted(cased) if thorough else rng.sample(sorted(cased), 150)
    unc = []
    while len(unc) < (20000 if thorough else 400):
        c = rng.randrange(0x110000)
        if c not in cased:
            unc.append(c)
    bad = gen_t_c16.check_sre_rel(T, ps + unc, range(0x110000))
    chk.coverage["sre_tables_vs_re_all_unicode"] = {"cased_patterns": len(ps), "uncased_patterns": len(unc), "texts": 0x110000}
    if bad:
        chk.violation("tie", "re.IGNORECASE and the relation defined by _sre.unicode_tolower/unicode_iscased/_EXTRA_CASES "
                      "differ on pattern U+%04X text U+%04X" % bad, {"kind": "sre-tables"}, {"pattern": bad[0], "text": bad[1]}, no_input=True)


# --------------------------------------------------------------------------
# generators

def texts_upto(alpha, n):
    out = [""]
    for k in range(1, n + 1):
        out += ["".join(t) for t in itertools.product(alpha, repeat=k)]
    return out


def needles():
    return [x for x in texts_upto(NEEDLE_ALPHA, 2) if x]


def gen_buffer_cases(chk, dist):
    rng = chk.rng
    thorough = chk.tier == "thorough"
    nds = needles()
    cases = []

    def add(wl, wi, cur, nd, ic, kind):
        cases.append([1, [S(x) for x in wl], wi, cur, S(nd), ic])
        dist[kind] = dist.get(kind, 0) + 1

    # (a) one entry, exhaustive texts x cursors x needles x case modes (stratified in quick)
    t3 = texts_upto(ALPHA, 3)
    p = 1.0 if thorough else 0.08
    for t in t3:
        for cur in range(len(t) + 1):
            for nd in nds:
                for ic in (0, 1):
                    if p >= 1.0 or rng.random() < p:
                        add([t], 0, cur, nd, ic, "one_entry_len<=3")
    t4 = ["".join(x) for x in itertools.product(ALPHA, repeat=4)]
    p = 0.12 if thorough else 0.003
    for t in t4:
        for cur in range(5):
            for nd in nds:
                for ic in (0, 1):
                    if rng.random() < p:
                        add([t], 0, cur, nd, ic, "one_entry_len4")
    # (b) two and three entries: every history over short entries, every start entry/cursor
    t2 = texts_upto(ALPHA, 2)
    p = 0.25 if thorough else 0.012
    for h in itertools.product(t2, repeat=2):
        for wi in range(2):
            for cur in range(len(h[wi]) + 1):
                for nd in nds:
                    if rng.random() < p:
                        add(list(h), wi, cur, nd, rng.randint(0, 1), "two_entries_len<=2")
    t1 = texts_upto(["a", "A", "b", "."], 1) + ["aa", "ab", "a\n", "\na", "Aa", ".a"]
    p = 0.5 if thorough else 0.02
    for h in itertools.product(t1, repeat=3):
        for wi in range(3):
            for cur in range(len(h[wi]) + 1):
                for nd in ("a", "A", "b", ".", "aa", "ab", "\n", "a\n"):
                    if rng.random() < p:
                        add(list(h), wi, cur, nd, rng.randint(0, 1), "three_entries")
    # (c) random: longer histories (the wrap-around only visits one entry), length-4 entries, empty needle
    nrand = 30000 if thorough else 1500
    for _ in range(nrand):
        n = rng.choice([1, 2, 3, 3, 4, 5, 6])
        al = rng.choice([ALPHA, ALPHA, ["a", "b"], ["a", "A", "\n"], FOLD_ALPHA])
        h = ["".join(rng.choice(al) for _ in range(rng.choice([0, 1, 2, 3, 4, 4, 6]))) for _ in range(n)]
        wi = rng.randrange(n)
        cur = rng.randint(0, len(h[wi]))
        r = rng.random()
        if r < 0.05:
            nd = ""
        elif r < 0.5 and h[wi]:
            # a needle that does occur somewhere (possibly with other case)
            src = rng.choice([x for x in h if x] or ["a"])
            a = rng.randrange(len(src))
            nd = src[a:a + rng.choice([1, 1, 2, 3])]
            if rng.random() < 0.4:
                nd = nd.swapcase() if all(ch in "".join(ALPHA) for ch in nd) else nd
        else:
            nal = NEEDLE_ALPHA if al is not FOLD_ALPHA else FOLD_ALPHA
            nd = "".join(rng.choice(nal) for _ in range(rng.choice([1, 1, 2, 2, 3])))
        add(h, wi, cur, nd, rng.randint(0, 1), "random_history")
    return cases


def gen_document_cases(chk, dist):
    rng = chk.rng
    thorough = chk.tier == "thorough"
    cases = []
    t3 = texts_upto(ALPHA, 4 if thorough else 3)
    nds = needles() + [""]
    p = 0.05 if thorough else 0.03
    for t in t3:
        for cur in range(len(t) + 1):
            for nd in nds:
                if rng.random() < p:
                    cases.append([2, S(t), cur, S(nd), rng.randint(0, 1), rng.choice([1, 1, 1, 2, 3, 0, -1])])
    for _ in range(4000 if thorough else 600):
        t = "".join(rng.choice(["a", "a", "b", "A"]) for _ in range(rng.randint(0, 9)))
        nd = "".join(rng.choice(["a", "a", "b"]) for _ in range(rng.randint(0, 3)))
        cases.append([2, S(t), rng.randint(0, len(t)), S(nd), rng.randint(0, 1), rng.randint(-1, 5)])
    dist["document_find"] = len(cases)
    return cases


SESSION_HISTORIES = [
    ["ab a", "A b", ""],
    ["aa", "", "aaa"],
    ["b", "ab\nab", "a."],
    ["xa one", "b two a", "c a three", ""],
    ["a", "b", "a", "b", "a"],
]


def rand_keys(rng, vi, n, chars):
    keys, searching, flen = [], False, 0
    for _ in range(n):
        while True:
            if searching:
                k = rng.choice([[1], [2], [1], [3], [3], [3], [4], [4], [5], [6], [7], [12], [13], [10], [11],
                                [14], [14], [15], [16], [17], [18]])
            elif vi:
                k = rng.choice([[8], [9], [8], [10], [11], [10], [11], [19], [20]])
            else:
                k = rng.choice([[1], [2], [1], [3], [6]])
            if k[0] == 3:
                k = [3, ord(rng.choice(chars))]
            if k[0] in (8, 9):
                k = [k[0], rng.choice([1, 1, 1, 2, 3])]
            if k[0] in (19, 20):
                k = [k[0], rng.choice([1, 1, 1, 2]), []]
            if enabled(vi, searching, k):
                break
        keys.append(k)
        c = k[0]
        if not searching:
            if c in ((10, 11) if vi else (1, 2)):
                searching, flen = True, 0
        elif c in (4, 5, 7):
            searching = False
        elif c in (3, 10, 11):
            flen += 1
        elif c in (6, 18):
            # (the generator only needs to know whether the field can be empty:
            # it assumes every Backspace/Delete removed a character)
            if c == 6 and vi and flen == 0:
                searching = False
            flen = max(0, flen - 1)
    return keys


def fix_start(vi, t, cur):
    """In Vi navigation mode the cursor never sits after the last character of a non-empty line."""
    if not vi:
        return cur
    from prompt_toolkit.document import Document
    d = Document(t, cur)
    if d.is_cursor_at_the_end_of_line and len(d.current_line) > 0:
        return cur - 1
    return cur


def gen_session_cases(chk, dist):
    rng = chk.rng
    thorough = chk.tier == "thorough"
    cases = []

    def add(vi, h, wi, cur, ic, keys, kind):
        cases.append([3, vi, [S(x) for x in h], wi, fix_start(vi, h[wi], cur), ic, keys])
        dist[kind] = dist.get(kind, 0) + 1

    # exhaustive emacs key sequences over a small key set
    eks = [[1], [2], [3, 97], [4], [5], [6], [14]]
    maxlen = 6 if thorough else 5
    hs = SESSION_HISTORIES[:3] if thorough else SESSION_HISTORIES[:2]
    for h in hs:
        for n in range(1, maxlen + 1):
            for seq in itertools.product(eks, repeat=n):
                # must start a search first; Enter/C-g only while searching
                searching, ok = False, True
                for k in seq:
                    if not enabled(0, searching, k):
                        ok = False
                        break
                    if not searching and k[0] in (1, 2):
                        searching = True
                    elif searching and k[0] in (4, 5):
                        searching = False
                if not ok or seq[0][0] not in (1, 2):
                    continue
                if not thorough and rng.random() > (0.5 if n <= 4 else 0.25):
                    continue
                add(0, h, len(h) - 1, len(h[-1]), rng.randint(0, 1), [list(k) for k in seq], "emacs_exhaustive_keys")
    # random sessions, both modes
    for _ in range(8000 if thorough else 1200):
        vi = rng.randint(0, 1)
        if rng.random() < 0.5:
            h = rng.choice(SESSION_HISTORIES)
        else:
            h = ["".join(rng.choice(["a", "a", "A", "b", ".", "\n"]) for _ in range(rng.randint(0, 4)))
                 for _ in range(rng.randint(1, 5))]
        wi = rng.choice([len(h) - 1, rng.randrange(len(h))])
        cur = rng.randint(0, len(h[wi]))
        keys = rand_keys(rng, vi, rng.randint(2, 12), ["a", "a", "A", "b", ".", "*"])
        add(vi, h, wi, cur, rng.randint(0, 1), keys, "vi_random_keys" if vi else "emacs_random_keys")
    return cases


MALFORMED = [[], [1], [1, [], 0, 0, [], 0], [1, [[97]], 1, 0, [97], 0], [1, [[97]], 0, 2, [97], 0],
             [1, [[97]], 0, -1, [97], 0], [1, [[97]], 0, 0, [97], 2], [2, [97], 2, [97], 0, 1],
             [3, 0, [[97]], 0, 0, 0, [[99]]], [3, 2, [[97]], 0, 0, 0, []], [4], [1, [[[97]]], 0, 0, [97], 0],
             [5], [5, 3], [5, [[97]]], [6, -1, 5], [6, 1], [6, 5, -2], [7, [[97]], 0, 5, 0, []], [7, [[97]], 0, 0, 2, []], [7], [8], [8, [97], [97], 2], [8, 97, [97], 0]]


# --------------------------------------------------------------------------
# history loading through the real path (Buffer.load_history_if_not_yet_loaded)

async def check_history_load(chk):
    from prompt_toolkit.application.current import set_app
    rng = chk.rng
    n = 40 if chk.tier == "thorough" else 10
    for _ in range(n):
        h = ["".join(rng.choice(ALPHA) for _ in range(rng.randint(0, 4))) for _ in range(rng.randint(0, 5))]
        s = Sess(0, 0, history=h)
        try:
            with set_app(s.app):
                s.shown()
                for _ in range(len(h) + 5):
                    await asyncio.sleep(0)
                got = (list(s.buf._working_lines), s.buf.working_index)
                if got != (h + [""], len(h)):
                    chk.violation("tie", "history %r loaded into working lines %r (index %d): the model's state (working lines = history + [current], index = last) does not describe it" % (h, got[0], got[1]),
                                  {"kind": "history-load"}, {"history": h, "working_lines": got[0], "working_index": got[1]}, no_input=True)
                    return
        finally:
            s.close()
    chk.coverage["history_load_checked"] = n


# --------------------------------------------------------------------------

def describe(c, a, m):
    if c and c[0] == 1:
        return "working_lines=%r index=%d cursor=%d needle=%r ignore_case=%d impl=%r model=%r" % (
            [unS(x) for x in c[1]], c[2], c[3], unS(c[4]), c[5], a, m)
    if c and c[0] == 2:
        return "Document(%r,%d) find/find_backwards(%r, ignore_case=%d, count=%d) impl=%r model=%r" % (
            unS(c[1]), c[2], unS(c[3]), c[4], c[5], a, m)
    if c and c[0] == 4:
        return "two controls sharing one search field: A=%r index=%d cursor=%d B=%r index=%d cursor=%d ic=%d keys=%r" % (
            [unS(x) for x in c[1]], c[2], c[3], [unS(x) for x in c[4]], c[5], c[6], c[7],
            [("switch-focus" if k[0] == 21 else KEYNAMES[k[0]] + ("(%s)" % (chr(k[1]) if k[0] == 3 else k[1]) if len(k) > 1 else "")) for k in c[8]])
    if c and c[0] == 5 and len(c) == 2:
        return "pattern %r: re.escape / regex parser as literals: impl=%r model=%r" % (unS(c[1]), a, m)
    if c and c[0] == 8 and len(c) == 4:
        return "re.finditer(re.escape(%r), %r, ignore_case=%d) starts + find/find_backwards from the middle: impl=%r model=%r" % (unS(c[2]), unS(c[1]), c[3], a, m)
    if c and c[0] == 6 and len(c) == 3:
        return "IGNORECASE: pattern char U+%04X vs text char U+%04X (and swapped): impl=%r model=%r" % (c[1], c[2], a, m)
    if c and c[0] == 7 and len(c) == 6:
        return "session mode=emacs read-only lines=%r index=%d cursor=%d ic=%d keys=%r" % (
            [unS(x) for x in c[1]], c[2], c[3], c[4], [KEYNAMES[k[0]] + ("(%s)" % (chr(k[1]) if k[0] == 3 else k[1]) if len(k) > 1 else "") for k in c[5]])
    if c and c[0] == 3:
        return "session mode=%s lines=%r index=%d cursor=%d ic=%d keys=%r" % (
            "vi" if c[1] else "emacs", [unS(x) for x in c[2]], c[3], c[4], c[5], [KEYNAMES[k[0]] + ("(%s)" % (chr(k[1]) if k[0] == 3 else k[1]) if len(k) > 1 else "") for k in c[6]])
    return repr(c)


def tagger(c, a, m):
    if not c:
        return {"op": "malformed"}
    if c[0] == 1:
        if isinstance(m, list) and isinstance(a, list) and len(m) == 2 and len(a) == 2:
            for q, x, y in zip(QUERIES, a[0], m[0]):
                if x != y:
                    return {"op": "Buffer._search", "dir": q[0], "icp": q[1], "count": q[2]}
            return {"op": "document_for_search"}
        return {"op": "Buffer._search"}
    if c[0] == 2:
        return {"op": "Document.find"}
    if c[0] == 4:
        for j, (x, y) in enumerate(zip(a, m if isinstance(m, list) else [])):
            if x != y:
                return {"op": "shared-session", "key": KEYNAMES.get(c[8][j][0], "switch")}
        return {"op": "shared-session"}
    if c[0] == 3:
        for j, (x, y) in enumerate(zip(a, m if isinstance(m, list) else [])):
            if x != y:
                return {"op": "session", "key": KEYNAMES.get(c[6][j][0], "?"), "mode": c[1]}
        return {"op": "session"}
    if c[0] == 5:
        return {"op": "re.escape"}
    if c[0] == 6:
        return {"op": "re.IGNORECASE"}
    if c[0] == 8:
        return {"op": "re.finditer"}
    if c[0] == 7:
        for j, (x, y) in enumerate(zip(a, m if isinstance(m, list) else [])):
            if x != y:
                return {"op": "session", "key": KEYNAMES.get(c[5][j][0], "?"), "mode": "emacs-read-only"}
        return {"op": "session", "mode": "emacs-read-only"}
    return {"op": "malformed"}


async def run_sessions(chk, cases, results, traces, shared=None):
    sessions = {}
    try:
        if shared is not None:
            sh_cases, sh_results, sh_traces = shared
            s2 = {}
            try:
                for i, c in enumerate(sh_cases):
                    if c[7] not in s2:
                        s2[c[7]] = Sess2(c[7])
                    out, trace = impl_shared_case(s2[c[7]], c)
                    sh_results.append(out)
                    sh_traces.append(trace)
                    if any(isinstance(o, int) and o in (-3, -98) for o in out):
                        s2.pop(c[7]).close()
                    if i % 50 == 0:
                        await asyncio.sleep(0)
            finally:
                for x in s2.values():
                    x.close()
        def mk(key):
            return Sess(0, key[1], ro=True) if key[0] == "ro" else Sess(key[0], key[1])
        for i, c in enumerate(cases):
            key = ("ro", c[4]) if c[0] == 7 else (c[1], c[5])
            if key not in sessions:
                sessions[key] = mk(key)
            out, trace = impl_session_case(sessions[key], c)
            if any(isinstance(o, int) and o == -98 for o in out):
                # the 5 s wall-clock watchdog fired: on a loaded machine that can be a
                # descheduled process, so the case is re-run once on a fresh session
                # with a long watchdog; only a repeated hang is reported
                sessions.pop(key).close()
                sessions[key] = mk(key)
                chk.note("watchdog fired on a session case; re-run with a 60 s watchdog")
                out, trace = impl_session_case(sessions[key], c, patience=60)
            results.append(out)
            traces.append(trace)
            if any(isinstance(o, int) and o in (-3, -98) for o in out):
                sessions.pop(key).close()     # a handler raised: do not reuse this KeyProcessor
            if i % 50 == 0:
                await asyncio.sleep(0)
        await check_history_load(chk)
    finally:
        for s in sessions.values():
            s.close()


def main(tier):
    chk = Check(PROP, tier)
    pr = chk.proofs("Props/C16.v", tables=TABLES)
    okm, logm = build_model("c16", "Extract/ExC16.v", "run_C16", tables=TABLES)
    if not okm:
        chk.violation("tie", "model does not build: " + logm[-400:], {"kind": "model-build"}, {"log": logm[-3000:]}, no_input=True)
        if not os.path.exists(os.path.join(BUILD, "c16_model")):
            return chk.finish()
        chk.note("continuing with the previously built model binary to search for a failing input")

    dist = {}
    check_sre_tables(chk)
    bcases = gen_buffer_cases(chk, dist) + gen_unicode_buffer_cases(chk, dist)
    dcases = gen_document_cases(chk, dist)
    scases = gen_session_cases(chk, dist) + gen_ro_cases(chk, dist)
    rcases = gen_regex_cases(chk, dist)
    fcases = gen_fold_cases(chk, dist)
    itcases = gen_finditer_cases(chk, dist)
    corpus = load_corpus(PROP)
    cases, impl_results = [], []
    oracle_bad = set()

    def report(i, c, bad, extra):
        oracle_bad.add(i)
        clause, tags = bad
        chk.violation("oracle", "%s [%s]" % (clause, describe(c, extra, "-")), tags,
                      {"case": sx_norm(c), "clause": clause, "observed": extra,
                       "how": "see harness/c16.py replay(): kind 1 = Buffer with these working lines/index/cursor, "
                              "_search/apply_search/get_search_position/document_for_search for every (direction, include_current_position, count); "
                              "kind 2 = Document.find/find_backwards; kind 3 = keys fed to the KeyProcessor of a real PromptSession "
                              "(kind 7: the same with a read-only default buffer, emacs mode); kind 5 = re.escape + the regex parser on a pattern; "
                              "kind 6 = one pattern character against one text character under re.IGNORECASE; kind 8 = re.finditer(re.escape(needle), text, flags) starts"})

    tagged = [(c[0] if c and isinstance(c[0], int) else 0, c) for c in corpus]
    tagged += [(1, c) for c in bcases] + [(2, c) for c in dcases] + [(5, c) for c in rcases] + [(6, c) for c in fcases] + [(8, c) for c in itcases]
    tagged += [(0, m) for m in MALFORMED]
    corpus_sessions = [c for k, c in tagged if k in (3, 7)]
    for kind, c in tagged:
        if kind in (3, 4, 7):
            continue
        i = len(cases)
        cases.append(c)
        if kind == 1:
            try:
                out, raw = with_watchdog(lambda: impl_buffer_case(c), 10)
            except Hang:
                try:        # loaded machine? once more, with patience
                    out, raw = with_watchdog(lambda: impl_buffer_case(c), 120)
                except Exception as e:  # noqa
                    out, raw = ["raise", type(e).__name__], None
            except Exception as e:  # noqa
                out, raw = ["raise", type(e).__name__], None
            impl_results.append(out)
            nontrivial = False
            if raw is not None:
                nontrivial = any(isinstance(raw.get(q), tuple) and raw[q] != (c[2], c[3]) for q in QUERIES)
                bad = oracle_buffer(c, raw)
                if bad:
                    report(i, c, bad, out)
            chk.count_case(c, nontrivial)
            if i % 2503 == 0 and raw is not None:
                chk.sample({"working_lines": [unS(x) for x in c[1]], "index": c[2], "cursor": c[3], "needle": unS(c[4]),
                            "ignore_case": c[5], "impl_result_first_queries": out[0][:6]})
        elif kind == 2:
            try:
                out = with_watchdog(lambda: impl_document_case(c), 5)
            except Exception as e:  # noqa
                out = ["raise", type(e).__name__]
            impl_results.append(out)
            bad = oracle_document(c, out) if not (out and out[0] == "raise") else ("Document.find raised", {"family": "raise"})
            if bad:
                report(i, c, bad, out)
            chk.count_case(c, any(out))
        elif kind == 5 and len(c) == 2:
            try:
                out = with_watchdog(lambda: impl_regex_case(c), 5)
            except Exception as e:  # noqa
                out = ["raise", type(e).__name__]
            impl_results.append(out)
            bad = oracle_regex(c, out) if not (out and out[0] == "raise") else ("re.escape / parser raised", {"family": "raise", "op": "re.escape"})
            if bad:
                report(i, c, bad, out)
            chk.count_case(c, bool(out[0] != c[1]))
        elif kind == 8 and len(c) == 4:
            try:
                out = with_watchdog(lambda: impl_finditer_case(c), 5)
            except Exception as e:  # noqa
                out = ["raise", type(e).__name__]
            impl_results.append(out)
            bad = oracle_finditer(c, out)
            if bad:
                report(i, c, bad, out)
            chk.count_case(c, isinstance(out[0], list) and bool(out[0][0]))
        elif kind == 6 and len(c) == 3:
            try:
                out = impl_fold_case(c)
            except Exception as e:  # noqa
                out = ["raise", type(e).__name__]
            impl_results.append(out)
            bad = oracle_fold(c, out) if not (out and out[0] == "raise") else ("re raised", {"family": "raise", "op": "re.IGNORECASE"})
            if bad:
                report(i, c, bad, out)
            chk.count_case(c, c[1] != c[2] and 1 in out)
        else:
            impl_results.append([-999])     # malformed: the model must answer bad_case, nothing is run
            chk.count_case(c, False)

    # sessions (one running loop for all of them)
    sres, straces = [], []
    base = len(cases)
    scases = corpus_sessions + scases
    # the results gathered so far are millions of small lists: keep the cyclic
    # collector from walking them (a full collection took > 5 s in thorough and
    # tripped the per-key watchdog)
    import gc
    gc.collect()
    gc.freeze()
    shcases = gen_shared_cases(chk, dist) + [c for c in corpus if c and c[0] == 4]
    shres, shtraces = [], []
    asyncio.run(run_sessions(chk, scases, sres, straces, shared=(shcases, shres, shtraces)))
    for j, (c, out, trace) in enumerate(zip(scases, sres, straces)):
        i = base + j
        cases.append(c)
        impl_results.append(out)
        start = (c[2], c[3]) if c[0] == 7 else (c[3], c[4])
        moved = any(isinstance(o, list) and (o[0], o[1]) != start for o in out)
        chk.count_case(c, moved)
        bad = oracle_session(c, trace)
        if bad:
            report(i, c, bad, out[-2:])
        if j % 701 == 0:
            chk.sample({"session": describe(c, None, None), "last_observation": out[-1] if out else None})

    for c, out, trace in zip(shcases, shres, shtraces):
        i = len(cases)
        cases.append(c)
        impl_results.append(out)
        chk.count_case(c, any(isinstance(o, list) and (o[0][0], o[0][1]) != (c[2], c[3]) for o in out))
        bad = oracle_shared(c, trace)
        if bad:
            report(i, c, bad, out[-2:])

    dist["corpus"] = len(corpus)
    dist["malformed"] = len(MALFORMED)
    chk.coverage["input_distribution"] = dist

    model_results, nbad = correspondence(chk, "c16", cases, impl_results, tagger, describe=describe,
                                         oracle_failed=lambda i: i in oracle_bad)

    k = 900 if chk.tier == "thorough" else 250
    idx = sorted(chk.rng.sample(range(len(cases)), min(k, len(cases))))
    pairs = [(cases[i], impl_results[i]) for i in idx]
    bad, logs = vm_crosscheck(PROP, "run_C16", "Model.C16_Search", pairs, per_file=150)
    chk.coverage["vm_compute_crosschecked"] = len(pairs)
    model_bad = set(i for i, (a, m) in enumerate(zip(impl_results, model_results)) if sx_norm(a) != m)
    vm_bad = set(idx[b] for b in bad if isinstance(b, int))
    if any(not isinstance(b, int) for b in bad):
        chk.violation("tie", "vm_compute cross-check failed to run: " + (logs[0] if logs else ""), {"kind": "vm"}, {"log": logs}, no_input=True)
    if vm_bad != (model_bad & set(idx)):
        chk.violation("tie", "extracted model and in-Coq evaluation disagree on cases %r" % sorted(vm_bad ^ (model_bad & set(idx)))[:5],
                      {"kind": "extraction"}, {"cases": [cases[i] for i in sorted(vm_bad ^ (model_bad & set(idx)))[:5]]}, no_input=True)

    proof_gate(chk, pr)
    chk.coverage["rule"] = (
        "three kinds of cases, each run on the real objects and on the Coq model (extracted + vm_compute sample): "
        "(1) a Buffer with given working lines/index/cursor and a needle: _search, apply_search, get_search_position for both "
        "directions x include_current_position x counts -1..3, and document_for_search for both directions (20 queries + 2 per case); "
        "(2) Document.find / find_backwards incl. count; (3) key sequences (C-r C-s typing Enter C-g Backspace Escape Up Down Left Right Home End Delete, "
        "Vi / ? n N * # with counts; emacs on a read-only buffer: / ? n N with Escape-digit counts) fed to the KeyProcessor of a real PromptSession, state and displayed document observed after every key; "
        "(5) a pattern string: re.escape, the sre parser's literal reading of it and of its escaped form; (6) one pattern character against one text character under re.IGNORECASE, both ways. "
        "Non-trivial = some search moved the position. Exhaustive strata are sampled in quick and complete in thorough "
        "(one entry of length <= 3 over %r x every cursor x %d needles x both case modes); distinct by hash of the whole case" % (ALPHA, len(needles())))
    chk.assumptions += [
        "the oracle demands only the property text (single searches: real/nearest/no-skip/complete for _search and apply_search; "
        "every count >= 1: a real in-range occurrence, and the landing of k successive single searches when all k succeed; "
        "Document.find(count): the count-th occurrence counted with or without overlaps; preview = accept; typing / start / typing-only sessions move nothing); "
        "count=k all-or-nothing, counts below 1, get_search_position, non-overlapping counting in Document.find(count), abort after "
        "C-r/C-s and the state stored by */# are code semantics: proved about the model, reported through correspondence only",
        "assumed about CPython's re: that _sre executes the scan and the three one-character ops (LITERAL, LITERAL_UNI_IGNORE, IN_UNI_IGNORE) as Model/C16_ReFind.v and "
        "Model/C16_Regex.v write them (the finditer loop itself - leftmost, non-overlapping, an empty match at every position - is a Gallina function since round 7, proved to yield "
        "exactly the scan of real occurrences and tied by case kind 8). Modelled and tied (Model/C16_Regex.v, tables Gen/C16_Sre.v regenerated from the running CPython): "
        "re.escape, the sre parser on patterns made of plain characters and two-character escapes (proved: it reads re.escape(needle) back as the needle, for every needle), "
        "the IGNORECASE compilation of a literal and its one-character match (_sre.unicode_tolower / unicode_iscased / re._casefix._EXTRA_CASES; compared with re itself over "
        "all of Unicode: every cased pattern character in thorough, a sample in quick). The parser model answers None for constructs outside it "
        "(unescaped [ and (, escapes followed by a digit or x u U N); theorems stay parametric in the per-character relation ceq",
        "the search field is modelled as a buffer of its own (text + cursor: insert, Backspace, Delete, Left, Right, Home, End); its history (Up/Down in a Vi search field) is outside",
        "Vi * and #: the word under the cursor (Document.get_word_under_cursor, C02) is read off the real document and handed to the model as part of the key",
        "selection, events, validation, completion state and the search buffer's own history are outside the model",
        "emacs read-only sessions: Buffer.read_only is set on the PromptSession's default buffer; n / N counts are typed as Escape digit",
        "sessions run with the KeyProcessor driven directly inside set_app under a running asyncio loop; "
        "working lines are set directly on the Buffer (history loading is checked separately through load_history_if_not_yet_loaded)"]
    return chk.finish()


def replay(data):
    rep = data["replay"]
    case = rep["case"]
    rc = 0
    if case and case[0] == 1:
        out, raw = impl_buffer_case(case)
        print(describe(case, out, "-"))
        bad = oracle_buffer(case, raw)
    elif case and case[0] == 2:
        out = impl_document_case(case)
        print(describe(case, out, "-"))
        bad = oracle_document(case, out)
    elif case and case[0] == 5:
        out = impl_regex_case(case)
        print(describe(case, out, "-"))
        bad = oracle_regex(case, out)
    elif case and case[0] == 8:
        out = impl_finditer_case(case)
        print(describe(case, out, "-"))
        bad = oracle_finditer(case, out)
    elif case and case[0] == 6:
        out = impl_fold_case(case)
        print(describe(case, out, "-"))
        bad = oracle_fold(case, out)
    elif case and case[0] in (3, 7):
        res, tr = [], []

        async def go():
            s = Sess(0, case[4], ro=True) if case[0] == 7 else Sess(case[1], case[5])
            try:
                o, t = impl_session_case(s, case)
                res.append(o)
                tr.append(t)
            finally:
                s.close()
        asyncio.run(go())
        out = res[0]
        print(describe(case, out, "-"))
        for prev, k, obs in tr[0]:
            print("  %-9s -> %r" % (KEYNAMES[k[0]] + (repr(chr(k[1])) if k[0] == 3 else ""), obs if isinstance(obs, str) else
                                    {"index": obs[0], "cursor": obs[1], "text": unS(obs[2][obs[0]]), "field": unS(obs[3]), "field_cursor": obs[4], "searching": obs[5],
                                     "state_text": unS(obs[6]), "state_dir": obs[7], "shown": (unS(obs[8]), obs[9])}))
        bad = oracle_session(case, tr[0])
    elif case and case[0] == 4:
        res, tr = [], []

        async def go2():
            s = Sess2(case[7])
            try:
                o, t = impl_shared_case(s, case)
                res.append(o)
                tr.append(t)
            finally:
                s.close()
        asyncio.run(go2())
        out = res[0]
        print(describe(case, out, "-"))
        for prev, k, obs in tr[0]:
            print("  %-12s -> %r" % ("switch-focus" if k[0] == 21 else KEYNAMES[k[0]], obs))
        bad = oracle_shared(case, tr[0])
    else:
        print("malformed case", case)
        return 0
    if bad:
        print("ORACLE FAILS: %s %r" % bad)
        rc = 1
    else:
        print("oracle ok")
    m = run_model("c16", [case])[0]
    print("model agrees" if m == sx_norm(out) else "model differs: %r" % (m,))
    return rc
