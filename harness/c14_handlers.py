"""C14: the history-related key handlers of /repo - where they live, how to find the
real function object, and a FAIL-CLOSED translator of their source (AST) into the
little call language of coq/Lib/C14_Handlers.v.  Used by gen/gen_t_c14.py (table
Gen/C14_Handlers.v, regenerated on every run) and by harness/c14.py (which calls
the real functions).  Any statement / expression shape the translator does not
know aborts the generation (exit 2): a handler edit either changes the model or
stops the check."""
import ast
import inspect
import sys
import textwrap

# id -> (module under prompt_toolkit.key_binding.bindings, function / command name)
SPECS = {
    1: ("named", "previous-history"),
    2: ("named", "next-history"),
    3: ("named", "beginning-of-history"),
    4: ("named", "end-of-history"),
    5: ("vi", "_go_up"),                      # k
    6: ("vi", "_go_down2"),                   # j
    7: ("vi", "_to_nth_history_line"),        # <n>G
    8: ("vi", "_up_in_navigation"),           # up / c-p in navigation mode
    9: ("vi", "_go_down"),                    # down / c-n in navigation mode
    10: ("emacs", "_prev"),                   # c-p
    11: ("emacs", "_next"),                   # c-n
    12: ("basic", "_go_up"),                  # up
    13: ("basic", "_go_down"),                # down
}
_CACHE = {}


class Unknown(Exception):
    pass


def _bindings(where):
    import importlib
    mod = importlib.import_module("prompt_toolkit.key_binding.bindings." + where)
    return getattr(mod, "load_%s_bindings" % where)().bindings


def find(h):
    """-> (function, [bindings carrying it]); exactly one function object of that name must exist"""
    if h in _CACHE:
        return _CACHE[h]
    where, name = SPECS[h]
    if where == "named":
        from prompt_toolkit.key_binding.bindings.named_commands import get_by_name
        r = (get_by_name(name).handler, [])
    else:
        fns, bds = {}, []
        for bd in _bindings(where):
            if getattr(bd.handler, "__name__", None) == name:
                fns[id(bd.handler)] = bd.handler
                bds.append(bd)
        if len(fns) != 1:
            raise Unknown("expected exactly one %s handler named %s, found %d" % (where, name, len(fns)))
        r = (list(fns.values())[0], bds)
    _CACHE[h] = r
    return r


def find_handler(h):
    return find(h)[0]


def _mentions(f, target):
    """does the filter expression f require `target` (conjunctively)?  Unknown filter node kinds fail closed
    only when they could hide the target."""
    if f is target:
        return True
    cls = type(f).__name__
    if cls == "_AndList":
        return any(_mentions(x, target) for x in f.filters)
    if cls == "_OrList":
        ms = [_mentions(x, target) for x in f.filters]
        if any(ms) and not all(ms):
            raise Unknown("has_arg under a disjunction")
        return all(ms) and bool(ms)
    if cls == "_Invert":
        if _mentions(f.filter, target):
            raise Unknown("negated has_arg")
        return False
    return False


def needs_arg(h):
    """is the handler bound only when a numeric argument is present (filter has_arg)?"""
    from prompt_toolkit.filters import has_arg
    bds = find(h)[1]
    ms = set(_mentions(bd.filter, has_arg) for bd in bds)
    if len(ms) > 1:
        raise Unknown("handler %d bound both with and without has_arg" % h)
    return bool(ms and ms.pop())


# ---- the translator -------------------------------------------------------

def _const(e):
    """an integer constant expression (literals, unary minus, + - * **)"""
    if isinstance(e, ast.Constant) and type(e.value) is int:
        return e.value
    if isinstance(e, ast.UnaryOp) and isinstance(e.op, ast.USub):
        return -_const(e.operand)
    if isinstance(e, ast.BinOp) and isinstance(e.op, (ast.Add, ast.Sub, ast.Mult, ast.Pow)):
        a, b = _const(e.left), _const(e.right)
        if isinstance(e.op, ast.Pow):
            if not (0 <= b <= 400 and abs(a) <= 10 ** 6):
                raise Unknown("constant too large")
            return a ** b
        return a + b if isinstance(e.op, ast.Add) else a - b if isinstance(e.op, ast.Sub) else a * b
    raise Unknown("not an integer constant: " + ast.dump(e))


def _is_event_attr(e, ev, attr):
    return isinstance(e, ast.Attribute) and e.attr == attr and isinstance(e.value, ast.Name) and e.value.id == ev


def _count(e, ev, bufnames):
    """-> ('arg', k) for event.arg - k | ('const', z) | ('last',) for len(<buffer>._working_lines) - 1"""
    if _is_event_attr(e, ev, "arg"):
        return ("arg", 0)
    if isinstance(e, ast.BinOp) and isinstance(e.op, (ast.Sub, ast.Add)) and _is_event_attr(e.left, ev, "arg"):
        k = _const(e.right)
        return ("arg", k if isinstance(e.op, ast.Sub) else -k)
    if isinstance(e, ast.BinOp) and isinstance(e.op, ast.Sub) and isinstance(e.left, ast.Call) \
            and isinstance(e.left.func, ast.Name) and e.left.func.id == "len" and len(e.left.args) == 1 and not e.left.keywords:
        a = e.left.args[0]
        if isinstance(a, ast.Attribute) and a.attr == "_working_lines" and _is_buffer(a.value, ev, bufnames) and _const(e.right) == 1:
            return ("last",)
    return ("const", _const(e))


def _is_buffer(e, ev, bufnames):
    return _is_event_attr(e, ev, "current_buffer") or (isinstance(e, ast.Name) and e.id in bufnames)


def translate_function(fn):
    """-> list of calls: ('back'|'fwd', count) | ('goto', count) | ('up'|'down', count, gts)"""
    from prompt_toolkit.buffer import Buffer
    src = textwrap.dedent(inspect.getsource(fn))
    tree = ast.parse(src)
    if len(tree.body) != 1 or not isinstance(tree.body[0], ast.FunctionDef):
        raise Unknown("not a single function definition")
    fd = tree.body[0]
    a = fd.args
    if len(a.args) != 1 or a.vararg or a.kwarg or a.kwonlyargs or a.defaults or a.posonlyargs:
        raise Unknown("handler signature")
    ev = a.args[0].arg
    body = list(fd.body)
    if body and isinstance(body[0], ast.Expr) and isinstance(body[0].value, ast.Constant) and isinstance(body[0].value.value, str):
        body = body[1:]                                   # docstring
    bufnames = set()
    calls = []
    for st in body:
        if isinstance(st, ast.Assign) and len(st.targets) == 1 and isinstance(st.targets[0], ast.Name) \
                and _is_event_attr(st.value, ev, "current_buffer"):
            bufnames.add(st.targets[0].id)
            continue
        if not (isinstance(st, ast.Expr) and isinstance(st.value, ast.Call)):
            raise Unknown("statement: " + ast.dump(st)[:200])
        c = st.value
        if not (isinstance(c.func, ast.Attribute) and _is_buffer(c.func.value, ev, bufnames)):
            raise Unknown("call receiver: " + ast.dump(c.func)[:200])
        m = c.func.attr
        kw = {}
        for k in c.keywords:
            if k.arg is None or k.arg in kw:
                raise Unknown("keyword")
            kw[k.arg] = k.value
        sig = inspect.signature(getattr(Buffer, m)) if m in ("history_backward", "history_forward", "go_to_history", "auto_up", "auto_down") else None
        if sig is None:
            raise Unknown("Buffer method " + m)
        params = [p for p in sig.parameters.values() if p.name != "self"]
        if len(c.args) > len(params):
            raise Unknown("too many arguments")
        for p, v in zip(params, c.args):
            if p.name in kw:
                raise Unknown("argument given twice")
            kw[p.name] = v
        vals = {}
        for p in params:
            if p.name in kw:
                vals[p.name] = kw.pop(p.name)
            elif p.default is not inspect.Parameter.empty:
                vals[p.name] = ast.Constant(p.default)      # the signature's default value
            else:
                raise Unknown("missing argument " + p.name)
        if kw:
            raise Unknown("unknown keyword " + ",".join(kw))
        if m in ("history_backward", "history_forward"):
            if list(vals) != ["count"]:
                raise Unknown("signature of " + m)
            calls.append(("back" if m == "history_backward" else "fwd", _count(vals["count"], ev, bufnames)))
        elif m == "go_to_history":
            if list(vals) != ["index"]:
                raise Unknown("signature of " + m)
            calls.append(("goto", _count(vals["index"], ev, bufnames)))
        else:
            if list(vals) != ["count", "go_to_start_of_line_if_history_changes"]:
                raise Unknown("signature of " + m)
            g = vals["go_to_start_of_line_if_history_changes"]
            if not (isinstance(g, ast.Constant) and type(g.value) is bool):
                raise Unknown("go_to_start_of_line_if_history_changes is not a literal")
            calls.append(("up" if m == "auto_up" else "down", _count(vals["count"], ev, bufnames), g.value))
    return calls


def translate(h):
    return translate_function(find_handler(h))


def translate_event_arg():
    """KeyPressEvent.arg must have exactly the shape of the template below (as of 7b1fd9f)
       -> dict of its constants M, D, N, NEGR, POSR, L, O"""
    from prompt_toolkit.key_binding.key_processor import KeyPressEvent
    fd = ast.parse(textwrap.dedent(inspect.getsource(KeyPressEvent.arg.fget))).body[0]
    body = list(fd.body)
    if body and isinstance(body[0], ast.Expr) and isinstance(body[0].value, ast.Constant):
        body = body[1:]
    want = ast.parse(textwrap.dedent('''
        if self._arg == "-":
            return M
        arg = self._arg or DS
        negative = arg.startswith("-")
        digits = arg.lstrip("-").lstrip("0") or "0"
        if len(digits) > N:
            return NEGR if negative else POSR
        result = -int(digits) if negative else int(digits)
        if result >= L:
            result = O
        return result
    ''')).body
    if len(body) != len(want):
        raise Unknown("KeyPressEvent.arg: %d statements" % len(body))
    got = {}

    def same(x, y):
        if isinstance(y, ast.Name) and y.id in ("M", "N", "NEGR", "POSR", "L", "O"):
            got[y.id] = _const(x)
            return True
        if isinstance(y, ast.Name) and y.id == "DS":
            if not (isinstance(x, ast.Constant) and isinstance(x.value, str) and x.value.isdigit() and len(x.value) < 7):
                return False
            got["D"] = int(x.value)
            return True
        if type(x) is not type(y):
            return False
        if isinstance(x, ast.AST):
            for f in x._fields:
                if f in ("ctx", "type_comment", "kind", "lineno"):
                    continue
                if not same(getattr(x, f, None), getattr(y, f, None)):
                    return False
            return True
        if isinstance(x, list):
            return len(x) == len(y) and all(same(a, b) for a, b in zip(x, y))
        return x == y
    for x, y in zip(body, want):
        if not same(x, y):
            raise Unknown("KeyPressEvent.arg has an unexpected shape: " + ast.dump(x)[:200])
    if not (0 < got["N"] < 30):
        raise Unknown("KeyPressEvent.arg: digit limit")
    return got


if __name__ == "__main__":
    for h in sorted(SPECS):
        print(h, SPECS[h], needs_arg(h), translate(h))
    print(translate_event_arg())
