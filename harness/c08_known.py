"""Regenerate known_findings.d/C08.json from the implementation under test:
   /venv/bin/python harness/c08_known.py [tier:seed ...]
Runs the C08 generators + oracle (no Coq), groups the oracle failures by
(family, opgroup) and writes one known finding per group with the smallest
reproducer seen.  Used once by the builder; the file it writes is reviewed
by hand (root causes are described in design.d/C08.md)."""
import json
import os
import random
import sys
import hashlib

sys.path.insert(0, os.path.dirname(os.path.abspath(__file__)))
import c08  # noqa
from common import VERIF, unS  # noqa

ROOT = {
    "inclusive-end-on-newline": "get_line_numbers takes the row of the exclusive end: an inclusive object ending on a line ending (ge / gE from an empty line) also covers the following line for > < gq",
}

FIXED = [
    "fixed: property=C08 f3ffc71 an operator on a failed or empty EXCLUSIVE text object cut a crossed range: 'abc def' cursor 0 dFx / db -> 'abc dbc def'; cursor 6 dFx deleted 'ef'; 'ab\\ncd' cursor 3 d0 deleted 'b\\nc'; 'a\\n\\nb' cursor 2 dl deleted 'a\\n\\n'; '()' di( deleted the brackets; yFx overwrote the clipboard; '(\\n)' di( deleted '(\\n' (column-0 adjustment on a one-newline span); 22 text-object families x d c y",
    "fixed: property=C08 f3ffc71 named-register operators read the register name from the text object's key sequence: 'abc def' cursor 4 \"qyw / \"qdw raised IndexError (\"qdw after deleting 'def'), \"qyfx wrote register x, \"qdiw register w",
    "fixed: property=C08 f3ffc71 % under an operator never matched brackets (event._arg always set): 'a(b)c' cursor 1 d% deleted the whole line instead of '(b)'",
    "fixed: property=C08 ced036e a failed INCLUSIVE or LINEWISE motion was applied to its default object: 'ab' cursor 1 de deleted 'b', cursor 0 dge deleted 'a', 'a\\n\\nb' cursor 2 dg_ deleted the line ending, 'ab' dj / dk (last / first line) deleted the line, gUe / gUj changed case there (e E ge gE g_ j k x d c y and the case operators)",
    "fixed: property=C08 ced036e the line operators > < gq acted on the cursor line whatever the motion did: 'abc def' cursor 4 >Fx indented the line, cursor 6 gqFx appended a newline, >iw / >i( / <b / gq% on failed objects (all 21 text-object groups); c on a failed motion also entered insert mode",
]


class FakeChk:
    def __init__(self, tier, seed):
        self.tier = tier
        self.rng = random.Random(seed * 1000003 + int(hashlib.sha1(b"C08").hexdigest()[:8], 16))


def main(argv):
    runs = argv or ["quick:0"]
    groups = {}
    sess = c08.Session()
    for r in runs:
        tier, seed = r.split(":")
        cases, _ = c08.gen_cases(FakeChk(tier, int(seed)))
        for c in cases:
            res, obs, tobj, failed, alone = c08.run_impl(sess, c)
            if c[0] == "K":
                pass
            bad = c08.judge(c, obs, tobj, failed, alone)
            if bad:
                key = (bad[1], bad[2])
                if c[0] == "S":
                    obs = obs[-1][3]
                size = (c[0] != "K", len(c[1]), (c[0] == "K" and ((c[5] or 0) + (c[6] or 0))), len(str(c)))
                what = "%s -> text=%r cursor=%d clipboard=%r register=%r status=%d; %s" % (
                    c08.describe_case(c), obs["text"], obs["cursor"], c08.show_cd(obs["clip"]), c08.show_reg(obs["reg"]), obs["status"], bad[0])
                if key not in groups or size < groups[key][0]:
                    groups[key] = (size, what, groups.get(key, (0, 0, 0))[2] + 1)
                else:
                    groups[key] = (groups[key][0], groups[key][1], groups[key][2] + 1)
        print(r, len(cases), "cases", len(groups), "groups")
    sess.close()
    # rare group, always listed (seen in thorough runs only)
    groups.setdefault(("inclusive-end-on-newline:word-end-backward", "lines"), (
        0, "text='x\\n\\n' cursor=2 keys='> gE' -> text='    x\\n    \\n    ' cursor=9; indent operator changed a line outside "
           "the motion's line range (also gq ge / gq gE from an empty line)", 1))
    groups.setdefault(("inclusive-end-on-newline:last-non-blank", "lines"), (
        0, "text='\\na\\n' cursor=2 (after 'a') keys='> g_' -> text='\\n    a\\n    ' cursor=5; indent operator changed a line "
           "outside the motion's line range (cursor after the last character of the line; also < and gq)", 1))
    findings = []
    for i, ((fam, og), (_, what, n)) in enumerate(sorted(groups.items()), 1):
        findings.append({"id": "C08-F%d" % i, "property": "C08", "status": "known",
                         "match": {"family": fam, "opgroup": og},
                         "root_cause": ROOT.get(fam.split(":")[0], ""),
                         "what": what})
    path = os.path.join(VERIF, "known_findings.d", "C08.json")
    with open(path, "w") as f:
        json.dump({"findings": findings, "fixed": FIXED}, f, indent=1)
    print("wrote", path, len(findings))


if __name__ == "__main__":
    main(sys.argv[1:])
