"""C05 - case generators for the exploration (configs + key sequences)."""
import itertools

PRINTABLE = list("abcdefghijklmnopqrstuvwxyzABCDEFGHIJKLMNOPQRSTUVWXYZ0123456789"
                 " !\"#$%&'()*+,-./:;<=>?@[\\]^_`{|}~") + ["界", "é", "́"]

SEED_TEXTS = ["", "a", "hello world", "  indented line", "foo(bar, 'baz') {x}", "one\ntwo\nthree",
              "ab\n\ncd", "\n", "\n\n", "界面 wide 字\n第二行", "tab\there", "trailing \n", "x\n  y\n    z\n",
              "a.b,c;d", "word1 word2\nword3 word4 word5\n\nlast", "́x"]
HISTORIES = [[], ["one"], ["echo 1", "ls -la 'a b'", "multi\nline entry", ""], ["界", "foo bar baz"]]
CLIPS = [None, "", "clip", "line1\nline2", "界", ["whole line", "LINES"], ["ab\ncd", "BLOCK"], ["", "LINES"]]

# keys whose handlers need a real terminal/mouse report as data or leave the editor: not key presses
EXCLUDED_KEYS = {"<<vt100-mouse-event>>", "<<windows-mouse-event>>", "<<scroll-up>>", "<<scroll-down>>", "<<sigint>>",
                 "<<any>>", "<<ignore>>", "<<cursor-position-response>>"}


def table_keys():
    """Every Keys member that appears in the effective binding table of a
    PromptSession (regenerated from the code under test)."""
    from c05_table import dump_table
    tab = dump_table()
    ks = []
    for b in tab["bindings"]:
        for k in b["keys"]:
            if k.startswith("<") and len(k) > 2 and k not in ks and k not in EXCLUDED_KEYS:
                ks.append(k)
    return ks


VI_OPERATORS = ["d", "c", "y", ">", "<", "g~", "gu", "gU", "g?", "~", "!"]
VI_MOTIONS = ["w", "b", "e", "W", "B", "E", "h", "l", "j", "k", "0", "$", "^", "G", "gg", "ge", "gE", "gm", "g_",
              "{", "}", "(", ")", "%", "|", "H", "M", "L", "n", "N", ";", ",", "fx", "Fx", "ta", "Ta", "f ", "iw", "aw",
              "iW", "aW", "i(", "a(", "i'", "a\"", "i{", "a<", "ib", "aB", "<left>", "<right>", "<up>", "<down>",
              "<backspace>", "<c-m>", "+", "-", " ", "<home>", "<end>", "#", "*"]
VI_CMDS = ["x", "X", "s", "S", "dd", "cc", "yy", "Y", "D", "C", "p", "P", "u", "<c-r>", ".", "J", "gJ", "r!", "R",
           "i", "a", "I", "A", "o", "O", "v", "V", "<c-v>", "<c-a>", "<c-x>", "zz", "zt", "zb", ">>", "<<",
           "/a<c-m>", "?o<c-m>", "/zz<c-m>", "/<escape>", "<c-o>", "<c-k>a:", "<c-k>", "<c-t>", "<c-d>", "<c-w>",
           "<c-u>", "<c-e>", "<c-y>", "<c-n>", "<c-p>", "<tab>", "<s-tab>", "<c-l>", "<insert>", "<delete>",
           "<c-r>zz<c-m>", "<c-s>zz<c-g>", "<c-r>o<c-m>", "<c-s>a<escape>", "<c-r><c-h>", "<c-r>q<c-c>", "A<c-r>zz<c-m>", "A<c-s><c-g>",
           "<c-v>j$A<delete>", "<c-v>$A<delete>", "<c-v>j$A<backspace>", "<c-v>jlA<delete><delete>", "G<c-v>$A<delete>",
           "qa", "q", "@a", "@@", "<c-v>jI", "<c-v>jlA", "<c-v>jjI", "<c-v>kA", "<c-v>I", "\"a", "\"ap", "\"b", "<c-x><c-l>", "<c-x><c-f>", "<pageup>", "<pagedown>"]
EMACS_CMDS = ["<c-a>", "<c-e>", "<c-b>", "<c-f>", "<c-n>", "<c-p>", "<c-k>", "<c-u>", "<c-w>", "<c-y>", "<c-t>",
              "<c-d>", "<c-h>", "<c-@>", "<c-g>", "<c-_>", "<c-o>", "<c-q>x", "<c-r>a", "<c-s>o", "<c-m>", "<c-j>",
              "<c-l>", "<c-x><c-x>", "<c-x><c-u>", "<c-x>(", "<c-x>)", "<c-x>e", "<c-x>r", "<c-x>ry", "<c-]>a",
              "<escape>b", "<escape>f", "<escape>d", "<escape>c", "<escape>u", "<escape>l", "<escape>y", "<escape>t",
              "<escape><c-h>", "<escape>\\", "<escape><", "<escape>>", "<escape>.", "<escape>_", "<escape><c-y>",
              "<escape>#", "<escape>-", "<escape>3", "<escape>a", "<escape>e", "<escape>w", "<escape>*", "<escape>/",
              "<escape><left>", "<escape><right>", "<escape><c-]>x", "<escape><c-m>", "<escape>v",
              "<s-left>", "<s-right>", "<s-up>", "<s-down>", "<s-home>", "<s-end>", "<c-s-left>", "<c-s-right>",
              "<c-left>", "<c-right>", "<up>", "<down>", "<left>", "<right>", "<home>", "<end>", "<delete>",
              "<tab>", "<s-tab>", "<pageup>", "<pagedown>", "<c-delete>", "<insert>", "<c-z>", "<c-c>"]


def tokenize(s):
    """'d3<left>x' -> ['d','3','<left>','x']"""
    out, i = [], 0
    while i < len(s):
        if s[i] == "<" and ">" in s[i + 1:] and s[i + 1:i + 2].isalpha():
            j = s.index(">", i)
            out.append(s[i:j + 1])
            i = j + 1
        else:
            out.append(s[i])
            i += 1
    return out


def rand_config(rng, mode=None):
    text = rng.choice(SEED_TEXTS)
    if rng.random() < 0.25:
        text = "".join(rng.choice(["a", "b", " ", "\n", "界", "(", ")", "x", "  "]) for _ in range(rng.randint(0, 14)))
    cfg = {"mode": mode or rng.choice(["vi", "vi", "emacs"]), "multiline": rng.random() < 0.5,
           "read_only": rng.random() < 0.12, "text": text, "cursor": rng.randint(0, len(text)),
           "history": rng.choice(HISTORIES), "clipboard": rng.choice(CLIPS), "completer": rng.random() < 0.3}
    # a forced render after every key (sessions without a completer: its answer is a background task and
    # the known finding C05-F13 is attributed through the <yield>/<release> tokens only)
    if not cfg["completer"] and rng.random() < 0.5:
        cfg["render_each"] = True
    return cfg


def rand_count(rng):
    r = rng.random()
    if r < 0.55:
        return ""
    if r < 0.9:
        return str(rng.choice([1, 2, 3, 5, 9, 10, 20]))
    return rng.choice(["0", "00", "300", "1000000", "12345678"])


def rand_keys(rng, cfg, all_keys, maxlen=60):
    n = rng.randint(1, maxlen)
    out = []
    vi = cfg["mode"] == "vi"
    while len(out) < n:
        r = rng.random()
        if r < 0.18:
            out.append(rng.choice(PRINTABLE))
        elif r < 0.30:
            out.append(rng.choice(all_keys))
        elif r < 0.34:
            out.append("<paste:%s>" % rng.choice(["", "x", "pa\nste", "a\rb", "界"]))
        elif r < 0.36:
            out.append("<flush>")
        elif vi:
            if r < 0.46:
                out.append("<escape>")
            elif r < 0.72:
                reg = rng.choice(["", "", "", "\"a", "\"b", "\"_", "\"1", "\"<escape>"])
                s = reg + rand_count(rng) + rng.choice(VI_OPERATORS) + rand_count(rng) + rng.choice(VI_MOTIONS)
                out += tokenize(s)
            elif r < 0.85:
                out += tokenize(rand_count(rng) + rng.choice(VI_MOTIONS))
            else:
                out += tokenize(rand_count(rng) + rng.choice(VI_CMDS))
        else:
            if r < 0.50:
                pre = rng.choice(["", "", "<escape>-", "<escape>3", "<escape>0", "<escape>-<escape>2", "<c-u>", "<escape>1<escape>2"])
                out += tokenize(pre + rng.choice(EMACS_CMDS))
            else:
                out += tokenize(rng.choice(EMACS_CMDS))
    return out[:maxlen + 8]


VI_ALPHABET_24 = ["<escape>", "d", "c", "y", "w", "b", "$", "0", "j", "k", "x", "p", "i", "a", "v", "<c-v>", "I",
                  "\"", "f", "2", "r", "<c-m>", "<backspace>", "~"]
SEEDS_EXH = [dict(mode="vi", multiline=True, text="ab cd\n\nef", cursor=3, history=["h1"], clipboard="Q"),
             dict(mode="vi", multiline=False, text="", cursor=0, history=[], clipboard=None),
             dict(mode="vi", multiline=True, text="界x\n y", cursor=5, history=["h1"], clipboard="l1\nl2"),
             dict(mode="vi", multiline=False, text="a", cursor=1, history=[], clipboard="", read_only=True)]


def _exh(cfgs, depth, lead):
    for cfg in cfgs:
        for d in range(1, depth + 1):
            for seq in itertools.product(VI_ALPHABET_24, repeat=d):
                yield cfg, (["<escape>"] if lead else []) + list(seq)


def exhaustive_vi_quick():
    yield from _exh(SEEDS_EXH[:1], 2, True)


def exhaustive_vi_thorough():
    yield from _exh(SEEDS_EXH[:2], 3, True)
    yield from _exh(SEEDS_EXH[2:], 2, True)
    yield from _exh(SEEDS_EXH, 2, False)


# --- directed families -----------------------------------------------------

def block_insert_family(full):
    """Block selection -> I/A (insert-multiple mode) -> editing keys, with the
    block's right edge at the end of lines and of the buffer."""
    texts = ["abc\ndef", "ab\n\ncdef", "界x\ny", "a"] + (["abc\ndef\n", "x\nyz\nw"] if full else [])
    motions = ["j", "j$", "$", "jl", "k$", "G$"] + (["jj$", "l", "kl"] if full else [])
    edits1 = ["<delete>", "<backspace>", "<left>", "<right>", "z", "<paste:pq>"]
    ctrl_o = [["<c-o>", "x"], ["<c-o>", "D"], ["<c-o>", "d", "d"], ["<c-o>", "d", "w"]]
    for t in texts:
        for start in ["gg", "G", "gg$"] if full else ["gg", "G"]:
            for m in motions:
                for ia in ("I", "A"):
                    pre = tokenize("<escape>" + start + "<c-v>" + m + ia)
                    for e in edits1:
                        yield dict(mode="vi", multiline=True, text=t, cursor=0, history=["h"]), pre + [e, "<escape>"]
                    for co in ctrl_o:       # temporary navigation mode from insert-multiple mode + a deleting command
                        yield dict(mode="vi", multiline=True, text=t, cursor=0, history=["h"]), pre + co + ["z", "<escape>"]
                    pairs = [(a, b) for a in edits1 for b in edits1] if full else [("<delete>", "<delete>"), ("<right>", "<delete>"), ("z", "<backspace>"), ("<left>", "<delete>")]
                    for a, b in pairs:
                        yield dict(mode="vi", multiline=True, text=t, cursor=0, history=["h"]), pre + [a, b, "<escape>"]


def search_family(full):
    """Incremental search started from insert mode (C-r/C-s) and from
    navigation mode (/ ?), matching / non-matching / empty pattern, left by
    accept or abort; then a motion, so that the Vi cursor rule is seen at rest."""
    texts = [("hello world", None), ("ab\ncd", 2), ("x", None)] + ([("one two one", 4), ("", None)] if full else [])
    starts = [["<c-r>"], ["<c-s>"], ["<escape>", "/"], ["<escape>", "?"], ["<escape>", "A", "<c-r>"], ["<escape>", "<c-r>"]]
    pats = ["", "zz", "o", "l"] + (["hello world", "\\"] if full else [])
    ends = [["<c-m>"], ["<escape>"], ["<c-g>"], ["<c-c>"], ["<c-h>"], ["<c-r>", "<c-m>"]]
    for t, cur in texts:
        for st in starts:
            for p in pats:
                for e in ends:
                    for ml in ((False, True) if full else (False,)):
                        yield (dict(mode="vi", multiline=ml, text=t, cursor=cur, history=["hello"]),
                               st + list(p) + e + ["x"])


def ctrl_o_family(full):
    """Control-O (one command in temporary navigation mode) from every insert
    sub-mode - insert, replace, after a digraph prefix, insert-multiple is in
    block_insert_family - followed by deleting / changing commands, then typing
    goes on."""
    texts = ["hello world", "ab\ncd", "x", ""] + (["界 wide\n\nlast"] if full else [])
    enter = ["i", "a", "A", "I", "R", "o", "s"] + (["O", "cw", "C"] if full else [])
    cmds = ["x", "X", "D", "dd", "dw", "d$", "db", "J", "p", "P", "u", "~", "rz", "2x", "yy", "cw", "$", "0", "j", "k", "<escape>", "<c-o>", "v", "ddp"]
    if not full:
        cmds = cmds[:14] + ["$", "<escape>"]
        texts = texts[:3]
    for t in texts:
        for e in enter:
            for c in cmds:
                yield dict(mode="vi", multiline=True, text=t, cursor=min(1, len(t)), history=["h1"], clipboard="Q"), \
                    tokenize("<escape>" + e + "<c-o>" + c) + ["z", "<escape>"]


def history_count_family(full):
    """Counts around the number of history entries with G / gg (go_to_history),
    history keys with counts, beginning/end-of-history; then a key that reads and
    edits the text."""
    hists = [[], ["a"], ["a", "bb", "ccc"]] + ([["one", "two"], ["x"] * 5] if full else [])
    for mode in ("vi", "emacs"):
        for h in hists:
            n = len(h)
            counts = sorted(set([0, 1, 2, n - 1, n, n + 1, n + 2, n + 3, n + 4]) - {-1})
            for c in counts:
                if mode == "vi":
                    seqs = ["%dG" % c, "%dgg" % c, "%dk" % c, "%dj" % c, "k%dG" % c, "%d<c-up>" % c, "%d<pageup>" % c, "gg%dj" % c]
                    for q in seqs:
                        yield dict(mode="vi", multiline=False, text="cur", cursor=1, history=h), tokenize("<escape>" + q) + ["x", "i", "z", "<escape>"]
                else:
                    pre = "".join("<escape>%s" % d for d in str(c))
                    seqs = [pre + "<up>", pre + "<down>", pre + "<c-up>", "<escape><" + pre + "<down>", pre + "<escape>>", pre + "<pageup>", "<up>" + pre + "<c-down>"]
                    for q in seqs:
                        yield dict(mode="emacs", multiline=False, text="cur", cursor=1, history=h), tokenize(q) + ["z", "<c-a>"]


def search_history_family(full):
    """A search whose match lies in another history entry, then the search
    text objects n / N under an operator (and the plain n / N motions)."""
    hists = [["zzzzzzzz x here"], ["ax", "bbbbbbbbbbbx", "c"]] + ([["x"], ["no match"]] if full else [])
    for h in hists:
        for t in ("ab", "x ab x", ""):
            for start in ("/x<c-m>", "?x<c-m>", "<c-r>x<c-m>"):
                for mv in (("", "j", "k", "jj", "G") if full else ("", "j", "k")):
                    for op in (("dn", "dN", "yn", "cN", "n", "N", "2dn", "g~n", ">n") if full else ("dn", "dN", "yn", "cN", "n", ">n")):
                        yield dict(mode="vi", multiline=False, text=t, cursor=0, history=h), tokenize("<escape>" + start + mv + op) + ["<escape>", "x"]


def completion_family(full):
    """Sessions WITH a completer: a synchronous word completer and a slow,
    gated asynchronous one (answers at the '<release>' token).  '<yield>' lets
    the event loop run so that the completion menu really opens.  Menu keys,
    numeric arguments (also zero / negative), Escape, accept / cancel."""
    texts = ["al", ""] + (["b", "x al"] if full else [])
    # Emacs
    opens = [["<tab>", "<yield>"], ["<tab>", "<yield>", "<tab>"], ["<tab>", "<yield>", "<tab>", "<tab>"], ["<tab>"]]
    args = [[], ["<escape>", "-"], ["<escape>", "0"], ["<escape>", "2"], ["<escape>", "-", "<escape>", "3"]]
    moves = ["<down>", "<up>", "<c-n>", "<c-p>", "<tab>", "<s-tab>", "<right>", "<left>", "<escape>"]
    ends = [["<yield>"], ["x"]] + ([["<c-m>"]] if full else [])
    for t in texts:
        for o in opens:
            for a in args:
                for m in moves:
                    for e in ends:
                        yield dict(mode="emacs", multiline=False, text=t, cursor=len(t), completer=True, history=["h"]), o + a + [m] + e
    # Vi
    vopens = [["<c-n>"], ["<c-n>", "<yield>"], ["<c-p>", "<yield>"], ["<c-n>", "<yield>", "<c-n>"], ["<tab>"]]
    nexts = [["<escape>"], ["<c-e>"], ["<c-y>"], ["<down>"], ["<up>"], ["<left>"], ["x"], ["<escape>", "2", "j"]]
    vends = [["<release>"], ["<release>", "x"], ["<yield>", "<escape>"]]
    for comp in (True, "gated"):
        for t in texts:
            for o in vopens:
                for nx in nexts:
                    for e in vends:
                        yield dict(mode="vi", multiline=False, text=t, cursor=len(t), completer=comp, history=["h"]), o + nx + e
    if full:
        for comp in (True, "gated"):
            for t in texts:
                for o in opens:
                    for m in moves:
                        yield dict(mode="emacs", multiline=True, text=t, cursor=len(t), completer=comp, complete_while_typing=True), ["a"] + o + [m, "<release>", "x"]


def long_arg_family(full):
    """Numeric arguments longer than int() converts (sys.get_int_max_str_digits() = 4300): the count is typed as
    a run of digits in Vi navigation mode or after Meta-<digit> / Meta-- in Emacs mode, then a command reads
    event.arg.  Lengths on both sides of the limit; leading zeros count as digits."""
    out = []
    vi = dict(mode="vi", multiline=False, text="hello world", cursor=2, history=[], clipboard="Q")
    em = dict(mode="emacs", multiline=False, text="hello world", cursor=2, history=[], clipboard="Q")
    lens = [4299, 4300, 4301] + ([5000, 4302] if full else [])
    for n in lens:
        out.append((dict(vi), ["<escape>"] + ["1"] * n + ["x", "l"]))
        out.append((dict(em), ["<escape>", "1"] + ["1"] * (n - 1) + ["<c-f>", "x"]))
    out.append((dict(em), ["<escape>", "-"] + ["1"] * 4301 + ["x"]))
    out.append((dict(em), ["<escape>", "0"] + ["0"] * 4300 + ["x"]))
    if full:
        out.append((dict(vi), ["<escape>", "2"] + ["0"] * 4300 + ["d", "w"]))
        out.append((dict(vi), ["<escape>", "d", "3"] + ["7"] * 4300 + ["w"]))
        out.append((dict(vi, multiline=True, text="a\nb\nc"), ["<escape>", "9"] + ["9"] * 4300 + ["G"]))
    return out


# wave-4 families (Round 9, part A): yank-nth-arg counts, operators on empty lines, insert-mode completion
def yank_arg_family(full):
    """Emacs yank-nth-arg (M-C-y) / yank-last-arg (M-.) with numeric arguments on both sides of the number of
    words of the previous history line, blank and empty history entries, repeated presses."""
    out = []
    hists = [["one two three four"], ["   "], [""], ["a"], [], ["x y", "   ", "p q r"]]
    args = [[], ["<escape>", "-"], ["<escape>", "-", "5"], ["<escape>", "-", "1"], ["<escape>", "0"], ["<escape>", "1"],
            ["<escape>", "4"], ["<escape>", "5"], ["<escape>", "9"]]
    cmds = [["<escape>", "<c-y>"], ["<escape>", "."], ["<escape>", ".", "<escape>", "."], ["<escape>", "<c-y>", "<escape>", "."]]
    for h in hists:
        for a in args:
            for c in cmds:
                for text in (["", "ab "] if full else [""]):
                    out.append((dict(mode="emacs", multiline=False, text=text, cursor=len(text), history=list(h), clipboard=None),
                                a + c + ["x", "<c-a>"]))
    return out


def empty_line_operator_family(full):
    """Vi operators with motions / selections that span nothing: empty buffer, empty lines."""
    out = []
    docs = [("", 0), ("\n", 0), ("\n", 1), ("a\n\nb", 2), ("ab\n", 3)]
    ops = [["g", "U"], ["g", "u"], ["g", "~"], ["g", "?"], ["d"], ["c"], ["y"], [">"], ["<"], ["g", "q"], ["~"]]
    motions = [["G"], ["g", "g"], ["w"], ["b"], ["e"], ["$"], ["0"], ["^"], ["j"], ["k"], ["l"], ["h"], ["i", "p"], ["a", "p"],
               ["i", "w"], ["}"], ["{"], ["%"]]
    if not full:
        motions = motions[:3] + motions[5:7] + motions[8:10] + motions[12:15]
    for text, cur in docs:
        cfg = dict(mode="vi", multiline=True, text=text, cursor=cur, history=["h"], clipboard="Q")
        for op in ops:
            if op == ["~"]:
                continue
            for m in motions:
                out.append((dict(cfg), ["<escape>"] + op + m + ["x"]))
            out.append((dict(cfg), ["<escape>"] + op + [op[-1]] + ["x"]))          # doubled: the line-wise form
        for sel in (["V"], ["v"], ["<c-v>"], ["V", "j"], ["v", "k"]):
            for op in ops + [["J"], ["x"], ["r", "z"], ["I"], ["A"]]:
                out.append((dict(cfg), ["<escape>"] + sel + op + ["x", "<escape>"]))
    return out


def insert_completion_family(full):
    """Vi insert-mode completion commands (C-x C-l history lines, C-x C-f, C-n, C-p) when nothing matches:
    empty input and history, blank lines, a prefix ending in a blank."""
    out = []
    hists = [[], [""], ["foo bar"], ["  ", "foo"]]
    docs = [("", 0), ("  ", 2), ("foo ", 4), ("\n", 1), ("zz", 2), ("foo", 3)]
    cmds = [["<c-x>", "<c-l>"], ["<c-x>", "<c-f>"], ["<c-n>"], ["<c-p>"], ["<c-x>", "<c-l>", "<c-n>"], ["<c-x>", "<c-l>", "<c-p>"],
            ["<c-x>", "<c-l>", "<c-x>", "<c-l>"]]
    for h in hists:
        for text, cur in docs:
            for c in cmds:
                for tail in ([["<escape>"], ["x"], ["<c-e>"], ["<c-y>"]] if full else [["<escape>", "x"]]):
                    out.append((dict(mode="vi", multiline="\n" in text, text=text, cursor=cur, history=list(h), clipboard=None),
                                ["<escape>", "a"] + c + tail))
    return out
