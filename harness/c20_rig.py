"""C20 test rig: a real StdoutProxy, a real Application on a pipe input and a
Vt100_Output on a StringIO, driven one model label at a time.

The flush thread is the real `patch-stdout-flush-thread`; it is parked at four
gates (queue.get / queue.get(block=False) / _get_app_loop / _write_and_flush)
installed from outside (queue subclass, instance attributes), never by editing
the class.  Writer threads are real threads executing one command at a time.
The event loop runs in its own thread; callbacks the proxy hands to
`loop.call_soon_threadsafe` are held back (with the context captured in the
flush thread) until the schedule says LoopStep.
"""
import asyncio
import warnings
import logging
import collections
import contextvars
import io
import queue
import sys
import threading
import time
import types

T_STEP = 5.0      # every wait is bounded by this many seconds
MAX_RENDER_POSTPONE = 1e6      # Application(max_render_postpone_time=...), see Rig.__init__


class RigTimeout(Exception):
    pass


class Gate:
    def __init__(self):
        self.cv = threading.Condition()
        self.parked = None
        self.gen = 0
        self.permits = 0
        self.free = False

    def arrive(self, name):
        with self.cv:
            if self.free:
                return
            self.parked = name
            self.gen += 1
            self.cv.notify_all()
            end = time.time() + 60
            while self.permits == 0 and not self.free:
                if not self.cv.wait(timeout=1.0) and time.time() > end:
                    raise RigTimeout("flush thread abandoned at gate " + name)
            if not self.free:
                self.permits -= 1
            self.parked = None

    def wait_parked(self, thread, crashed, timeout=T_STEP):
        end = time.time() + timeout
        with self.cv:
            while self.parked is None:
                if not thread.is_alive():
                    return None
                if time.time() > end:
                    raise RigTimeout("flush thread did not reach a gate")
                self.cv.wait(timeout=0.002)
            return self.parked

    def permit(self):
        with self.cv:
            self.permits += 1
            self.parked = None
            self.cv.notify_all()

    def open(self):
        with self.cv:
            self.free = True
            self.cv.notify_all()


def make_gated_queue(rig):
    class GatedQueue(queue.Queue):
        def get(self, block=True, timeout=None):
            if rig.gated and threading.current_thread().name == "patch-stdout-flush-thread":
                rig.gate.arrive("get" if block else "nowait")
            return queue.Queue.get(self, block, timeout)
    return GatedQueue


class GatedLoop:
    """What the gated `_get_app_loop` returns instead of the real loop."""

    def __init__(self, rig, real):
        self.rig = rig
        self.real = real

    def call_soon_threadsafe(self, cb, *args, context=None):
        if self.real.is_closed():
            return self.real.call_soon_threadsafe(cb, *args)      # raises RuntimeError
        ctx = context if context is not None else contextvars.copy_context()
        if not self.real.is_running():
            self.rig.raced.append(self.rig.cur_text)      # handed to a loop nobody runs right now
        self.rig.loop_pending.append((self.real, cb, args, ctx, self.rig.cur_text))
        return None

    def __getattr__(self, name):
        return getattr(self.real, name)


class OutLog:
    """The Output object as the proxy sees it: logs every write with the
    application's flags at that moment, then delegates."""

    def __init__(self, rig, real):
        object.__setattr__(self, "_rig", rig)
        object.__setattr__(self, "_real", real)

    def _log(self, text, method):
        """Log the write with the application's flags at this moment, delegate, and note what the
        real Output appended to its buffer (Vt100_Output.write escapes, write_raw does not)."""
        rig = self._rig
        app = rig.app
        ev = ["w", text, bool(app._is_running), bool(app._running_in_terminal),
              rig.render_depth > 0, threading.current_thread().name, None]
        rig.events.append(ev)
        buf = getattr(self._real, "_buffer", None)
        n0 = len(buf) if isinstance(buf, list) else None
        try:
            return getattr(self._real, method)(text)
        finally:
            buf = getattr(self._real, "_buffer", None)
            if n0 is not None and isinstance(buf, list):
                ev[6] = "".join(buf[n0:])

    def write(self, data):
        return self._log(data, "write")

    def write_raw(self, data):
        return self._log(data, "write_raw")

    def flush(self):
        # the proxy's own self._output.flush() (model: EFlush)
        self._rig.events.append(("f", threading.current_thread().name))
        return self._real.flush()

    def __getattr__(self, name):
        return getattr(self._real, name)


class Host(threading.Thread):
    """Owns the event loop; runs the application and, when no application
    runs, single callbacks (a user-managed loop that is run again)."""

    def __init__(self, rig, ctx):
        threading.Thread.__init__(self, name="c20-loop-host", daemon=True)
        self.rig = rig
        self.ctx = ctx
        self.cmds = queue.Queue()
        self.loop = asyncio.new_event_loop()
        self.busy = threading.Event()
        self.idle = threading.Event()
        self.idle.set()
        self.error = None

    def run(self):
        self.ctx.run(self._main)

    def _main(self):
        while True:
            cmd = self.cmds.get()
            try:
                if cmd[0] == "quit":
                    break
                if cmd[0] == "run_app":
                    try:
                        self.loop.run_until_complete(self.rig.app.run_async(**self.rig.run_app_kwargs))
                    except EOFError:
                        pass
                    finally:
                        if self.rig.runstyle:
                            # what asyncio.run() / Application.run() do when the coroutine has
                            # returned: cancel whatever is still pending, then close the loop
                            try:
                                asyncio.runners._cancel_all_tasks(self.loop)
                                self.loop.run_until_complete(self.loop.shutdown_asyncgens())
                            finally:
                                self.loop.close()
                elif cmd[0] == "run_cbs":
                    for (cb, args, cctx) in cmd[1]:
                        self.loop.call_soon(cb, *args, context=cctx)
                    self.loop.run_until_complete(settle())
                elif cmd[0] == "close":
                    for (cb, args, cctx) in cmd[1]:
                        self.loop.call_soon(cb, *args, context=cctx)
                    self.loop.close()
                elif cmd[0] == "newloop":
                    self.loop = asyncio.new_event_loop()
            except BaseException as e:  # noqa
                self.error = e
            finally:
                self.idle.set()
        try:
            if not self.loop.is_closed():
                self.loop.close()
        except BaseException:  # noqa
            pass

    def send(self, *cmd, wait=True):
        self.idle.clear()
        self.cmds.put(cmd)
        if wait and not self.idle.wait(T_STEP):
            raise RigTimeout("loop host did not finish %r" % (cmd[0],))


async def settle(n=40):
    for _ in range(n):
        await asyncio.sleep(0)


class Writer(threading.Thread):
    def __init__(self, rig, k):
        threading.Thread.__init__(self, name="c20-writer-%d" % k, daemon=True)
        self.rig = rig
        self.cmds = queue.Queue()
        self.acks = queue.Queue()

    def run(self):
        while True:
            cmd = self.cmds.get()
            if cmd is None:
                return
            try:
                if cmd[0] == "w":
                    self.rig.proxy.write(cmd[1])
                else:
                    self.rig.proxy.flush()
                self.acks.put(None)
            except BaseException as e:  # noqa
                self.acks.put(e)

    def do(self, cmd):
        self.cmds.put(cmd)
        try:
            r = self.acks.get(timeout=T_STEP)
        except queue.Empty:
            raise RigTimeout("writer blocked in %r" % (cmd[0],))
        if r is not None:
            raise r


class FakeTty(io.StringIO):
    def isatty(self):
        return True


class Rig:
    def __init__(self, ctx_default, gated, nwriters=0, sleep=0.0, cpr=False, runstyle=False, raw=False):
        import prompt_toolkit.patch_stdout as ps
        from prompt_toolkit.application import Application, create_app_session
        from prompt_toolkit.application.current import get_app_session
        from prompt_toolkit.data_structures import Size
        from prompt_toolkit.input import create_pipe_input
        from prompt_toolkit.layout import FormattedTextControl, Layout, Window
        from prompt_toolkit.output.vt100 import Vt100_Output
        self.ps = ps
        self.ctx_default = ctx_default
        self.gated = gated
        self.gate = Gate()
        self.events = []            # ("e",) erase, ("r",) render, ("w", text, run, interm, in_render, thread),
        #                             ("f", thread) the proxy's own flush, ("F",) any flush of the real Output
        self.render_depth = 0
        self.loop_pending = collections.deque()
        self.cur_text = None
        self.handed = []
        self.lost = []
        self.crashed = []
        self.exts = collections.deque()
        self.closers = []
        self.handed_via_loop = []
        self.raced = []      # batches handed to / left on a loop that was not running (start/stop race)
        self.fail_next_render = False
        self.render_failures = 0
        self.run_app_kwargs = {}
        self.flags = set()
        self._cms = []
        self.sio = io.StringIO()
        self.cpr = cpr
        self.runstyle = runstyle      # the application is run like asyncio.run(): loop closed when it returns
        if cpr:
            # a terminal that answers cursor position requests (when the schedule says so)
            self.sio = FakeTty()
        self.out = Vt100_Output(self.sio, lambda: Size(rows=24, columns=80), term="xterm", enable_cpr=cpr)
        # every flush of the real Output object, whoever calls it (the proxy, Renderer.render /
        # erase / reset, ask_for_cpr): only now does buffered text reach the terminal.  ("F",)
        # events are for the oracle; they are not part of the trace compared with the model.
        real_flush = self.out.flush

        def logged_flush():
            self.events.append(("F",))
            return real_flush()
        self.out.flush = logged_flush
        self.cpr_sleepers = []
        self.cpr_waiting_sections = 0
        self.cpr_waits_inflight = 0
        self.cpr_waits_done = 0
        self.cpr_reports = 0
        cm = create_pipe_input()
        self.inp = cm.__enter__()
        self._cms.append(cm)
        self._restore_default = None
        if ctx_default:
            s = get_app_session()
            self._restore_default = (s, s._input, s._output, s.app)
            s._input, s._output, s.app = self.inp, self.out, None
            self.session = s
        else:
            cm2 = create_app_session(input=self.inp, output=self.out)
            self.session = cm2.__enter__()
            self._cms.append(cm2)
        # Application.invalidate() (here: the key binding that handles a cursor position report)
        # schedules its redraw with max_postpone_time: it is put off while the loop has other work,
        # but at most max_render_postpone_time (default 0.01 s) - on a loaded machine the deadline
        # can pass before the section woken by the same report has resumed, and the render then
        # comes first.  Both orders meet the property; the model has "section first".  The rig pins
        # the Application's own constructor parameter so that the order does not depend on the
        # machine's load (the redraw runs when the loop has nothing else to do).
        self.app = Application(layout=Layout(Window(FormattedTextControl("PROMPT> "))),
                               input=self.inp, output=self.out,
                               max_render_postpone_time=MAX_RENDER_POSTPONE)
        self._wrap_renderer()
        self._wrap_cpr()
        logging.getLogger("asyncio").setLevel(logging.CRITICAL)
        logging.getLogger("concurrent.futures").setLevel(logging.CRITICAL)
        warnings.filterwarnings("ignore", category=RuntimeWarning, message="coroutine .* was never awaited")
        self._old_hook = threading.excepthook
        threading.excepthook = self._hook
        # the proxy, with the gated queue class in place while it is constructed
        real_queue_mod = ps.queue
        if gated:
            ps.queue = types.SimpleNamespace(Queue=make_gated_queue(self), Empty=queue.Empty,
                                             Full=queue.Full)
        try:
            self.proxy = ps.StdoutProxy(sleep_between_writes=sleep, raw=raw)
        finally:
            ps.queue = real_queue_mod
        self.fthread = self.proxy._flush_thread
        self.proxy._output = OutLog(self, self.proxy._output)
        orig_waf = self.proxy._write_and_flush
        orig_gal = self.proxy._get_app_loop

        def waf(loop, text):
            self.cur_text = text
            if self.gated:
                self.gate.arrive("deliver")
            self.handed.append(text)
            self.handed_via_loop.append(loop is not None)
            real = loop.real if isinstance(loop, GatedLoop) else loop
            if isinstance(loop, GatedLoop) and not self.gated:
                loop = real
            if loop is real and real is not None and not real.is_running():
                self.raced.append(text)      # handed to a loop nobody runs right now
            try:
                return orig_waf(loop, text)
            except BaseException:
                self.lost.append(text)
                raise

        def gal():
            if self.gated:
                self.gate.arrive("choose")
            loop = orig_gal()
            if loop is not None and self.gated:
                return GatedLoop(self, loop)
            return loop
        self.proxy._write_and_flush = waf
        self.proxy._get_app_loop = gal
        self._install_buffer_probe()
        self.host = Host(self, contextvars.copy_context())
        self.host.start()
        self.writers = [Writer(self, k) for k in range(nwriters)]
        for w in self.writers:
            w.start()
        if gated:
            self.gate.wait_parked(self.fthread, self.crashed)

    # -- instrumentation
    def _install_buffer_probe(self):
        """Observe (never change) who touches the shared `_buffer`: the model's
        only labels that do are LW/LFlush = the body of write()/flush() under
        `_lock`.  An observing subclass with a `_buffer` data descriptor
        records every access made by a thread that does not own `_lock`."""
        rig = self
        proxy = self.proxy
        base = type(proxy)
        self.unlocked = []
        lock = proxy.__dict__.get("_lock")
        owned = getattr(lock, "_is_owned", None)
        if "_buffer" not in proxy.__dict__ or owned is None:
            self.unlocked.append(("probe-not-installable", "?"))
            return
        harness_thread = threading.current_thread()

        def note(op):
            t = threading.current_thread()
            if t is harness_thread:
                return
            lk = proxy.__dict__.get("_lock")
            try:
                ok = lk._is_owned()
            except Exception:  # noqa
                ok = False
            if not ok and len(rig.unlocked) < 50:
                rig.unlocked.append((op, t.name))

        def fget(self_):
            note("read")
            return self_.__dict__["_buffer"]

        def fset(self_, v):
            note("assign")
            self_.__dict__["_buffer"] = v
        proxy.__class__ = type(base.__name__ + "Observed", (base,), {"_buffer": property(fget, fset)})

    def buffer_value(self):
        return self.proxy.__dict__.get("_buffer", [])

    def _wrap_renderer(self):
        r = self.app.renderer
        oe, orr = r.erase, r.render

        def erase(*a, **k):
            self.events.append(("e",))
            self.render_depth += 1
            try:
                return oe(*a, **k)
            finally:
                self.render_depth -= 1

        def render(*a, **k):
            self.events.append(("r",))
            if self.fail_next_render:
                self.fail_next_render = False
                self.render_failures += 1
                raise RuntimeError("c20 fault: widget failure during render")
            self.render_depth += 1
            try:
                return orr(*a, **k)
            finally:
                self.render_depth -= 1
        r.erase, r.render = erase, render

    def _wrap_cpr(self):
        """CPR waits are made schedulable: the 1 s timeout inside
        Renderer.wait_for_cpr_responses sleeps until the schedule says
        CprTimeout; the 2 s 'not supported' timer never fires.  Calls made by
        in_terminal() are counted (observation `cprwait`)."""
        import prompt_toolkit.renderer as rmod
        rig = self
        self._rmod = rmod
        self._real_sleep = rmod.sleep
        self.app.renderer.CPR_TIMEOUT = 100000

        async def gated_sleep(t, *a, **k):
            if t == 1:
                ev = asyncio.Event()
                rig.cpr_sleepers.append(ev)
                await ev.wait()
            else:
                await rig._real_sleep(t, *a, **k)
        rmod.sleep = gated_sleep
        orig = self.app.renderer.wait_for_cpr_responses

        def wait_for_cpr_responses(*a, **k):
            caller = sys._getframe(1).f_code.co_name
            co = orig(*a, **k)

            async def counted():
                sec = caller == "in_terminal"
                rig.cpr_waits_inflight += 1
                if sec:
                    rig.cpr_waiting_sections += 1
                try:
                    return await co
                finally:
                    rig.cpr_waits_inflight -= 1
                    rig.cpr_waits_done += 1
                    if sec:
                        rig.cpr_waiting_sections -= 1
            return counted()
        self.app.renderer.wait_for_cpr_responses = wait_for_cpr_responses
        orig_report = self.app.renderer.report_absolute_cursor_row

        def report(row):
            rig.cpr_reports += 1
            return orig_report(row)
        self.app.renderer.report_absolute_cursor_row = report

    def _hook(self, args):
        self.crashed.append((args.thread.name if args.thread else "?", repr(args.exc_value)))

    # -- helpers
    def _poll(self, cond, what, timeout=T_STEP):
        end = time.time() + timeout
        while not cond():
            if time.time() > end:
                raise RigTimeout(what)
            time.sleep(0.0005)

    def loop_running(self):
        lp = self.host.loop
        return lp is not None and lp.is_running()

    def settle(self):
        """Let the loop run until everything that can happen has happened
        (no-op when the loop is not running or stops meanwhile)."""
        if not self.loop_running():
            return
        lp = self.host.loop
        fut = asyncio.run_coroutine_threadsafe(settle(), lp)
        end = time.time() + T_STEP
        while not fut.done():
            if not lp.is_running():
                fut.cancel()
                return
            if time.time() > end:
                raise RigTimeout("event loop did not settle")
            time.sleep(0.0003)

    def in_loop(self, fn):
        self.host.loop.call_soon_threadsafe(fn)
        self.settle()

    # -- one model label
    def do(self, lab):
        k = lab[0]
        if k == 1:
            self.writers[lab[1]].do(("w", "".join(chr(c) for c in lab[2])))
        elif k == 2:
            self.writers[lab[1]].do(("f",))
        elif k == 3:
            n0 = self.proxy._flush_queue.qsize()
            t = threading.Thread(target=self.proxy.close, name="c20-closer", daemon=True)
            t.start()
            self.closers.append(t)
            self._poll(lambda: self.proxy._flush_queue.qsize() > n0 or not t.is_alive(), "close() put nothing")
        elif k in (4, 5, 6, 7):
            want = {4: "get", 5: "nowait", 6: "choose", 7: "deliver"}[k]
            at = self.gate.wait_parked(self.fthread, self.crashed)
            if at != want:
                raise RigTimeout("flush thread is at %r, schedule expects %r" % (at, want))
            self.gate.permit()
            self._poll(lambda: self.gate.parked is not None or not self.fthread.is_alive(),
                       "flush thread neither parked nor finished")
        elif k == 8:
            self._ev0 = len(self.events)
            if self.host.loop.is_closed():
                self.host.send("newloop")
            self.host.send("run_app", wait=False)
            self._poll(lambda: self.app._is_running and self.session.app is self.app and self.app.loop is not None
                       and any(e[0] == "r" for e in self.events[self._ev0:]), "application did not start")
            self.settle()
        elif k == 9:
            if self._exit_called:      # after AppDone exit() has been called already: only the resumption is left
                self._exit_called = False
            else:
                self.host.loop.call_soon_threadsafe(self.app.exit)
            self._poll(lambda: not self.app._is_running, "application did not exit")
            if self.loop_running():
                try:
                    self.settle()
                except Exception:  # noqa  (loop may stop under us)
                    pass
        elif k == 10:
            if self.loop_pending:
                self.flags.add("stop-with-pending-callback")
                self.raced.extend(t[4] for t in self.loop_pending)
            if not self.host.idle.wait(T_STEP):
                raise RigTimeout("run_async did not return")
        elif k == 11:
            if self.loop_pending:
                self.flags.add("stop-with-pending-callback")
            pend = [(cb, args, cctx) for (lp, cb, args, cctx, txt) in self.loop_pending]
            self.lost.extend(txt for (lp, cb, args, cctx, txt) in self.loop_pending)
            self.loop_pending.clear()
            if not self.host.loop.is_closed():
                self.host.send("close", pend)
        elif k == 12:
            lp, cb, args, cctx, txt = self.loop_pending.popleft()
            if lp.is_running():
                lp.call_soon_threadsafe(cb, *args, context=cctx)
                self.settle()
            else:
                self.host.send("run_cbs", [(cb, args, cctx)])
        elif k == 13:
            self.in_loop(self.app._redraw)
        elif k == 14:
            from prompt_toolkit.application.run_in_terminal import in_terminal
            ev_box = []

            async def ext():
                ev = asyncio.Event()
                ev_box.append(ev)
                async with in_terminal():
                    await ev.wait()
            fut = asyncio.run_coroutine_threadsafe(ext(), self.host.loop)
            self._poll(lambda: bool(ev_box), "in_terminal section did not start")
            self.exts.append((ev_box[0], fut))
            self.settle()
        elif k == 15:
            ev, fut = self.exts.popleft()
            self.host.loop.call_soon_threadsafe(ev.set)
            self.settle()
        elif k == 16:
            self.settle()
        elif k == 17:
            n0 = self.cpr_reports
            self.inp.send_text("\x1b[5;1R")
            self._poll(lambda: self.cpr_reports > n0, "cursor position report not consumed")
            self.settle()
            self._poll(lambda: not self.app._invalidated, "redraw after the report did not happen")
            self.settle()
        elif k == 18:
            sl, self.cpr_sleepers = self.cpr_sleepers, []
            want_done = self.cpr_waits_done + self.cpr_waits_inflight

            def fire():
                for ev in sl:
                    ev.set()
            self.host.loop.call_soon_threadsafe(fire)
            self._poll(lambda: self.cpr_waits_done >= want_done, "CPR timeout did not end the waits")
            self.settle()
        else:
            raise ValueError(lab)

    def do_window(self, n):
        """AppDone followed by n LoopSteps: the window between Application.exit() and run_async
        resuming.  asyncio's ready queue is [callback 1 .. callback n, the callback calling
        exit()] in ONE iteration: the run_in_terminal tasks the callbacks create are scheduled
        before the wake-up of run_async, so their bodies run with is_done and _is_running both
        True.  (The following AppExit label waits for the resumption.)"""
        cbs = [self.loop_pending.popleft() for _ in range(n)]

        err, called = [], []

        def window():
            try:
                for (lp, cb, args, cctx, txt) in cbs:
                    cctx.run(cb, *args)
                self.app.exit()
                called.append(1)
            except BaseException as e:  # noqa
                err.append(e)
        self.host.loop.call_soon_threadsafe(window)
        self._poll(lambda: called or err, "exit() was not called")
        self._exit_called = True
        if err:
            raise RigTimeout("exit()..resume window failed: %r" % (err[0],))

    _ev0 = 0
    _exit_called = False

    def mark(self):
        self._ev0 = len(self.events)

    # -- observation (same shape as Model obs)
    def flush_locals(self):
        fr = sys._current_frames().get(self.fthread.ident)
        while fr is not None:
            if fr.f_code.co_name == "_write_thread":
                loc = fr.f_locals
                return "".join(loc.get("text") or []), bool(loc.get("done"))
            fr = fr.f_back
        return None, None

    def obs(self):
        S = lambda s: [ord(c) for c in s]  # noqa
        at = self.gate.parked
        if not self.fthread.is_alive():
            f = [5] if any(n == "patch-stdout-flush-thread" for n, _ in self.crashed) else [4]
        elif at == "get":
            f = [0]
        elif at in ("nowait", "choose"):
            text, done = self.flush_locals()
            f = [1 if at == "nowait" else 2, S(text if text is not None else "?locals"), int(bool(done))]
        elif at == "deliver":
            text, done = self.flush_locals()
            # text handed to _write_and_flush; loop chosen
            f = [3, S(self.cur_text), int(bool(done)), int(self._chosen_loop())]
        else:
            f = [9]
        q = []
        for it in list(self.proxy._flush_queue.queue):
            q.append(S(it) if isinstance(it, str) else [-1])
        lf = self.app._running_in_terminal_f
        return [f, S("".join(self.buffer_value())), q, [S(t[4]) for t in self.loop_pending],
                int(self.session.app is not None and self.session.app.loop is not None),
                int(bool(self.app._is_running)), int(lf is not None and not lf.done()),
                int(bool(self.app._running_in_terminal)), sum(1 for e in self.events if e[0] != "F"),
                len(self.app.renderer._waiting_for_cpr_futures), int(self.cpr_waiting_sections > 0),
                int(bool(self.app.is_done))]

    def _chosen_loop(self):
        fr = sys._current_frames().get(self.fthread.ident)
        while fr is not None:
            if fr.f_code.co_name == "_write_thread":
                return fr.f_locals.get("app_loop") is not None
            fr = fr.f_back
        return False

    def final(self):
        S = lambda s: [ord(c) for c in s]  # noqa
        evs = []
        for e in self.events:
            if e[0] == "e":
                evs.append([0])
            elif e[0] == "r":
                evs.append([1])
            elif e[0] == "f":
                evs.append([3])
            elif e[0] == "w":
                evs.append([2, S(e[1]), int(e[2]), int(e[3])])
        term, pend = [], []
        for e in self.events:
            if e[0] == "w":
                pend.append(e[6] if e[6] is not None else "?not-observed")
            elif e[0] == "F":
                term += pend
                pend = []
        return [evs, [S(t) for t in self.lost], [S(t) for t in self.handed], len(self.unlocked),
                [S(e[6] if e[6] is not None else "?not-observed") for e in self.events if e[0] == "w"],
                S("".join(term))]

    # -- let everything run to its end, generously, then tear down
    def finish(self, complete=True):
        problems = []
        try:
            # held-back callbacks go to their loops first, in order
            pend = list(self.loop_pending)
            self.loop_pending.clear()
            for (lp, cb, args, cctx, txt) in pend:
                if lp.is_closed():
                    self.lost.append(txt)
                else:
                    if not lp.is_running():
                        self.raced.append(txt)
                    lp.call_soon_threadsafe(cb, *args, context=cctx)
            self.gated = False
            self.gate.open()
            if complete:
                try:
                    self.proxy.flush()
                except BaseException as e:  # noqa
                    problems.append("flush raised %r" % (e,))
                t = threading.Thread(target=self.proxy.close, daemon=True)
                t.start()
                t.join(T_STEP)
                if t.is_alive():
                    problems.append("close() did not return")
            for t in self.closers:
                t.join(T_STEP)
            self.fthread.join(T_STEP)
            if self.fthread.is_alive():
                problems.append("flush thread still alive")
            while self.exts:
                ev, fut = self.exts.popleft()
                if self.loop_running():
                    self.host.loop.call_soon_threadsafe(ev.set)
            if self.loop_running():
                self._fire_cpr_timeouts()
                self.settle()
                if self.app._is_running and self.loop_running():
                    self.host.loop.call_soon_threadsafe(self.app.exit)
            end = time.time() + T_STEP
            while not self.host.idle.wait(0.02) and time.time() < end:
                self._fire_cpr_timeouts()      # the 1 s CPR timeouts may pass now
            if not self.host.idle.is_set():
                problems.append("application did not stop")
            elif not self.host.loop.is_closed():
                # a user-managed loop is run once more: callbacks left on it get their chance
                self.host.send("run_cbs", [])
        except BaseException as e:  # noqa
            problems.append("finish: %r" % (e,))
        finally:
            self.teardown()
        return problems

    def _fire_cpr_timeouts(self):
        sl, self.cpr_sleepers = self.cpr_sleepers, []
        if sl and self.loop_running():
            self.host.loop.call_soon_threadsafe(lambda: [ev.set() for ev in sl])

    def teardown(self):
        self.gate.open()
        for w in self.writers:
            w.cmds.put(None)
        try:
            self.host.cmds.put(("quit",))
            self.host.join(T_STEP)
        except BaseException:  # noqa
            pass
        for w in self.writers:
            w.join(T_STEP)
        threading.excepthook = self._old_hook
        try:
            self._rmod.sleep = self._real_sleep
        except BaseException:  # noqa
            pass
        if self._restore_default is not None:
            s, i, o, a = self._restore_default
            s._input, s._output, s.app = i, o, a
        for cm in reversed(self._cms):
            try:
                cm.__exit__(None, None, None)
            except BaseException:  # noqa
                pass

    def leaked_threads(self):
        return [t.name for t in (self.writers + [self.host, self.fthread]) if t.is_alive()]

    def out_text(self):
        """What has reached the terminal: text written to the Output AND flushed."""
        return flushed_text(self.events)[0]

    def unflushed_text(self):
        return flushed_text(self.events)[1]


def flushed_text(events):
    """-> (text that reached the terminal, text written to the Output object but never
    flushed).  A write reaches the terminal at the next flush of the real Output (("F",))."""
    term, pend = [], []
    for e in events:
        if e[0] == "w":
            pend.append(e[1])
        elif e[0] == "F":
            term += pend
            pend = []
    return "".join(term), "".join(pend)
