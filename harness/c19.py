"""C19 - style cascade and colour encoding.
Models: coq/Model/C19_{Style,Sgr,Palette,FromDict,Transform,Float,Cache,Merged,Memoized,Xterm,Run}.v; theorems: coq/Props/C19.v.

A case is [op, args...] (see run_C19 in coq/Model/C19_Run.v):
  1 cascade      [1, mode, sheets, style_str, default]   mode 0 Style(rules), 1 merge_styles
  2 escape code  [2, depth, attrs]                        _EscapeCodeCache(depth)[attrs]
  3 sgr decode   [3, params]                              ANSI("")._select_graphic_rendition
  4 ansi text    [4, text]                                ANSI(text).__pt_formatted_text__()
  5 256 map      [5, r, g, b]                             _256ColorCache()[(r, g, b)]
  6 16 map       [6, bg, r, g, b, exclude]                _16ColorCache(bg)._get(...)
  7..12          primitives (int(s,16), parse_color, _parse_style_str, _expand_classname,
                 str.split, str(int)/format 02x)
  13 end to end  [13, rules, style_str]                   resolve -> encode 24 bit -> decode
  14 from_dict   [14, most_precise, items, style_str]     Style.from_dict(dict, priority)
  15 transform   [15, tree, attrs, opp_table, adj_table]  style_transformation.*.transform_attrs
  16 caches      [16, queries]                            a query history over fresh caches
  17 merged      [17, pool, objects, events]              merged/dynamic style objects: look-ups interleaved
                                                          with switches of the dynamic sheets
  18 vt100       [18, [[depth, attrs]...]]                ONE Vt100_Output: set_attributes(attrs, depth) in sequence,
                                                          the text written by each call
  19 nested      [19, pool, inner, objects, events]       dynamic styles whose sheet is a persistent merged/dynamic
                                                          object (Model/C19_Nested.v): switches of inner and outer
                                                          slots, look-ups on outer and inner objects
  20 transform   [20, tree, attrs]                        as 15 on the REAL float kernels (Model/C19_Float.v: colorsys
                                                          over binary64 floats); per-node brightness bounds
  21 kernels     [21, mn, mx, r, g, b]                    get_opposite_color / AdjustBrightness(mn/1000, mx/1000) on
                                                          the colour rrggbb, bit-exact
  22 plane       [22, mn, mx, r]                          digest of op 21 over the plane r x 256 x 256 (thorough)
"""
import itertools

from common import *  # noqa

PROP = "C19"
TABLES = ["Whitespace", "C19_Palette"]
MODELS = [("c19", "Extract/ExC19.v", "run_C19")]
FLOAT_PROPS = "Proofs/C19_FloatProps.v"
OPN = {1: "cascade", 2: "escape-code", 3: "sgr-decode", 4: "ansi-text", 5: "map256", 6: "map16",
       7: "int16", 8: "parse_color", 9: "parse_style_str", 10: "expand_classname", 11: "split",
       12: "int-format", 13: "end-to-end", 14: "from_dict", 15: "transform", 16: "cache-history", 17: "merged-dynamic",
       18: "vt100-history", 19: "nested-dynamic", 20: "transform-real", 21: "float-kernels", 22: "float-plane"}
DEPTHS = {1: "DEPTH_1_BIT", 4: "DEPTH_4_BIT", 8: "DEPTH_8_BIT", 24: "DEPTH_24_BIT"}
FIELDS = ("color", "bgcolor", "bold", "underline", "strike", "italic", "blink", "reverse", "hidden")
HEX = "0123456789abcdefABCDEF"


# --------------------------------------------------------------------------
# canonical forms

def enc_attrs(a):
    out = []
    for i, v in enumerate(a):
        if v is None:
            out.append([])
        elif i < 2:
            out.append([S(v)])
        else:
            out.append([1 if v else 0])
    return out


def dec_attrs(x):
    from prompt_toolkit.styles import Attrs
    vals = []
    for i, v in enumerate(x):
        if v == []:
            vals.append(None)
        elif i < 2:
            vals.append(unS(v[0]))
        else:
            vals.append(bool(v[0]))
    return Attrs(*vals)


def opt(v, f=lambda x: x):
    return [] if v is None else [f(v)]


# --------------------------------------------------------------------------
# implementation runner

_pt = {}


def pt():
    if not _pt:
        from prompt_toolkit.formatted_text.ansi import ANSI
        from prompt_toolkit.output import vt100
        from prompt_toolkit.output.color_depth import ColorDepth
        from prompt_toolkit.styles import Attrs, Style, merge_styles
        from prompt_toolkit.styles import style as style_mod
        from prompt_toolkit.styles.base import ANSI_COLOR_NAMES, ANSI_COLOR_NAMES_ALIASES, DEFAULT_ATTRS
        from prompt_toolkit.styles.named_colors import NAMED_COLORS
        _pt.update(ANSI=ANSI, vt100=vt100, ColorDepth=ColorDepth, Attrs=Attrs, Style=Style,
                   merge_styles=merge_styles, style_mod=style_mod, NAMES=list(ANSI_COLOR_NAMES),
                   ALIASES=dict(ANSI_COLOR_NAMES_ALIASES), DEFAULT=DEFAULT_ATTRS,
                   NAMED={k.lower(): v.lstrip("#") for k, v in NAMED_COLORS.items()})
    return _pt


def _exc(e):
    if isinstance(e, ValueError):
        return [1]
    if isinstance(e, AssertionError):
        return [2]
    if isinstance(e, Hang):
        return [98]
    return [99, S(type(e).__name__)]


def build_style(mode, sheets):
    P = pt()
    if mode == 0:
        return P["Style"]([(unS(n), unS(s)) for n, s in sheets[0]])
    return P["merge_styles"]([P["Style"]([(unS(n), unS(s)) for n, s in sh]) for sh in sheets])


def decode_seq(seq):
    """ANSI(seq + 'x') -> Attrs of the 'x' fragment resolved by an empty Style"""
    P = pt()
    frags = P["ANSI"](seq + "x").__pt_formatted_text__()
    style = frags[-1][0]
    return P["Style"]([]).get_attrs_for_style_str(style)


def impl_run(case):
    P = pt()
    op = case[0]
    if op == 1:
        _, mode, sheets, style_str, default = case
        st = build_style(mode, sheets)
        a = st.get_attrs_for_style_str(unS(style_str), dec_attrs(default))
        return [0, enc_attrs(a)]
    if op == 2:
        _, depth, a = case
        cache = P["vt100"]._EscapeCodeCache(getattr(P["ColorDepth"], DEPTHS[depth]))
        return [0, S(cache[dec_attrs(a)])]
    if op == 3:
        an = P["ANSI"]("")
        an._select_graphic_rendition(list(case[1]))
        st = [opt(an._color, S), opt(an._bgcolor, S)] + [1 if v else 0 for v in (
            an._bold, an._underline, an._strike, an._italic, an._blink, an._reverse, an._hidden)]
        return [st, S(an._create_style_string())]
    if op == 4:
        fr = P["ANSI"](unS(case[1])).__pt_formatted_text__()
        return [0, [[S(f[0]), S(f[1])] for f in fr]]
    if op == 5:
        return P["vt100"]._256ColorCache()[(case[1], case[2], case[3])]
    if op == 6:
        code, name = P["vt100"]._16ColorCache(bg=bool(case[1]))._get((case[2], case[3], case[4]), [unS(e) for e in case[5]])
        return [code, S(name)]
    if op == 7:
        try:
            return [int(unS(case[1]), 16)]
        except ValueError:
            return []
    if op == 8:
        try:
            return [S(P["style_mod"].parse_color(unS(case[1])))]
        except ValueError:
            return []
    if op == 9:
        try:
            return [enc_attrs(P["style_mod"]._parse_style_str(unS(case[1])))]
        except ValueError:
            return []
    if op == 10:
        return [S(x) for x in P["style_mod"]._expand_classname(unS(case[1]))]
    if op == 11:
        return [S(x) for x in unS(case[1]).split()]
    if op == 12:
        return [S(str(case[1])), S(format(case[1], "02x"))]
    if op == 13:
        _, rules, style_str = case
        st = P["Style"]([(unS(n), unS(s)) for n, s in rules])
        a = st.get_attrs_for_style_str(unS(style_str))
        seq = P["vt100"]._EscapeCodeCache(P["ColorDepth"].DEPTH_24_BIT)[a]
        back = decode_seq(seq)
        return [0, enc_attrs(a), S(seq), enc_attrs(back)]
    if op == 14:
        from prompt_toolkit.styles.style import Priority
        _, mp, items, style_str = case
        d = {unS(n): unS(x) for n, x in items}
        assert len(d) == len(items)
        st = P["Style"].from_dict(d, priority=Priority.MOST_PRECISE if mp else Priority.DICT_KEY_ORDER)
        return [0, enc_attrs(st.get_attrs_for_style_str(unS(style_str)))]
    if op in (15, 20):
        t = build_transf(case[1])
        return [0, enc_attrs(t.transform_attrs(dec_attrs(case[2])))]
    if op == 18:
        return run_vt100_history(case[1])
    if op == 19:
        return run_nested_events(case, fresh=False)
    if op == 21:
        return run_kernels(*case[1:])
    if op == 22:
        return run_plane(*case[1:])
    if op == 16:
        return run_history(case[1], shared=True)
    if op == 17:
        return run_merged_events(case, fresh=False)
    raise ValueError(op)


def run_merged_events(case, fresh):
    """fresh=False: the objects are built once and keep their caches over the
    whole event history; fresh=True: every look-up is answered by objects built
    anew for the sheets as they are at that moment (the reference)"""
    from prompt_toolkit.styles import DummyStyle, DynamicStyle
    P = pt()
    _, pool, objs, events = case
    sheets = {i: P["Style"]([(unS(n), unS(x)) for n, x in rules]) for i, rules in pool}   # kept alive: ids stay distinct
    current = {}

    def build(x):
        if x[0] == 0:
            return sheets[x[1]]
        if x[0] == 1:
            return DummyStyle()
        if x[0] == 2:
            return DynamicStyle(lambda slot=x[1]: current.get(slot))
        return P["merge_styles"]([build(y) for y in x[1]])
    built = [build(o) for o in objs]
    out = []
    for e in events:
        if e[0] == 0:
            current[e[1]] = sheets[e[2][0]] if e[2] else None
            out.append([])
        elif e[0] == 1:
            o = build(objs[e[1]]) if fresh else built[e[1]]
            try:
                out.append([0, enc_attrs(o.get_attrs_for_style_str(unS(e[2])))])
            except Exception as ex:  # noqa
                out.append(_exc(ex))
        else:
            o = build(objs[e[1]]) if fresh else built[e[1]]
            out.append([5, [[S(n), S(x)] for n, x in o.style_rules]])
    return out


def run_nested_events(case, fresh):
    """op 19.  fresh=False: inner and outer objects are built once and keep their caches;
    fresh=True: every look-up is answered by objects ALL built anew (inner ones too)"""
    from prompt_toolkit.styles import DummyStyle, DynamicStyle
    P = pt()
    _, pool, inner, objs, events = case
    sheets = {i: P["Style"]([(unS(n), unS(x)) for n, x in rules]) for i, rules in pool}
    cur0, cur1 = {}, {}

    def build0(x):
        if x[0] == 0:
            return sheets[x[1]]
        if x[0] == 1:
            return DummyStyle()
        if x[0] == 2:
            return DynamicStyle(lambda slot=x[1]: cur0.get(slot))
        return P["merge_styles"]([build0(y) for y in x[1]])

    def make(fresh_inner):
        inner_built = [build0(o) for o in inner]

        def resolve(slot):
            tg = cur1.get(slot)
            if not tg:
                return None
            if tg[0] == 0:
                return sheets[tg[1]]
            return inner_built[tg[1]] if tg[1] < len(inner_built) else None

        def build1(x):
            if x[0] == 0:
                return sheets[x[1]]
            if x[0] == 1:
                return DummyStyle()
            if x[0] == 2:
                return DynamicStyle(lambda slot=x[1]: resolve(slot))
            return P["merge_styles"]([build1(y) for y in x[1]])
        return inner_built, [build1(o) for o in objs]
    inner_built, outer_built = make(False)
    out = []
    for e in events:
        if e[0] == 0:
            cur0[e[1]] = sheets[e[2][0]] if e[2] else None
            out.append([])
            continue
        if e[0] == 3:
            cur1[e[1]] = list(e[2]) if e[2] else None
            out.append([])
            continue
        ib, ob = make(True) if fresh else (inner_built, outer_built)
        try:
            if e[0] == 1:
                out.append([0, enc_attrs(ob[e[1]].get_attrs_for_style_str(unS(e[2])))])
            elif e[0] == 4:
                out.append([0, enc_attrs(ib[e[1]].get_attrs_for_style_str(unS(e[2])))])
            else:
                out.append([5, [[S(n), S(x)] for n, x in ob[e[1]].style_rules]])
        except Exception as ex:  # noqa
            out.append(_exc(ex))
    return out


def build_transf(x):
    from prompt_toolkit.styles import style_transformation as T
    k = x[0]
    if k == 0:
        return T.SwapLightAndDarkStyleTransformation()
    if k == 1:
        return T.ReverseStyleTransformation()
    if k == 2:
        return T.SetDefaultColorStyleTransformation(unS(x[1]), unS(x[2]))
    if k == 3:
        return T.AdjustBrightnessStyleTransformation(x[3] / 1000.0, x[4] / 1000.0)
    if k == 4:
        return T.DummyStyleTransformation()
    if k == 5:
        return T.ConditionalStyleTransformation(build_transf(x[2]), bool(x[1]))
    if k == 6:
        return T.merge_style_transformations([build_transf(y) for y in x[1]])
    if k == 7:
        inner = build_transf(x[1][0]) if x[1] else None
        return T.DynamicStyleTransformation(lambda: inner)
    raise ValueError(k)


def run_vt100_history(calls):
    """ONE Vt100_Output (hence one _EscapeCodeCache per depth for the whole
    history): set_attributes(attrs, depth) for each call; the text each call writes"""
    import io
    P = pt()
    vt = P["vt100"]
    saved = (vt._16_fg_colors, vt._16_bg_colors, vt._256_colors)
    vt._16_fg_colors, vt._16_bg_colors, vt._256_colors = vt._16ColorCache(bg=False), vt._16ColorCache(bg=True), vt._256ColorCache()
    try:
        buf = io.StringIO()
        out = vt.Vt100_Output(buf, lambda: None, term="xterm-256color")
        res = []
        for depth, a in calls:
            out.set_attributes(dec_attrs(a), getattr(P["ColorDepth"], DEPTHS[depth]))
            out.flush()
            res.append(S(buf.getvalue()))
            buf.seek(0)
            buf.truncate()
        return res
    finally:
        vt._16_fg_colors, vt._16_bg_colors, vt._256_colors = saved


def _adjust_pieces(t, c):
    """the statements of AdjustBrightnessStyleTransformation.transform_attrs between
    _color_to_rgb and the new colour, on the real object's own helpers"""
    from colorsys import hls_to_rgb, rgb_to_hls
    from prompt_toolkit.styles.style_transformation import to_float
    r, g, b = t._color_to_rgb(c)
    hue, brightness, saturation = rgb_to_hls(r, g, b)
    brightness = t._interpolate_brightness(brightness, to_float(t.min_brightness), to_float(t.max_brightness))
    r, g, b = hls_to_rgb(hue, brightness, saturation)
    return f"{int(r * 255):02x}{int(g * 255):02x}{int(b * 255):02x}"


def run_kernels(mn, mx, r, g, b):
    from prompt_toolkit.styles import style_transformation as T
    P = pt()
    c = "%02x%02x%02x" % (r, g, b)
    opp = getattr(T.get_opposite_color, "__wrapped__", T.get_opposite_color)(c)
    t = T.AdjustBrightnessStyleTransformation(mn / 1000.0, mx / 1000.0)
    blank = P["Attrs"]("", "", False, False, False, False, False, False, False)
    try:
        identity = t.transform_attrs(blank._replace(color="ansired")).color == "ansired"
        valid = True
    except AssertionError:
        valid, identity = False, False
    if valid and not identity:
        adj = t.transform_attrs(blank._replace(color=c)).color
    else:
        adj = _adjust_pieces(t, c)
    return [[S(opp)], [S(adj)], 1 if valid else 0, 1 if identity else 0]


DIGEST_P = 2305843009213693951


def run_plane(mn, mx, r):
    from prompt_toolkit.styles import style_transformation as T
    opp = getattr(T.get_opposite_color, "__wrapped__", T.get_opposite_color)
    t = T.AdjustBrightnessStyleTransformation(mn / 1000.0, mx / 1000.0)
    d1 = d2 = 0
    bad = []
    for g in range(256):
        base = "%02x%02x" % (r, g)
        w1 = w2 = 0
        for b in range(256):
            c = base + "%02x" % b
            v, w = opp(c), _adjust_pieces(t, c)
            for x in (v, w):
                if (len(x) != 6 or not LOWHEX.issuperset(x)) and len(bad) < 3:
                    bad.append((c, x))
            w1 += (b + 1) * (int(v, 16) + 1)
            w2 += (b + 1) * (int(w, 16) + 1)
        d1 = (d1 * 1000003 + w1) % DIGEST_P
        d2 = (d2 * 1000003 + w2) % DIGEST_P
    if bad:
        return [99, S("kernel-range %r" % (bad,))]
    return [d1, d2]


def run_history(queries, shared):
    """shared: one set of caches for the whole history (fresh at its start);
    otherwise fresh caches for every query (the uncached answers)"""
    P = pt()
    vt = P["vt100"]

    def fresh():
        vt._16_fg_colors = vt._16ColorCache(bg=False)
        vt._16_bg_colors = vt._16ColorCache(bg=True)
        vt._256_colors = vt._256ColorCache()
        return {}
    saved = (vt._16_fg_colors, vt._16_bg_colors, vt._256_colors)
    out = []
    try:
        esc = fresh()
        for q in queries:
            if not shared:
                esc = fresh()
            if q[0] == 0:
                c = esc.setdefault(q[1], vt._EscapeCodeCache(getattr(P["ColorDepth"], DEPTHS[q[1]])))
                out.append(S(c[dec_attrs(q[2])]))
            elif q[0] == 1:
                cache = vt._16_bg_colors if q[1] else vt._16_fg_colors
                code, name = cache.get_code((q[2], q[3], q[4]), [unS(e) for e in q[5]])
                out.append([code, S(name)])
            else:
                out.append(vt._256_colors[(q[1], q[2], q[3])])
    finally:
        vt._16_fg_colors, vt._16_bg_colors, vt._256_colors = saved
    return out


def impl_case(case):
    try:
        return with_watchdog(lambda: impl_run(case), 5)
    except BaseException as e:  # noqa
        if isinstance(e, (KeyboardInterrupt, SystemExit)):
            raise
        return _exc(e)


# --------------------------------------------------------------------------
# oracle: the theorem statements transcribed over the implementation's results
# (never calls the model)

FLAGW = {}
for _f in ("bold", "italic", "underline", "strike", "blink", "reverse", "hidden"):
    FLAGW[_f] = (_f, True)
    FLAGW["no" + _f] = (_f, False)
DEFAULT_D = dict(color="", bgcolor="", bold=False, underline=False, strike=False, italic=False,
                 blink=False, reverse=False, hidden=False)


class Abstain(Exception):
    """input outside the vocabulary the oracle has a specification for"""


def is_hex(s):
    return all(c in HEX for c in s)


def spec_color(text):
    """documented colour syntax -> stored value; ValueError for a wrong format"""
    P = pt()
    if text in P["NAMES"]:
        return text
    if text in P["ALIASES"]:
        return P["ALIASES"][text]
    if text.lower() in P["NAMED"]:
        return P["NAMED"][text.lower()]
    if text.startswith("#"):
        col = text[1:]
        if col in P["NAMES"]:
            return col
        if col in P["ALIASES"]:
            return P["ALIASES"][col]
        if len(col) == 6 and is_hex(col):
            return col
        if len(col) == 3 and is_hex(col):
            return col[0] * 2 + col[1] * 2 + col[2] * 2
        raise ValueError(text)       # not 3 or 6 hexadecimal digits: wrong format
    if text in ("", "default"):
        return text
    raise ValueError(text)


def spec_style(style_str):
    """style definition -> dict of the attributes it sets"""
    parts = style_str.split()
    if "noinherit" in parts:
        d = dict(DEFAULT_D)
    elif "noinherit" in style_str:
        raise Abstain()
    else:
        d = {}
    for p in parts:
        if p == "noinherit":
            pass
        elif p in FLAGW:
            d[FLAGW[p][0]] = FLAGW[p][1]
        elif p in ("roman", "sans", "mono") or p.startswith("border:") or (p.startswith("[") and p.endswith("]")):
            pass
        elif p.startswith("bg:"):
            d["bgcolor"] = spec_color(p[3:])
        elif p.startswith("fg:"):
            d["color"] = spec_color(p[3:])
        else:
            d["color"] = spec_color(p)
    return d


def ascii_only(s):
    return all(ord(c) < 128 for c in s)


def spec_cascade(rules, style_str, default):
    """-> expected Attrs as dict, or 'ValueError' / 'AssertionError'.
    Application order: default, the rules without class names, then the parts
    left to right; at the step that introduces class c every rule whose class
    set N has c in N and N <= seen + {c}, in sheet order; each attribute is the
    value of the last entry that sets it."""
    import re
    table = []
    for names, sty in rules:
        if not re.fullmatch(r"[a-z0-9.\s_-]*", names):
            return "AssertionError"
        try:
            table.append((frozenset(names.split()), spec_style(sty)))
        except ValueError:
            return "ValueError"
    entries = [{k: v for k, v in zip(FIELDS, default) if v is not None}]
    entries += [d for n, d in table if not n]
    seen = set()
    for part in style_str.split():
        if part.startswith("class:"):
            if not ascii_only(part):
                raise Abstain()
            for dotted in part[6:].lower().split(","):
                pieces = dotted.split(".")
                for i in range(1, len(pieces) + 1):
                    c = ".".join(pieces[:i])
                    for n, d in table:
                        if c in n and n <= (seen | {c}):
                            entries.append(d)
                    seen.add(c)
        else:
            try:
                entries.append(spec_style(part))
            except ValueError:
                return "ValueError"
    out = dict(DEFAULT_D)
    for e in entries:
        out.update(e)
    return out


def kernel_opp(c):
    from colorsys import hls_to_rgb, rgb_to_hls
    r, g, b = (int(c[i:i + 2], 16) / 255.0 for i in (0, 2, 4))
    h, l, sat = rgb_to_hls(r, g, b)
    r, g, b = hls_to_rgb(h, 1 - l, sat)
    return "%02x%02x%02x" % (int(r * 255), int(g * 255), int(b * 255))


def kernel_adj(c, lo, hi):
    from colorsys import hls_to_rgb, rgb_to_hls
    tab = pt()["vt100"].ANSI_COLORS_TO_RGB
    if c in tab:
        r, g, b = (v / 255.0 for v in tab[c])
    else:
        r, g, b = (int(c[i:i + 2], 16) / 255.0 for i in (0, 2, 4))
    h, l, sat = rgb_to_hls(r, g, b)
    l = lo + (hi - lo) * l
    r, g, b = hls_to_rgb(h, l, sat)
    return "%02x%02x%02x" % (int(r * 255), int(g * 255), int(b * 255))


def transf_nodes(x, active=True):
    yield x, active
    if x[0] == 5:
        yield from transf_nodes(x[2], active and bool(x[1]))
    elif x[0] == 6:
        for y in x[1]:
            yield from transf_nodes(y, active)
    elif x[0] == 7 and x[1]:
        yield from transf_nodes(x[1][0], active)


def kernel_tables(tx, ax):
    """association tables colour -> kernel value for every colour the
    transformation tree can meet (closure under both kernels)"""
    P = pt()
    cols = set()
    a = dec_attrs(ax)
    for c in (a.color, a.bgcolor):
        if c:
            cols.add(c)
    adjs = []
    for n, _act in transf_nodes(tx):
        if n[0] == 2:
            for w in (unS(n[1]), unS(n[2])):
                try:
                    cols.add(P["style_mod"].parse_color(w))
                except ValueError:
                    pass
        if n[0] == 3:
            adjs.append((n[3] / 1000.0, n[4] / 1000.0))
    lo, hi = adjs[0] if adjs else (0.0, 1.0)
    cols |= set(P["vt100"].ANSI_COLORS_TO_RGB)       # swap maps ANSI names to ANSI names
    is6 = lambda c: len(c) == 6 and is_hex(c)   # noqa
    for _ in range(2):
        new = set()
        for c in cols:
            if is6(c):
                new.add(kernel_opp(c))
            if is6(c) or c in P["vt100"].ANSI_COLORS_TO_RGB:
                new.add(kernel_adj(c, lo, hi))
        cols |= new
    # ... and every colour met along the actual path through the tree (any depth)
    from prompt_toolkit.styles.style_transformation import OPPOSITE_ANSI_COLOR_NAMES as OPPN
    ansi_rgb = P["vt100"].ANSI_COLORS_TO_RGB

    class Stop(Exception):
        pass

    def opp_c(c):
        if c is None or c in ("", "default"):
            return c
        if c in OPPN:
            return OPPN[c]
        if is6(c):
            cols.add(c)
            return kernel_opp(c)
        raise Stop()

    def walk(x, fg, bg):
        k = x[0]
        if k == 0:
            return opp_c(fg), opp_c(bg)
        if k == 2:
            try:
                if bg in ("", "default"):
                    bg = P["style_mod"].parse_color(unS(x[2]))
                if fg in ("", "default"):
                    fg = P["style_mod"].parse_color(unS(x[1]))
            except ValueError:
                raise Stop()
            return fg, bg
        if k == 3:
            if not x[1]:
                raise Stop()
            if not x[2] and (not bg or bg == "default") and fg and fg not in ("ansidefault", "default"):
                if fg in ansi_rgb or is6(fg):
                    cols.add(fg)
                    return kernel_adj(fg, lo, hi), bg
                raise Stop()
            return fg, bg
        if k == 5:
            return walk(x[2], fg, bg) if x[1] else (fg, bg)
        if k == 6:
            for y in x[1]:
                fg, bg = walk(y, fg, bg)
            return fg, bg
        if k == 7 and x[1]:
            return walk(x[1][0], fg, bg)
        return fg, bg
    try:
        walk(tx, a.color, a.bgcolor)
    except Stop:
        pass
    opp = [[S(c), S(kernel_opp(c))] for c in sorted(cols) if is6(c)]
    adj = [[S(c), S(kernel_adj(c, lo, hi))] for c in sorted(cols) if is6(c) or c in P["vt100"].ANSI_COLORS_TO_RGB]
    return opp, adj


COLORSYS_SHA = "04799661da480a5dcee92e0745a37cd3a67b1ec04ec356dc68ef016c2bb56267"


def check_colorsys(chk):
    """Model/C19_Float.v transcribes colorsys.rgb_to_hls / hls_to_rgb / _v of the CPython
    the implementation runs on: fail closed when that text is not the transcribed one"""
    import colorsys
    import hashlib
    import inspect
    try:
        src = "".join(inspect.getsource(f) for f in (colorsys.rgb_to_hls, colorsys.hls_to_rgb, colorsys._v)) + repr(
            (colorsys.ONE_THIRD.hex(), colorsys.ONE_SIXTH.hex(), colorsys.TWO_THIRD.hex()))
        h = hashlib.sha256(src.encode()).hexdigest()
    except Exception as e:  # noqa
        h = "unavailable: %r" % (e,)
    chk.coverage["colorsys_source_sha256"] = h
    if h != COLORSYS_SHA:
        chk.violation("tie", "colorsys.rgb_to_hls/hls_to_rgb/_v of this CPython are not the text transcribed in Model/C19_Float.v (%s)" % h,
                      {"kind": "colorsys-source"}, {"sha256": h}, no_input=True)


def canon_color(c):
    """the colour an escape sequence can carry for a stored value (None: no spec)"""
    P = pt()
    if c in (None, "", "default"):
        return ""
    if c in P["NAMES"]:
        return c
    if len(c) == 6 and is_hex(c):
        return c.lower()
    return None


def sqd(a, b):
    return (a[0] - b[0]) ** 2 + (a[1] - b[1]) ** 2 + (a[2] - b[2]) ** 2


# The fixed xterm 256-colour palette, independent of the implementation: what a
# terminal shows for `38;5;n`.
XTERM_LEVELS = (0, 95, 135, 175, 215, 255)
XTERM = ([(0, 0, 0), (205, 0, 0), (0, 205, 0), (205, 205, 0), (0, 0, 238), (205, 0, 205), (0, 205, 205), (229, 229, 229),
          (127, 127, 127), (255, 0, 0), (0, 255, 0), (255, 255, 0), (92, 92, 255), (255, 0, 255), (0, 255, 255), (255, 255, 255)]
         + [(r, g, b) for r in XTERM_LEVELS for g in XTERM_LEVELS for b in XTERM_LEVELS]
         + [(8 + 10 * i,) * 3 for i in range(24)])
assert len(XTERM) == 256


def spec_256(rgb):
    """index of the nearest xterm colour (>= 16: the first 16 depend on the terminal's theme), lowest index on ties"""
    return min(range(16, 256), key=lambda i: (sqd(rgb, XTERM[i]), i))


def check_tables(chk):
    """the implementation's encoder and decoder tables against the fixed xterm palette"""
    P = pt()
    tab = list(P["vt100"]._256ColorCache().colors)
    from prompt_toolkit.formatted_text import ansi
    diff = [i for i in range(max(len(tab), 256)) if (tab[i] if i < len(tab) else None) != (XTERM[i] if i < 256 else None)]
    if diff:
        i = diff[0]
        chk.violation("oracle", "_256ColorCache().colors differs from the xterm 256-colour palette at indices %r (%d entries): entry %d is %r, xterm colour %d is %r" % (
            diff[:8], len(tab), i, tab[i] if i < len(tab) else None, i, XTERM[i] if i < 256 else None),
            {"op": "map256", "family": "xterm-table"}, {"case": [5, 238, 238, 238], "differing_indices": diff[:16], "table_length": len(tab)})
    dec = {i: ansi._256_colors.get(i) for i in range(256)}
    bad = [i for i in range(256) if dec[i] != "#%02x%02x%02x" % XTERM[i]]
    if bad:
        chk.violation("oracle", "ANSI() decodes 38;5;%d to %r, xterm colour %d is %r (indices %r)" % (
            bad[0], dec[bad[0]], bad[0], "#%02x%02x%02x" % XTERM[bad[0]], bad[:8]),
            {"op": "sgr-decode", "family": "xterm-table"}, {"case": [3, [38, 5, bad[0]]], "differing_indices": bad[:16]})


def cands_16(rgb, excluded):
    P = pt()
    r, g, b = rgb
    sat = abs(r - g) + abs(g - b) + abs(b - r)
    ex = set(excluded)
    if sat > 30:
        ex |= {"ansiwhite", "ansiblack"}
    return [n for n in P["vt100"].ANSI_COLORS_TO_RGB if n != "ansidefault" and n not in ex]


def check_16(rgb, excluded, name):
    """name must be a nearest non-excluded palette colour; an exact palette
    colour that is not excluded maps to itself"""
    tab = pt()["vt100"].ANSI_COLORS_TO_RGB
    cs = cands_16(rgb, excluded)
    if not cs:
        return None
    if name not in cs:
        return "16-colour map returned %r, not a candidate" % name
    best = min(sqd(rgb, tab[n]) for n in cs)
    if sqd(rgb, tab[name]) != best:
        return "16-colour map returned %r at distance %d, nearest candidate is at %d" % (name, sqd(rgb, tab[name]), best)
    return None


def in_byte(*v):
    return all(0 <= x <= 255 for x in v)


def oracle(case, res):
    """None, or (clause, tags)."""
    P = pt()
    op = case[0]
    if op == 1:
        _, mode, sheets, style_str, default = case
        rules = [(unS(n), unS(s)) for sh in sheets for n, s in sh]
        ss = unS(style_str)
        try:
            exp = spec_cascade(rules, ss, dec_attrs(default))
        except Abstain:
            exp = None
        fam = "merge" if mode == 1 else "cascade"
        if res[0] == 0:
            a = dec_attrs(res[1])
            if any(v is None for v in a):
                return ("resolved attribute is None: %r" % (a,), {"op": "cascade", "family": "concrete"})
        if mode == 1:
            # merging = one sheet with the rules concatenated (both on the real code)
            one = impl_case([1, 0, [[r for sh in sheets for r in sh]], style_str, default])
            if sx_norm(one) != sx_norm(res):
                return ("merge_styles(%d sheets) gives %r, Style(concatenated rules) gives %r" % (len(sheets), res, one),
                        {"op": "cascade", "family": "merge"})
        if exp is None:
            return None
        if isinstance(exp, str):
            want = {"ValueError": 1, "AssertionError": 2}[exp]
            if res[0] != want:
                return ("expected %s, got %r" % (exp, res), {"op": "cascade", "family": fam + "-error"})
            return None
        if res[0] != 0:
            return ("raised (%r) for a well-formed sheet and style string" % (res,), {"op": "cascade", "family": fam + "-error"})
        got = dict(zip(FIELDS, dec_attrs(res[1])))
        bad = [k for k in FIELDS if got[k] != exp[k]]
        if bad:
            return ("attribute %s = %r, the last applicable rule/part gives %r" % (bad[0], got[bad[0]], exp[bad[0]]),
                    {"op": "cascade", "family": fam, "attr": "colour" if bad[0] in ("color", "bgcolor") else "flag"})
        return None
    if op == 2:
        _, depth, ax = case
        if res[0] != 0:
            return ("escape code cache raised %r" % (res,), {"op": "escape-code", "family": "raise"})
        a = dec_attrs(ax)
        seq = unS(res[1])
        fg, bg = canon_color(a.color), canon_color(a.bgcolor)
        if fg is None or bg is None:
            return None
        if not (seq.startswith("\x1b[0") and seq.endswith("m")):
            return ("not an SGR sequence starting with reset: %r" % seq, {"op": "escape-code", "family": "shape"})
        try:
            back = with_watchdog(lambda: decode_seq(seq), 5)
        except Exception as e:  # noqa
            return ("decoding the emitted sequence %r raised %s: %s" % (seq, type(e).__name__, e),
                    {"op": "escape-code", "family": "decode-raise", "depth": depth})
        # the sequence starts with a reset: a dirty prior decoder state must not matter
        dirty = "\x1b[1;3;4;5;7;8;9;31;42my"
        try:
            back2 = with_watchdog(lambda: decode_seq(dirty + seq), 5)
        except Exception as e:  # noqa
            back2 = "%s: %s" % (type(e).__name__, e)
        if back2 != back:
            return ("after %r the sequence %r decodes to %r, from the reset state to %r" % (dirty, seq, tuple(back2) if not isinstance(back2, str) else back2, tuple(back)),
                    {"op": "escape-code", "family": "prior-state", "depth": depth})
        flags = tuple(bool(v) for v in a[2:])
        if tuple(back[2:]) != flags:
            return ("flags decode to %r, expected %r (depth %d, %r)" % (tuple(back[2:]), flags, depth, seq),
                    {"op": "escape-code", "family": "flags", "depth": depth})
        names = P["NAMES"]
        tab16 = P["vt100"].ANSI_COLORS_TO_RGB

        def rgb_of(c):
            v = int(c, 16)
            return ((v >> 16) & 255, (v >> 8) & 255, v & 255)
        if depth == 24:
            if (back.color, back.bgcolor) != (fg, bg):
                return ("24-bit round trip: %r decodes to colours %r, expected %r" % (seq, (back.color, back.bgcolor), (fg, bg)),
                        {"op": "escape-code", "family": "roundtrip24"})
        elif depth == 1:
            if (back.color, back.bgcolor) != ("", ""):
                return ("1-bit depth emitted a colour: %r" % seq, {"op": "escape-code", "family": "depth1"})
        elif depth == 8:
            tab = XTERM
            for want, gotc, what in ((fg, back.color, "fg"), (bg, back.bgcolor, "bg")):
                if want == "" or want in names:
                    if gotc != want:
                        return ("8-bit: %s %r decodes to %r" % (what, want, gotc), {"op": "escape-code", "family": "ansi-name", "depth": 8})
                else:
                    exp = "%02x%02x%02x" % tab[spec_256(rgb_of(want))]
                    if gotc != exp:
                        return ("8-bit: %s %s decodes to palette colour %r, the nearest entry (index >= 16, lowest index) is %r" % (what, want, gotc, exp),
                                {"op": "escape-code", "family": "nearest256"})
        elif depth == 4:
            fgname = None
            if fg == "" or fg in names:
                if back.color != fg:
                    return ("4-bit: fg %r decodes to %r" % (fg, back.color), {"op": "escape-code", "family": "ansi-name", "depth": 4})
            else:
                fgname = back.color
                msg = check_16(rgb_of(fg), [], back.color)
                if msg is None and rgb_of(fg) in [v for k, v in tab16.items() if k != "ansidefault"] and tab16.get(back.color) != rgb_of(fg):
                    msg = "palette colour %s mapped to %r" % (fg, back.color)
                if msg:
                    return ("4-bit fg %s: %s" % (fg, msg), {"op": "escape-code", "family": "nearest16"})
            if bg == "" or bg in names:
                if back.bgcolor != bg:
                    return ("4-bit: bg %r decodes to %r" % (bg, back.bgcolor), {"op": "escape-code", "family": "ansi-name", "depth": 4})
            else:
                ex = [fgname] if (fgname and (a.color or "") != (a.bgcolor or "")) else []
                msg = check_16(rgb_of(bg), ex, back.bgcolor)
                if msg:
                    return ("4-bit bg %s (fg %s): %s" % (bg, fg, msg), {"op": "escape-code", "family": "nearest16"})
        return None
    if op == 3 and len(case[1]) == 3 and case[1][0] in (38, 48) and case[1][1] == 5 and 0 <= case[1][2] <= 255 and isinstance(res[0], list):
        n = case[1][2]
        got = res[0][0 if case[1][0] == 38 else 1]
        exp = [S("#%02x%02x%02x" % XTERM[n])]
        if got != exp:
            return ("%d;5;%d decodes to %r, xterm colour %d is %r" % (case[1][0], n, unS(got[0]) if got else None, n, unS(exp[0])),
                    {"op": "sgr-decode", "family": "xterm-table"})
    if op in (3, 4):
        if isinstance(res, list) and res and res[0] in (98, 99, 1, 2) and not (op == 3 and isinstance(res[0], list)):
            if op == 4 and res == [1]:
                return None
            return ("decoder raised %r" % (res,), {"op": OPN[op], "family": "raise"})
        return None
    if op == 5:
        rgb = (case[1], case[2], case[3])
        if not in_byte(*rgb):
            return None
        if not isinstance(res, int):
            return ("256 map raised %r" % (res,), {"op": "map256", "family": "raise"})
        exp = spec_256(rgb)
        if res != exp:
            tab = XTERM
            return ("256 map %r -> %d (xterm colour %r, distance %d); the nearest xterm colour with index >= 16, lowest index, is %d (%r, distance %d)" % (
                rgb, res, tab[res] if 0 <= res < 256 else None, sqd(rgb, tab[res]) if 0 <= res < 256 else -1, exp, tab[exp], sqd(rgb, tab[exp])),
                {"op": "map256", "family": "nearest256"})
        return None
    if op == 6:
        rgb = (case[2], case[3], case[4])
        if not in_byte(*rgb):
            return None
        if not (isinstance(res, list) and len(res) == 2 and isinstance(res[0], int)):
            return ("16 map raised %r" % (res,), {"op": "map16", "family": "raise"})
        name = unS(res[1])
        ex = [unS(e) for e in case[5]]
        msg = check_16(rgb, ex, name)
        tab16 = P["vt100"].ANSI_COLORS_TO_RGB
        if msg is None and cands_16(rgb, ex):
            code = (P["vt100"].BG_ANSI_COLORS if case[1] else P["vt100"].FG_ANSI_COLORS)[name]
            if res[0] != code:
                msg = "code %d is not the %s code of %s" % (res[0], "bg" if case[1] else "fg", name)
            elif not ex and rgb in [v for k, v in tab16.items() if k != "ansidefault"] and tab16[name] != rgb:
                msg = "palette colour mapped to %r" % name
        if msg:
            return ("16 map %r exclude %r: %s" % (rgb, ex, msg), {"op": "map16", "family": "nearest16"})
        return None
    if op == 14:
        _, mp, items, style_str = case
        rules = [(unS(n), unS(x)) for n, x in items]
        if mp:   # more class-name elements = later; equal precision keeps dictionary order
            prec = lambda r: sum(w.count(".") + 1 for w in r[0].split())   # noqa
            rules = [r for _, _, r in sorted((prec(r), i, r) for i, r in enumerate(rules))]
        exp = spec_cascade(rules, unS(style_str), P["DEFAULT"])
        if isinstance(exp, str):
            want = {"ValueError": 1, "AssertionError": 2}[exp]
            return None if res[0] == want else ("expected %s, got %r" % (exp, res), {"op": "from_dict", "family": "error"})
        if res[0] != 0:
            return ("from_dict raised %r for a well-formed dictionary" % (res,), {"op": "from_dict", "family": "error"})
        got = dict(zip(FIELDS, dec_attrs(res[1])))
        bad = [k for k in FIELDS if got[k] != exp[k]]
        if bad:
            return ("%s: attribute %s = %r, the last applicable rule in %s order gives %r" % (
                "MOST_PRECISE" if mp else "DICT_KEY_ORDER", bad[0], got[bad[0]], "precision" if mp else "dictionary", exp[bad[0]]),
                {"op": "from_dict", "family": "most-precise" if mp else "key-order"})
        return None
    if op == 18:
        calls = case[1]
        if not (isinstance(res, list) and len(res) == len(calls)):
            return ("set_attributes history raised %r" % (res,), {"op": "vt100-history", "family": "raise"})
        # the text written for (attrs, depth) is a function of attrs and depth only:
        # a fresh _EscapeCodeCache with fresh colour caches gives the same text
        for k, ((depth, a), got) in enumerate(zip(calls, res)):
            ref = run_history([[0, depth, a]], shared=False)[0]
            if sx_norm(got) != sx_norm(ref):
                return ("call %d: set_attributes(%r, %s) wrote %r after %d earlier calls on the same Vt100_Output, %r on a fresh one" % (
                    k, tuple(dec_attrs(a)), DEPTHS[depth], unS(got), k, unS(ref)), {"op": "vt100-history", "family": "leak"})
        return None
    if op == 21:
        if not (isinstance(res, list) and len(res) == 4):
            return ("float kernels raised %r" % (res,), {"op": "float-kernels", "family": "raise"})
        for what, v in (("get_opposite_color", res[0]), ("AdjustBrightness", res[1])):
            if what == "AdjustBrightness" and not res[2]:
                continue        # bounds outside 0..1: the real transformation asserts
            x = unS(v[0]) if v else None
            if x is None or len(x) != 6 or not LOWHEX.issuperset(x):
                return ("%s gives %r: not six lower-case hexadecimal digits" % (what, x), {"op": "float-kernels", "family": "kernel-range"})
        return None
    if op == 22:
        if not (isinstance(res, list) and len(res) == 2 and all(isinstance(x, int) for x in res)):
            return ("float kernel outside six hexadecimal digits on the plane: %r" % (
                unS(res[1]) if isinstance(res, list) and len(res) == 2 and res[0] == 99 else res,),
                {"op": "float-kernels", "family": "kernel-range"})
        return None
    if op in (15, 20):
        a0 = dec_attrs(case[2])
        nodes = list(transf_nodes(case[1]))
        if res[0] != 0:
            bad_cfg = False
            for n, act in nodes:
                if n[0] == 3 and not (0 <= n[3] / 1000.0 <= 1 and 0 <= n[4] / 1000.0 <= 1):
                    bad_cfg = True
                if n[0] == 2:
                    for w in (unS(n[1]), unS(n[2])):
                        try:
                            spec_color(w)
                        except ValueError:
                            bad_cfg = True
            if bad_cfg or canon_color(a0.color) is None or canon_color(a0.bgcolor) is None:
                return None
            adj_active = any(n[0] == 3 and act and not (n[3] == 0 and n[4] == 1000) for n, act in nodes)
            has_default = a0.color == "default" or any(n[0] == 2 and unS(n[1]) == "default" for n, _ in nodes)
            fam = "raise-adjust-default" if (res[0] == 1 and adj_active and has_default) else "raise"
            return ("transformation raised %r on in-domain attributes %r" % (res, tuple(a0)), {"op": "transform", "family": fam})
        a1 = dec_attrs(res[1])
        if canon_color(a0.color) is None or canon_color(a0.bgcolor) is None:
            return None
        if all(v is not None for v in a0) and any(v is None for v in a1):
            return ("transformed attributes are not concrete: %r" % (tuple(a1),), {"op": "transform", "family": "concrete"})
        exp = (canon_color(a1.color), canon_color(a1.bgcolor))
        if None in exp:
            return ("transformed colours leave the round-trip domain: %r" % ((a1.color, a1.bgcolor),), {"op": "transform", "family": "domain"})
        seq = P["vt100"]._EscapeCodeCache(P["ColorDepth"].DEPTH_24_BIT)[a1]
        back = decode_seq(seq)
        want = exp + tuple(bool(v) for v in a1[2:])
        if tuple(back) != want:
            return ("transformed %r -> %r decodes back to %r" % (tuple(a1), seq, tuple(back)), {"op": "transform", "family": "roundtrip24"})
        return None
    if op == 16:
        if not (isinstance(res, list) and len(res) == len(case[1])):
            return ("cache history raised %r" % (res,), {"op": "cache-history", "family": "raise"})
        pure = run_history(case[1], shared=False)
        for k, (x, y) in enumerate(zip(res, pure)):
            if sx_norm(x) != sx_norm(y):
                return ("query %d %r: cached answer %r, uncached answer %r (after the %d earlier queries)" % (
                    k, case[1][k], unS(x) if case[1][k][0] == 0 else x, unS(y) if case[1][k][0] == 0 else y, k),
                    {"op": "cache-history", "family": "cache"})
        return None
    if op == 19:
        _, pool, inner, objs, events = case
        if not (isinstance(res, list) and len(res) == len(events)):
            return ("event history raised %r" % (res,), {"op": "nested-dynamic", "family": "raise"})
        rules_of = {i: [(unS(n), unS(x)) for n, x in r] for i, r in pool}
        c0, c1 = {}, {}

        def now0(x):
            """(is a real sheet?, current rules) of an inner object"""
            if x[0] == 0:
                return True, rules_of[x[1]]
            if x[0] == 1:
                return False, []
            if x[0] == 2:
                return (True, rules_of[c0[x[1]]]) if c0.get(x[1]) is not None else (False, [])
            return True, [r for y in x[1] for r in now0(y)[1]]

        def now1(x):
            if x[0] == 0:
                return True, rules_of[x[1]]
            if x[0] == 1:
                return False, []
            if x[0] == 2:
                tg = c1.get(x[1])
                if not tg:
                    return False, []
                if tg[0] == 0:
                    return True, rules_of[tg[1]]
                return now0(inner[tg[1]])
            return True, [r for y in x[1] for r in now1(y)[1]]
        for k, (e, got) in enumerate(zip(events, res)):
            if e[0] == 0:
                c0[e[1]] = e[2][0] if e[2] else None
                continue
            if e[0] == 3:
                c1[e[1]] = list(e[2]) if e[2] else None
                continue
            sheet, want_rules = now0(inner[e[1]]) if e[0] == 4 else now1(objs[e[1]])
            if e[0] == 2:
                if got != [5, [[S(n), S(x)] for n, x in want_rules]]:
                    return ("event %d: style_rules is not the concatenation of the current sheets' rules %r" % (k, want_rules),
                            {"op": "nested-dynamic", "family": "style_rules"})
                continue
            ref = impl_case([1, 0, [[rule_sx(r) for r in want_rules]], e[2], DEFAULT_SX]) if sheet else [0, DEFAULT_SX]
            if sx_norm(got) != sx_norm(ref):
                return ("event %d: look-up %r on %s object %d gives %r; one sheet with the current rules %r gives %r (after %d earlier events)" % (
                    k, unS(e[2]), "inner" if e[0] == 4 else "outer", e[1], tuple(dec_attrs(got[1])) if got and got[0] == 0 else got,
                    want_rules, tuple(dec_attrs(ref[1])) if ref and ref[0] == 0 else ref, k),
                    {"op": "nested-dynamic", "family": "stale-nested"})
        return None
    if op == 17:
        _, pool, objs, events = case
        if not (isinstance(res, list) and len(res) == len(events)):
            return ("event history raised %r" % (res,), {"op": "merged-dynamic", "family": "raise"})
        rules_of = {i: [(unS(n), unS(x)) for n, x in r] for i, r in pool}
        cur = {}

        def rules_now(x):
            if x[0] == 0:
                return rules_of[x[1]]
            if x[0] == 1:
                return []
            if x[0] == 2:
                return rules_of[cur[x[1]]] if cur.get(x[1]) is not None else []
            return [r for y in x[1] for r in rules_now(y)]
        for k, (e, got) in enumerate(zip(events, res)):
            if e[0] == 0:
                cur[e[1]] = e[2][0] if e[2] else None
                continue
            o = objs[e[1]]
            want_rules = rules_now(o)
            if e[0] == 2:
                if got != [5, [[S(n), S(x)] for n, x in want_rules]]:
                    return ("event %d: style_rules is not the concatenation of the current sheets' rules" % k,
                            {"op": "merged-dynamic", "family": "style_rules"})
                continue
            if o[0] == 3:       # a merge is one sheet with the CURRENT rules concatenated
                ref = impl_case([1, 0, [[rule_sx(r) for r in want_rules]], e[2], DEFAULT_SX])
            elif o[0] == 0 or (o[0] == 2 and cur.get(o[1]) is not None):
                ref = impl_case([1, 0, [[rule_sx(r) for r in want_rules]], e[2], DEFAULT_SX])
            else:
                ref = [0, DEFAULT_SX]
            if sx_norm(got) != sx_norm(ref):
                return ("event %d: look-up %r gives %r; one sheet with the current rules %r gives %r (after %d earlier events)" % (
                    k, unS(e[2]), tuple(dec_attrs(got[1])) if got and got[0] == 0 else got, want_rules,
                    tuple(dec_attrs(ref[1])) if ref and ref[0] == 0 else ref, k),
                    {"op": "merged-dynamic", "family": "stale-merge"})
        return None
    if op == 13:
        if res[0] != 0:
            try:
                exp = spec_cascade([(unS(n), unS(x)) for n, x in case[1]], unS(case[2]), P["DEFAULT"])
            except Abstain:
                return None
            if not isinstance(exp, str):
                return ("resolve/encode/decode raised %r for a well-formed sheet and style string" % (res,),
                        {"op": "end-to-end", "family": "raise"})
            return None
        a, back = dec_attrs(res[1]), dec_attrs(res[3])
        exp = (canon_color(a.color), canon_color(a.bgcolor))
        want = tuple("?" if e is None else e for e in exp) + tuple(a[2:])
        if tuple(back) != want:
            nonhex = None in exp
            return ("resolved %r -> %r decodes back to %r" % (tuple(a), unS(res[2]), tuple(back)),
                    {"op": "end-to-end", "family": "nonhex-colour" if nonhex else "roundtrip24"})
        return None
    return None


# --------------------------------------------------------------------------
# generators

def A_(color="", bgcolor="", flags=(0,) * 7):
    return [opt(color, S), opt(bgcolor, S)] + [[] if f is None else [1 if f else 0] for f in flags]


DEFAULT_SX = A_()
NAMES_SMALL = ["a", "b", "a.b", "a b", ""]
STYLES_SMALL = ["bold", "nobold", "#ff0000 italic", "bg:ansiblue bold"]
PARTS_SMALL = ["class:a", "class:b", "class:a.b", "class:a,b", "class:b,a", "nobold", "italic #00f"]
NAMES_RAND = NAMES_SMALL + ["b a", "a.b b", "c", "a b c", "a.b.c", " a  b ", "a\tb", "A", "a,b", "a-b_1", "b.a", "a\xa0b", "a b a.b"]
STYLES_RAND = STYLES_SMALL + ["", "underline", "nounderline", "strike", "blink noblink", "reverse", "hidden", "noinherit",
                              "noinherit bold", "bold noinherit", "italic noinherit underline", "#ff0000 bg:ansiblue noinherit", "fg:ansired bg:#00ff00", "ansidarkred", "AliceBlue", "bg:purple", "#abc", "#ABCDEF",
                              "fg:default", "bg:", "bogus", "#12", "roman", "border:#000", "[transparent]", "noitalic nostrike",
                              "nohidden noreverse", "  bold\titalic ", "#ansiblue", "bg:#ansiteal", "fg:", "bold bold nobold",
                              "[noinherit]", "#00ff00 underline", "BOLD"]
PARTS_RAND = PARTS_SMALL + ["class:c", "class:a.b.c", "class:A", "class:A.B,b", "class:", "class:,a", "class:a,,b", "class:b.a",
                            "bold", "noinherit", "bg:ansired", "fg:#123456", "#fff", "bogus", "[x]", "class:a-b_1", "strike",
                            "reverse", "hidden", "nohidden", "underline", "bg:default", "ansibrown", "class:a.b,a", "#zzzzzz", "bg:#xyz"]
COLORS_ENC = ["", "ansired", "ansidefault", "ansibrightblack", "ansiwhite", "ff0000", "FE0000", "00cd00", "000000", "e5e5e5",
              "123456", "0a0B0c", "default"]
COLORS_ODD = ["zzzzzz", "purple", "+12345", "-12345", "0x1234", "1_2345", "12 456", "__1234", "0x_123", "ff00", "ansiteal", "#ff0000", "1234567", "12345_"]


def split_sheets(rules):
    n = len(rules)
    out = []
    for i in range(n + 1):
        out.append([rules[:i], rules[i:]])
        for j in range(i, n + 1):
            out.append([rules[:i], rules[i:j], rules[j:]])
    return out


def rule_sx(r):
    return [S(r[0]), S(r[1])]


def gen_cascade(chk, dist):
    rng = chk.rng
    thorough = chk.tier == "thorough"
    cases = []
    rule_opts = [(n, s) for n in NAMES_SMALL for s in STYLES_SMALL]
    rule_lists = [[]] + [[r] for r in rule_opts] + [[r1, r2] for r1 in rule_opts for r2 in rule_opts]
    strs = [""]
    for k in (1, 2, 3):
        strs += [" ".join(p) for p in itertools.product(PARTS_SMALL, repeat=k)]
    stratum = 0.6 if thorough else 0.08
    for rl in rule_lists:
        rs = [rule_sx(r) for r in rl]
        for s in strs:
            if rng.random() < stratum:
                cases.append([1, 0, [rs], S(s), DEFAULT_SX])
                dist["cascade_exhaustive_small"] += 1
    # three rules: sampled
    for _ in range(60000 if thorough else 4000):
        rl = [rng.choice(rule_opts) for _ in range(3)]
        s = " ".join(rng.choice(PARTS_SMALL) for _ in range(rng.randint(0, 3)))
        cases.append([1, 0, [[rule_sx(r) for r in rl]], S(s), DEFAULT_SX])
        dist["cascade_three_rules"] += 1
    # merges of two and three sheets, every split
    for _ in range(6000 if thorough else 700):
        rl = [rng.choice(rule_opts if rng.random() < 0.7 else [(n, s) for n in NAMES_RAND[:9] for s in STYLES_RAND[:12]])
              for _ in range(rng.randint(0, 3))]
        if len(rl) >= 2 and rng.random() < 0.4:
            rl[-1] = rl[0]                      # first rule repeated after the others
        s = " ".join(rng.choice(PARTS_SMALL + PARTS_RAND[:6]) for _ in range(rng.randint(0, 3)))
        for sh in split_sheets([rule_sx(r) for r in rl]):
            cases.append([1, 1, sh, S(s), DEFAULT_SX])
            dist["merge_splits"] += 1
    # the very same rule repeated around a conflicting one - across sheets and within one sheet
    rep_strs = ["class:a class:b", "class:a.b", "class:b,a", "", "class:b class:a nobold"]
    for n in NAMES_SMALL:
        for sa in STYLES_SMALL:
            for sb in STYLES_SMALL:
                if sa == sb:
                    continue
                ra, rb = rule_sx((n, sa)), rule_sx((n, sb))
                for seq in ([ra, rb, ra], [ra, ra, rb], [rb, ra, ra, rb], [ra, rb, rb, ra]):
                    for st in rep_strs:
                        if not thorough and rng.random() > 0.25:
                            continue
                        cases.append([1, 0, [seq], S(st), DEFAULT_SX])
                        for sh in split_sheets(seq) if len(seq) == 3 else [[seq[:1], seq[1:3], seq[3:]], [seq[:2], seq[2:]], [seq[:1], seq[1:]], [seq[:3], seq[3:]]]:
                            cases.append([1, 1, sh, S(st), DEFAULT_SX])
                            dist["merge_repeated_rule"] += 1
    # structured random: larger vocabulary, odd whitespace, errors, other defaults
    seps = [" ", " ", "  ", "\t", "\n", "\xa0", " ", " \x1f"]
    for _ in range(40000 if thorough else 5000):
        rl = [(rng.choice(NAMES_RAND), rng.choice(STYLES_RAND)) for _ in range(rng.choice([0, 1, 2, 2, 3, 4, 6]))]
        parts = [rng.choice(PARTS_RAND) for _ in range(rng.choice([0, 1, 2, 3, 3, 4, 6]))]
        s = (rng.choice(["", " "])) + "".join(p + rng.choice(seps) for p in parts)
        if rng.random() < 0.25:
            d = A_(rng.choice([None, "", "ansired", "00ff00"]), rng.choice([None, "", "ansiblue"]),
                   [rng.choice([None, 0, 1]) for _ in range(7)])
        else:
            d = DEFAULT_SX
        if rl and rng.random() < 0.3:
            rl.append(rng.choice(rl))           # an exact repeat of an earlier rule
        rs = [rule_sx(r) for r in rl]
        if rng.random() < 0.3 and rs:
            k = rng.randint(0, len(rs))
            cases.append([1, 1, [rs[:k], rs[k:]], S(s), d])
        else:
            cases.append([1, 0, [rs], S(s), d])
        dist["cascade_random"] += 1
    # "noinherit" at every position of a rule string (C19_noinherit_any_position): the other
    # words of the rule still apply, whatever stands before or after the word
    word_sets = [["bold"], ["italic", "#ff0000"], ["bg:ansiblue", "underline"], ["nobold", "strike", "fg:ansired"],
                 ["reverse", "bg:#00ff00", "blink", "hidden"], ["#abc", "noitalic"]]
    dist["noinherit_positions"] = 0
    for ws in word_sets:
        for p in range(len(ws) + 1):
            sty = " ".join(ws[:p] + ["noinherit"] + ws[p:])
            for sep in (" ", "  \t"):
                sty2 = sty.replace(" ", sep)
                for sheet, ss in (([("a", sty2)], "class:a"), ([("a", "reverse hidden italic"), ("a", sty2)], "class:a"),
                                  ([("", sty2)], ""), ([("a b", "underline"), ("b", sty2)], "class:a,b"),
                                  ([("a", sty2), ("a", "bg:ansired")], "class:a nobold")):
                    cases.append([1, 0, [[rule_sx(r) for r in sheet]], S(ss), DEFAULT_SX])
                    if len(sheet) == 2:
                        cases.append([1, 1, [[rule_sx(sheet[0])], [rule_sx(sheet[1])]], S(ss), DEFAULT_SX])
                    dist["noinherit_positions"] += 1
    return cases


def gen_escape(chk, dist):
    rng = chk.rng
    thorough = chk.tier == "thorough"
    cases = []
    cols = COLORS_ENC[:8] if not thorough else COLORS_ENC
    for flags in itertools.product((0, 1), repeat=7):
        for fg in cols:
            for bg in cols:
                for depth in (1, 4, 8, 24):
                    if thorough or rng.random() < 0.3:
                        cases.append([2, depth, A_(fg, bg, flags)])
                        dist["escape_all_flags"] += 1

    def rhex():
        r = rng.random()
        if r < 0.5:
            return "%06x" % rng.getrandbits(24)
        if r < 0.7:
            return "".join(rng.choice(HEX) for _ in range(6))
        tab = pt()["vt100"]._256_colors.colors + list(pt()["vt100"].ANSI_COLORS_TO_RGB.values())
        c = list(rng.choice(tab))
        if r < 0.85:
            i = rng.randrange(3)
            c[i] = max(0, min(255, c[i] + rng.choice([-1, 1])))
        return "%02x%02x%02x" % tuple(c)
    for _ in range(60000 if thorough else 8000):
        def col():
            r = rng.random()
            if r < 0.55:
                return rhex()
            if r < 0.75:
                return rng.choice(pt()["NAMES"])
            if r < 0.85:
                return rng.choice(["", None, "default"])
            if r < 0.95:
                return rng.choice(COLORS_ODD)
            return "".join(rng.choice("0123456789abcdefABCDEFxX_+- zg\t") for _ in range(rng.choice([6, 6, 6, 3, 5, 7])))
        fg = col()
        bg = fg if rng.random() < 0.1 else col()
        flags = [rng.choice([0, 1, 0, 1, None]) for _ in range(7)]
        cases.append([2, rng.choice([1, 4, 4, 8, 8, 24, 24]), A_(fg, bg, flags)])
        dist["escape_random"] += 1
    return cases


def gen_decode(chk, dist):
    rng = chk.rng
    thorough = chk.tier == "thorough"
    cases = []
    codes = [0, 1, 2, 3, 4, 5, 6, 7, 8, 9, 21, 22, 23, 24, 25, 26, 27, 28, 29, 30, 37, 38, 39, 40, 47, 48, 49, 50,
             90, 97, 98, 100, 107, 108, 15, 16, 232, 253, 254, 255, 256, 9999]
    cases.append([3, []])
    for n in range(256):
        cases.append([3, [38, 5, n]])
        cases.append([3, [48, 5, n]])
    for a in codes:
        cases.append([3, [a]])
        for b in codes:
            cases.append([3, [a, b]])
    dist["sgr_exhaustive_len2"] = len(cases)
    for _ in range(20000 if thorough else 3000):
        ps = []
        for _k in range(rng.randint(1, 5)):
            r = rng.random()
            if r < 0.3:
                ps += [rng.choice([38, 48]), 2] + [rng.choice([0, 1, 15, 16, 128, 255, 256, 9999, rng.randint(0, 255)]) for _ in range(rng.choice([3, 3, 3, 2, 1, 0]))]
            elif r < 0.5:
                ps += [rng.choice([38, 48]), 5] + [rng.choice([0, 15, 16, 231, 253, 254, 255, 300])][:rng.choice([1, 1, 1, 0])]
            elif r < 0.55:
                ps += [rng.choice([38, 48]), rng.choice([0, 1, 3, 5, 2])]
            else:
                ps.append(rng.choice(codes))
        cases.append([3, ps])
        dist["sgr_random"] += 1
    alpha = "\x1b[[;;mmC0123456789x \x9b9"
    for _ in range(12000 if thorough else 2000):
        if rng.random() < 0.5:
            t = ""
            for _k in range(rng.randint(1, 3)):
                ps = [rng.choice(codes + [38, 48, 2, 5]) for _ in range(rng.randint(0, 6))]
                t += rng.choice(["\x1b[", "\x9b"]) + ";".join(str(p) if rng.random() < 0.9 else "" for p in ps) + rng.choice("mmmmC~")
                t += rng.choice(["", "x", "yz"])
        else:
            t = "".join(rng.choice(alpha) for _ in range(rng.randint(0, 14)))
        if rng.random() < 0.1:
            t += "\x1b[" + rng.choice(["0031", "000", "00000000000038;5;0016", "123456", "99999;1", "0" * 30 + "1", "9" * 40, "10000;4"]) + "mz"
        t = t.replace("999C", "9C").replace("99C", "9C")
        cases.append([4, S(t)])
        dist["ansi_text"] += 1
    return cases


def gen_rgb(chk, dist):
    rng = chk.rng
    thorough = chk.tier == "thorough"
    P = pt()
    tab256 = list(P["vt100"]._256_colors.colors) + XTERM[232:]
    tab16 = P["vt100"].ANSI_COLORS_TO_RGB
    names = P["NAMES"]
    trip = set()
    step = 5 if thorough else 17
    vals = sorted(set(list(range(0, 256, step)) + [255]))
    for r in vals:
        for g in vals:
            for b in vals:
                trip.add((r, g, b))
    # neighbourhoods of every table colour and of the midpoints between cube levels
    for c in list(tab256) + list(tab16.values()):
        for d in itertools.product((-1, 0, 1), repeat=3):
            t = tuple(max(0, min(255, c[i] + d[i])) for i in range(3))
            trip.add(t)
    levels = sorted(set(c[0] for c in tab256[16:232]))
    mids = sorted(set((a + b) // 2 + e for a, b in zip(levels, levels[1:]) for e in (0, 1)))
    for r in mids:
        for g in mids:
            for b in mids:
                if thorough or rng.random() < 0.5:
                    trip.add((min(r, 255), min(g, 255), min(b, 255)))
    for _ in range(300000 if thorough else 12000):
        trip.add((rng.randrange(256), rng.randrange(256), rng.randrange(256)))
    # gray diagonal and near-gray (saturation threshold 30)
    for v in range(256):
        for dv in (0, 5, 10, 11, 15, 16, 20):
            trip.add((v, min(255, v + dv), v))
            trip.add((v, v, max(0, v - dv)))
    trip = sorted(trip)
    cases = []
    for t in trip:
        cases.append([5, t[0], t[1], t[2]])
    dist["map256"] = len(trip)
    n16 = 0
    for t in trip:
        if thorough or rng.random() < 0.5:
            r = rng.random()
            if r < 0.6:
                ex = []
            elif r < 0.9:
                ex = [S(rng.choice(names))]
            elif r < 0.95:
                ex = [S("")]
            else:
                ex = [S(rng.choice(names)), S(rng.choice(names + ["ansilightgray", "ansidarkgray"]))]
            cases.append([6, rng.randint(0, 1), t[0], t[1], t[2], ex])
            n16 += 1
    dist["map16"] = n16
    # out of range values (the code accepts any int)
    for _ in range(300):
        t = [rng.choice([-300, -1, 0, 128, 255, 256, 400, 1000]) for _ in range(3)]
        cases.append([5] + t)
        cases.append([6, 0] + t + [[]])
    dist["rgb_out_of_range"] = 600
    return cases


def gen_prims(chk, dist):
    rng = chk.rng
    thorough = chk.tier == "thorough"
    cases = []
    n = 12000 if thorough else 2500
    a16 = "0123456789abcdefABCDEFxX_+- zg\t\n"
    for _ in range(n):
        s = "".join(rng.choice(a16) for _ in range(rng.choice([0, 1, 2, 3, 6, 6, 6, 7, 9])))
        cases.append([7, S(s)])
    for s in ["0x", "", "+", "0x_1", "_1", "1__2", "1_", "-12345", " 12 ", "1 2", "0X12", "+0x1", "0x+1", "0_x1", "00x1", "0x__1",
              "-0x_f", "0", "-0", "+_1", "1_2_3", "\t1f\n", "0xg", "x1", "0x1_", "ffffff", "FFFFFF"]:
        cases.append([7, S(s)])
    P = pt()
    colwords = P["NAMES"] + list(P["ALIASES"]) + list(P["NAMED"])[:40] + ["", "default", "Default", "#", "#1", "#12", "#123", "#1234",
                                                                         "#12345", "#123456", "#1234567", "#ansired", "#ansiteal", "#purple",
                                                                         "#zzz", "#zzzzzz", "RED", "Red", "ansiRed", "#FFF", "bogus", "#AnsiRed"]
    for w in colwords:
        cases.append([8, S(w)])
    for _ in range(n // 4):
        w = rng.choice(colwords)
        w = "".join(c.upper() if rng.random() < 0.2 else c for c in w)
        if rng.random() < 0.3:
            w = "#" + w
        cases.append([8, S(w)])
    for s in STYLES_RAND + PARTS_RAND + ["[noinherit]", "border:noinherit", "xnoinherity", "bg:noinherit", "noinheritbold", "[", "]", "[]", "[a", "a]",
                                         "bg:#abc fg:#def", "fg:bg:red", "bg:fg:red", "border:", "roman sans mono", "class:a"]:
        cases.append([9, S(s)])
    for _ in range(n // 2):
        s = " ".join(rng.choice(STYLES_RAND + PARTS_RAND) for _ in range(rng.randint(0, 4)))
        cases.append([9, S(s)])
    for s in ["", "a", "a.b", "a.b.c", ".", "a.", ".a", "A.b", "a..b", "a b.c", "..."]:
        cases.append([10, S(s)])
    ws = " \t\n\x0b\x0c\r\x1c\x1d\x1e\x1f\x85\xa0       　"
    for _ in range(n // 2):
        s = "".join(rng.choice(ws) if rng.random() < 0.35 else rng.choice("ab:.#​é") for _ in range(rng.randint(0, 10)))
        cases.append([11, S(s)])
    for v in list(range(-20, 300)) + [9999, 10000, 65535, 65536, 10 ** 6, -(10 ** 6), 2 ** 40, 16 ** 5 - 1, 16 ** 5]:
        cases.append([12, v])
    dist["primitives"] = len(cases)
    return cases


def gen_e2e(chk, dist):
    rng = chk.rng
    thorough = chk.tier == "thorough"
    cases = []
    cols = ["#ff0000", "#FE00aa", "#abc", "ansired", "ansiteal", "AliceBlue", "default", "", "#zzzzzz", "#purple", "#+12345",
            "#1_2345", "#0x1234", "#ggg", "#12345g"]
    for fgc in cols:
        for bgc in cols:
            sty = ("fg:" + fgc + " " if fgc is not None else "") + "bg:" + bgc + " bold"
            cases.append([13, [rule_sx(("a", sty))], S("class:a")])
            cases.append([13, [], S(sty)])
    for _ in range(6000 if thorough else 800):
        def col():
            r = rng.random()
            if r < 0.6:
                return "#" + "".join(rng.choice(HEX) for _ in range(rng.choice([6, 6, 3])))
            if r < 0.8:
                return rng.choice(pt()["NAMES"] + list(pt()["ALIASES"]) + list(pt()["NAMED"])[:30])
            return "#" + "".join(rng.choice("0123456789abcdefgxz_+") for _ in range(rng.choice([6, 3])))
        rl = [(rng.choice(NAMES_SMALL), "fg:%s bg:%s %s" % (col(), col(), rng.choice(STYLES_SMALL[:2] + ["underline blink", "reverse hidden strike italic"])))
              for _ in range(rng.randint(0, 2))]
        s = " ".join(rng.choice(PARTS_SMALL + ["fg:" + col(), "bg:" + col()]) for _ in range(rng.randint(0, 3)))
        cases.append([13, [rule_sx(r) for r in rl], S(s)])
    dist["end_to_end"] = len(cases)
    return cases


def gen_fromdict(chk, dist):
    rng = chk.rng
    thorough = chk.tier == "thorough"
    names = ["a", "b", "a.b", "a b", "", "b a", "a.b b", "c", "a b c", "a.b.c", "b.a", "a  b", "a.b.c b"]
    styles = STYLES_SMALL + ["underline", "nounderline", "#00ff00", "bg:ansired nobold", "noinherit", "bogus"]
    strs = ["class:a", "class:b class:a", "class:a.b", "class:a,b", "class:a.b.c class:b", "class:a class:b class:c", "class:b.a bold", ""]
    cases = []
    # exhaustive small: all ordered pairs / triples of distinct keys from the small vocabulary
    small = ["a", "a.b", "a b", "", "b"]
    for k in (2, 3):
        for keys in itertools.permutations(small, k):
            for _ in range(3 if thorough else 1):
                items = [rule_sx((n, rng.choice(STYLES_SMALL))) for n in keys]
                for st in strs[:5]:
                    for mp in (0, 1):
                        cases.append([14, mp, items, S(st)])
    for _ in range(12000 if thorough else 1500):
        keys = rng.sample(names, rng.randint(0, 6))
        items = [rule_sx((n, rng.choice(styles))) for n in keys]
        cases.append([14, rng.randint(0, 1), items, S(rng.choice(strs))])
    dist["from_dict"] = len(cases)
    return cases


def gen_transform(chk, dist):
    rng = chk.rng
    thorough = chk.tier == "thorough"
    P = pt()
    colors = ["", "default", "ansired", "ansidefault", "ansibrightblack", "ansiwhite", "ff0000", "FE00aa", "000000", "ffffff", "808080", "0a0b0c", None]

    def leaf():
        r = rng.random()
        if r < 0.3:
            return [0]
        if r < 0.4:
            return [1]
        if r < 0.6:
            return [2, S(rng.choice(["#ff0000", "ansiblue", "default", "", "AliceBlue", "#abc", "bogus", "ansiteal"])),
                    S(rng.choice(["#000000", "ansiwhite", "default", "", "#zzz", "#123456"]))]
        if r < 0.9:
            lo, hi = rng.choice([(0, 1000), (300, 1000), (0, 700), (200, 800), (500, 500), (1000, 0), (0, 1500), (-100, 1000)])
            return [3, 1 if (0 <= lo <= 1000 and 0 <= hi <= 1000) else 0, 1 if (lo, hi) == (0, 1000) else 0, lo, hi]
        return [4]

    def tree(d):
        r = rng.random()
        if d <= 0 or r < 0.5:
            return leaf()
        if r < 0.65:
            return [5, rng.randint(0, 1), tree(d - 1)]
        if r < 0.9:
            return [6, [tree(d - 1) for _ in range(rng.randint(0, 3))]]
        return [7, [tree(d - 1)] if rng.random() < 0.7 else []]
    cases = []

    def add(t, ax):
        # at most one brightness setting per tree (one kernel table per case)
        adjs = [n for n, _ in transf_nodes(t) if n[0] == 3]
        for n in adjs[1:]:
            n[1:] = adjs[0][1:]
        opp, adj = kernel_tables(t, ax)
        cases.append([15, t, ax, opp, adj])
    for fg in colors:
        for bg in colors:
            for t in ([0], [1], [2, S("#00ff00"), S("ansiblack")], [3, 1, 0, 300, 1000], [3, 1, 0, 0, 600], [3, 1, 1, 0, 1000], [4],
                      [6, [[0], [3, 1, 0, 200, 900]]], [6, [[2, S("default"), S("")], [3, 1, 0, 400, 1000]]], [5, 0, [0]], [7, []]):
                add([x if not isinstance(x, list) else list(x) for x in t], A_(fg, bg, [rng.choice([0, 1]) for _ in range(7)]))
    for _ in range(8000 if thorough else 1200):
        r = rng.random()
        def col():
            q = rng.random()
            if q < 0.5:
                return "%06x" % rng.getrandbits(24)
            if q < 0.6:
                return "".join(rng.choice(HEX) for _ in range(6))
            return rng.choice(colors + P["NAMES"])
        add(tree(3), A_(col(), col(), [rng.choice([0, 1, None]) if rng.random() < 0.2 else rng.choice([0, 1]) for _ in range(7)]))
    dist["transform"] = len(cases)
    return cases


BOUNDS = [(0, 1000), (300, 1000), (0, 700), (200, 800), (500, 500), (1000, 0), (0, 0), (1000, 1000), (13, 987), (1, 999),
          (333, 667), (0, 1), (999, 1000)]


def gen_transform_real(chk, dist):
    """op 20: the real transformation objects against the model running on the real
    float kernels; every AdjustBrightness node has its own bounds"""
    rng = chk.rng
    thorough = chk.tier == "thorough"
    P = pt()
    colors = ["", "default", "ansired", "ansidefault", "ansibrightblack", "ansiwhite", "ff0000", "FE00aa", "000000", "ffffff", "808080", "0a0b0c", None]

    def bounds():
        q = rng.random()
        if q < 0.5:
            return rng.choice(BOUNDS)
        if q < 0.9:
            return rng.randint(0, 1000), rng.randint(0, 1000)
        return rng.choice([(0, 1500), (-100, 1000), (1001, 1000), (0, -1), (-0, 1000), (2000, 3000)])

    def leaf():
        r = rng.random()
        if r < 0.3:
            return [0]
        if r < 0.35:
            return [1]
        if r < 0.5:
            return [2, S(rng.choice(["#ff0000", "ansiblue", "default", "", "AliceBlue", "#abc", "bogus", "ansiteal"])),
                    S(rng.choice(["#000000", "ansiwhite", "default", "", "#zzz", "#123456"]))]
        if r < 0.95:
            lo, hi = bounds()
            # the flags are what the model's real_flags must recompute: deliberately wrong half of the time
            return [3, rng.randint(0, 1), rng.randint(0, 1), lo, hi]
        return [4]

    def tree(d):
        r = rng.random()
        if d <= 0 or r < 0.45:
            return leaf()
        if r < 0.6:
            return [5, rng.randint(0, 1), tree(d - 1)]
        if r < 0.9:
            return [6, [tree(d - 1) for _ in range(rng.randint(0, 3))]]
        return [7, [tree(d - 1)] if rng.random() < 0.7 else []]

    def col():
        q = rng.random()
        if q < 0.5:
            return "%06x" % rng.getrandbits(24)
        if q < 0.6:
            return "".join(rng.choice(HEX) for _ in range(6))
        return rng.choice(colors + P["NAMES"])
    cases = []
    for fg in colors + P["NAMES"]:
        for lo, hi in BOUNDS:
            cases.append([20, [3, 0, 0, lo, hi], A_(fg, "", [0] * 7)])
        cases.append([20, [0], A_(fg, rng.choice(colors), [0] * 7)])
        cases.append([20, [6, [[3, 0, 0, 300, 1000], [0], [3, 1, 1, 0, 600]]], A_(fg, "", [0] * 7)])
    for _ in range(10000 if thorough else 1500):
        cases.append([20, tree(3), A_(col(), col() if rng.random() < 0.4 else rng.choice(["", "default", None]),
                                      [rng.choice([0, 1]) for _ in range(7)])])
    dist["transform_real"] = len(cases)
    return cases


def gen_kernels(chk, dist):
    """op 21: both float kernels on channel bytes, bit-exact: lattice, the corners and
    gray axis, neighbours of the hue sector boundaries, random colours x random bounds"""
    rng = chk.rng
    thorough = chk.tier == "thorough"
    cases = []
    step = 15 if thorough else 51
    k = 0
    for r in range(0, 256, step):
        for g in range(0, 256, step):
            for b in range(0, 256, step):
                lo, hi = BOUNDS[k % len(BOUNDS)]
                k += 1
                cases.append([21, lo, hi, r, g, b])
    for v in range(256):
        lo, hi = BOUNDS[v % len(BOUNDS)]
        cases.append([21, lo, hi, v, v, v])
        cases.append([21, hi, lo, v, 255 - v, 0])
        cases.append([21, lo, hi, 255, v, v ^ 1])
        cases.append([21, lo, hi, v, 255, max(v - 1, 0)])
    for lo in range(0, 1001, 125):
        for hi in range(0, 1001, 125):
            cases.append([21, lo, hi, rng.randrange(256), rng.randrange(256), rng.randrange(256)])
    for _ in range(60000 if thorough else 6000):
        lo, hi = (rng.randint(0, 1000), rng.randint(0, 1000)) if rng.random() < 0.8 else rng.choice(BOUNDS + [(-5, 1000), (0, 1001), (1500, 200)])
        cases.append([21, lo, hi, rng.randrange(256), rng.randrange(256), rng.randrange(256)])
    dist["float_kernels"] = len(cases)
    return cases


def gen_vt100_history(chk, dist):
    """op 18: several attrs emitted in sequence on ONE Vt100_Output at each colour depth:
    all ordered pairs and triples over a small set that exercises the 4-bit fg/bg
    exclusion (per-call state must not leak into the next call), then random histories
    that also switch depth"""
    rng = chk.rng
    thorough = chk.tier == "thorough"
    base = [A_("FE0000", "ff0000"), A_("", "ff0000"), A_("ff0000", "ff0000"), A_("ansired", "fe0000"), A_("00ff00", "ff0101"),
            A_("0000ff", "0000fe"), A_("", ""), A_("ffffff", "fefefe", (1, 0, 0, 0, 0, 1, 0)), A_("808080", "7f7f7f"), A_("", "0000ff")]
    cases = []
    for depth in (4, 8, 24, 1):
        for x in base:
            for y in base:
                cases.append([18, [[depth, x], [depth, y], [depth, x]]])
    for depth in (4,):
        for x in base[:6]:
            for y in base[:6]:
                for z in base[:6]:
                    cases.append([18, [[depth, x], [depth, y], [depth, z]]])

    def rcol():
        q = rng.random()
        if q < 0.45:
            return rng.choice(["ff0000", "fe0000", "FF0000", "00ff00", "0000ff", "ffffff", "000000", "808080", "7f7f7f", "c0c0c0"])
        if q < 0.65:
            return "%06x" % rng.getrandbits(24)
        if q < 0.85:
            return rng.choice(pt()["NAMES"])
        return rng.choice(["", "default", None])
    for _ in range(5000 if thorough else 700):
        d0 = rng.choice([4, 4, 8, 24, 1])
        calls = []
        for _k in range(rng.randint(2, 8)):
            d = d0 if rng.random() < 0.8 else rng.choice([1, 4, 8, 24])
            calls.append([d, A_(rcol(), rcol(), [rng.choice([0, 1]) for _ in range(7)])])
        cases.append([18, calls])
    dist["vt100_history"] = len(cases)
    return cases


def gen_cache_history(chk, dist):
    rng = chk.rng
    thorough = chk.tier == "thorough"
    P = pt()
    tab16 = [("%02x%02x%02x" % v) for k, v in P["vt100"].ANSI_COLORS_TO_RGB.items() if k != "ansidefault"]
    near = lambda c: "%06x" % max(0, min(0xFFFFFF, int(c, 16) + rng.choice([-0x10000, 0x10000, -0x100, 0x100, -1, 1, 0])))   # noqa
    cases = []

    def esc_q(depth, fg, bg):
        return [0, depth, A_(fg, bg, [rng.choice([0, 1]) if rng.random() < 0.2 else 0 for _ in range(7)])]
    # every ordered pair of (fg, bg) queries over palette colours and their neighbours, at 4 bit:
    # the second query meets whatever the first one left in the caches
    pool = tab16[:8] if not thorough else tab16
    for c in pool:
        for d in pool:
            n = near(c)
            for h in ([esc_q(4, n, c), esc_q(4, "", c)], [esc_q(4, "", c), esc_q(4, n, c)], [esc_q(4, n, c), esc_q(4, d, c)],
                      [esc_q(4, c, d), esc_q(4, d, c), esc_q(4, "", d), esc_q(4, "", c)]):
                if thorough or rng.random() < 0.5:
                    cases.append([16, h])
    for _ in range(5000 if thorough else 700):
        cols = [rng.choice(tab16) if rng.random() < 0.6 else "%06x" % rng.getrandbits(24) for _ in range(3)]
        cols += [near(cols[0]), near(cols[1]), "", "ansired"]
        h = []
        for _k in range(rng.randint(2, 7)):
            r = rng.random()
            if r < 0.65:
                h.append(esc_q(rng.choice([4, 4, 4, 8, 24, 1]), rng.choice(cols), rng.choice(cols)))
            elif r < 0.85:
                c = rng.choice(cols[:5])
                v = int(c, 16)
                ex = rng.choice([[], [S(rng.choice(P["NAMES"]))], [S("")]])
                h.append([1, rng.randint(0, 1), v >> 16, (v >> 8) & 255, v & 255, ex])
            else:
                v = int(rng.choice(cols[:5]), 16)
                h.append([2, v >> 16, (v >> 8) & 255, v & 255])
        cases.append([16, h])
    dist["cache_history"] = len(cases)
    return cases


def gen_merged_dynamic(chk, dist):
    rng = chk.rng
    thorough = chk.tier == "thorough"
    rule_opts = [(n, st) for n in ["a", "b", "a b", "", "a.b"] for st in STYLES_SMALL + ["#0000ff nobold strike", "underline"]]
    strs = ["class:a", "class:b", "class:a class:b", "class:a.b", "", "class:b class:a bold", "class:a,b #abcdef"]
    cases = []

    def pool(n):
        return [[i, [rule_sx(rng.choice(rule_opts)) for _ in range(rng.randint(0, 3))]] for i in range(n)]
    # shapes: a dynamic sheet between plain ones, nested merges, two dynamic slots, dynamic alone, dummy
    shapes = [
        [3, [[0, 0], [2, 0], [0, 1]]],
        [3, [[0, 0], [3, [[2, 0], [0, 1]]]]],
        [3, [[2, 0], [2, 1]]],
        [3, [[3, [[0, 0], [2, 0]]], [3, [[2, 1], [1]]]]],
        [3, [[2, 0]]],
        [2, 0],
        [3, [[0, 0], [0, 1]]],
        [3, [[1], [2, 0], [2, 0]]],
    ]
    # systematic: look-up, switch, look-up again (and back) on every shape
    for shape in shapes:
        for _ in range(12 if thorough else 3):
            p = pool(5)
            for st in strs[:4]:
                for first, second in ((2, 3), (2, None), (None, 3), (3, 2)):
                    ev = [[0, 0, [first] if first is not None else []], [0, 1, [4]], [1, 0, S(st)], [2, 0],
                          [0, 0, [second] if second is not None else []], [1, 0, S(st)], [2, 0],
                          [0, 0, [first] if first is not None else []], [1, 0, S(st)],
                          [0, 1, [2]], [1, 0, S(st)]]
                    cases.append([17, p, [shape], ev])
    # random histories over several objects sharing the slots
    for _ in range(6000 if thorough else 700):
        p = pool(5)
        objs = [rng.choice(shapes) for _ in range(rng.randint(1, 3))]
        ev = []
        for _k in range(rng.randint(2, 10)):
            r = rng.random()
            if r < 0.4:
                ev.append([0, rng.randint(0, 1), [rng.randint(0, 4)] if rng.random() < 0.85 else []])
            elif r < 0.9:
                ev.append([1, rng.randrange(len(objs)), S(rng.choice(strs))])
            else:
                ev.append([2, rng.randrange(len(objs))])
        cases.append([17, p, objs, ev])
    dist["merged_dynamic"] = len(cases)
    return cases


def gen_nested(chk, dist):
    """op 19: outer objects whose dynamic slots return persistent inner merged / dynamic objects"""
    rng = chk.rng
    thorough = chk.tier == "thorough"
    rule_opts = [(n, st) for n in ["a", "b", "a b", "", "a.b"] for st in STYLES_SMALL + ["#0000ff nobold strike", "underline"]]
    strs = ["class:a", "class:b", "class:a class:b", "", "class:b class:a bold", "italic"]

    def pool(n):
        return [[i, [rule_sx(rng.choice(rule_opts)) for _ in range(rng.randint(0, 3))]] for i in range(n)]
    inner_shapes = [[3, [[0, 1], [2, 0]]], [2, 0], [3, [[2, 0], [2, 1]]], [1], [0, 2], [3, [[3, [[2, 1], [0, 0]]], [1]]], [3, []]]
    outer_shapes = [[2, 0], [3, [[0, 0], [2, 0]]], [3, [[2, 0], [2, 1]]], [3, [[2, 0], [0, 3], [2, 0]]], [3, [[3, [[2, 1]]], [1], [2, 0]]], [0, 4]]
    cases = []

    def tgt(t):
        return [] if t is None else list(t)
    # systematic: outer slot 0 -> inner object; look-up, switch the INNER slot, look-up again (outer and inner
    # caches must both follow), switch the outer slot to another object / a sheet / None, and back
    for ish in inner_shapes:
        for osh in outer_shapes:
            for _ in range(4 if thorough else 1):
                p = pool(5)
                inner = [ish, rng.choice(inner_shapes)]
                for st in strs[:3]:
                    ev = [[0, 0, [2]], [0, 1, [3]], [3, 0, [1, 0]], [3, 1, [0, 4]], [1, 0, S(st)], [4, 0, S(st)], [2, 0],
                          [0, 0, [3]], [1, 0, S(st)], [4, 0, S(st)], [2, 0],
                          [3, 0, [1, 1]], [1, 0, S(st)], [3, 0, [1, 0]], [0, 0, []], [1, 0, S(st)], [4, 0, S(st)],
                          [3, 0, []], [1, 0, S(st)], [3, 0, [0, 1]], [1, 0, S(st)], [3, 0, [1, 0]], [0, 0, [2]], [1, 0, S(st)], [2, 0]]
                    cases.append([19, p, inner, [osh], ev])
    for _ in range(5000 if thorough else 600):
        p = pool(5)
        inner = [rng.choice(inner_shapes) for _ in range(rng.randint(1, 3))]
        objs = [rng.choice(outer_shapes) for _ in range(rng.randint(1, 3))]
        ev = []
        for _k in range(rng.randint(3, 12)):
            r = rng.random()
            if r < 0.2:
                ev.append([0, rng.randint(0, 1), [rng.randint(0, 4)] if rng.random() < 0.85 else []])
            elif r < 0.45:
                q = rng.random()
                ev.append([3, rng.randint(0, 1), tgt(None if q < 0.1 else (0, rng.randint(0, 4)) if q < 0.3 else (1, rng.randrange(len(inner))))])
            elif r < 0.8:
                ev.append([1, rng.randrange(len(objs)), S(rng.choice(strs))])
            elif r < 0.92:
                ev.append([4, rng.randrange(len(inner)), S(rng.choice(strs))])
            else:
                ev.append([2, rng.randrange(len(objs))])
        cases.append([19, p, inner, objs, ev])
    dist["nested_dynamic"] = len(cases)
    return cases


# --------------------------------------------------------------------------
# thorough tier: the whole 2^24 cube of the 256-colour map, real cache against
# an independent oracle (per-channel nearest cube level + best gray), sharded

LOWHEX = frozenset("0123456789abcdef")


def _kernel_worker(args):
    """kernel_ok on the real code: get_opposite_color (unmemoised) for every colour of the
    shard, AdjustBrightness for a lattice of colours x brightness bounds: six lower-case
    hexadecimal digits, and the same value as the harness kernel"""
    r_lo, r_hi = args
    from prompt_toolkit.styles import style_transformation as T
    from prompt_toolkit.styles import Attrs
    bad, n = [], 0      # (get_opposite_color over the whole cube: sweep_planes)
    bounds = [(0.0, 0.7), (0.3, 1.0), (0.2, 0.8), (0.5, 0.5), (1.0, 0.0), (0.0, 0.0), (1.0, 1.0), (0.013, 0.987)]
    for lo, hi in bounds:
        t = T.AdjustBrightnessStyleTransformation(lo, hi)
        for r in range(r_lo, r_hi):
            for g in range(0, 256, 5):
                for b in range(0, 256, 3):
                    c = "%02x%02x%02x" % (r, g, b)
                    v = t.transform_attrs(Attrs(c, "", False, False, False, False, False, False, False)).color
                    n += 1
                    if len(v) != 6 or not LOWHEX.issuperset(v) or v != kernel_adj(c, lo, hi):
                        if len(bad) < 5:
                            bad.append(("AdjustBrightness(%s, %s)" % (lo, hi), c, v))
    return n, bad


def sweep_kernels(chk, workers=8):
    import multiprocessing as mp
    ctx = mp.get_context("fork")
    shards = [(r, r + 16) for r in range(0, 256, 16)]
    total, bad = 0, []
    with ctx.Pool(workers) as pool:
        for n, b in pool.imap_unordered(_kernel_worker, shards):
            total += n
            bad += b
    for what, c, v in bad[:5]:
        chk.violation("oracle", "transformation kernel %s(%r) = %r is not six lower-case hexadecimal digits (or differs from the harness kernel)" % (what, c, v),
                      {"op": "transform", "family": "kernel-range"}, {"kernel": what, "colour": c, "observed": v})
    return total


def _plane_worker(case):
    pt()
    return impl_case(case)


def sweep_planes(chk, workers=8):
    """thorough: BOTH float kernels on the real code against the extracted model over the
    whole 2^24 cube (one brightness bound pair per red plane), compared through plane
    digests; a differing plane is searched for the first differing colour"""
    import multiprocessing as mp
    ctx = mp.get_context("fork")
    cases = [[22, BOUNDS[(r % (len(BOUNDS) - 1)) + 1][0], BOUNDS[(r % (len(BOUNDS) - 1)) + 1][1], r] for r in range(256)]
    with ctx.Pool(workers) as pool:
        impl = pool.map(_plane_worker, cases)
    mod = run_model("c19", cases)
    for c, a, m in zip(cases, impl, mod):
        try:
            bad = oracle(c, a)
        except Exception as e:  # noqa
            bad = ("oracle raised %r" % (e,), {"op": "float-kernels", "family": "oracle-raise"})
        if bad:
            chk.violation("oracle", "float-plane: %s  [input: AdjustBrightness(%s, %s) / get_opposite_color on the colours %02xgggbb]" % (
                bad[0], c[1] / 1000.0, c[2] / 1000.0, c[3]), bad[1], {"case": c, "observed": sx_norm(a)})
            continue
        if sx_norm(a) != m:
            cells = [[21, c[1], c[2], c[3], g, b] for g in range(256) for b in range(256)]
            ia = [impl_case(x) for x in cells]
            mm = run_model("c19", cells)
            first = next((k for k in range(len(cells)) if sx_norm(ia[k]) != mm[k]), None)
            what = describe(cells[first], ia[first], mm[first]) if first is not None else "digest %r / %r" % (a, m)
            chk.violation("correspondence", "float kernels differ from the binary64 model on plane %d: %s" % (c[3], what),
                          {"op": "float-kernels", "family": "bit-exact"},
                          {"case": cells[first] if first is not None else c, "observed": sx_norm(ia[first]) if first is not None else sx_norm(a)},
                          no_input=True)
    return 2 * 65536 * len(cases)


def _sweep_worker(args):
    r_lo, r_hi = args
    vt = pt()["vt100"]
    tab = XTERM
    levels, rest = XTERM_LEVELS, [(i, XTERM[i]) for i in range(232, 256)]
    st = True
    bad = []
    if st is not None:
        near = []
        for v in range(256):
            best = min(range(6), key=lambda i: ((v - levels[i]) ** 2, i))
            near.append((best, (v - levels[best]) ** 2))
    n = 0
    for r in range(r_lo, r_hi):
        cache = vt._256ColorCache()
        miss = cache.__missing__
        for g in range(256):
            for b in range(256):
                got = miss((r, g, b))
                if st is not None:
                    (ri, dr), (gi, dg), (bi, db) = near[r], near[g], near[b]
                    exp, dbest = 16 + 36 * ri + 6 * gi + bi, dr + dg + db
                    for i, c in rest:
                        d = (r - c[0]) ** 2 + (g - c[1]) ** 2 + (b - c[2]) ** 2
                        if d < dbest:
                            exp, dbest = i, d
                else:
                    exp = min(range(16, len(tab)), key=lambda i: (sqd((r, g, b), tab[i]), i))
                n += 1
                if got != exp and len(bad) < 5:
                    bad.append(((r, g, b), got, exp))
    return n, bad


def sweep_256(chk, workers=8):
    import multiprocessing as mp
    ctx = mp.get_context("fork")
    shards = [(r, r + 16) for r in range(0, 256, 16)]
    total, bad = 0, []
    with ctx.Pool(workers) as pool:
        for n, b in pool.imap_unordered(_sweep_worker, shards):
            total += n
            bad += b
    for rgb, got, exp in bad[:5]:
        chk.violation("oracle", "map256 full sweep: %r -> %d, nearest entry with index >= 16 (lowest index) is %d  [input: _256ColorCache()[%r]]" % (rgb, got, exp, rgb),
                      {"op": "map256", "family": "nearest256"}, {"case": [5, rgb[0], rgb[1], rgb[2]], "observed": got, "expected": exp})
    return total


def gen_malformed(chk):
    return [[1], [1, 0, [], S(""), DEFAULT_SX], [2, 24], [99, 1], [5, 1, 2], [6, 0, 1, 2, 3], [1, 7, [[]], S(""), DEFAULT_SX], [3, [[1]]]]


# --------------------------------------------------------------------------

def nontrivial(case, res):
    op = case[0]
    if op in (1, 13, 14, 15, 20):
        return isinstance(res, list) and res and res[0] == 0 and res[1] != DEFAULT_SX
    if op == 2:
        return len(res) == 2 and len(res[1]) > 4
    return True


def show_input(c):
    op = c[0]
    if op == 1:
        return "%s style_str=%r%s" % (
            " + ".join("Style(%r)" % [(unS(n), unS(s)) for n, s in sh] for sh in c[2]) if c[1] == 1
            else "Style(%r)" % [(unS(n), unS(s)) for n, s in c[2][0]],
            unS(c[3]), "" if c[4] == DEFAULT_SX else " default=%r" % (tuple(dec_attrs(c[4])),))
    if op == 2:
        return "_EscapeCodeCache(%s)[Attrs%r]" % (DEPTHS[c[1]], tuple(dec_attrs(c[2])))
    if op == 13:
        return "Style(%r) style_str=%r, 24 bit" % ([(unS(n), unS(s)) for n, s in c[1]], unS(c[2]))
    if op in (4, 7, 8, 9, 10, 11):
        return "%s(%r)" % (OPN[op], unS(c[1]))
    if op == 14:
        return "Style.from_dict(%r, %s) style_str=%r" % ({unS(n): unS(x) for n, x in c[2]}, "MOST_PRECISE" if c[1] else "DICT_KEY_ORDER", unS(c[3]))
    if op in (15, 20):
        return "transformation %s on Attrs%r" % (show_transf(c[1]), tuple(dec_attrs(c[2])))
    if op == 18:
        return "one Vt100_Output, then " + "; ".join("set_attributes(Attrs%r, %s)" % (tuple(dec_attrs(a)), DEPTHS[d]) for d, a in c[1])
    if op == 21:
        return "colour %02x%02x%02x: get_opposite_color, AdjustBrightness(%s, %s)" % (c[3], c[4], c[5], c[1] / 1000.0, c[2] / 1000.0)
    if op == 17:
        def sh(x):
            return ("sheet%d" % x[1] if x[0] == 0 else "DummyStyle()" if x[0] == 1 else "DynamicStyle(slot%d)" % x[1] if x[0] == 2
                    else "merge_styles([%s])" % ", ".join(sh(y) for y in x[1]))
        return "sheets %r; objects %s; events %s" % (
            {i: [(unS(n), unS(x)) for n, x in r] for i, r in c[1]}, [sh(o) for o in c[2]],
            "; ".join(("slot%d := %s" % (e[1], "sheet%d" % e[2][0] if e[2] else "None")) if e[0] == 0 else
                      ("obj%d.get_attrs(%r)" % (e[1], unS(e[2]))) if e[0] == 1 else "obj%d.style_rules" % e[1] for e in c[3]))
    if op == 19:
        def sh(x, inner=False):
            return ("sheet%d" % x[1] if x[0] == 0 else "DummyStyle()" if x[0] == 1 else "DynamicStyle(%sslot%d)" % ("inner-" if inner else "", x[1]) if x[0] == 2
                    else "merge_styles([%s])" % ", ".join(sh(y, inner) for y in x[1]))

        def ev(e):
            if e[0] == 0:
                return "inner-slot%d := %s" % (e[1], "sheet%d" % e[2][0] if e[2] else "None")
            if e[0] == 3:
                return "slot%d := %s" % (e[1], "None" if not e[2] else "sheet%d" % e[2][1] if e[2][0] == 0 else "inner%d" % e[2][1])
            if e[0] == 1:
                return "obj%d.get_attrs(%r)" % (e[1], unS(e[2]))
            if e[0] == 4:
                return "inner%d.get_attrs(%r)" % (e[1], unS(e[2]))
            return "obj%d.style_rules" % e[1]
        return "sheets %r; inner objects %s; objects %s; events %s" % (
            {i: [(unS(n), unS(x)) for n, x in r] for i, r in c[1]}, [sh(o, True) for o in c[2]], [sh(o) for o in c[3]], "; ".join(ev(e) for e in c[4]))
    if op == 16:
        return "fresh caches, then " + "; ".join(
            ("_EscapeCodeCache(%s)[Attrs%r]" % (DEPTHS[q[1]], tuple(dec_attrs(q[2]))) if q[0] == 0 else
             "_16_%s_colors.get_code(%r, %r)" % ("bg" if q[1] else "fg", tuple(q[2:5]), [unS(e) for e in q[5]]) if q[0] == 1 else
             "_256_colors[%r]" % (tuple(q[1:4]),)) for q in c[1])
    return "%s%r" % (OPN.get(op, "?"), c[1:])


def show_transf(x):
    k = x[0]
    if k == 2:
        return "SetDefaultColor(%r, %r)" % (unS(x[1]), unS(x[2]))
    if k == 3:
        return "AdjustBrightness(%s, %s)" % (x[3] / 1000.0, x[4] / 1000.0)
    if k == 5:
        return "Conditional(%s, %s)" % (show_transf(x[2]), bool(x[1]))
    if k == 6:
        return "merge([%s])" % ", ".join(show_transf(y) for y in x[1])
    if k == 7:
        return "Dynamic(%s)" % (show_transf(x[1][0]) if x[1] else "None")
    return {0: "SwapLightAndDark()", 1: "Reverse()", 4: "Dummy()"}[k]


def describe(c, a, m):
    op = c[0]
    if op == 1:
        return "mode=%d sheets=%r style_str=%r impl=%r model=%r" % (
            c[1], [[(unS(n), unS(s)) for n, s in sh] for sh in c[2]], unS(c[3]), a, m)
    if op == 2:
        return "depth=%d attrs=%r impl=%r model=%r" % (c[1], tuple(dec_attrs(c[2])), unS(a[1]) if len(a) == 2 else a,
                                                      unS(m[1]) if isinstance(m, list) and len(m) == 2 and isinstance(m[1], list) else m)
    if op in (4, 7, 8, 9, 10, 11):
        return "%s(%r) impl=%r model=%r" % (OPN[op], unS(c[1]), a, m)
    if op in (14, 15, 16, 17, 18, 19, 20, 21):
        return "%s impl=%r model=%r" % (show_input(c), a, m)
    return "%s%r impl=%r model=%r" % (OPN.get(op, "?"), c[1:], a, m)


def main(tier):
    chk = Check(PROP, tier)
    timing = {}
    t = time.time()
    pr = chk.proofs("Props/C19.v", tables=TABLES, extra_trusted=(
        "Coq's primitive binary64 floats (PrimFloat, kernel primitives evaluated by vm_compute) for the C19 float theorems",
        "Extract/ExC19.v: realisation of the float primitives by OCaml's native float (IEEE-754 double)",
        "CPython's Lib/colorsys.py as transcribed in Model/C19_Float.v (text pinned by hash, checked on every run)"))
    # the float theorems (Proofs/C19_FloatProps.v): same machinery, coqc's kernel (VM); not in the
    # closure coqchk re-checks in the thorough tier (coqchk has no VM: ~40 min for the 2^24 sweeps)
    prf = build_proofs(FLOAT_PROPS, tables=TABLES)
    extra = {f: v for f, v in prf.statements.items() if f not in pr.statements}
    n_extra = sum(len(v) for v in extra.values())
    chk.coverage["obligations"] += n_extra
    chk.coverage["discharged"] += n_extra if prf.ok and prf.obligations == prf.discharged else 0
    chk.coverage["proof_files"].update({f: len(v) for f, v in extra.items()})
    try:
        srcf = re.sub(r"\(\*.*?\*\)", "", open(os.path.join(COQ, FLOAT_PROPS)).read(), flags=re.S)
    except OSError:
        srcf = ""
    fnames = re.findall(r"Print\s+Assumptions\s+([A-Za-z0-9_']+)\s*\.", srcf)
    fax = {n: (prf.assumptions[i] if prf.ok and i < len(prf.assumptions) else "(not checked)") for i, n in enumerate(fnames)}
    chk.coverage["float_theorems"] = {"file": FLOAT_PROPS, "checker_cmd": prf.checker_cmd, "theorems": fnames,
                                      "print_assumptions": fax,
                                      "note": "kernel primitives (Primitive declarations with computation rules), no axiom; "
                                              "checked by coqc (VM), outside the coqchk closure"}
    if prf.forbidden:
        chk.violation("proof", "forbidden declaration in the development: " + ", ".join(prf.forbidden[:5]),
                      {"kind": "forbidden"}, {"forbidden": prf.forbidden}, no_input=True)
    for n, a in fax.items():
        lines = [l.split(":")[0].strip() for l in a.split("\n")[1:] if l and not l.startswith(" ")]
        odd = [l for l in lines if not (l.startswith("PrimFloat.") or l.startswith("PrimInt63."))]
        if not a.startswith("Axioms:") or odd:
            if prf.ok:
                chk.violation("proof", "float theorem %s depends on more than kernel primitives: %s" % (n, odd or a[:80]),
                              {"kind": "assumptions"}, {"theorem": n, "assumptions": a}, no_input=True)
    timing["proofs_s"] = round(time.time() - t, 1)
    t = time.time()
    okm, logm = build_model("c19", "Extract/ExC19.v", "run_C19", tables=TABLES)
    timing["model_build_s"] = round(time.time() - t, 1)
    if not okm:
        chk.violation("tie", "model does not build: " + logm[-400:], {"kind": "model-build"}, {"log": logm[-3000:]}, no_input=True)
        return chk.finish()
    pt()
    check_tables(chk)
    check_colorsys(chk)
    dist = {k: 0 for k in ("cascade_exhaustive_small", "cascade_three_rules", "merge_splits", "cascade_random",
                           "escape_all_flags", "escape_random", "sgr_random", "ansi_text", "merge_repeated_rule")}
    cases = load_corpus(PROP)
    dist["corpus"] = len(cases)
    cases += gen_cascade(chk, dist)
    cases += gen_escape(chk, dist)
    cases += gen_decode(chk, dist)
    cases += gen_rgb(chk, dist)
    cases += gen_prims(chk, dist)
    cases += gen_e2e(chk, dist)
    cases += gen_fromdict(chk, dist)
    cases += gen_transform(chk, dist)
    cases += gen_cache_history(chk, dist)
    cases += gen_transform_real(chk, dist)
    cases += gen_kernels(chk, dist)
    cases += gen_vt100_history(chk, dist)
    cases += gen_merged_dynamic(chk, dist)
    cases += gen_nested(chk, dist)
    nm = len(cases)
    t = time.time()
    impl_results = []
    oracle_bad = set()
    opcount = {}
    for i, c in enumerate(cases):
        res = impl_case(c)
        impl_results.append(res)
        opcount[OPN[c[0]]] = opcount.get(OPN[c[0]], 0) + 1
        chk.count_case(c, nontrivial(c, res))
        try:
            bad = oracle(c, res)
        except Abstain:
            bad = None
        except Exception as e:  # noqa  (the oracle only calls the implementation's own functions)
            bad = ("evaluating the oracle on the implementation raised %s: %s" % (type(e).__name__, e),
                   {"op": OPN[c[0]], "family": "oracle-raise"})
        if bad:
            oracle_bad.add(i)
            clause, tags = bad
            chk.violation("oracle", "%s: %s  [input: %s]" % (OPN[c[0]], clause, show_input(c)), tags,
                          {"case": sx_norm(c), "observed": sx_norm(res), "clause": clause,
                           "how": "harness/c19.py impl_run(case); ./check --replay <this file>"})
        if i % 4001 == 0:
            chk.sample({"op": OPN[c[0]], "case": repr(c)[:200], "impl_result": repr(res)[:200]})
    timing["impl_and_oracle_s"] = round(time.time() - t, 1)
    t = time.time()
    mal = gen_malformed(chk)
    dist["malformed"] = len(mal)
    chk.coverage["input_distribution"] = dict(dist, ops=opcount)

    def tagger(c, a, m):
        t = {"op": OPN.get(c[0], "?")}
        if c[0] == 2:
            t["depth"] = c[1]
        return t

    model_results, nbad = correspondence(chk, "c19", cases, impl_results, tagger, describe=describe,
                                         oracle_failed=lambda i: i in oracle_bad)
    mres = run_model("c19", mal)
    for c, m in zip(mal, mres):
        if m != [-999]:
            chk.violation("tie", "model accepted a malformed case %r -> %r" % (c, m), {"kind": "malformed"}, {"case": c}, no_input=True)

    timing["model_run_s"] = round(time.time() - t, 1)
    t = time.time()
    k = 1000 if chk.tier == "thorough" else 300
    small = [i for i in range(nm) if len(repr(cases[i])) < 1500]
    idx = sorted(chk.rng.sample(small, min(k, len(small))))
    pairs = [(cases[i], impl_results[i]) for i in idx]
    bad, logs = vm_crosscheck(PROP, "run_C19", "Model.C19_Run", pairs, per_file=100, jobs=4)
    chk.coverage["vm_compute_crosschecked"] = len(pairs)
    model_bad = set(i for i, (a, m) in enumerate(zip(impl_results, model_results)) if sx_norm(a) != m)
    vm_bad = set(idx[b] for b in bad if isinstance(b, int))
    if any(not isinstance(b, int) for b in bad):
        chk.violation("tie", "vm_compute cross-check failed to run: " + (logs[0] if logs else ""), {"kind": "vm"}, {"log": logs}, no_input=True)
    if vm_bad != (model_bad & set(idx)):
        d = sorted(vm_bad ^ (model_bad & set(idx)))[:5]
        chk.violation("tie", "extracted model and in-Coq evaluation disagree on cases %r" % d,
                      {"kind": "extraction"}, {"cases": [cases[i] for i in d]}, no_input=True)

    timing["vm_crosscheck_s"] = round(time.time() - t, 1)
    if chk.tier == "thorough":
        t = time.time()
        chk.coverage["full_cube_256_triples"] = sweep_256(chk)
        chk.coverage["evaluations"] += chk.coverage["full_cube_256_triples"]
        timing["full_cube_sweep_s"] = round(time.time() - t, 1)
        t = time.time()
        chk.coverage["float_kernel_cube_evaluations"] = sweep_planes(chk)
        chk.coverage["evaluations"] += chk.coverage["float_kernel_cube_evaluations"]
        timing["float_cube_sweep_s"] = round(time.time() - t, 1)
        t = time.time()
        chk.coverage["kernel_range_evaluations"] = sweep_kernels(chk)
        chk.coverage["evaluations"] += chk.coverage["kernel_range_evaluations"]
        timing["kernel_sweep_s"] = round(time.time() - t, 1)
    chk.coverage["timing"] = timing
    proof_gate(chk, pr)
    proof_gate(chk, prf)
    chk.coverage["rule"] = (
        "cases = one call of the real code (Style/merge_styles.get_attrs_for_style_str, _EscapeCodeCache[attrs], "
        "ANSI decode, _256ColorCache, _16ColorCache, primitives) compared with the Coq model; cascade: all rule lists of <= 2 rules over "
        "%r x %r and all style strings of <= 3 parts over %r (stratum %s), sampled 3-rule lists, every split of <= 3 rules into 2 and 3 "
        "merged sheets, random larger vocabulary with errors and odd whitespace; escape codes: all 2^7 flag tuples x colour pairs x 4 depths "
        "(stratum %s) + random; RGB: lattice step %d + neighbourhoods of all table colours and cube midpoints + random; "
        "non-trivial = result differs from the default attributes / emits codes; distinct by hash of the case"
        % (NAMES_SMALL, STYLES_SMALL, PARTS_SMALL, "60%" if tier == "thorough" else "8%",
           "100%" if tier == "thorough" else "30%", 5 if tier == "thorough" else 17))
    chk.assumptions += [
        "str.lower() is modelled for ASCII only; class names and colour words in the cases are ASCII (whitespace is the full str.isspace table)",
        "int(s, 16) is modelled for ASCII text (sign, 0x prefix, underscores as in CPython); non-ASCII digits/spaces are outside the model",
        "ANSI parser: texts without \\x01 (ZeroWidthEscape brackets are C18's subject); isdigit() is ASCII in the model",
        "the caches are modelled (C19_caches_transparent, C19_merged_cache_transparent, C19_memoized_swap_transparent); Style identities (id()) are distinct pool ids: reuse of an id after garbage collection is outside the model",
        "nested dynamic styles (op 19, Model/C19_Nested.v): an outer DynamicStyle slot returns None, a plain Style or a persistent inner object (merged/dynamic/dummy/style) whose own dynamic slots return a plain Style or None - nesting through slots is two deep; cycles are outside the model",
        "the colorsys float kernels are modelled bit for bit over Coq's primitive binary64 floats (Model/C19_Float.v; ops 20-22 compare them with the real code, thorough: every one of the 2^24 colours for both kernels); theorems about them (Proofs/C19_FloatProps.v, built and gated by this harness with coqc, outside the coqchk closure) depend on the kernel's float primitives (listed by Print Assumptions; no float axiom); for AdjustBrightness the range 'six hex digits' is proved only for the ANSI names x a lattice of bounds, otherwise it stays a hypothesis (op 15) checked on the real code",
        "brightness bounds in the cases are multiples of 1/1000 (the Python float n / 1000.0); int(float) is modelled for |x| < 2^53; ZeroDivisionError of colorsys is modelled as failure",
        "extraction maps the primitive floats to OCaml's native float with hand-written realisations in Extract/ExC19.v (cross-checked by in-Coq vm_compute evaluation of the same cases)",
        "the 256-colour palette the oracle uses is the fixed xterm palette (16 system colours, 6x6x6 cube, 24 grays), not the implementation's table",
        "colour depth is one of 1, 4, 8, 24 bit",
    ]
    return chk.finish()


def replay(data):
    rep = data["replay"]
    case = rep["case"]
    res = impl_case(case)
    print("case:", describe(case, res, None) if case[0] in OPN else case)
    rc = 0
    try:
        bad = oracle(case, res)
    except Abstain:
        bad = None
    if bad:
        print("ORACLE FAILS:", bad[0])
        rc = 1
    else:
        print("oracle ok")
    m = run_model("c19", [case])[0]
    print("model agrees" if m == sx_norm(res) else "model differs: %r" % (m,))
    return rc
