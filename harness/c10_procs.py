"""C10 round 6: the remaining fragment producers on the REAL objects.

Case kinds (model: coq/Model/C10_Procs.v, run_C10q):
  12 [12, lexstyle, procs, text, cursor_row, cursor_col, extra]   BufferControl.create_content lines through the real
        merged processor chain.  extra = [cursor, sel|[], search_text, inc_text, ignore_case,
        done, multi_cursors, arg|[]] is what the harness needs to build Document / Buffer /
        Application; the model ignores it.  proc encodings (tags 0-4 as in kind 5):
          [5, inc, text, given|[], cur_row, cur_col, done]  Highlight(Incremental)SearchProcessor
          [6, positions, cur_col, done]                     HighlightMatchingBracketProcessor
          [7, active, [[lineno, [rel..]]..]]                DisplayMultipleCursors
          [8, tabstop, c1, c2, style]                       TabsProcessor
          [9, style, ch] / [10, style, ch]                  ShowLeading/TrailingWhiteSpaceProcessor
          [11, style, frags, last]                          AfterInput
          [12, arg|[]]                                      ShowArg
          [13, b, q] / [14, b, q]                           ConditionalProcessor / DynamicProcessor
  13 [13, relative, tildes, width, current, displayed, window_height]   NumberedMargin
  14 [14, arrows, up, down, window_height, top, height, extra]          ScrollbarMargin
  15 [15, prompt, conts]                                                PromptMargin
  16 [16, wctab, row, scroll, visible, column_width, left, right, middle, extra]
        one row of MultiColumnCompletionMenuControl.create_content (scroll .. middle are
        filled in from the real control after it ran: the column arithmetic is outside the model)
  17 [17, pat, s]   re.finditer(re.escape(pat), s) spans
A real exception IndexError / KeyError / ZeroDivisionError is the result [-7]."""
import re
import types

from common import S, unS

MARK = "[ZeroWidthEscape]"
KINDS2 = (12, 13, 14, 15, 16, 17)
EXC = [-7]


def frags_of(sxfrags):
    return [(unS(s), unS(t)) for s, t in sxfrags]


def lines_sx(lines):
    return [[[S(st), S(tx)] for st, tx, *_ in l] for l in lines]


class _Done:
    def __init__(self, d):
        self.d = d

    def done(self):
        return self.d


def make_document(text, cursor, sel):
    from prompt_toolkit.document import Document
    from prompt_toolkit.selection import SelectionState, SelectionType
    if not sel:
        return Document(text, cursor)
    types_ = [SelectionType.CHARACTERS, SelectionType.LINES, SelectionType.BLOCK]
    return Document(text, cursor, selection=SelectionState(original_cursor_position=sel[0], type=types_[sel[1]]))


def build_proc(pr, ctx):
    from prompt_toolkit.layout import processors as P
    t = pr[0]
    if t == 0:
        return P.DummyProcessor()
    if t == 1:
        return P.PasswordProcessor(char=unS(pr[1]))
    if t == 2:
        return P.BeforeInput(frags_of(pr[2]), style=unS(pr[1]))
    if t == 3:
        return P.AppendAutoSuggestion(style=unS(pr[1]))
    if t == 4:
        return P.HighlightSelectionProcessor()
    if t == 5:
        return P.HighlightIncrementalSearchProcessor() if pr[1] else P.HighlightSearchProcessor()
    if t == 6:
        return P.HighlightMatchingBracketProcessor()
    if t == 7:
        return P.DisplayMultipleCursors()
    if t == 8:
        return P.TabsProcessor(tabstop=pr[1], char1=unS(pr[2]), char2=unS(pr[3]), style=unS(pr[4]))
    if t == 9:
        ch = unS(pr[2])
        return P.ShowLeadingWhiteSpaceProcessor(get_char=lambda: ch, style=unS(pr[1]))
    if t == 10:
        ch = unS(pr[2])
        return P.ShowTrailingWhiteSpaceProcessor(get_char=lambda: ch, style=unS(pr[1]))
    if t == 11:
        return P.AfterInput(frags_of(pr[2]), style=unS(pr[1]))
    if t == 12:
        return P.ShowArg()
    if t == 13:
        return P.ConditionalProcessor(build_proc(pr[2], ctx), bool(pr[1]))
    if t == 14:
        inner = build_proc(pr[2], ctx)
        b = bool(pr[1])
        return P.DynamicProcessor(lambda: inner if b else None)
    raise ValueError(t)


def _suggestion(procs):
    for pr in procs:
        if pr[0] == 3:
            return unS(pr[2])
        if pr[0] in (13, 14):
            s = _suggestion([pr[2]])
            if s is not None:
                return s
    return None


def impl_buffer2(case):
    from prompt_toolkit.application import Application
    from prompt_toolkit.application.current import set_app
    from prompt_toolkit.auto_suggest import Suggestion
    from prompt_toolkit.buffer import Buffer
    from prompt_toolkit.enums import EditingMode
    from prompt_toolkit.filters import to_filter
    from prompt_toolkit.input import DummyInput
    from prompt_toolkit.key_binding.vi_state import InputMode
    from prompt_toolkit.layout import Layout, Window
    from prompt_toolkit.layout.controls import BufferControl, SearchBufferControl
    from prompt_toolkit.lexers import SimpleLexer
    from prompt_toolkit.output import DummyOutput
    lexstyle, procs, text, extra = unS(case[1]), case[2], unS(case[3]), case[6]
    cursor, sel, search_text, inc_text, ignore_case, done, multi, arg = extra
    doc = make_document(text, cursor, sel)
    buf = Buffer(document=doc)
    buf.selection_state = doc.selection
    buf._load_history_task = True
    sug = _suggestion(procs)
    buf.suggestion = Suggestion(sug) if sug is not None else None
    sbuf = Buffer(document=make_document(unS(inc_text), len(inc_text), None))
    sbuf._load_history_task = True
    sbc = SearchBufferControl(buffer=sbuf, ignore_case=bool(ignore_case))
    sbc.searcher_search_state.text = unS(search_text)
    ctl = BufferControl(buffer=buf, lexer=SimpleLexer(style=lexstyle), input_processors=[build_proc(p, None) for p in procs],
                        include_default_input_processors=False, search_buffer_control=sbc)
    app = Application(layout=Layout(Window(ctl)), editing_mode=EditingMode.VI if multi else EditingMode.EMACS,
                      input=DummyInput(), output=DummyOutput())
    if multi:
        app.vi_state.input_mode = InputMode.INSERT_MULTIPLE
        buf.multiple_cursor_positions = list(multi)
    if arg:
        app.key_processor.arg = unS(arg[0])
    if done:
        app.future = _Done(True)
    with set_app(app):
        try:
            content = ctl.create_content(80, 10)
            return lines_sx([content.get_line(i) for i in range(content.line_count)])
        except (IndexError, KeyError, ZeroDivisionError):
            return EXC


def scrollbar_numbers(window_height, arrows, ndisplayed, content_height, vscroll):
    """the float arithmetic of ScrollbarMargin.create_margin, verbatim"""
    if arrows:
        window_height -= 2
    fraction_visible = ndisplayed / float(content_height)
    fraction_above = vscroll / float(content_height)
    scrollbar_height = int(min(window_height, max(1, window_height * fraction_visible)))
    scrollbar_top = int(window_height * fraction_above)
    return scrollbar_top, scrollbar_height


def _margin_lines(fragments, width, height):
    from prompt_toolkit.layout.controls import FormattedTextControl
    content = FormattedTextControl(fragments).create_content(width + 1, height)
    return lines_sx([content.get_line(i) for i in range(content.line_count)])


def impl_margin(case):
    from prompt_toolkit.data_structures import Point
    from prompt_toolkit.layout import margins as M
    k = case[0]
    if k == 13:
        _k, rel, til, width, cur, disp, wh = case
        info = types.SimpleNamespace(ui_content=types.SimpleNamespace(cursor_position=Point(x=0, y=cur)),
                                     displayed_lines=[d[0] if d else None for d in disp], window_height=wh)
        fr = M.NumberedMargin(relative=bool(rel), display_tildes=bool(til)).create_margin(info, width, wh)
        return _margin_lines(fr, width, wh)
    if k == 14:
        _k, arrows, up, dn, wh, _top, _h, extra = case
        nd, ch, vs = extra
        info = types.SimpleNamespace(content_height=ch, window_height=wh, displayed_lines=list(range(nd)), vertical_scroll=vs)
        fr = M.ScrollbarMargin(display_arrows=bool(arrows), up_arrow_symbol=unS(up), down_arrow_symbol=unS(dn)).create_margin(info, 1, wh)
        return _margin_lines(fr, 1, wh)
    if k == 15:
        _k, prompt, conts = case
        it = iter(conts)
        info = types.SimpleNamespace(displayed_lines=list(range(len(conts) + 1)))
        fr = M.PromptMargin(lambda: frags_of(prompt), lambda w, y, soft: frags_of(next(it))).create_margin(info, 5, 10)
        return _margin_lines(fr, 5, 10)
    raise ValueError(k)


def impl_mc_row(case):
    """fills case[3:9] from the real control; returns the fragments of the chosen row"""
    from prompt_toolkit.application import Application
    from prompt_toolkit.application.current import set_app
    from prompt_toolkit.buffer import Buffer, CompletionState
    from prompt_toolkit.completion import Completion
    from prompt_toolkit.document import Document
    from prompt_toolkit.input import DummyInput
    from prompt_toolkit.layout import Layout, Window
    from prompt_toolkit.layout.controls import BufferControl
    from prompt_toolkit.layout.menus import MultiColumnCompletionMenuControl
    from prompt_toolkit.output import DummyOutput
    comps_sx, index, width, height, row_index, prev_scroll, sugg = case[9]
    comps = [Completion("x%d" % i, display=frags_of(d), style=unS(cs), selected_style=unS(ss)) for i, (d, cs, ss) in enumerate(comps_sx)]
    buf = Buffer()
    buf._load_history_task = True
    buf.complete_state = CompletionState(Document(""), comps, index if index >= 0 else None)
    app = Application(layout=Layout(Window(BufferControl(buf))), input=DummyInput(), output=DummyOutput())
    with set_app(app):
        ctl = MultiColumnCompletionMenuControl(min_rows=1, suggested_max_column_width=sugg)
        ctl.scroll = prev_scroll
        content = ctl.create_content(width, height)
    nrows = content.line_count
    ri = row_index % nrows
    left, right = bool(ctl._render_left_arrow), bool(ctl._render_right_arrow)
    vis = ctl._rendered_columns
    cw = (ctl._render_width - left - right - 1) // vis
    # rows_ = zip(*grouper(height, completions)): row r = completions[r::height], padded with None
    ncols = -(-len(comps) // height)
    row = []
    for col in range(ncols):
        j = col * height + ri
        if j < len(comps):
            d, cs, ss = comps_sx[j]
            row.append([d, cs, ss, 1 if (index >= 0 and comps[j] == comps[index]) else 0])
        else:
            row.append([])
    case[2] = row
    case[3:9] = [ctl.scroll, vis, cw, int(left), int(right), int(ri == nrows // 2)]
    return lines_sx([content.get_line(ri)])[0]


def impl_producer2(case):
    k = case[0]
    if k == 12:
        return impl_buffer2(case)
    if k in (13, 14, 15):
        return impl_margin(case)
    if k == 16:
        return impl_mc_row(case)
    if k == 17:
        return [[m.start(), m.end()] for m in re.finditer(re.escape(unS(case[1])), unS(case[2]))]
    raise ValueError(k)


def _given_styles(pr):
    t = pr[0]
    if t == 2 or t == 11:
        return [unS(pr[1])] + [unS(f[0]) for f in pr[2]]
    if t in (3, 9, 10):
        return [unS(pr[1])]
    if t == 8:
        return [unS(pr[4])]
    if t in (13, 14):
        return _given_styles(pr[2])
    return []


def oracle_producer2(case, res):
    """No producer marks text [ZeroWidthEscape] by itself."""
    k = case[0]
    if res == EXC or k == 17:
        return None
    if k == 12:
        given = [unS(case[1])] + [g for pr in case[2] for g in _given_styles(pr)]
        out = [f for l in res for f in l]
    elif k in (13, 14):
        given, out = [], [f for l in res for f in l]
    elif k == 15:
        given = [unS(f[0]) for f in case[1]] + [unS(f[0]) for c in case[2] for f in c]
        out = [f for l in res for f in l]
    else:
        given = [unS(x) for d, cs, ss in case[9][0] for x in [cs, ss] + [f[0] for f in d]]
        out = res
    if any(MARK in g for g in given):
        return None
    for st, tx in out:
        if MARK in unS(st):
            return ("producer kind %d marked text %r as [ZeroWidthEscape] (style %r) although no supplied style carries the mark"
                    % (k, unS(tx), unS(st)), "producer-marks")
    return None


# ------------------------------------------------------------------ generators

def gen_cases(chk, rand_text, pstyles, wctab_for):
    rng = chk.rng
    thorough = chk.tier == "thorough"
    cases = []

    def frs(maxfr=2, maxn=4, nl=False):
        fr = []
        for _ in range(rng.randint(0, maxfr)):
            t = rand_text(rng, maxn)
            if not nl:
                t = t.replace("\n", "")
            fr.append([S(rng.choice(pstyles)), S(t)])
        return fr

    def line_text():
        r = rng.random()
        base = rand_text(rng, 6).replace("\n", "")
        if r < 0.35:
            base = rng.choice(["", " ", "  "]) + base + rng.choice(["", " ", "  ", "\t"])
        if r < 0.5:
            i = rng.randint(0, len(base))
            base = base[:i] + rng.choice(["(a)", "[", "{x}", "ab", "AB", "\t", "a\tb", "(\x1b)"]) + base[i:]
        return base

    from prompt_toolkit.layout.processors import HighlightMatchingBracketProcessor

    def one_proc(ctx, depth=0):
        """ctx: dict with text/doc/used kinds; returns an encoded processor"""
        r = rng.random()
        doc, text, nlines = ctx["doc"], ctx["text"], ctx["nlines"]
        if r < 0.06:
            return [0]
        if r < 0.12:
            return [1, S(rng.choice(["*", "", "ab", "\x1b"]))]
        if r < 0.22:
            return [2, S(rng.choice(pstyles)), frs(2, 3)]
        if r < 0.28 and "sugg" not in ctx:
            ctx["sugg"] = True
            at_end = ctx["cursor"] == len(text)
            return [3, S(rng.choice(pstyles)), S(rand_text(rng, 4).replace("\n", "") if at_end else ""), nlines - 1]
        if r < 0.36 and ctx["sel"]:
            tab = []
            for ln in range(nlines):
                rr = doc.selection_range_at_line(ln)
                if rr:
                    tab.append([ln, rr[0], rr[1]])
            return [4, tab]
        if r < 0.52:
            inc = rng.randint(0, 1)
            key = "inc_text" if inc else "search_text"
            if key in ctx:
                return [0]
            line = rng.choice(text.split("\n"))
            if line and rng.random() < 0.8:
                i = rng.randrange(len(line))
                pat = line[i:i + rng.randint(1, 3)]
                if rng.random() < 0.3:
                    pat = pat.swapcase()
            else:
                pat = rng.choice(["", "a", "ab", "\x1b", "(", "."])
            ctx[key] = pat
            given = []
            if ctx["ignore_case"]:
                if not ctx["first"]:
                    ctx[key] = pat = ""        # matches under IGNORECASE come from `re`: only for an unprocessed line
                tab = []
                for ln, l in enumerate(text.split("\n")):
                    lt = "" if MARK in ctx["lexstyle"] else l
                    ms = [[m.start(), m.end()] for m in re.finditer(re.escape(pat), lt, re.IGNORECASE)] if pat else []
                    if ms:
                        tab.append([ln, ms])
                given = [tab]
            return [5, inc, S(pat), given, doc.cursor_position_row, doc.cursor_position_col, ctx["done"]]
        if r < 0.62:
            pos = HighlightMatchingBracketProcessor()._get_positions_to_highlight(doc)
            return [6, [[a, b] for a, b in pos], doc.cursor_position_col, ctx["done"]]
        if r < 0.70:
            active = 1 if (ctx["multi"] and not ctx["sel"]) else 0
            rel = []
            for ln in range(nlines):
                start = doc.translate_row_col_to_index(ln, 0)
                end = start + len(doc.lines[ln])
                ps = [p - start for p in ctx["multi"] if start <= p <= end]
                if ps:
                    rel.append([ln, ps])
            return [7, active, rel]
        if r < 0.80:
            return [8, rng.choice([4, 4, 1, 2, 3, 8, 0, -2, -1]), S(rng.choice(["|", "\x1b", "", ">>"])), S(rng.choice(["┈", ".", "\x9b", ""])), S(rng.choice(pstyles))]
        if r < 0.86:
            return [rng.choice([9, 10]), S(rng.choice(pstyles)), S(rng.choice([".", ".", "\xb7", "\x1b", "", "ab", " "]))]
        if r < 0.91:
            return [11, S(rng.choice(pstyles)), frs(2, 3), nlines - 1]
        if r < 0.94:
            return [12, ctx["arg"]]
        if depth < 2:
            return [rng.choice([13, 14]), rng.randint(0, 1) if rng.random() < 0.3 else 1, one_proc(ctx, depth + 1)]
        return [0]

    n = 4000 if thorough else 450
    for _ in range(n):
        text = "\n".join(line_text() for _k in range(rng.randint(1, 3)))
        nlines = text.count("\n") + 1
        cursor = rng.choice([len(text), rng.randint(0, len(text))])
        sel = [rng.randint(0, len(text)), rng.randint(0, 2)] if rng.random() < 0.3 else []
        doc = make_document(text, cursor, sel)
        multi = sorted(set(rng.randint(0, len(text)) for _k in range(rng.randint(1, 3)))) if (rng.random() < 0.35 and not sel) else []      # vi_mode() changes selection_range_at_line
        lexstyle = rng.choice(pstyles)
        ctx = {"doc": doc, "text": text, "nlines": nlines, "cursor": cursor, "sel": sel, "multi": multi, "first": True,
               "lexstyle": lexstyle, "ignore_case": 1 if rng.random() < 0.3 else 0, "done": 1 if rng.random() < 0.1 else 0,
               "arg": [S(rng.choice(["1", "12", "-"]))] if rng.random() < 0.5 else []}
        procs = []
        for _k in range(rng.choice([1, 1, 2, 2, 3, 4])):
            procs.append(one_proc(ctx))
            ctx["first"] = False
        extra = [cursor, sel, S(ctx.get("search_text", "")), S(ctx.get("inc_text", "")), ctx["ignore_case"], ctx["done"], multi, ctx["arg"]]
        cases.append([12, S(lexstyle), procs, S(text), doc.cursor_position_row, doc.cursor_position_col, extra])
    for _ in range(600 if thorough else 60):
        nl = rng.randint(1, 6)
        disp = []
        ln = rng.randint(0, 120)
        for _k in range(nl):
            r = rng.random()
            if r < 0.25 and disp:
                disp.append(disp[-1])            # a wrapped continuation row
            elif r < 0.35:
                disp.append([])                  # padding row: lineno None
            else:
                ln += 1
                disp.append([ln])
        nums = [d[0] for d in disp if d]
        cur = rng.choice(nums) if nums and rng.random() < 0.7 else rng.randint(0, 130)
        cases.append([13, rng.randint(0, 1), rng.randint(0, 1), rng.choice([3, 4, 5, 2]), cur, disp, nl + rng.choice([0, 0, 1, 3, -1])])
        arrows = rng.randint(0, 1)
        wh = rng.randint(2 if arrows else 0, 9)
        ch = rng.randint(1, 60)
        nd = rng.randint(0, min(ch, 9))
        vs = rng.randint(0, ch)
        top, h = scrollbar_numbers(wh, arrows, nd, ch, vs)
        cases.append([14, arrows, S(rng.choice(["^", "\x1b", "", "▲"])), S(rng.choice(["v", "\x9b", "vv"])), wh, top, h, [nd, ch, vs]])
        cases.append([15, frs(2, 4, nl=True), [frs(2, 3, nl=True) for _k in range(rng.randint(0, 3))]])
    for _ in range(800 if thorough else 90):
        ncomp = rng.randint(1, 9)
        comps = [[frs(2, 6) or [[S(""), S("c")]], S(rng.choice(pstyles)), S(rng.choice(pstyles))] for _k in range(ncomp)]
        texts = "".join(unS(f[1]) for d, _a, _b in comps for f in d)
        index = rng.randint(-1, ncomp - 1)
        width = rng.choice([8, 10, 14, 20, 30, 50])
        cases.append([16, wctab_for(texts + " .<>"), [], 0, 0, 0, 0, 0, 0,
                      [comps, index, width, rng.randint(1, 4), rng.randint(0, 5), rng.choice([0, 0, 1, 3]), rng.choice([30, 5, 3])]])
    for _ in range(300 if thorough else 60):
        s = "".join(rng.choice("aab.\\(\x1b\n") for _k in range(rng.randint(0, 10)))
        i = rng.randint(0, max(0, len(s) - 1))
        pat = s[i:i + rng.randint(1, 3)] or "a"
        cases.append([17, S(pat), S(s)])
    return cases
