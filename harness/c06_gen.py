"""C06 helper: generators of screen sequences (all randomness from the rng given)."""

NARROW = ["a", "b", "x", "Z", "-", "|", "é"]
WIDE = ["界", "語", "\U0001F600"]
STYLES_PLAIN = ["", "[transparent]", "bold", "italic", "hidden", "bold italic", " ", "class:c"]
STYLES_VIS = ["bg:#ff0000", "fg:#00ff00", "underline", "reverse", "strike", "blink",
              "fg:ansired bg:ansiblue", "class:a", "class:b", "#ff0000 bold", "bg:#ff0000 bold",
              "bg:#fe0000", "class:a class:b"]


def rand_style(rng):
    r = rng.random()
    if r < 0.45:
        return rng.choice(STYLES_PLAIN)
    return rng.choice(STYLES_VIS)


def rand_row(rng, W, wide_ok, density):
    """dict x -> (char, style); wide characters are followed by the ('', '')
    shadow cell Window._copy_body writes, and never straddle the right edge."""
    row = {}
    kind = rng.random()
    if kind < 0.08:
        return row
    n = rng.randint(0, W) if kind < 0.8 else W
    x = rng.choice([0, 0, 0, 1, 2]) if W > 2 else 0
    base = rand_style(rng)
    while x < n:
        r = rng.random()
        if r > density:
            x += 1
            continue
        st = base if rng.random() < 0.6 else rand_style(rng)
        r = rng.random()
        if wide_ok and r < 0.15 and x + 1 < W:
            row[x] = (rng.choice(WIDE), st)
            row[x + 1] = ("", "")
            x += 2
        elif r < 0.45:
            row[x] = (" ", st)
            x += 1
        else:
            row[x] = (rng.choice(NARROW), st)
            x += 1
    if rng.random() < 0.06:
        # a float with left < 0: cells at negative column indices (not visible, and since
        # fix aa7dc6e not counted by get_max_column_index; C06-F3 was the case "all counting
        # cells at indices <= -2", which is generated here as well)
        lo = -rng.randint(1, 4)
        for x2 in range(lo, rng.choice([0, 0, -1, lo + 1]) if lo < -1 else 0):
            row[x2] = (rng.choice(NARROW), rand_style(rng))
    if rng.random() < 0.12:
        # content beyond the right border (a float with explicit left+width sticking out);
        # usually the visible part then reaches the last column
        if rng.random() < 0.7:
            for x2 in range(max(0, W - rng.randint(1, 3)), W):
                if x2 not in row and not (x2 - 1 in row and row[x2 - 1][0] in WIDE):
                    row[x2] = (rng.choice(NARROW + [" "]), rand_style(rng))
        st2 = rand_style(rng)
        for x2 in range(W, W + rng.randint(1, 4)):
            row[x2] = (rng.choice(NARROW + [" "]), st2 if rng.random() < 0.7 else rand_style(rng))
        return row
    if rng.random() < 0.25:
        # trailing blanks: styled-invisible or styled-visible
        st = rng.choice(STYLES_PLAIN + STYLES_VIS)
        for x2 in range(x, min(W, x + rng.randint(1, 4))):
            row[x2] = (" ", st)
    return row


def is_wide(ch):
    return ch in WIDE


def normalize_row(row, W):
    """restore the wide-character discipline after an edit: a wide cell is
    followed by its ('', '') shadow and fits; a shadow follows a wide cell."""
    out = {}
    for x in sorted(row):
        ch, st = row[x]
        if x in out:          # already written as a shadow
            continue
        if ch == "":
            continue          # orphan shadow
        if is_wide(ch):
            if x + 1 < W:
                out[x] = (ch, st)
                out[x + 1] = ("", "")
            else:
                out[x] = ("w", st)
        else:
            out[x] = (ch, st)
    return out


def rand_screen(rng, W, H, wide_ok=True, prev=None):
    if prev is not None and rng.random() < 0.5:
        # small edit of the previous screen
        import copy
        scr = copy.deepcopy(prev)
        scr["height"] = min(H + (2 if rng.random() < 0.1 else 0), max(0, scr["height"] + rng.choice([-1, 0, 0, 0, 1, 2])))
        for _ in range(rng.randint(0, 3)):
            if scr["height"] == 0:
                break
            y = rng.randrange(scr["height"])
            r = rng.random()
            if r < 0.4:
                scr["rows"][y] = rand_row(rng, W, wide_ok, 0.9)
            elif r < 0.55 and scr["rows"].get(y):
                # append after the end of the row, leaving what is there unchanged
                row = scr["rows"][y]
                m = max(row)
                for x in range(m + 1, min(W, m + 1 + rng.randint(1, 3))):
                    row[x] = (rng.choice(NARROW + [" "]), rand_style(rng))
            elif r < 0.7 and scr["rows"].get(y):
                row = scr["rows"][y]
                x = rng.choice(sorted(row))
                row[x] = (rng.choice(NARROW + [" "]), rand_style(rng))
            else:
                row = scr["rows"].get(y, {})
                if row:
                    m = max(row)
                    for x in range(max(0, m - rng.randint(0, 3)), m + 1):
                        row.pop(x, None)
        scr["rows"] = {y: normalize_row(r, W) for y, r in scr["rows"].items() if y < scr["height"]}
    else:
        h = rng.choice([0, 1, 1, 2, H, H, rng.randint(0, H)])
        h = min(h, H)
        if rng.random() < 0.08:
            h = H + rng.randint(1, 3)      # a float reaching below the last terminal row
        scr = {"height": h, "rows": {}, "zwe": {}}
        for y in range(h):
            if rng.random() < 0.85:
                scr["rows"][y] = rand_row(rng, W, wide_ok, rng.choice([0.5, 0.9, 1.0]))
    scr["show_cursor"] = rng.random() < 0.7
    h = scr["height"]
    r = rng.random()
    if r < 0.1:
        scr["cursor"] = None
    else:
        cy = rng.randrange(min(h, H)) if min(h, H) > 0 else 0
        cx = rng.choice([0, W - 1, rng.randrange(W)])
        scr["cursor"] = (cx, cy)
    scr["zwe"] = {}
    if rng.random() < 0.1 and scr["rows"]:
        y = rng.choice(sorted(scr["rows"]))
        if scr["rows"][y]:
            scr["zwe"][(y, rng.choice(sorted(scr["rows"][y])))] = rng.randint(0, 3)
    return scr


def rand_spec(rng, maxW, maxH, nops, wide_ok=True, transf_ok=False):
    W = rng.choice([1, 2, 3, maxW, rng.randint(1, maxW)])
    H = rng.choice([1, 2, maxH, rng.randint(1, maxH)])
    fs = rng.random() < 0.4
    ncfg = rng.choice([1, 1, 2, 3])
    cfgs = []
    for _ in range(ncfg):
        cfgs.append((rng.randrange(3), rng.choice([1, 4, 8, 24]),
                     (rng.choice([0, 0, 1, 2]) if transf_ok else rng.choice([0, 0, 1]))))
    ops = []
    prev = None
    cfg = 0
    # terminal-mode inputs of a render: the value of the mouse_support filter and the cursor
    # shape (escape parameter 1..6; 0 = CursorShape._NEVER_CHANGE, kept for the whole sequence:
    # switching from a shape to "never change" leaves the old shape on purpose)
    mouse_mode = rng.random() < 0.35
    shape_mode = rng.random() < 0.4
    mouse = 0
    shape = rng.randint(1, 6) if shape_mode else 0
    for i in range(nops):
        r = rng.random()
        if r < 0.08 and i > 0:
            ops.append(("erase",))
            prev = None
            continue
        if r < 0.12 and i > 0 and (ops[-1][0] in ("erase", "reset") or (ops[-1][0] == "render" and ops[-1][2])):
            ops.append(("reset",))      # where the renderer is fresh
            continue
        if 0.12 <= r < 0.16 and i > 0 and ops[-1][0] == "render" and not ops[-1][2]:
            # reset() after a normal render: in contract when the cursor is in column 0
            # (forced half of the time), correspondence only otherwise
            scr0 = ops[-1][5]
            if scr0["cursor"] is not None and rng.random() < 0.5:
                scr0["cursor"] = (0, scr0["cursor"][1])
            ops.append(("reset",))
            prev = None
            continue
        if rng.random() < 0.1:
            cfg = rng.randrange(ncfg)
        if rng.random() < 0.05:
            W = rng.randint(1, maxW)
            H = rng.randint(1, maxH)
            prev = None
        done = rng.random() < (0.1 if i < nops - 1 else 0.3)
        scr = rand_screen(rng, W, H, wide_ok and W >= 2, prev)
        if mouse_mode and rng.random() < 0.4:
            mouse = 1 - mouse
        if shape_mode and rng.random() < 0.3:
            shape = rng.randint(1, 6)
        scr["mouse"] = mouse
        scr["shape"] = shape
        ops.append(("render", cfg, done, W, H, scr))
        prev = None if done else scr
    return {"fs": fs, "cfgs": cfgs, "ops": ops}


# every attribute on its own (and with an invisible companion) on blank cells
BLANK_STYLES = ["strike", "underline", "blink", "reverse", "bg:#ff0000", "fg:#00ff00", "bold", "italic",
                "hidden", "strike bold", "italic strike", "class:b", "class:c", "", "[transparent]"]


def blank_run_specs(rng):
    """Rows ending in (or containing) a run of blanks that carry one attribute,
    then text appended after the unchanged blanks, then back: the states where
    'does this blank count as styled' decides what is drawn."""
    for st in BLANK_STYLES:
        for k in (1, 2, 3):
            for pre in ("", "ab"):
                for fs in (False, True):
                    n = len(pre)
                    W = n + k + rng.choice([1, 2, 3])
                    base = {x: (c, "") for x, c in enumerate(pre)}
                    base.update({n + i: (" ", st) for i in range(k)})
                    more = dict(base)
                    more[n + k] = ("x", rng.choice(["", "bold", st]))
                    other = dict(base)
                    other[n] = ("y", st)

                    def scr(row, h=1, extra=None):
                        rows = {0: dict(row)}
                        if extra is not None:
                            rows[1] = dict(extra)
                        return {"height": h, "show_cursor": True, "cursor": (rng.randrange(W), 0), "rows": rows, "zwe": {}}
                    depth = rng.choice([1, 4, 8, 24])
                    seqs = [[base, more, base], [more, base, more], [base, other, more], [{}, base, more]]
                    for seq in seqs:
                        yield {"fs": fs, "cfgs": [(1, depth, 0)],
                               "ops": [("render", 0, False, W, 2, scr(r)) for r in seq]}
                    yield {"fs": fs, "cfgs": [(1, depth, 0)],
                           "ops": [("render", 0, False, W, 3, scr(base, 2, more)), ("render", 0, False, W, 3, scr(more, 2, base))]}


def overhang_specs(rng):
    """Rows with cells at column indices >= terminal width (a float overhanging the
    right edge), visible part up to the last column or shorter, re-rendered
    unchanged / changed / shrunk: the clamps min(width-1, get_max_column_index)."""
    for W in (1, 2, 3, 5):
        for vis in (0, 1, 2):                 # how many of the last visible columns are filled
            for over in (1, 3):
                for st in ("", "bg:#ff0000", "bold"):
                    for fs in (False, True):
                        row = {x: (rng.choice(NARROW), st) for x in range(max(0, W - vis), W)}
                        row.update({x: (rng.choice(NARROW + [" "]), st) for x in range(W, W + over)})
                        row2 = dict(row)
                        row2[W + over - 1] = ("q", "underline")
                        row3 = {x: c for x, c in row.items() if x < W - 1}
                        row4 = dict(row)
                        if W >= 2:
                            row4[0] = ("k", "reverse")

                        def scr(r):
                            return {"height": 1, "show_cursor": True, "cursor": (rng.randrange(W), 0), "rows": {0: dict(r)}, "zwe": {}}
                        for seq in ([row, row], [row, row2, row], [row, row3, row], [row3, row, row4], [row4, row]):
                            yield {"fs": fs, "cfgs": [(0, rng.choice([1, 8, 24]), 0)],
                                   "ops": [("render", 0, False, W, 2, scr(r)) for r in seq]}


def neg_cols_specs(rng):
    """Rows with cells at negative column indices (a float with left < 0): everything
    negative but reaching index -1, negative + visible, shrinking to negative only."""
    for W in (2, 4):
        for fs in (False, True):
            for st in ("", "reverse"):
                a = {-2: ("a", st), -1: ("b", st)}
                b = {-2: ("a", st), -1: ("b", st), 0: ("c", st), 1: ("d", st)}
                c = {0: ("x", "")}
                d = {-3: (" ", ""), -1: ("q", st), 1: ("z", "")}

                def scr(r, cx):
                    return {"height": 1, "show_cursor": True, "cursor": (cx, 0), "rows": {0: dict(r)}, "zwe": {}}
                for seq in ([c, a], [a, a], [b, a, b], [a, b], [d, c, d], [c, d, a]):
                    yield {"fs": fs, "cfgs": [(0, 8, 0)],
                           "ops": [("render", 0, False, W, 2, scr(r, rng.randrange(W))) for r in seq]}


def neg_only_specs(rng):
    """Regression stream for C06-F3 (fixed by aa7dc6e): a row whose counting cells are all at indices <= -2."""
    for W in (3, 5):
        for fs in (False, True):
            neg = {-3: ("a", "reverse"), -2: ("b", "reverse")}
            x = {0: ("x", "")}

            def scr(r, cx):
                return {"height": 1, "show_cursor": True, "cursor": (cx, 0), "rows": {0: dict(r)}, "zwe": {}}
            yield {"fs": fs, "cfgs": [(0, 8, 0)],
                   "ops": [("render", 0, False, W, 2, scr(x, 1)), ("render", 0, False, W, 2, scr(neg, 1)),
                           ("render", 0, False, W, 2, scr(neg, W - 1)), ("render", 0, False, W, 2, scr(neg, 1))]}


def depth_change_specs(rng):
    """ONE renderer, the colour depth (and only the depth) changing between renders of the same
    or a slightly edited screen: the _last_color_depth invalidation must force a full repaint,
    otherwise unchanged cells keep the escape codes of the old depth.  Also style-only and
    transformation-only changes of the configuration."""
    out = []
    texts = [("a", "fg:#ff8800"), ("b", "bg:#0044ff"), ("x", "fg:ansired bg:#00ff00"), (" ", "bg:#884400"), ("Z", "fg:#123456 underline")]
    for fs in (False, True):
        for (d1, d2) in [(24, 8), (8, 24), (24, 4), (4, 1), (1, 24), (8, 4), (4, 8), (1, 8)]:
            for kind in ("depth", "style", "transf"):
                for edit in (0, 1):
                    W = rng.choice([3, 5, 8])
                    row = {x: rng.choice(texts) for x in range(rng.randint(1, W))}
                    scr1 = {"height": 1, "show_cursor": True, "cursor": (rng.randrange(W), 0), "rows": {0: dict(row)}, "zwe": {}}
                    row2 = dict(row)
                    if edit:
                        row2[rng.randrange(W)] = rng.choice(texts)
                    scr2 = {"height": 1, "show_cursor": True, "cursor": (rng.randrange(W), 0), "rows": {0: row2}, "zwe": {}}
                    sv = rng.randrange(3)
                    if kind == "depth":
                        cfgs = [(sv, d1, 0), (sv, d2, 0)]
                    elif kind == "style":
                        cfgs = [(sv, d1, 0), ((sv + 1) % 3, d1, 0)]
                    else:
                        cfgs = [(sv, d1, 0), (sv, d1, 1)]
                    ops = [("render", 0, False, W, 2, scr1), ("render", 1, False, W, 2, scr2),
                           ("render", 0, False, W, 2, scr1), ("render", 1, True, W, 2, scr2)]
                    out.append({"fs": fs, "cfgs": cfgs, "ops": ops})
    return out
