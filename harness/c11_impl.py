"""C11 - implementation runner: renders a real Window(BufferControl(buffer)) into a
Screen through Window.write_to_screen, several states through ONE window, and
canonicalises what came out.  Also the oracle (property text transcribed over
the implementation's own results) and the sub-domain classifier.

case  = [cfg, chartab, states]
cfg   = [wrap, margins, [top, bottom, left, right], [pk, first, cont, var], tabstop, [bflag, before], allow]
          margins 0: none, 1: left NumberedMargin, 2: right ScrollbarMargin, 3: both
          allow: allow_scroll_beyond_bottom
          pk 0: get_line_prefix=None; pk 1: prefix(l, k) = (first if k == 0 else cont) + '#' * ((l + k) % 2 if var else 0)
          tabstop 0: no TabsProcessor;  bflag 1: BeforeInput(before)
chartab = [[code, source_width, display_width, display_string], ...]   (as the implementation measures them)
states  = [[W, H, xpos, ypos, text, cursor], ...]   or  [W, H, xpos, ypos, text, cursor, cfg']:
          cfg' = a NEW configuration in force from this state on; the SAME Window object is
          reconfigured (filters / public attributes), its scroll state carries over
"""
import asyncio

from common import *  # noqa

TABCH1 = "|"
TABCH2 = "┈"


def prefix_text(pf, l, k):
    pk, first, cont, var = pf
    base = unS(first) if k == 0 else unS(cont)
    return base + "#" * ((l + k) % 2 if var else 0)


def char_info(c):
    """(source width, display width, display string) as the implementation measures them."""
    from prompt_toolkit.layout.screen import Char
    from prompt_toolkit.utils import get_cwidth
    ch = Char(c, "")
    return [get_cwidth(c), ch.width, S(ch.char)]


def make_chartab(cfg, states):
    chars = set(" #" + TABCH1 + TABCH2)
    for st in states:
        chars.update(unS(st[4]))
        if len(st) > 6:
            chars.update(unS(st[6][3][1]) + unS(st[6][3][2]) + unS(st[6][5][1]))
    chars.update(unS(cfg[3][1]) + unS(cfg[3][2]) + unS(cfg[5][1]))
    chars.discard("\n")
    return [[ord(c)] + char_info(c) for c in sorted(chars)]


def eff_cfg(case, j):
    """The configuration in force at state j of a case (the last one given up to j)."""
    cfg = case[0]
    for st in case[2][:j + 1]:
        if len(st) > 6:
            cfg = st[6]
    return cfg


class Window11:
    """One real Window kept across states (scroll state carries over)."""

    def __init__(self, cfg):
        from prompt_toolkit.application import Application
        from prompt_toolkit.buffer import Buffer
        from prompt_toolkit.input import DummyInput
        from prompt_toolkit.layout import Layout, Window
        from prompt_toolkit.layout.containers import ScrollOffsets
        from prompt_toolkit.layout.controls import BufferControl
        from prompt_toolkit.layout.margins import NumberedMargin, ScrollbarMargin
        from prompt_toolkit.layout.processors import BeforeInput, TabsProcessor
        from prompt_toolkit.output import DummyOutput
        from prompt_toolkit.filters import Condition
        self.buf = Buffer()
        self.ctl = BufferControl(buffer=self.buf, input_processors=[])
        self._mods = (NumberedMargin, ScrollbarMargin, BeforeInput, TabsProcessor)
        self.cfg = cfg
        # wrap mode, allow_scroll_beyond_bottom: filters; scroll offsets: callables (the documented
        # ways to change them on a live Window); margins, get_line_prefix, input_processors: the
        # public attributes, set by reconfigure()
        self.win = Window(self.ctl, wrap_lines=Condition(lambda: bool(self.cfg[0])),
                          allow_scroll_beyond_bottom=Condition(lambda: bool(self.cfg[6])),
                          scroll_offsets=ScrollOffsets(top=lambda: self.cfg[2][0], bottom=lambda: self.cfg[2][1],
                                                       left=lambda: self.cfg[2][2], right=lambda: self.cfg[2][3]))
        self._numbered = NumberedMargin()
        self._scrollbar = ScrollbarMargin()
        self.reconfigure(cfg)
        self.app = Application(layout=Layout(self.win), output=DummyOutput(), input=DummyInput())

    def reconfigure(self, cfg):
        """Put a (new) configuration in force on the SAME Window / BufferControl objects."""
        NumberedMargin, ScrollbarMargin, BeforeInput, TabsProcessor = self._mods
        wrap, margin, offs, pf, tabstop, (bflag, before), allow = cfg
        self.cfg = cfg
        procs = []
        if bflag:
            procs.append(BeforeInput(unS(before)))
        if tabstop:
            procs.append(TabsProcessor(tabstop=tabstop, char1=TABCH1, char2=TABCH2))
        self.ctl.input_processors = procs
        self.win.left_margins = [self._numbered] if margin & 1 else []
        self.win.right_margins = [self._scrollbar] if margin & 2 else []
        self.win.get_line_prefix = (lambda l, k: prefix_text(pf, l, k)) if pf[0] else None

    def render(self, st):
        """-> (canonical result, observation dict for the oracle)"""
        from prompt_toolkit.application.current import set_app
        from prompt_toolkit.document import Document
        from prompt_toolkit.layout.mouse_handlers import MouseHandlers
        from prompt_toolkit.layout.screen import Screen, WritePosition
        from prompt_toolkit.formatted_text.utils import fragment_list_to_text
        W, H, xpos, ypos, text, cursor = st[:6]
        text = unS(text)
        if len(st) > 6:
            self.reconfigure(st[6])
        with set_app(self.app):
            self.buf.set_document(Document(text, cursor), bypass_readonly=True)
            scr = Screen()
            # one render = one tick of Application.render_counter (as Application._redraw does);
            # Window caches margin widths and UIContent per (.., render_counter)
            self.app.render_counter += 1
            self.win.write_to_screen(scr, MouseHandlers(), WritePosition(xpos, ypos, W, H), "", False, None)
            win = self.win
            ri = win.render_info
            if ri is None or not (W > 0 and H > 0):
                return [1], None
            ui = ri.ui_content
            mw = ri._x_offset - xpos
            bw = ri.window_width
            lines = [fragment_list_to_text(ui.get_line(i)) for i in range(ui.line_count)]
            r2 = ri._rowcol_to_yx
            nkeys = 0
            look = []
            for l, ln in enumerate(lines):
                row = []
                for c in range(len(ln)):
                    if (l, c) in r2:
                        nkeys += 1
                        row.append(list(r2[l, c]))
                    else:
                        row.append([])
                look.append(row)
            vl = ri.visible_line_to_row_col
            vlook = [list(vl[y]) if y in vl else [] for y in range(0, H + 1)]
            grid = []
            for y in range(H):
                rowc = scr.data_buffer[y + ypos]
                grid.append([S(rowc[x + xpos + mw].char) for x in range(max(bw, 0))])
            cp = scr.cursor_positions.get(win)
            res = [0, win.vertical_scroll, win.vertical_scroll_2, win.horizontal_scroll, mw, bw,
                   [ui.cursor_position.y, ui.cursor_position.x],
                   [cp.y, cp.x] if cp is not None else [],
                   look, len(r2) - nkeys, None, vlook, grid]
            # column maps of the cursor line, as the control exposes them
            doc = self.buf.document
            pl = self.ctl._last_get_processed_line(doc.cursor_position_row)
            ncol = len(doc.current_line)
            s2d = []
            for i in range(ncol + 1):
                try:
                    s2d.append(pl.source_to_display(i))
                except Exception:  # noqa
                    s2d.append(None)
            d2s = []
            for v in s2d:
                try:
                    d2s.append(pl.display_to_source(v) if v is not None else None)
                except Exception:  # noqa
                    d2s.append(None)
            # display_to_source on EVERY display column of the cursor line (incl. the trailing blank)
            dline = lines[ui.cursor_position.y]
            d2s_all = []
            for dcol in range(len(dline)):
                try:
                    d2s_all.append(pl.display_to_source(dcol))
                except Exception:  # noqa
                    d2s_all.append(-77777)
            res[10] = d2s_all
            obs = dict(d2s_all=d2s_all, W=W, H=H, xpos=xpos, ypos=ypos, mw=mw, bw=bw, text=text, cursor=cursor, lines=lines,
                       ui_cursor=(ui.cursor_position.y, ui.cursor_position.x), r2=dict(r2), vl=dict(vl),
                       cp=(cp.y, cp.x) if cp is not None else None, scr=scr, s2d=s2d, d2s=d2s,
                       doc_rc=(doc.cursor_position_row, doc.cursor_position_col),
                       vs=win.vertical_scroll, vs2=win.vertical_scroll_2, hs=win.horizontal_scroll,
                       prev=None)
            return res, obs


def _render_guarded(w, st):
    try:
        return with_watchdog(lambda: w.render(st), 10)
    except Hang:
        return [98], None
    except AssertionError:
        return [2], None
    except KeyError:
        return [3], None
    except IndexError:
        return [4], None
    except ZeroDivisionError:
        return [5], None
    except Exception:  # noqa
        return [99], None


def impl_cases(cases, on_state=None, retried=None):
    """Run every case (all its states through one real Window, starting from a
    Window.reset() scroll state) inside one running event loop
    (BufferControl.create_content starts the history loader task there).
    Windows are reused between cases with the same configuration after
    Window.reset().  on_state(case_index, state_index, cfg, st, res, obs) is
    called for every state; returns the list of canonical results."""
    outs = []

    async def go():
        cache = {}
        for ci, case in enumerate(cases):
            cfg, chartab, states = case[:3]
            key = json.dumps(cfg)
            w = cache.get(key)
            if w is None:
                if len(cache) > 400:
                    cache.clear()
                w = cache[key] = Window11(cfg)
            for attempt in (0, 1):
                w.reconfigure(cfg)
                w.win.reset()
                prev = (0, 0, 0)
                out = []
                pend = []
                ecfg = cfg
                for si, st in enumerate(states):
                    if len(st) > 6:
                        ecfg = st[6]          # the configuration in force from this state on
                    res, obs = _render_guarded(w, st)
                    if obs is not None:
                        obs["prev"] = prev
                        prev = (obs["vs"], obs["vs2"], obs["hs"])
                    else:
                        prev = (w.win.vertical_scroll, w.win.vertical_scroll_2, w.win.horizontal_scroll)
                    out.append(res)
                    pend.append((ci, si, ecfg, st, res, obs))
                # the watchdog is a wall-clock timer: on a loaded machine it can fire on a
                # 0.3 ms render.  Re-run the whole history once on a fresh window; a real
                # non-termination fires again and is reported (status 98).
                if attempt == 0 and any(r == [98] for r in out):
                    if retried is not None:
                        retried[0] += 1
                    w = cache[key] = Window11(cfg)
                    continue
                break
            if on_state is not None:
                for a in pend:
                    on_state(*a)
            outs.append(out)
    loop = asyncio.new_event_loop()
    try:
        loop.run_until_complete(go())
    finally:
        try:
            for t in asyncio.all_tasks(loop):
                t.cancel()
            loop.run_until_complete(asyncio.sleep(0))
        except Exception:  # noqa
            pass
        loop.close()
    return outs


def impl_case(case):
    obss = []
    outs = impl_cases([case], lambda ci, si, cfg, st, res, obs: obss.append(obs))
    return outs[0], obss


# --------------------------------------------------------------------------
# sub-domains and the oracle

def widths_of(chartab):
    return {e[0]: (e[1], e[2]) for e in chartab}


def domain_of(cfg, chartab, st):
    """narrow_printable / wide / control (control wins: source width != display width)."""
    wd = widths_of(chartab)
    chars = set(st[4]) | set(cfg[3][1]) | set(cfg[3][2]) | set(cfg[5][1])
    chars.discard(10)
    if cfg[4]:
        chars.discard(9)       # expanded by TabsProcessor into narrow cells
    dom = "narrow_printable"
    for c in chars:
        sw, dw = wd.get(c, (1, 1))
        if sw != dw or sw == 0:
            return "control"
        if sw != 1:
            dom = "wide"
    return dom


def in_scope(cfg, st, obs):
    """The quantifier of the property: the window can hold one character plus
    margins (and plus the line prefix); offsets are non-negative."""
    if obs is None:
        return False
    pf = cfg[3]
    bw = obs["bw"]
    if obs["H"] < 1 or bw < 1:
        return False
    maxw = max([1] + [_widths(ch)[1] for ln in obs["lines"] for ch in ln])
    if pf[0]:
        nl = len(obs["lines"])
        if cfg[0]:
            ws = [sum(_widths(ch)[1] for ch in prefix_text(pf, l, k)) for l in (0, 1) for k in (0, 1)]
            if max(ws) + maxw > bw:
                return False
        else:
            if sum(_widths(ch)[1] for ch in prefix_text(pf, obs["ui_cursor"][0], 0)) + maxw > bw:
                return False
    return maxw <= bw


def oracle_state(cfg, st, obs):
    """None or (clause, family).  Demands exactly the property text: cursor
    inside the window, on the cell showing the character under the cursor (or
    the blank after the line end), rows = consecutive document lines in order,
    column maps consistent on the cursor line."""
    from prompt_toolkit.layout.screen import Char
    H, bw, mw, xpos, ypos = obs["H"], obs["bw"], obs["mw"], obs["xpos"], obs["ypos"]
    row, col = obs["ui_cursor"]
    text, cursor = obs["text"], obs["cursor"]
    drow, dcol = obs["doc_rc"]
    # column maps
    s2d, d2s = obs["s2d"], obs["d2s"]
    if row != drow:
        return ("cursor row changed by the processors", "colmap")
    if s2d[dcol] != col:
        return ("content cursor column is not source_to_display(document column)", "colmap")
    for i, (v, b) in enumerate(zip(s2d, d2s)):
        if v is None or b != i:
            return ("display_to_source(source_to_display(%d)) = %r" % (i, b), "colmap")
    for i in range(len(s2d) - 1):
        if not s2d[i] < s2d[i + 1]:
            return ("source_to_display not increasing at %d" % i, "colmap")
    # every display column d maps back to the source column whose image interval
    # [s2d(i), s2d(i+1)) contains it (columns before the image of column 0 belong to
    # the text inserted before the input: nothing demanded there)
    for dcol, got in enumerate(obs["d2s_all"]):
        if dcol < s2d[0]:
            continue
        want = max(i for i in range(len(s2d)) if s2d[i] <= dcol)
        if got != want:
            return ("display_to_source(%d) = %r, but display column %d lies in the image [%d, %s) of source column %d" % (
                dcol, got, dcol, s2d[want], s2d[want + 1] if want + 1 < len(s2d) else "..", want), "colmap-interior")
    # cursor cell
    pos = obs["r2"].get((row, col))
    if pos is None:
        return ("cursor (row %d, col %d) has no screen position (_rowcol_to_yx), cursor drawn at %r" % (row, col, obs["cp"]), "not-visible")
    y, x = pos
    if not (ypos <= y < ypos + H and xpos + mw <= x < xpos + mw + bw):
        return ("cursor position %r outside the window body" % (pos,), "outside")
    if obs["cp"] != (y, x):
        return ("Screen.cursor_positions %r differs from _rowcol_to_yx %r" % (obs["cp"], pos), "cursor-mismatch")
    under = text[cursor] if cursor < len(text) else "\n"
    if under == "\n":
        want = " "
    elif under == "\t" and cfg[4]:
        want = TABCH1
    else:
        want = Char(under, "").char
    got = obs["scr"].data_buffer[y][x].char
    # a zero-width (combining) character has no cell of its own and is merged
    # into the cell of the character before it: demand nothing for the former,
    # accept the merged cell for the latter
    zero_under = under not in "\n\t" and _widths(under)[1] == 0
    merged = got.startswith(want) and got != want and all(_widths(ch)[1] == 0 for ch in got[len(want):])
    if got != want and not zero_under and not merged:
        return ("cell under the cursor shows %r, character under the cursor is %r (%r)" % (got, under, want), "wrong-cell")
    # rows are consecutive document lines in order
    vl = obs["vl"]
    last = None
    for yy in range(0, H):
        if yy not in vl:
            continue
        l, c = vl[yy]
        if last is None:
            if l != obs["vs"]:
                return ("first visible row shows line %d, vertical_scroll is %d" % (l, obs["vs"]), "rows")
        else:
            if yy - 1 not in vl:
                return ("visible rows have a gap before row %d" % yy, "rows")
            if l == last[0]:
                if not c > last[1]:
                    return ("row %d does not continue line %d further right" % (yy, l), "rows")
            elif l != last[0] + 1:
                return ("row %d shows line %d after line %d" % (yy, l, last[0]), "rows")
        last = (l, c)
    for (l, c), (yy, xx) in obs["r2"].items():
        ry = yy - ypos
        if 0 <= ry < H and (ry not in vl or vl[ry][0] != l):
            return ("character of line %d drawn on row %d which is registered for %r" % (l, ry, vl.get(ry)), "rows")
    return None


def _widths(c):
    from prompt_toolkit.layout.screen import Char
    from prompt_toolkit.utils import get_cwidth
    return get_cwidth(c), Char(c, "").width


def packed_rows(cfg, obs, l):
    """Independent layout of display line l under wrapping: greedy packing of
    the DISPLAYED cell widths with the real prefix widths.  -> list of rows,
    each a list of columns; None when a prefix leaves no room."""
    pf = cfg[3]
    line = obs["lines"][l]
    rows = [[]]
    k = 0
    pw = (sum(_widths(ch)[1] for ch in prefix_text(pf, l, 0)) if pf[0] else 0)
    x = pw
    for c, ch in enumerate(line):
        w = _widths(ch)[1]
        if x + w > obs["bw"]:
            k += 1
            if k > 2000:
                return None
            pw = (sum(_widths(ch2)[1] for ch2 in prefix_text(pf, l, k)) if pf[0] else 0)
            if pw + w > obs["bw"]:
                return None
            rows.append([])
            x = pw
        rows[-1].append(c)
        x += w
    return rows


def estimated_height(cfg, obs, l, stop=None):
    """What a source-width based estimate gives (transcription of the documented
    contract of get_height_for_line, not a call of it)."""
    pf = cfg[3]
    tw = sum(_widths(ch)[0] for ch in obs["lines"][l][:stop])
    bw = obs["bw"]
    if not pf[0]:
        return max(1, -(-tw // bw))
    tw += sum(_widths(ch)[0] for ch in prefix_text(pf, l, 0))
    h = 1
    while tw > bw:
        h += 1
        tw -= bw
        p = sum(_widths(ch)[0] for ch in prefix_text(pf, l, h - 1))
        if p >= bw:
            return 10 ** 8
        tw += p
    return h


def _ref_down_loop(heights, bound, at_end_zero, n, prev):
    used = 0
    for lineno in range(n - 1, -1, -1):
        used += heights[lineno]
        if used > bound:
            return prev
        prev = lineno
    return 0 if at_end_zero else prev


def _ref_do_scroll(cur, so_start, so_end, pos, wsize, csize, allow):
    so_start = int(min(so_start, wsize / 2, pos))
    so_end = int(min(so_end, wsize / 2, csize - 1 - pos))
    if cur < 0:
        cur = 0
    if not allow and cur > csize - wsize:
        cur = max(0, csize - wsize)
    if cur > pos - so_start:
        cur = max(0, pos - so_start)
    if cur < (pos + 1) - wsize + so_end:
        cur = (pos + 1) - wsize + so_end
    return cur


def ref_wrap_visible(cfg, obs):
    """Would the cursor be visible from the same previous scroll state if the
    wrapping scroller were given the DISPLAYED row counts (greedy packing)
    instead of its source-width estimate?  Used only to decide whether a
    failure is explained by the height estimate (known findings F13 / F14)."""
    row, col = obs["ui_cursor"]
    H, top, bottom, allow = obs["H"], cfg[2][0], cfg[2][1], cfg[6]
    packed = [packed_rows(cfg, obs, l) for l in range(len(obs["lines"]))]
    if any(p is None for p in packed):
        return False
    heights = [len(p) for p in packed]
    kc = [i for i, r in enumerate(packed[row]) if col in r][0]
    pvs, pvs2 = obs["prev"][0], obs["prev"][1]
    if heights[row] > H - top:
        vs = row
        v2 = min(kc, heights[row] - H, pvs2)
        v2 = max(0, kc + 1 - H, v2)
    else:
        v2 = 0
        n = len(heights)
        T = _ref_down_loop(heights, H, False, n, n - 1)
        m = _ref_down_loop(heights, H - bottom, True, row + 1, row)
        M = _ref_down_loop(heights, top, False, row, row)
        vs = max(pvs, min(T, m))
        vs = min(vs, M)
        if not allow:
            vs = min(vs, T)
    if not 0 <= vs <= row:
        return False
    y = sum(heights[vs:row]) - v2 + kc
    return 0 <= y < H


def ref_nowrap_visible(cfg, obs):
    """The same for the horizontal axis: cursor position, content size and the
    skipped characters measured in DISPLAYED cells (known finding F13b)."""
    row, col = obs["ui_cursor"]
    line = obs["lines"][row]
    H, bw, allow = obs["H"], obs["bw"], cfg[6]
    top, bottom, left, right = cfg[2]
    pvs, _, phs = obs["prev"]
    vs = _ref_do_scroll(pvs, top, bottom, row, H, len(obs["lines"]), allow)
    if not vs <= row < vs + H:
        return False
    dws = [_widths(ch)[1] for ch in line]
    p = sum(_widths(ch)[1] for ch in prefix_text(cfg[3], row, 0)) if cfg[3][0] else 0
    pos = sum(dws[:col])
    hs = _ref_do_scroll(phs, left, right, pos, bw - p, max(sum(dws), phs + bw), allow)
    h, k = hs, 0
    while h > 0 and k < len(line):
        h -= dws[k]
        k += 1
    if col < k:
        return False
    x = p - h + sum(dws[k:col])
    return 0 <= x < bw


def zero_width_after_full_row(cfg, obs):
    """C11-F2 exactly: wrapping, the cursor is on a zero-width character and the
    cells before it fill the row (x == body width), so copy_line neither wraps
    nor registers it."""
    row, col = obs["ui_cursor"]
    line = obs["lines"][row]
    if not cfg[0] or _widths(line[col])[1] != 0:
        return False
    pr = packed_rows(cfg, obs, row)
    if pr is None:
        return False
    k = [i for i, r in enumerate(pr) if col in r][0]
    pw = sum(_widths(ch)[1] for ch in prefix_text(cfg[3], row, k)) if cfg[3][0] else 0
    x = pw + sum(_widths(line[c])[1] for c in pr[k] if c < col)
    return x == obs["bw"]


def cause_of(cfg, st, obs):
    """Input-side root cause tag of a cursor-visibility failure (used only to
    tag violations, so that a known finding matches exactly its own family):
    a failure counts as explained by a known root cause only if the root cause
    is present AND removing it (display-width heights / positions, same previous
    scroll state) would make the cursor visible."""
    row, col = obs["ui_cursor"]
    if not (0 <= row < len(obs["lines"]) and 0 <= col < len(obs["lines"][row])):
        return "content-cursor-outside-line"
    if cfg[0]:
        if zero_width_after_full_row(cfg, obs):
            return "zero-width-after-full-row"
        differs = False
        for l in range(len(obs["lines"])):
            pr = packed_rows(cfg, obs, l)
            if pr is None or len(pr) != estimated_height(cfg, obs, l):
                differs = True
                break
        if not differs:
            # the slice estimate up to and including the cursor cell (vertical_scroll_2)
            pr = packed_rows(cfg, obs, row)
            upto_rows = [i for i, r in enumerate(pr) if col in r][0] + 1
            differs = upto_rows != estimated_height(cfg, obs, row, col + 1)
        if differs and ref_wrap_visible(cfg, obs):
            return "height-estimate"
        return "none"
    line = obs["lines"][row]
    pfx = prefix_text(cfg[3], row, 0) if cfg[3][0] else ""
    if any(_widths(ch)[0] != _widths(ch)[1] for ch in line + pfx) and ref_nowrap_visible(cfg, obs):
        return "hscroll-width"
    return "none"


def f1_family(cfg, st, obs):
    """(Diagnostic only, no longer a known-finding tag.)  Input-side description of the
    repaired finding C11-F1: wrapping on, the cursor line is
    taller than the window minus the top offset, and the cursor sits on the
    first text cell of a wrapped row at or below the window height (the text
    before the cursor fills its rows exactly)."""
    if not cfg[0]:
        return False
    row, col = obs["ui_cursor"]
    rows = packed_rows(cfg, obs, row)
    if rows is None:
        return False
    starts = [r[0] for r in rows]
    return len(rows) > obs["H"] - cfg[2][0] and col >= 1 and col in starts and starts.index(col) >= obs["H"]
