"""C06 helper: drive the real Renderer / _output_screen_diff of the repo under
test with explicit screens, and build the model-side tables (style id ->
attrs id -> pen id / has_style) from the implementation's own style objects.

A case "spec" (python):
  {"fs": bool, "cfgs": [(style_variant, depth_bits, transformation_variant)],
   "ops": [("render", cfg, is_done, W, H, screen) | ("erase",) | ("reset",)]}
  screen = {"height": h, "show_cursor": b, "cursor": (x, y),
            "rows": {y: {x: (char, style_str)}}, "zwe": {(y, x): id}}
"""
import io
import types

from c06_term import PenTable, tokenize, ZWE

STYLE_RULES = [
    {},
    {"a": "bg:#884444 bold", "b": "underline", "c": "italic"},
    {"a": "fg:#00aa00", "b": "reverse", "c": "bg:ansiblue fg:ansiwhite"},
]
DEPTHS = {1: "DEPTH_1_BIT", 4: "DEPTH_4_BIT", 8: "DEPTH_8_BIT", 24: "DEPTH_24_BIT"}


def _style(variant):
    from prompt_toolkit.styles import Style
    return Style.from_dict(STYLE_RULES[variant])


def _transformation(variant):
    from prompt_toolkit.styles import (DummyStyleTransformation, SwapLightAndDarkStyleTransformation,
                                       SetDefaultColorStyleTransformation)
    if variant == 0:
        return DummyStyleTransformation()
    if variant == 1:
        return SwapLightAndDarkStyleTransformation()
    # gives EVERY style (also "" and "[transparent]") a background colour
    return SetDefaultColorStyleTransformation(fg="#aaaaaa", bg="#222244")


_SHAPES = {}


def shape_enum(code):
    """escape parameter n of ESC[n q -> CursorShape member (0 -> _NEVER_CHANGE); the table is
    read off the real Vt100_Output.set_cursor_shape, fail closed"""
    if not _SHAPES:
        from prompt_toolkit.cursor_shapes import CursorShape
        from prompt_toolkit.data_structures import Size
        from prompt_toolkit.output.vt100 import Vt100_Output
        import re as _re
        for member in CursorShape:
            buf = io.StringIO()
            out = Vt100_Output(buf, lambda: Size(rows=24, columns=80), term="xterm")
            out.set_cursor_shape(member)
            out.flush()
            txt = buf.getvalue()
            if txt == "":
                if member.name != "_NEVER_CHANGE":
                    raise AssertionError("cursor shape %r emits nothing" % member)
                _SHAPES[0] = member
                continue
            m = _re.fullmatch(r"\x1b\[([1-6]) q", txt)
            if not m or int(m.group(1)) in _SHAPES:
                raise AssertionError("unexpected cursor shape sequence %r for %r" % (txt, member))
            _SHAPES[int(m.group(1))] = member
        if sorted(_SHAPES) != [0, 1, 2, 3, 4, 5, 6]:
            raise AssertionError("cursor shape table %r" % sorted(_SHAPES))
    return _SHAPES[code]


def _depth(bits):
    from prompt_toolkit.output import ColorDepth
    return getattr(ColorDepth, DEPTHS[bits])


class _Container:
    """Stands in for layout.container: copies the prepared cells into the
    Screen the Renderer hands over."""

    def __init__(self):
        self.scr = None
        self.window = object()

    def preferred_height(self, width, max_available_height):
        from prompt_toolkit.layout.dimension import Dimension
        return Dimension.exact(self.scr["height"])

    def write_to_screen(self, screen, mouse_handlers, write_position, parent_style, erase_bg, z_index):
        fill_screen(screen, self.scr, self.window)


def fill_screen(screen, scr, window):
    from prompt_toolkit.layout.screen import _CHAR_CACHE
    from prompt_toolkit.data_structures import Point
    for y, row in scr["rows"].items():
        r = screen.data_buffer[y]
        for x, (ch, st) in row.items():
            r[x] = _CHAR_CACHE[ch, st]
    for (y, x), zid in scr.get("zwe", {}).items():
        screen.zero_width_escapes[y][x] = ZWE % zid
    screen.height = scr["height"]
    screen.show_cursor = bool(scr["show_cursor"])
    if scr["cursor"] is not None:
        screen.set_cursor_position(window, Point(x=scr["cursor"][0], y=scr["cursor"][1]))


class Driver:
    """One Renderer on one Vt100_Output(StringIO); `take()` returns what was
    written since the last call."""

    def __init__(self, spec):
        from prompt_toolkit.data_structures import Size
        from prompt_toolkit.output.vt100 import Vt100_Output
        from prompt_toolkit.renderer import Renderer
        from prompt_toolkit.cursor_shapes import SimpleCursorShapeConfig
        self.spec = spec
        self.buf = io.StringIO()
        self.size = [24, 80]
        self.output = Vt100_Output(self.buf, lambda: Size(rows=self.size[0], columns=self.size[1]), term="xterm")
        self.container = _Container()
        self.styles = {}
        self.transf = {}
        self.layout = types.SimpleNamespace(container=self.container, current_window=self.container.window,
                                            visible_windows=[])
        from prompt_toolkit.filters import Condition
        self.mouse = False
        self.shape = 0
        drv = self

        class _Cursor:
            def get_cursor_shape(self, app):
                return shape_enum(drv.shape)

        self.app = types.SimpleNamespace(layout=self.layout, style_transformation=self.transformation(0),
                                         color_depth=_depth(8), exit_style="", cursor=_Cursor())
        self.renderer = Renderer(self.style(spec["cfgs"][0][0]) if spec["cfgs"] else self.style(0),
                                 self.output, full_screen=bool(spec["fs"]),
                                 mouse_support=Condition(lambda: drv.mouse))

    def style(self, v):
        if v not in self.styles:
            self.styles[v] = _style(v)
        return self.styles[v]

    def transformation(self, v):
        if v not in self.transf:
            self.transf[v] = _transformation(v)
        return self.transf[v]

    def take(self):
        s = self.buf.getvalue()
        self.buf.seek(0)
        self.buf.truncate()
        return s

    def do(self, op):
        if op[0] == "render":
            _, cfg, done, W, H, scr = op
            sv, bits, tv = self.spec["cfgs"][cfg]
            self.size[0], self.size[1] = H, W
            self.renderer.style = self.style(sv)
            self.app.style_transformation = self.transformation(tv)
            self.app.color_depth = _depth(bits)
            self.container.scr = scr
            self.mouse = bool(scr.get("mouse", 0))
            self.shape = int(scr.get("shape", 0))
            self.renderer.render(self.app, self.layout, is_done=bool(done))
        elif op[0] == "erase":
            self.renderer.erase()
        elif op[0] == "reset":
            self.renderer.reset()
        else:
            raise ValueError(op)
        return self.take()


def style_ids(spec):
    """style string -> id; 0 is "" (the only falsy style string), 1 is the
    Screen default "[transparent]"."""
    ids = {"": 0, "[transparent]": 1}
    for op in spec["ops"]:
        if op[0] == "render":
            for row in op[5]["rows"].values():
                for (ch, st) in row.values():
                    if st not in ids:
                        ids[st] = len(ids)
    return ids


def tables(spec, sids, pens):
    """Per cfg: [[style id, attrs id]...], [[attrs id, pen id, [color, bgcolor,
    underline, strike, blink, reverse]]...] computed with the implementation's own
    Style/transformation/escape cache.  Which attrs count as "has style" is NOT taken
    from the implementation: the model computes it from the six flags
    (Model/C06_Run.v has_style = _StyleStringHasStyleCache.__missing__)."""
    from prompt_toolkit.renderer import _StyleStringToAttrsCache
    from prompt_toolkit.output.vt100 import _EscapeCodeCache
    out = []
    for (sv, bits, tv) in spec["cfgs"]:
        a4s = _StyleStringToAttrsCache(_style(sv).get_attrs_for_style_str, _transformation(tv))
        esc = _EscapeCodeCache(_depth(bits))
        aids = {}
        stab, atab = [], []
        for st, sid in sorted(sids.items(), key=lambda kv: kv[1]):
            attrs = a4s[st]
            if attrs not in aids:
                aids[attrs] = len(aids)
                atab.append([aids[attrs], pens.pen_id(esc[attrs]),
                             [1 if x else 0 for x in (attrs.color, attrs.bgcolor, attrs.underline, attrs.strike,
                                                      attrs.blink, attrs.reverse)]])
            stab.append([sid, aids[attrs]])
        out.append([stab, atab])
    return out


def screen_sx(scr, sids, width_of):
    rows = []
    for y in sorted(scr["rows"]):
        cells = []
        for x in sorted(scr["rows"][y]):
            ch, st = scr["rows"][y][x]
            cells.append([x, [ord(c) for c in ch], sids[st], width_of(ch)])
        rows.append([y, cells])
    zw = [[y, x, 100 + zid] for (y, x), zid in sorted(scr.get("zwe", {}).items())]
    cur = scr["cursor"] if scr["cursor"] is not None else (0, 0)
    return [scr["height"], 1 if scr["show_cursor"] else 0, cur[0], cur[1], rows, zw]


def case_sx(spec, pens):
    from prompt_toolkit.utils import get_cwidth
    sids = style_ids(spec)
    tabs = tables(spec, sids, pens)
    ops = []
    for op in spec["ops"]:
        if op[0] == "render":
            _, cfg, done, W, H, scr = op
            ops.append([0, cfg, 1 if done else 0, W, H, screen_sx(scr, sids, get_cwidth),
                        1 if scr.get("mouse", 0) else 0, int(scr.get("shape", 0))])
        elif op[0] == "erase":
            ops.append([1])
        else:
            ops.append([2])
    return [1 if spec["fs"] else 0, tabs, ops]


def run_impl(spec, pens):
    """-> list of raw output strings: [constructor output, one per op]"""
    d = Driver(spec)
    outs = [d.take()]
    for op in spec["ops"]:
        outs.append(d.do(op))
    return outs
