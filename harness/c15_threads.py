"""C15 - real-thread stress stream (oracle only, no model).

ThreadedCompleter / ThreadedValidator / ThreadedAutoSuggest wrap slow,
deterministic functions of the document text; results reach the event loop
through run_in_executor / generator_to_async_generator, i.e. as the same
yield / return steps the labelled transition system has, at times the
operating system chooses.  A driver coroutine edits the buffer at random
moments; after every action and every pause the property is evaluated on the
real objects.  Because completions, verdict and suggestion are functions of
the text, staleness is directly observable: what is shown must be what the
function gives for the text it is shown for."""
import asyncio
import threading
import time

WORDS = ["ab", "abc", "abd", "b", "ba", "xab"]


def completions_for(text_before_cursor):
    w = text_before_cursor.split(" ")[-1]
    return [(x, -len(w)) for x in WORDS if x.startswith(w) and w]


def valid(text):
    return "x" not in text


def suggestion_for(text):
    return (text[::-1] + "!") if text.strip() else None


class Counter:
    def __init__(self):
        self.lock = threading.Lock()
        self.active = {"c": 0, "v": 0, "s": 0}
        self.peak = {"c": 0, "v": 0, "s": 0}

    def enter(self, k):
        with self.lock:
            self.active[k] += 1
            self.peak[k] = max(self.peak[k], self.active[k])

    def leave(self, k):
        with self.lock:
            self.active[k] -= 1


def make_buffer(rng, cnt, delays):
    from prompt_toolkit.auto_suggest import AutoSuggest, Suggestion, ThreadedAutoSuggest
    from prompt_toolkit.buffer import Buffer
    from prompt_toolkit.completion import Completer, Completion, ThreadedCompleter
    from prompt_toolkit.document import Document
    from prompt_toolkit.validation import ThreadedValidator, ValidationError, Validator

    class SlowCompleter(Completer):
        def get_completions(self, document, complete_event):
            cnt.enter("c")
            try:
                for t, st in completions_for(document.text_before_cursor):
                    time.sleep(delays())
                    yield Completion(t, st)
                time.sleep(delays())
            finally:
                cnt.leave("c")

    class SlowValidator(Validator):
        def validate(self, document):
            counted = threading.current_thread() is not threading.main_thread()   # Buffer.validate() is not a coroutine
            if counted:
                cnt.enter("v")
            try:
                time.sleep(delays())
                if not valid(document.text):
                    raise ValidationError(message="x in text")
            finally:
                if counted:
                    cnt.leave("v")

    class SlowSuggest(AutoSuggest):
        def get_suggestion(self, buffer, document):
            cnt.enter("s")
            try:
                time.sleep(delays())
                s = suggestion_for(document.text)
                return Suggestion(s) if s is not None else None
            finally:
                cnt.leave("s")

    return Buffer(completer=ThreadedCompleter(SlowCompleter()), validator=ThreadedValidator(SlowValidator()),
                  auto_suggest=ThreadedAutoSuggest(SlowSuggest()), complete_while_typing=True,
                  validate_while_typing=True, document=Document("a", 1))


def check_buffer(b):
    """the property, on the real objects; None or (clause, family)"""
    from prompt_toolkit.buffer import ValidationState
    cs = b.complete_state
    text, cur = b.text, b.cursor_position
    if cs is not None:
        od = cs.original_document
        i = cs.complete_index
        comps = list(cs.completions)
        if i is not None and not (0 <= i < len(comps)):
            return ("complete_index=%r with %d completions" % (i, len(comps)), "selected-index-outside-list")
        if i is None:
            exp = (od.text, od.cursor_position)
        else:
            c = comps[i]
            before = od.text_before_cursor if c.start_position == 0 else od.text_before_cursor[:c.start_position]
            exp = (before + c.text + od.text_after_cursor, len(before) + len(c.text))
        if (text, cur) != exp:
            return ("menu exists but text/cursor %r/%d is not the original %r/%d with completion %r applied" % (
                text, cur, od.text, od.cursor_position, i), "menu-inconsistent")
        want = completions_for(od.text_before_cursor)
        got = [(c.text, c.start_position) for c in comps]
        if got != want[:len(got)]:
            return ("menu for %r/%d lists %r, the completer gives %r for that document" % (
                od.text, od.cursor_position, got, want), "stale-completion")
    if b.validation_state == ValidationState.VALID and not valid(text):
        return ("VALID shown for %r" % text, "stale-verdict")
    if b.validation_state == ValidationState.INVALID and valid(text):
        return ("INVALID shown for %r" % text, "stale-verdict")
    if b.suggestion is not None and b.suggestion.text != suggestion_for(text):
        return ("suggestion %r shown for %r (its own suggestion is %r)" % (b.suggestion.text, text, suggestion_for(text)),
                "stale-suggestion")
    return None


ACTIONS = ["ins-a", "ins-b", "ins-b", "ins-x", "ins-sp", "bs", "bs", "del", "left", "right", "next", "prev", "cancel",
           "start", "start-first", "settext", "validate"]


def do_action(b, a):
    if a.startswith("ins-"):
        b.insert_text({"a": "a", "b": "b", "x": "x", "sp": " "}[a[4:]])
    elif a == "bs":
        b.delete_before_cursor(1)
    elif a == "del":
        b.delete(1)
    elif a == "left":
        b.cursor_position -= 1
    elif a == "right":
        b.cursor_position += 1
    elif a == "next":
        b.complete_next()
    elif a == "prev":
        b.complete_previous()
    elif a == "cancel":
        b.cancel_completion()
    elif a == "start":
        b.start_completion()
    elif a == "start-first":
        b.start_completion(select_first=True)
    elif a == "settext":
        b.text = "ba"
    elif a == "validate":
        b.validate(set_cursor=False)


def run_scenario(env, rng, nact):
    """-> None or dict(clause, family, actions)"""
    cnt = Counter()
    delays = lambda: rng.choice([0.0, 0.0005, 0.001, 0.002, 0.004])  # noqa
    died = []
    env.loop.set_exception_handler(lambda loop, ctx: died.append(str(ctx.get("exception") or ctx.get("message"))))
    done = []

    async def go():
        b = make_buffer(rng, cnt, delays)
        for _ in range(nact):
            a = rng.choice(ACTIONS)
            try:
                do_action(b, a)
            except Exception as e:  # noqa
                return {"clause": "%s raised %s: %s" % (a, type(e).__name__, e), "family": "raises", "actions": done + [a]}
            done.append(a)
            bad = check_buffer(b)
            if bad:
                return {"clause": bad[0], "family": bad[1], "actions": list(done)}
            pause = rng.choice([0, 0, 0.001, 0.003, 0.008])
            t_end = time.time() + pause
            while True:
                await asyncio.sleep(0.0005 if pause else 0)
                bad = check_buffer(b)
                if bad:
                    return {"clause": bad[0], "family": bad[1], "actions": list(done) + ["(pause)"]}
                if time.time() >= t_end:
                    break
        # quiesce
        t_end = time.time() + 3
        while time.time() < t_end and any(not t.done() for t in env.tasks):
            await asyncio.sleep(0.001)
            bad = check_buffer(b)
            if bad:
                return {"clause": bad[0], "family": bad[1], "actions": list(done) + ["(quiesce)"]}
        if max(cnt.peak.values()) > 1:
            return {"clause": "two calls of one kind ran at the same time: peak %r" % (cnt.peak,),
                    "family": "single-flight", "actions": list(done)}
        if died:
            return {"clause": "a background task died: %s" % died[0], "family": "task-died", "actions": list(done)}
        return None

    async def wrapped():
        try:
            return await asyncio.wait_for(go(), 30)
        finally:
            for t in env.tasks:
                if not t.done():
                    t.cancel()
            for _ in range(5):
                await asyncio.sleep(0.002)
            for t in env.tasks:
                if t.done() and not t.cancelled():
                    t.exception()
            del env.tasks[:]
    try:
        return env.loop.run_until_complete(wrapped())
    finally:
        env.loop.set_exception_handler(lambda loop, ctx: None)
