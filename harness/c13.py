"""C13 - persisted history: durable, ordered, torn-write safe.
Model: coq/Model/C13_{Utf8,HistFile,Threaded,Run}.v; theorems: coq/Props/C13.v.

Three case families, all run on the real objects and on the extracted model:
  kind 1  operation sequences on real FileHistory instances sharing a scratch
          file (append via instance i, fresh load, truncate = crash, inline
          load(), get_strings, foreign bytes)
  kind 2  schedules of a real ThreadedHistory over a gated inner history; the
          schedules come from the model's own enumerator (kind 3) / guided
          walk (kind 4) and are forced on the real class by releasing gates
  kind 5  bytes.decode("utf-8", errors="replace") against the decoder model
"""
import asyncio
import itertools
import queue
import shutil
import threading

from common import *  # noqa

PROP = "C13"
TABLES = []
MODELS = [("c13", "Extract/ExC13.v", "run_C13")]
SCRATCH_DIR = "/var/tmp/c13-%d" % os.getpid()

ALPHA = ["a", "b", "+", "#", "\n", "\n", "\r", "\u2028", "\u2029", "\x85", "\x0b", "\x0c", "\x1c",
         "\x00", "\xe9", "\u754c", "\U0001F600", "\uffff", "\U0010FFFF", " ", "\x7f", "\x80", "\u07ff",
         "\u0800", "\ud7ff", "\ue000", "\ufffd", "\ufeff", "+", "\n+", "\n#", "\r\n"]
SMALL = ["a", "+", "#", "\n", "\r", "\xe9", "\U0001F600"]
FOPS = {1: "append_string", 2: "fresh_load", 3: "truncate", 4: "load", 5: "get_strings", 6: "raw_bytes",
        7: "g=load()", 8: "anext(g)"}


# --------------------------------------------------------------------------
# kind 1: FileHistory on a scratch file

class FileRunner:
    def __init__(self):
        os.makedirs(SCRATCH_DIR, exist_ok=True)
        self.path = os.path.join(SCRATCH_DIR, "history")
        self.loop = asyncio.new_event_loop()

    def close(self):
        self.loop.close()

    def _read(self):
        try:
            with open(self.path, "rb") as f:
                return f.read()
        except FileNotFoundError:
            return b""

    def run(self, ops_in):
        """-> (ops with the observed timestamps filled in, canonical results)"""
        from prompt_toolkit.history import FileHistory
        if os.path.exists(self.path):
            os.remove(self.path)
        insts = [FileHistory(self.path) for _ in range(3)]
        gens = {}
        ops_out, res = [], []
        for op in ops_in:
            k = op[0]
            try:
                if k == 1:
                    before = len(self._read())
                    status = 0
                    try:
                        insts[op[1]].append_string(unS(op[3]))
                    except UnicodeEncodeError:
                        status = 1
                    data = self._read()
                    new = data[before:]
                    ts = b""
                    if new.startswith(b"\n# "):
                        e = new.find(b"\n", 3)
                        ts = new[3:e] if e >= 0 else new[3:]
                    ops_out.append([1, op[1], list(ts), op[3]])
                    res.append([status, list(data)])
                    continue
                ops_out.append(op)
                if k == 2:
                    res.append([S(x) for x in FileHistory(self.path).load_history_strings()])
                elif k == 3:
                    data = self._read()[:max(0, op[1])]
                    with open(self.path, "wb") as f:
                        f.write(data)
                    res.append(len(data))
                elif k == 4:
                    async def collect(h):
                        return [x async for x in h.load()]
                    res.append([S(x) for x in self.loop.run_until_complete(collect(insts[op[1]]))])
                elif k == 5:
                    res.append([S(x) for x in insts[op[1]].get_strings()])
                elif k == 6:
                    with open(self.path, "ab") as f:
                        f.write(bytes(op[1]))
                    res.append(len(self._read()))
                elif k == 7:
                    gens[op[1]] = insts[op[1]].load()
                    res.append(0)
                elif k == 8:
                    g = gens.get(op[1])
                    try:
                        res.append([S(self.loop.run_until_complete(g.__anext__()))] if g is not None else [])
                    except StopAsyncIteration:
                        res.append([])
                else:
                    raise ValueError(k)
            except Hang:
                raise
            except Exception as ex:  # noqa
                if k == 1:
                    ops_out.append(op)
                res.append([-99, S(type(ex).__name__)])
        return ops_out, res


def is_err(r):
    return isinstance(r, list) and len(r) == 2 and r[0] == -99


def oracle_file(meta, ops, res):
    """The theorem statements on the implementation's own results.
    -> None or (clause, tags, detail)"""
    kind = meta["kind"]
    if kind in ("roundtrip", "instances"):
        es = []
        for op, r in zip(ops, res):
            if op[0] == 1:
                if r[0] != 0:
                    return ("append_string raised for an encodable entry", {"op": "FileHistory.store_string", "family": "raise"}, repr(unS(op[3])))
                es.append(op[3])
            elif op[0] == 2:
                if is_err(r):
                    return ("loading raised " + unS(r[1]), {"op": "FileHistory.load_history_strings", "family": "raise"}, "")
                if r != es[::-1]:
                    return ("fresh load != appended entries, newest first", {"op": "FileHistory.roundtrip", "family": first_char_family(es, r)},
                            "appended %r, read back %r" % ([unS(e) for e in es], [unS(x) for x in r]))
        return None
    if kind == "inline_iter":
        # entries are distinct: what one inline load() yields must not contain an entry twice, and the
        # entries stored when its iteration started come exactly once, newest first
        es, out, started, inst = [], [], None, None
        ls, idx = None, 0          # what a list iterator over the LIVE cache would do (the shape of C13-F3):
        explained = True           # used only to decide whether a repetition is that known defect or another one
        for op, r in zip(ops, res):
            if op[0] == 7:
                inst = op[1]
            if op[0] == 1:
                es.append(op[3])
                if ls is not None and op[1] == inst:
                    ls.insert(0, op[3])
            elif op[0] == 8:
                if is_err(r):
                    return ("inline load() raised " + unS(r[1]), {"op": "History.load", "family": "raise"}, "")
                if started is None:
                    started = list(es)
                    ls = started[::-1]
                for x in r:
                    if not (idx < len(ls) and ls[idx] == x):
                        explained = False
                    idx += 1
                    out.append(x)
        if started is None:
            return None
        detail = "stored at start %r, yielded %r" % ([unS(x) for x in started], [unS(x) for x in out])
        if len(set(map(tuple, out))) != len(out):
            return ("inline load() yielded an entry twice",
                    {"op": "History.load", "when": "append_during_iteration" if explained else "other", "clause": "yield-twice"}, detail)
        if meta.get("complete") and [x for x in out if x in started] != started[::-1]:
            return ("inline load() did not yield the entries stored at its start exactly once, newest first",
                    {"op": "History.load", "when": "other", "clause": "yield-missing"}, detail)
        return None
    if kind == "torn":
        es, offs, n = meta["entries"], meta["offsets"], meta["n"]
        k = max(j for j in range(len(offs)) if offs[j] <= n)       # offs[0] = 0
        loads = [r for op, r in zip(ops, res) if op[0] == 2]
        es2 = [op[3] for op in ops if op[0] == 1]
        for which, r in enumerate(loads):
            if is_err(r):
                return ("loading a torn file raised " + unS(r[1]), {"op": "FileHistory.torn", "family": "raise"}, "cut at byte %d" % n)
            new = es2[::-1] if which == 1 else []
            if r[:len(new)] != new:
                return ("entries appended after a torn tail are not read back intact and first", {"op": "FileHistory.torn_then_append", "family": "new-entries"},
                        "cut at byte %d: %r" % (n, [unS(x) for x in r]))
            rest = r[len(new):]
            want = es[:k][::-1]
            if not (rest[len(rest) - k:] == want if k else True) or len(rest) - k not in (0, 1) or len(rest) < k:
                return ("torn file: completed entries not all intact and in order with at most one damaged",
                        {"op": "FileHistory.torn" if which == 0 else "FileHistory.torn_then_append", "family": "completed-entries"},
                        "cut at byte %d (k=%d complete): %r" % (n, k, [unS(x) for x in r]))
            if len(rest) == k + 1 and k < len(es):
                # C13_torn_damaged_prefix / C13_torn_then_append_damaged: the one extra string is a prefix of the entry
                # that was being written (after appends: possibly followed by one U+FFFD)
                dmg, ent = rest[0], es[k]
                if not (dmg == ent[:len(dmg)] or (which == 1 and es2 and dmg and dmg[-1] == 0xFFFD and dmg[:-1] == ent[:len(dmg) - 1])):
                    return ("torn file: the damaged string is not a prefix of the entry that was being written",
                            {"op": "FileHistory.torn" if which == 0 else "FileHistory.torn_then_append", "family": "damaged-prefix"},
                            "cut at byte %d: damaged %r, entry being written %r" % (n, unS(dmg), unS(ent)))
            if n == offs[k] and len(rest) != k:
                return ("cut between records but an extra string appeared", {"op": "FileHistory.torn", "family": "extra"}, "cut at byte %d" % n)
        return None
    return None


def first_char_family(es, got):
    for e in es:
        s = unS(e)
        if s[:1] in "+#":
            return "leading-" + s[:1]
    if any(10 in e for e in es):
        return "multiline"
    return "plain"


def rand_entry(rng, maxlen=8):
    n = rng.choice([0, 1, 1, 2, 3, 5, maxlen])
    return "".join(rng.choice(ALPHA) for _ in range(n))


def gen_file_cases(chk):
    rng = chk.rng
    thorough = chk.tier == "thorough"
    out = []   # (meta, ops)
    # exhaustive: every entry of length <= 2 (3 in thorough) over SMALL, alone and after/before a fixed neighbour
    entries = [""]
    for n in range(1, (3 if thorough else 2) + 1):
        entries += ["".join(t) for t in itertools.product(SMALL, repeat=n)]
    for e in entries:
        out.append(({"kind": "roundtrip", "gen": "exhaustive_single"}, [[1, 0, None, S(e)], [2]]))
    pair_set = entries if thorough else [e for e in entries if len(e) <= 1] + ["+\n", "\n+", "\n\n", "#\n", "a\n", "\na"]
    for e1 in pair_set[:60]:
        for e2 in pair_set[:60]:
            out.append(({"kind": "instances", "gen": "exhaustive_pair"},
                        [[1, 0, None, S(e1)], [1, 1, None, S(e2)], [2]]))
    # random: several instances alternating, loads/get_strings in between
    for _ in range(4000 if thorough else 350):
        ops = []
        for _ in range(rng.randint(1, 7)):
            r = rng.random()
            if r < 0.7:
                ops.append([1, rng.randint(0, 2), None, S(rand_entry(rng))])
            elif r < 0.8:
                ops.append([4, rng.randint(0, 2)])
            elif r < 0.9:
                ops.append([5, rng.randint(0, 2)])
            else:
                ops.append([2])
        ops.append([2])
        out.append(({"kind": "instances", "gen": "random_instances"}, ops))
    # inline History.load() consumed step by step, appends (same / other instance) in between
    names = ["e%d" % k for k in range(12)]
    for _ in range(1500 if thorough else 120):
        i = rng.randint(0, 2)
        n0 = rng.randint(0, 4)
        pool = list(names)
        ops = [[1, rng.randint(0, 2), None, S(pool.pop(0))] for _ in range(n0)]
        ops.append([7, i])
        nexts = 0
        for _ in range(rng.randint(n0 + 1, n0 + 6)):
            if rng.random() < 0.3 and pool:
                ops.append([1, i if rng.random() < 0.7 else rng.randint(0, 2), None, S(pool.pop(0))])
            else:
                ops.append([8, i])
                nexts += 1
        ops += [[8, i]] * (12 - len(pool) + 2)      # run it to its end
        out.append(({"kind": "inline_iter", "gen": "inline_iteration", "complete": True}, ops))
    return out


def gen_torn_cases(chk, runner):
    """Build files with the real store_string, then cut them at EVERY byte."""
    rng = chk.rng
    thorough = chk.tier == "thorough"
    out = []
    nfiles = 40 if thorough else 5
    fixed = [["a\nb", "+x", "\U0001F600\xe9", "", "#\n\n+"],
             ["+", "\n", "\r\n\u2028", "\u754c\U0010FFFF\x00", "a" * 9, "#+\n+#", "\xe9\n\n", "b\x85\x0b"]]
    for fi in range(nfiles):
        es = fixed[fi] if fi < len(fixed) else [rand_entry(rng, 10) for _ in range(rng.randint(2, 9))]
        ops_b, res_b = runner.run([[1, rng.randint(0, 2), None, S(e)] for e in es])
        if any(r[0] != 0 for r in res_b):
            continue
        F = bytes(res_b[-1][1])
        offs = [0] + [len(r[1]) for r in res_b]
        if len(F) > 420:
            continue
        for n in range(len(F) + 1):
            tail = [[1, rng.randint(0, 2), None, S(rand_entry(rng, 4))] for _ in range(rng.choice([1, 1, 2]))]
            ops = [[6, list(F[:n])], [2]] + tail + [[2]]
            out.append(({"kind": "torn", "gen": "every_offset", "entries": [S(e) for e in es], "offsets": offs, "n": n,
                         "file_len": len(F)}, ops))
    # sampled cuts of longer files
    for _ in range(30 if thorough else 3):
        es = [rand_entry(rng, 40) for _ in range(rng.randint(4, 12))]
        ops_b, res_b = runner.run([[1, 0, None, S(e)] for e in es])
        if any(r[0] != 0 for r in res_b):
            continue
        F = bytes(res_b[-1][1])
        offs = [0] + [len(r[1]) for r in res_b]
        for n in sorted(set(rng.randint(0, len(F)) for _ in range(25))):
            ops = [[6, list(F[:n])], [2], [1, 1, None, S(rand_entry(rng, 4))], [2]]
            out.append(({"kind": "torn", "gen": "sampled_offset", "entries": [S(e) for e in es], "offsets": offs, "n": n,
                         "file_len": len(F)}, ops))
    return out


def gen_malformed_cases(chk):
    rng = chk.rng
    out = []
    for _ in range(1500 if chk.tier == "thorough" else 150):
        ops = []
        for _ in range(rng.randint(1, 4)):
            r = rng.random()
            if r < 0.45:
                b = [rng.choice([10, 43, 35, 32, 97, 0xC3, 0xA9, 0xE2, 0x80, 0xA8, 0xF0, 0x9F, 0x98, 0x80, 0xFF, 0xC0, 0xED, 0xA0, 0xF4, 0x90, 13])
                     for _ in range(rng.randint(0, 12))]
                ops.append([6, b])
            elif r < 0.6:
                e = rand_entry(rng, 4) + chr(rng.choice([0xD800, 0xDFFF, 0xDC00])) + rng.choice(["", "\nz", "q"])
                if rng.random() < 0.5:
                    e = "ok\n" + e
                ops.append([1, rng.randint(0, 2), None, S(e)])
            elif r < 0.8:
                ops.append([1, rng.randint(0, 2), None, S(rand_entry(rng, 4))])
            elif r < 0.9:
                ops.append([3, rng.randint(-2, 40)])
            else:
                ops.append([rng.choice([4, 5]), rng.randint(0, 2)])
            ops.append([2])
        out.append(({"kind": "malformed", "gen": "malformed"}, ops))
    return out


# --------------------------------------------------------------------------
# kind 5: the decoder CPython really uses

def gen_decode_cases(chk):
    rng = chk.rng
    thorough = chk.tier == "thorough"
    cases = [[5, [b]] for b in range(256)]
    leads = list(range(0xC0, 0x100)) + [0x80, 0xBF, 0x41, 0x0A, 0x2B]
    seconds = [0x0A, 0x2B, 0x41, 0x7F, 0x80, 0x8F, 0x90, 0x9F, 0xA0, 0xBF, 0xC0, 0xC2, 0xE0, 0xF0, 0xFF]
    for a in (range(256) if thorough else leads):
        for b in (range(256) if thorough else seconds):
            cases.append([5, [a, b]])
    for a in [0xE0, 0xE1, 0xEC, 0xED, 0xEE, 0xEF, 0xF0, 0xF1, 0xF3, 0xF4, 0xF5]:
        for b in seconds:
            for c in [0x0A, 0x41, 0x80, 0xBF, 0xC0]:
                cases.append([5, [a, b, c]])
                if a >= 0xF0:
                    for d in [0x0A, 0x80, 0xBF, 0xC2]:
                        cases.append([5, [a, b, c, d]])
    pool = [10, 43, 65, 0x80, 0xBF, 0xC2, 0xC3, 0xA9, 0xE0, 0xA0, 0xE2, 0x82, 0xAC, 0xED, 0x9F, 0xF0, 0x90, 0x9F, 0x98, 0x80, 0xF4, 0x8F, 0xFF]
    for _ in range(6000 if thorough else 600):
        cases.append([5, [rng.choice(pool) for _ in range(rng.randint(1, 9))]])
    return cases


def impl_decode(case):
    return S(bytes(case[1]).decode("utf-8", errors="replace"))


# --------------------------------------------------------------------------
# kind 2: ThreadedHistory under a forced schedule

class Ctl:
    def __init__(self):
        self.arrivals = queue.Queue()
        self.permits = threading.Semaphore(0)
        self.store_arrivals = queue.Queue()
        self.store_permits = threading.Semaphore(0)
        self.abort = False
        self.snapshot_taken = False
        self.event_gate = False
        self.lock_gate = False
        self.loader_ident = None

    def gate(self, name):
        self.arrivals.put(name)
        if self.abort:
            return
        if not self.permits.acquire(timeout=10):
            raise RuntimeError("gate timeout")

    def store_gate(self):
        self.store_arrivals.put("store")
        if self.abort:
            return
        if not self.store_permits.acquire(timeout=10):
            raise RuntimeError("store gate timeout")

    def release_all(self):
        self.abort = True
        for _ in range(200):
            self.permits.release()
            self.store_permits.release()


def make_inner(storage, ctl, eager=False):
    from prompt_toolkit.history import History

    class GatedInner(History):
        def __init__(self):
            super().__init__()
            self.storage = list(storage)

        def load_history_strings(self):
            ctl.loader_ident = threading.current_thread()
            ctl.gate("pre")
            snap = self.storage[::-1]
            ctl.snapshot_taken = True
            for item in snap:
                ctl.gate("item")
                yield item
            ctl.gate("end")

        def store_string(self, s):
            ctl.store_gate()
            self.storage.append(s)

    class GatedIter:
        def __init__(self, snap):
            self.snap, self.i = snap, 0

        def __iter__(self):
            return self

        def __next__(self):
            if self.i < len(self.snap):
                ctl.gate("item")
                self.i += 1
                return self.snap[self.i - 1]
            ctl.gate("end")
            raise StopIteration

    class EagerInner(GatedInner):
        # like FileHistory: the storage is read INSIDE the call, which returns an iterator over the result
        # (same gates in the same order as the generator above)
        def load_history_strings(self):
            ctl.loader_ident = threading.current_thread()
            ctl.gate("pre")
            snap = self.storage[::-1]
            ctl.snapshot_taken = True
            return GatedIter(snap)
    return EagerInner() if eager else GatedInner()


_tl = threading.local()
_EVENT_GATE = {"ctl": None}


class GatedEvent(threading.Event):
    """threading.Event as seen by prompt_toolkit.history while a replay with event_gate runs: the LOADER
    thread stops on entering every set() until the harness lets it go on (one permit per statement)."""

    def set(self):
        c = _EVENT_GATE["ctl"]
        if c is not None and c.event_gate and not c.abort and threading.current_thread() is c.loader_ident:
            c.gate("set")
        super().set()


class _ThreadingShim:
    Thread = threading.Thread
    Lock = threading.Lock
    Event = GatedEvent

    def __getattr__(self, name):
        return getattr(threading, name)



class GatedLock:
    """Stands in for ThreadedHistory._lock.  When a consumer's `in_executor` job
    leaves the lock region and the harness has armed a pause for that consumer,
    the worker thread stops right there (after `new_items`/`done` were read,
    before anything else of load() runs) until the harness lets it go on - so
    loader steps can be placed between the locked read and what follows it."""

    def __init__(self):
        self._l = threading.Lock()

    def acquire(self, *a, **kw):
        return self._l.acquire(*a, **kw)

    def release(self):
        self._l.release()

    def __enter__(self):
        self._l.acquire()
        return self

    def __exit__(self, *a):
        self._l.release()
        c = _EVENT_GATE["ctl"]
        if c is not None and c.lock_gate and not c.abort and threading.current_thread() is c.loader_ident:
            c.gate("unlock")        # the loader thread stops on leaving each of its lock regions
            return
        ex = getattr(_tl, "consumer", None)
        if ex is not None and ex.pause is not None:
            p, ex.pause = ex.pause, None
            p["paused"].set()
            p["resume"].wait(10)


class LoggingExecutor:
    """The consumer's executor: remembers the names of the submitted callables
    (`in_executor` = the locked read, `<lambda>` = event.wait), which tells the
    harness when one read and the yields following it are over."""

    def __init__(self):
        from concurrent.futures import ThreadPoolExecutor
        self.ex = ThreadPoolExecutor(max_workers=8)
        self.log = []
        self.pause = None

    def submit(self, fn, *a, **kw):
        name = getattr(fn, "__name__", "?")
        self.log.append(name)
        if name != "in_executor":
            return self.ex.submit(fn, *a, **kw)

        def job():
            _tl.consumer = self
            try:
                return fn(*a, **kw)
            finally:
                _tl.consumer = None
        return self.ex.submit(job)

    def shutdown(self, wait=True, **kw):
        self.ex.shutdown(wait=wait, **kw)

    def reads(self):
        return sum(1 for x in self.log if x == "in_executor")


class Replayer:
    def __init__(self):
        self.loops = [asyncio.new_event_loop() for _ in range(3)]
        self.execs = [LoggingExecutor() for _ in self.loops]
        self.hangs = 0
        # history.py says `threading.Event()`: give it our Event class (from outside, undone in close())
        import prompt_toolkit.history as _h
        self._hist_mod, self._hist_threading = _h, _h.threading
        _h.threading = _ThreadingShim()

    def close(self):
        for l in self.loops:
            l.close()
        for e in self.execs:
            e.shutdown(wait=False)
        self._hist_mod.threading = self._hist_threading

    @staticmethod
    def pump(loop, cond, timeout=2.0):
        """Run the loop ONE iteration at a time (so that a coroutine advances by
        exactly the steps that are ready) until cond() holds."""
        t0 = time.time()
        while True:
            loop.call_soon(loop.stop)
            loop.run_forever()
            if cond():
                return True
            if time.time() - t0 > timeout:
                return False
            time.sleep(0.0002)

    def replay(self, S0, labels, holds=(), event_gate=False, fine=False):
        """-> (observations, info) ; info: appends with the loader phase they fell in, storage at each consumer start.
        holds: indices of CRead labels whose consumer is stopped right after its locked read until the
        run of loader steps following it is over (those steps get observation None)."""
        from prompt_toolkit.history import ThreadedHistory
        ctl = Ctl()
        inner = make_inner([unS(x) for x in S0], ctl, eager=fine)
        th = ThreadedHistory(inner)
        th._lock = GatedLock()
        held = [None]
        cons = []
        appender = [None]
        obs = []
        info = {"appends": [], "starts": [], "hang": False, "race": False, "unfinished": False,
                "window_strings": [], "inserted_at_start": [], "finish_in_loop": False, "foreign_late": []}
        fheld = {}               # fine replay: consumer number -> its executor job stopped at the end of its lock region
        inserted = []            # strings whose append_string has done its insert
        pending_window = [None]  # the string of an append_string whose insert fell before the snapshot
        in_loop = [False]        # the loader is stopped inside one of its event loops
        if event_gate or fine:
            ctl.event_gate = True
            ctl.lock_gate = fine
            _EVENT_GATE["ctl"] = ctl

        def observe():
            o = [[S(x) for x in inner.storage], [S(x) for x in th._loaded_strings], bool(th._loaded),
                 [[[S(x) for x in c["out"]], (1 if c["task"].exception() is None else 99) if c["task"].done() else 0] for c in cons],
                 [bool(e.is_set()) for e in th._string_load_events],
                 getattr(th, "_num_prepended", -1)]
            obs.append(o)

        def when():
            if th._load_thread is None:
                return "before_load"
            if not ctl.snapshot_taken:
                return "before_snapshot"
            if not th._loaded:
                return "during_push"
            if any(not c["task"].done() for c in cons):
                return "loaded_consumer_active"
            return "quiescent"

        try:
            for j, lab in enumerate(labels):
                k = lab[0]
                if k == 2:
                    idx = len(cons)
                    first_load = th._load_thread is None
                    loop = self.loops[idx]
                    ex = self.execs[idx]
                    out = []

                    async def consume(out=out, ex=ex):
                        # load() uses the running loop's default executor: route it through ours
                        asyncio.get_running_loop().run_in_executor = (
                            lambda _none, fn, *a, _l=asyncio.get_running_loop(), _ex=ex: asyncio.wrap_future(_ex.submit(fn, *a), loop=_l))
                        async for item in th.load():
                            out.append(item)
                    n_ev = len(th._string_load_events)
                    task = loop.create_task(consume())
                    c = {"loop": loop, "task": task, "out": out, "event": None, "ex": ex}
                    cons.append(c)
                    info["starts"].append(list(inner.storage))
                    info["inserted_at_start"].append(list(inserted))
                    ok = self.pump(loop, lambda: len(th._string_load_events) > n_ev or task.done())
                    if not ok:
                        raise Hang()
                    if th._string_load_events:
                        c["event"] = th._string_load_events[-1]
                        if not c["event"].is_set():
                            info["race"] = True      # the consumer already did its first read
                    if first_load:
                        # the first load() reset the cache and started the thread, which now sits before its snapshot
                        if ctl.arrivals.get(timeout=5) != "pre":
                            raise Hang()
                elif k == 1:
                    ctl.permits.release()
                    t0 = time.time()
                    while True:
                        try:
                            ctl.arrivals.get(timeout=0.005)
                            break
                        except queue.Empty:
                            pass
                        if not th._load_thread.is_alive():
                            break
                        if time.time() - t0 > 5:
                            raise Hang()
                    if held[0] is not None:
                        if j + 1 < len(labels) and labels[j + 1][0] == 1:
                            obs.append(None)
                            continue
                        c, p, n0 = held[0]
                        held[0] = None
                        p["resume"].set()
                        ex = c["ex"]
                        if not self.pump(c["loop"], lambda c=c, ex=ex, n0=n0: c["task"].done() or (ex.reads() > n0 and ex.log[-1] != "in_executor")):
                            raise Hang()
                elif k == 3 and fine:
                    # the executor job `in_executor` only: it is stopped when it leaves the lock region
                    c = cons[lab[1]]
                    ex = c["ex"]
                    n0 = ex.reads()
                    p = {"paused": threading.Event(), "resume": threading.Event()}
                    ex.pause = p
                    # (the model asks for a read only when the event is set: the job is reached at once; a read
                    # that is not is one the implementation would block on)
                    if not self.pump(c["loop"], lambda c=c, p=p: p["paused"].is_set() or c["task"].done(), timeout=0.45):
                        raise Hang()
                    if p["paused"].is_set():
                        fheld[lab[1]] = (c, p, n0)
                    else:
                        ex.pause = None
                elif k == 9:
                    # the coroutine goes on: items_yielded, the yields, and the unregistering when done
                    if lab[1] in fheld:
                        c, p, n0 = fheld.pop(lab[1])
                        ex = c["ex"]
                        p["resume"].set()
                        if not self.pump(c["loop"], lambda c=c, ex=ex, n0=n0: c["task"].done() or (ex.reads() > n0 and ex.log[-1] != "in_executor")):
                            raise Hang()
                        if in_loop[0] and c["task"].done():
                            info["finish_in_loop"] = True
                elif k == 11:
                    # another History instance on the same storage stores a string
                    if ctl.snapshot_taken:
                        info["foreign_late"].append(unS(lab[1]))
                    inner.storage.append(unS(lab[1]))
                elif k == 3:
                    c = cons[lab[1]]
                    ex = c["ex"]
                    n0 = ex.reads()
                    if j in holds:
                        p = {"paused": threading.Event(), "resume": threading.Event()}
                        ex.pause = p
                        if not self.pump(c["loop"], lambda c=c, p=p: p["paused"].is_set() or c["task"].done()):
                            raise Hang()
                        if p["paused"].is_set():
                            held[0] = (c, p, n0)
                            obs.append(None)
                            continue
                        ex.pause = None
                    # one read is over when a later job (the next event.wait) has been submitted, or load() ended
                    cond = lambda c=c, ex=ex, n0=n0: c["task"].done() or (ex.reads() > n0 and ex.log[-1] != "in_executor")  # noqa
                    if not self.pump(c["loop"], cond):
                        raise Hang()
                    if in_loop[0] and c["task"].done():
                        info["finish_in_loop"] = True
                elif k == 8:
                    # one statement of the loader thread (the generator gates + the entry of every event.set())
                    ctl.permits.release()
                    t0 = time.time()
                    got = None
                    while True:
                        try:
                            got = ctl.arrivals.get(timeout=0.005)
                            break
                        except queue.Empty:
                            pass
                        if not th._load_thread.is_alive():
                            break
                        if time.time() - t0 > 5:
                            raise Hang()
                    in_loop[0] = (got in ("set", "unlock"))
                elif k == 4:
                    info["appends"].append(when())
                    pending_window[0] = unS(lab[1]) if info["appends"][-1] == "before_snapshot" else None
                    inserted.append(unS(lab[1]))
                    t = threading.Thread(target=th.append_string, args=(unS(lab[1]),), daemon=True)
                    appender[0] = t
                    t.start()
                    ctl.store_arrivals.get(timeout=5)
                elif k == 5:
                    if pending_window[0] is not None and not ctl.snapshot_taken:
                        info["window_strings"].append(pending_window[0])     # inserted AND stored before the snapshot
                    pending_window[0] = None
                    ctl.store_permits.release()
                    appender[0].join(5)
                    if appender[0].is_alive():
                        raise Hang()
                else:
                    raise ValueError(k)
                observe()
        except (Hang, queue.Empty):
            self.hangs += 1
            info["hang"] = True
            obs.append([-98])
        finally:
            _EVENT_GATE["ctl"] = None
            if held[0] is not None:
                held[0][1]["resume"].set()
            for _c, _p, _n in fheld.values():
                _p["resume"].set()
            for c in cons:
                if c["ex"].pause is not None:
                    c["ex"].pause = None
            if appender[0] is not None and appender[0].is_alive():
                # an append_string is still between its two halves: let its store happen NOW, while the loader
                # is still stopped, so that it is decided (not raced) whether it falls before the snapshot
                if pending_window[0] is not None and not ctl.snapshot_taken:
                    info["window_strings"].append(pending_window[0])
                pending_window[0] = None
                ctl.store_permits.release()
                appender[0].join(5)
            ctl.release_all()
            if th._load_thread is not None:
                th._load_thread.join(5)
            if appender[0] is not None:
                appender[0].join(5)
            for c in cons:
                if not c["task"].done():
                    # the loader has now run to its end: every load() must come to an end too
                    if not self.pump(c["loop"], lambda c=c: c["task"].done(), timeout=2):
                        info["unfinished"] = True
                        self.hangs += 1
                        c["task"].cancel()
                        self.pump(c["loop"], lambda c=c: c["task"].done(), timeout=2)
                if c["task"].done() and not c["task"].cancelled():
                    c["task"].exception()
        info["final_outs"] = [[[S(x) for x in c["out"]],
                               (1 if (not c["task"].cancelled() and c["task"].exception() is None) else 99) if c["task"].done() else 0] for c in cons]
        info["fine"] = bool(fine)
        info["final_loaded"] = bool(th._loaded)
        info["final_cache"] = [S(x) for x in th._loaded_strings]
        info["final_get_strings"] = [S(x) for x in th.get_strings()]
        info["final_storage"] = [S(x) for x in inner.storage]
        return obs, info


def oracle_threaded(S0, labels, obs, info):
    """-> None or (clause, tags, detail).  Strings are distinct by construction.
    Tags are specific to the consumer / clause that fails, so that a known-finding matcher covers
    exactly its own symptom:
      when = window_append_reread   every duplicated entry is a string that append_string inserted AND
                                    stored between the first load() and the loader's snapshot (C13-F2)
             consumer_finished_inside_event_loop   a load() finished while the loader was inside one of
                                    its `for event in ...: event.set()` loops (C13-F4)
             otherwise the phase of the first concurrent append / no_concurrent_append"""
    if info["hang"] and info.get("fine") and not info["unfinished"]:
        # the schedule could not be forced to its end (the implementation's statements are not the model's);
        # everything was then let run to completion: judge what the load() calls yielded in the end
        for ci, (out, fin) in enumerate(info.get("final_outs", [])):
            touts = list(map(tuple, out))
            start = [x for x in (S(y) for y in info["starts"][ci]) if x not in [S(z) for z in info.get("foreign_late", [])]] if ci < len(info["starts"]) else []
            how = "consumer %d yielded %r in the end (storage at its start %r; the schedule was forced up to the step that timed out, then every thread ran to completion)" % (
                ci, [unS(x) for x in out], [unS(x) for x in start])
            if any(touts.count(x) > 1 for x in touts):
                return ("load() yielded an entry twice", {"op": "ThreadedHistory.load", "when": "unforceable_schedule", "clause": "yield-twice"}, how)
            if fin == 1 and [x for x in out if x in start] != start[::-1]:
                return ("load() did not yield the entries present at its start exactly once, newest first",
                        {"op": "ThreadedHistory.load", "when": "unforceable_schedule", "clause": "yield-missing"}, how)
    if info["hang"] and not info.get("finish_in_loop"):
        return ("replay hung (a wait timed out)", {"op": "ThreadedHistory", "family": "hang"}, "")
    concurrent = [w for w in info["appends"] if w not in ("before_load", "quiescent")]
    w = concurrent[0] if concurrent else "no_concurrent_append"
    op = "ThreadedHistory.append_string" if concurrent else "ThreadedHistory.load"
    if info["unfinished"] or info["hang"]:
        wf = "consumer_finished_inside_event_loop" if info.get("finish_in_loop") else w
        return ("a load() did not finish although the loader thread had finished" if info["unfinished"] else "replay hung (a wait timed out)",
                {"op": "ThreadedHistory.load" if info.get("finish_in_loop") else op, "when": wf, "clause": "finish"}, "")
    window = [tuple(S(x)) for x in info.get("window_strings", [])]
    late = [S(x) for x in info.get("foreign_late", [])]     # stored by another instance after the loader read the storage
    last = obs[-1]
    for ci, (out, fin) in enumerate(last[3]):
        if fin == 99:
            return ("load() raised", {"op": op, "when": w, "clause": "raise"}, "")
        start = [x for x in (S(y) for y in info["starts"][ci]) if x not in late]
        inserted_before = [tuple(S(x)) for x in info.get("inserted_at_start", [[]] * (ci + 1))[ci]]
        touts = list(map(tuple, out))
        dups = sorted(set(x for x in touts if touts.count(x) > 1))
        if dups:
            reread = all(x in window and x in inserted_before and touts.count(x) == 2 for x in dups)
            return ("load() yielded an entry twice", {"op": op, "when": "window_append_reread" if reread else w, "clause": "yield-twice"},
                    "consumer %d yielded %r" % (ci, [unS(x) for x in out]))
        if fin == 1:
            restricted = [x for x in out if x in start]
            if restricted != start[::-1]:
                return ("load() did not yield the entries present at its start exactly once, newest first",
                        {"op": op, "when": w, "clause": "yield-missing"}, "consumer %d yielded %r, storage at start %r" % (ci, [unS(x) for x in out], [unS(x) for x in start]))
        if not concurrent:
            # find the storage at the step where this consumer finished (or the final one)
            inline = last[0][::-1]
            for o in obs:
                if len(o) > 3 and ci < len(o[3]) and o[3][ci][1] == 1:
                    inline = o[0][::-1]
                    break
            inline = [x for x in inline if x not in late]
            if fin == 1 and out != inline:
                return ("threaded load() != inline load()", {"op": op, "when": w, "clause": "yield-inline"},
                        "consumer %d yielded %r, inline %r" % (ci, [unS(x) for x in out], [unS(x) for x in inline]))
            if fin == 0 and out != inline[:len(out)]:
                return ("threaded load() yielded a non-prefix of the inline sequence", {"op": op, "when": w, "clause": "yield-inline"},
                        "consumer %d yielded %r, inline %r" % (ci, [unS(x) for x in out], [unS(x) for x in inline]))
    # after the replay the loader was let run to the end and every append completed
    if late:
        info = dict(info, final_storage=[x for x in info["final_storage"] if x not in late])
    if info["final_loaded"] and (info["final_cache"] != info["final_storage"][::-1] or info["final_get_strings"] != info["final_storage"]):
        cache = list(map(tuple, info["final_cache"]))
        once = list(cache)
        for x in window:                      # drop ONE copy of every window string that is there twice
            if once.count(x) == 2:
                once.remove(x)
        reread = bool(window) and once == list(map(tuple, info["final_storage"][::-1])) and info["final_get_strings"] == info["final_cache"][::-1]
        return ("after loading completed the cache is not the storage with every entry exactly once",
                {"op": op, "when": "window_append_reread" if reread else w, "clause": "cache-twice" if reread else "cache"},
                "get_strings() = %r, storage = %r" % ([unS(x) for x in info["final_get_strings"]], [unS(x) for x in info["final_storage"]]))
    return None


def label_name(l):
    return {1: "L", 2: "CStart", 3: "CRead%d" % (l[1] if len(l) > 1 and isinstance(l[1], int) else 0), 4: "AIns", 5: "ASto", 6: "Append", 8: "l", 9: "CCont%d" % (l[1] if len(l) > 1 and isinstance(l[1], int) else 0), 11: "Other"}.get(l[0], "?")


def gen_schedules(chk):
    """Ask the model for the schedules it considers forceable."""
    rng = chk.rng
    thorough = chk.tier == "thorough"
    a, b, c, n1, n2 = S("a"), S("b"), S("c"), S("N1"), S("N2")
    enum_params = [([a, b], [n1], 1, 9), ([a], [n1], 2, 9), ([], [n1], 1, 7), ([a, b, c], [], 2, 8), ([a, b], [n1, n2], 1, 8)]
    if thorough:
        # with one consumer the enumeration below is COMPLETE (every maximal forceable schedule)
        enum_params = [([a, b, c], [n1], 1, 18), ([a, b], [n1], 1, 16), ([a, b], [n1, n2], 1, 20), ([], [n1], 1, 10),
                       ([a, b], [n1], 2, 12), ([a, b, c], [], 2, 12), ([a], [n1, n2], 2, 11), ([a], [n1], 3, 10)]
    enum_cases = [[3, s0, pool, maxc, fuel] for s0, pool, maxc, fuel in enum_params]
    res = run_model("c13", enum_cases, shards=len(enum_cases))
    scheds = []
    dist = {}
    budget = 8000 if thorough else 500
    for (s0, pool, maxc, fuel), r in zip(enum_params, res):
        if not isinstance(r, list) or r == [-999] or r == ["MODEL-NO-OUTPUT"]:
            chk.note("model enumerator failed for %r" % ([s0, pool, maxc, fuel],))
            continue
        key = "enum S0=%d pool=%d maxc=%d depth=%d" % (len(s0), len(pool), maxc, fuel)
        dist[key] = {"enumerated": len(r), "complete": all(len(x) < fuel for x in r)}
        per = budget // len(enum_params)
        pick = r if (len(r) <= per or (thorough and len(r) <= 4000)) else rng.sample(r, per)
        dist[key]["replayed"] = len(pick)
        scheds += [(s0, sch) for sch in pick if sch]
    # guided random walks (deeper)
    walk_cases, walk_meta = [], []
    for _ in range(1500 if thorough else 150):
        s0 = [S(x) for x in rng.sample(["a", "b", "c", "d", "e"], rng.randint(0, 4))]
        pool = [S(x) for x in ["N1", "N2", "N3"][:rng.randint(0, 3)]]
        maxc = rng.randint(1, 3)
        ch = [rng.randint(0, 11) for _ in range(rng.randint(6, 22))]
        walk_cases.append([4, s0, pool, maxc, ch])
        walk_meta.append(s0)
    wres = run_model("c13", walk_cases)
    nw = 0
    for s0, r in zip(walk_meta, wres):
        if isinstance(r, list) and r and r != [-999]:
            scheds.append((s0, r))
            nw += 1
    dist["guided_walk"] = {"replayed": nw}
    # the hand schedules of Props/C13.v: the repaired C13-F1 witness and the window of C13-F2
    scheds.insert(0, ([a, b, c], [[2], [1], [1], [1], [3, 0], [4, S("NEW")], [5, S("NEW")], [1], [1], [3, 0]]))
    scheds.insert(1, ([a, b], [[2], [4, S("NEW")], [5, S("NEW")], [2], [1], [1], [1], [1], [1], [3, 1]]))
    return scheds, dist


def gen_event_schedules(chk):
    """Schedules at the granularity of the loader's single event.set() calls (model kinds 8/9)."""
    rng = chk.rng
    thorough = chk.tier == "thorough"
    a, b = S("a"), S("b")
    params = [([a], 2, 13), ([a, b], 2, 12), ([], 2, 9)] + ([([a], 3, 12)] if thorough else [])
    res = run_model("c13", [[8, s0, maxc, fuel] for s0, maxc, fuel in params], shards=1)
    scheds, dist = [], {}
    per = 500 if thorough else 60
    for (s0, maxc, fuel), r in zip(params, res):
        if not isinstance(r, list) or r == [-999] or r == ["MODEL-NO-OUTPUT"]:
            chk.note("model event-schedule enumerator failed for %r" % ([s0, maxc, fuel],))
            continue
        # only schedules in which some load() call runs while the loader is inside a loop are new
        pick = r if len(r) <= per else rng.sample(r, per)
        dist["eenum S0=%d maxc=%d depth=%d" % (len(s0), maxc, fuel)] = {"enumerated": len(r), "replayed": len(pick)}
        scheds += [(s0, sch) for sch in pick if sch]
    walks = [[9, [S(x) for x in rng.sample(["a", "b", "c"], rng.randint(0, 3))], rng.randint(2, 3),
              [rng.randint(0, 11) for _ in range(rng.randint(8, 26))]] for _ in range(600 if thorough else 60)]
    wres = run_model("c13", walks)
    nw = 0
    for c, r in zip(walks, wres):
        if isinstance(r, list) and r and r != [-999]:
            scheds.append((c[1], r))
            nw += 1
    dist["ewalk"] = {"replayed": nw}
    # Props/C13.v skip_sched (+ one more loader statement): the C13-F4 schedule
    scheds.insert(0, ([a], [[2], [2], [8], [8], [8], [8], [3, 1], [8], [3, 0], [8], [8]]))
    return scheds, dist


def _interleavings(n_own, n_for):
    if n_own == 0 and n_for == 0:
        return [[]]
    out = []
    if n_own:
        out += [["O"] + r for r in _interleavings(n_own - 1, n_for)]
    if n_for:
        out += [["F"] + r for r in _interleavings(n_own, n_for - 1)]
    return out


def gen_fine_schedules(chk):
    """Schedules at thread-switch granularity (Model/C13_ThreadedFine.v, model kinds 10/12/13/14): the loader
    stopped after every lock region and before every set(), a load()'s locked read and its continuation as
    two steps, appends by ANOTHER instance on the same storage."""
    rng = chk.rng
    thorough = chk.tier == "thorough"
    a, b = S("a"), S("b")
    own, foreign = [S("N1"), S("N2")], [S("F1"), S("F2")]
    # family 1 (exhaustive small scope): every interleaving of <= 2 appends by this object and <= 2 by another
    # instance BEFORE the first load(); then load(), with / without a read before the loader has read the
    # storage; another instance storing in the window / after the snapshot / not; completed fairly by the model
    prefixes = []
    for s0 in ([a], [], [a, b]):
        for no in range(3):
            for nf in range(3):
                for order in _interleavings(no, nf):
                    pre, io, jf = [], 0, 0
                    for t in order:
                        if t == "O":
                            pre += [[4, own[io]], [5, own[io]]]
                            io += 1
                        else:
                            pre += [[11, foreign[jf]]]
                            jf += 1
                    for early in (0, 1):
                        for mid in (0, 1, 2):
                            lab = pre + [[2]] + ([[3, 0], [9, 0]] if early else [])
                            if mid == 1:
                                lab = lab + [[11, S("G")]]
                            elif mid == 2:
                                lab = lab + [[8], [11, S("G")]]
                            prefixes.append((s0, lab))
    n_all = len(prefixes)
    prefixes.sort(key=lambda x: -len(x[1]))          # the richest first (stable)
    if not thorough:
        first = [x for x in prefixes if x[0] == [a]]
        rest = [x for x in prefixes if x[0] != [a]]
        prefixes = first + rng.sample(rest, 40)
    res = run_model("c13", [[14, s0, lab, 80] for s0, lab in prefixes])
    scheds, dist = [], {}
    n1 = 0
    for (s0, lab), r in zip(prefixes, res):
        if isinstance(r, list) and r and r != [-999] and r != ["MODEL-NO-OUTPUT"]:
            scheds.append((s0, r))
            n1 += 1
    dist["preload_appends_own_x_foreign (exhaustive family of %d)" % n_all] = {"replayed": n1}
    # family 2: every forceable schedule to a depth
    params = [([a], [S("N1")], [S("F1")], 1, 7), ([a], [], [], 2, 8), ([a, b], [S("N1")], [], 1, 8)]
    if thorough:
        params = [([a], [S("N1")], [S("F1")], 1, 10), ([a], [], [], 2, 11), ([a, b], [S("N1")], [], 1, 11), ([a], [], [S("F1")], 2, 9)]
    res = run_model("c13", [[12, s0, p1, p2, maxc, fuel] for s0, p1, p2, maxc, fuel in params], shards=len(params))
    per = 600 if thorough else 50
    for (s0, p1, p2, maxc, fuel), r in zip(params, res):
        if not isinstance(r, list) or r == [-999] or r == ["MODEL-NO-OUTPUT"]:
            chk.note("model fine-schedule enumerator failed for %r" % ([s0, p1, p2, maxc, fuel],))
            continue
        pick = r if len(r) <= per else rng.sample(r, per)
        dist["genum S0=%d own=%d other=%d maxc=%d depth=%d" % (len(s0), len(p1), len(p2), maxc, fuel)] = {"enumerated": len(r), "replayed": len(pick)}
        scheds += [(s0, sch) for sch in pick if sch]
    # family 3: guided walks
    walks = [[13, [S(x) for x in rng.sample(["a", "b", "c"], rng.randint(0, 3))], own[:rng.randint(0, 2)], foreign[:rng.randint(0, 2)],
              rng.randint(1, 3), [rng.randint(0, 23) for _ in range(rng.randint(8, 30))]] for _ in range(700 if thorough else 60)]
    wres = run_model("c13", walks)
    nw = 0
    for c, r in zip(walks, wres):
        if isinstance(r, list) and r and r != [-999]:
            scheds.append((c[1], r))
            nw += 1
    dist["gwalk"] = {"replayed": nw}
    return scheds, dist


# --------------------------------------------------------------------------
# end to end: ThreadedHistory(FileHistory) ungated == inline

def e2e_cases(chk, runner):
    from prompt_toolkit.history import FileHistory, ThreadedHistory
    rng = chk.rng
    bad = None
    n = 0
    for _ in range(60 if chk.tier == "thorough" else 12):
        es = [rand_entry(rng, 6) for _ in range(rng.randint(0, 8))]
        if os.path.exists(runner.path):
            os.remove(runner.path)
        h = FileHistory(runner.path)
        for e in es:
            h.append_string(e)

        async def collect(x):
            return [i async for i in x.load()]
        inline = threaded = again = None
        try:
            inline = with_watchdog(lambda: runner.loop.run_until_complete(collect(FileHistory(runner.path))), 10)
            th = ThreadedHistory(FileHistory(runner.path))
            threaded = with_watchdog(lambda: runner.loop.run_until_complete(collect(th)), 6)
            again = with_watchdog(lambda: runner.loop.run_until_complete(collect(th)), 6)
        except Hang:
            # a load() that never ends; the loop object cannot be reused after the interrupted run
            runner.loop = asyncio.new_event_loop()
            return n + 1, (es, inline, threaded if threaded is not None else "HANG", again if threaded is None or again is not None else "HANG")
        n += 1
        chk.count_case([9, [S(e) for e in es]], len(es) > 0)
        if not (inline == threaded == again == es[::-1]) and bad is None:
            bad = (es, inline, threaded, again)
    return n, bad


# --------------------------------------------------------------------------

def main(tier):
    chk = Check(PROP, tier)
    pr = chk.proofs("Props/C13.v", tables=TABLES)
    okm, logm = build_model("c13", "Extract/ExC13.v", "run_C13", tables=TABLES)
    if not okm:
        chk.violation("tie", "model does not build: " + logm[-400:], {"kind": "model-build"}, {"log": logm[-3000:]}, no_input=True)
        return chk.finish()
    runner = FileRunner()
    rep = Replayer()
    try:
        return _main(chk, pr, runner, rep)
    finally:
        runner.close()
        rep.close()
        shutil.rmtree(SCRATCH_DIR, ignore_errors=True)


def _main(chk, pr, runner, rep):
    dist = {}
    cases, impl_results, oracle_bad = [], [], set()
    metas = []

    # ---- kind 1
    file_cases = load_corpus_file() + gen_file_cases(chk) + gen_torn_cases(chk, runner) + gen_malformed_cases(chk)
    offsets_covered = 0
    for meta, ops_in in file_cases:
        ops, res = with_watchdog(lambda: runner.run(ops_in), 20)
        case = [1, ops]
        i = len(cases)
        cases.append(case)
        impl_results.append(res)
        metas.append(meta)
        dist[meta["gen"]] = dist.get(meta["gen"], 0) + 1
        if meta["gen"] == "every_offset":
            offsets_covered += 1
        nontrivial = any(op[0] == 1 for op in ops) or meta["kind"] == "torn"
        chk.count_case(case, nontrivial)
        bad = oracle_file(meta, ops, res)
        if bad:
            oracle_bad.add(i)
            clause, tags, detail = bad
            chk.violation("oracle", clause + " (" + detail + ")", tags,
                          {"case": sx_norm(case), "meta": meta, "observed": sx_norm(res), "clause": clause,
                           "how": "ops on FileHistory instances sharing one scratch file, see harness/c13.py FileRunner.run; op codes " + repr(FOPS)})
        if i % 499 == 0:
            chk.sample({"family": meta["gen"], "ops": [[FOPS[o[0]]] + [unS(x) if isinstance(x, list) and o[0] == 1 and j == 2 else x for j, x in enumerate(o[1:])] for o in ops][:4],
                        "impl_result": sx_norm(res)[:2]}, limit=8)
    dist["torn_offsets_exhaustive"] = offsets_covered

    # ---- kind 5
    dcases = gen_decode_cases(chk)
    for c in dcases:
        cases.append(c)
        impl_results.append(impl_decode(c))
        metas.append({"kind": "decode", "gen": "utf8_decode"})
        chk.count_case(c, any(b >= 0x80 for b in c[1]))
    dist["utf8_decode"] = len(dcases)

    # ---- kind 2
    scheds, sdist = gen_schedules(chk)
    dist["schedules"] = sdist
    n_conc = 0
    races = 0
    whens = {}
    for s0, labels in scheds:
        if rep.hangs >= 8:
            chk.note("schedule replay stopped after %d hung schedules" % rep.hangs)
            break
        obs, info = with_watchdog(lambda: rep.replay(s0, labels), 60)
        if info["race"]:
            races += 1
            continue
        case = [2, s0, labels]
        i = len(cases)
        cases.append(case)
        impl_results.append(obs)
        metas.append({"kind": "threaded", "gen": "schedule"})
        chk.count_case(case, len(labels) >= 3)
        for w in info["appends"]:
            whens[w] = whens.get(w, 0) + 1
        bad = oracle_threaded(s0, labels, obs, info)
        if bad:
            oracle_bad.add(i)
            clause, tags, detail = bad
            chk.violation("oracle", clause + " (" + detail + "; S0=%r schedule=%s)" % ([unS(x) for x in s0], " ".join(label_name(l) for l in labels)),
                          tags, {"case": sx_norm(case), "observed_last": sx_norm(obs[-1]), "clause": clause, "appends_when": info["appends"],
                                 "how": "ThreadedHistory over a gated in-memory history; labels 1=loader step 2=load() 3=consumer read 4/5=append_string halves; harness/c13.py Replayer.replay"})
        if i % 97 == 0:
            chk.sample({"family": "schedule", "S0": [unS(x) for x in s0], "schedule": " ".join(label_name(l) for l in labels),
                        "yielded": [[unS(x) for x in c[0]] for c in obs[-1][3]] if len(obs[-1]) > 3 else None}, limit=12)
    # ---- kind 6: the same schedules with every read that is followed by loader steps HELD at the end of
    # its lock region while those steps run (what follows the lock region in load() sees the later state)
    nheld = 0
    for s0, labels in scheds:
        if nheld >= (1200 if chk.tier == "thorough" else 120) or rep.hangs >= 8:
            break
        holds = [j for j in range(len(labels) - 1) if labels[j][0] == 3 and labels[j + 1][0] == 1]
        if not holds:
            continue
        mask = [1] * len(labels)
        for j in holds:
            mask[j] = 0
            k = j + 1
            while k + 1 < len(labels) and labels[k + 1][0] == 1:
                mask[k] = 0
                k += 1
        obs, info = with_watchdog(lambda: rep.replay(s0, labels, holds=set(holds)), 60)
        if info["race"]:
            continue
        if not info["hang"] and [o is None for o in obs] != [m == 0 for m in mask]:
            continue        # a read could not be held (load() already over): nothing new in this case
        nheld += 1
        obs_seen = [o for o in obs if o is not None]
        case = [6, s0, labels, mask]
        i = len(cases)
        cases.append(case)
        impl_results.append(obs_seen)
        metas.append({"kind": "threaded", "gen": "schedule_held_reads"})
        chk.count_case(case, True)
        bad = oracle_threaded(s0, labels, obs_seen, info) if obs_seen else None
        if bad:
            oracle_bad.add(i)
            clause, tags, detail = bad
            tags = dict(tags, held_read=True)
            chk.violation("oracle", clause + " (" + detail + "; S0=%r schedule=%s, reads at %r held after their lock region while the following loader steps run)" % (
                [unS(x) for x in s0], " ".join(label_name(l) for l in labels), holds),
                tags, {"case": sx_norm(case), "observed_last": sx_norm(obs_seen[-1]), "clause": clause, "holds": holds,
                       "how": "as kind 2, but ThreadedHistory._lock is a GatedLock: the consumer's executor job is stopped when it leaves the lock region; harness/c13.py Replayer.replay(holds=...)"})
    dist["schedules_with_held_reads"] = nheld

    # ---- kind 7: the loader stopped on entering every single event.set() of its loops
    ev_scheds, evdist = gen_event_schedules(chk)
    dist["event_loop_schedules"] = evdist
    f4_cases = set()
    nev = nin = 0
    for s0, labels in ev_scheds:
        if rep.hangs >= 12:
            chk.note("event-loop replay stopped after %d hung schedules" % rep.hangs)
            break
        obs, info = with_watchdog(lambda: rep.replay(s0, labels, event_gate=True), 60)
        if info["race"]:
            continue
        case = [7, s0, labels]
        i = len(cases)
        cases.append(case)
        impl_results.append(obs)
        metas.append({"kind": "threaded", "gen": "event_loop_schedule"})
        chk.count_case(case, len(labels) >= 3)
        nev += 1
        if info["finish_in_loop"]:
            f4_cases.add(i)
            nin += 1
        bad = oracle_threaded(s0, labels, [o for o in obs if len(o) > 3] or obs, info)
        if bad:
            oracle_bad.add(i)
            clause, tags, detail = bad
            chk.violation("oracle", clause + " (" + detail + "; S0=%r schedule=%s; l = one statement of the loader thread, which is stopped on entering every event.set())" % (
                [unS(x) for x in s0], " ".join(label_name(l) for l in labels)),
                tags, {"case": sx_norm(case), "observed_last": sx_norm(obs[-1]), "clause": clause,
                       "how": "as kind 2 with prompt_toolkit.history's threading.Event replaced by a gated subclass; harness/c13.py Replayer.replay(event_gate=True)"})
    # ---- kind 10: thread-switch granularity (loader stopped after every lock region and before every set();
    # locked read and continuation of a load() as two steps; another instance storing on the same storage)
    fine_scheds, fdist = gen_fine_schedules(chk)
    dist["fine_schedules"] = fdist
    nfine = 0
    hangs0 = rep.hangs
    for s0, labels in fine_scheds:
        if rep.hangs - hangs0 >= 20:
            chk.note("fine replay stopped after %d hung schedules" % (rep.hangs - hangs0))
            break
        obs, info = with_watchdog(lambda: rep.replay(s0, labels, fine=True), 60)
        if info["race"]:
            continue
        case = [10, s0, labels]
        i = len(cases)
        cases.append(case)
        impl_results.append(obs)
        metas.append({"kind": "threaded", "gen": "fine_schedule"})
        chk.count_case(case, len(labels) >= 3)
        nfine += 1
        bad = oracle_threaded(s0, labels, [o for o in obs if len(o) > 3] or obs, info)
        if bad:
            oracle_bad.add(i)
            clause, tags, detail = bad
            chk.violation("oracle", clause + " (" + detail + "; S0=%r schedule=%s; l = one statement of the loader thread (stopped after every lock region and before every event.set()), CRead = the locked executor job of a load(), CCont = its continuation, Other = another instance stores a string on the same storage)" % (
                [unS(x) for x in s0], " ".join(label_name(l) + ("(%s)" % unS(l[1]) if l[0] in (4, 11) else "") for l in labels)),
                tags, {"case": sx_norm(case), "observed_last": sx_norm(obs[-1]), "clause": clause,
                       "how": "ThreadedHistory over a gated, eagerly read in-memory history; harness/c13.py Replayer.replay(fine=True)"})
        if i % 53 == 0:
            chk.sample({"family": "fine_schedule", "S0": [unS(x) for x in s0], "schedule": " ".join(label_name(l) for l in labels),
                        "yielded": [[unS(x) for x in c[0]] for c in obs[-1][3]] if len(obs[-1]) > 3 else None}, limit=20)
    dist["fine_schedules_replayed"] = nfine
    dist["event_loop_schedules_replayed"] = nev
    dist["event_loop_schedules_with_a_finish_inside_a_loop"] = nin
    dist["schedule_appends_when"] = whens
    dist["schedules_skipped_first_read_race"] = races
    if races > max(5, len(scheds) // 10):
        chk.violation("tie", "too many schedules could not be forced (consumer read during start)", {"kind": "replay-race"}, {"n": races}, no_input=True)

    # ---- e2e
    n_e2e, bad = e2e_cases(chk, runner)
    dist["e2e_threaded_filehistory"] = n_e2e
    if bad:
        chk.violation("oracle", "ThreadedHistory(FileHistory) != inline: entries %r inline %r threaded %r second load %r" % bad,
                      {"op": "ThreadedHistory.load", "when": "no_concurrent_append", "clause": "e2e"}, {"entries": bad[0]})

    chk.coverage["input_distribution"] = dist

    def tagger(c, a, m):
        if c[0] == 1:
            for j, (x, y) in enumerate(zip(a, m if isinstance(m, list) else [])):
                if x != y:
                    return {"op": "FileHistory." + FOPS.get(c[1][j][0], "?"), "step": j}
            return {"op": "FileHistory"}
        if c[0] == 5:
            return {"op": "utf8_decode"}
        if c[0] == 6:
            return {"op": "ThreadedHistory.held_read"}
        if c[0] == 7:
            i = case_index.get(id(c))
            if i in f4_cases:
                return {"op": "ThreadedHistory.load", "when": "consumer_finished_inside_event_loop", "clause": "finish"}
            return {"op": "ThreadedHistory.event_loop"}
        for j, (x, y) in enumerate(zip(a, m if isinstance(m, list) else [])):
            if x != y:
                return {"op": "ThreadedHistory." + label_name(c[2][j]), "step": j}
        return {"op": "ThreadedHistory"}

    def describe(c, a, m):
        if c[0] == 1:
            return "ops=%r impl=%r model=%r" % ([[FOPS.get(o[0])] + o[1:] for o in c[1]][:4], a[:3], m[:3] if isinstance(m, list) else m)
        if c[0] == 5:
            return "bytes=%r impl=%r model=%r" % (c[1], a, m)
        return "S0=%r schedule=%s impl_last=%r model_last=%r" % ([unS(x) for x in c[1]], " ".join(label_name(l) for l in c[2]), a[-1:], m[-1:] if isinstance(m, list) else m)

    case_index = {id(c): i for i, c in enumerate(cases)}
    model_results, nbad = correspondence(chk, "c13", cases, impl_results, tagger, describe=describe,
                                         oracle_failed=lambda i: i in oracle_bad)

    # extraction/driver cross-check inside Coq on a sample of small cases
    small = [i for i, c in enumerate(cases) if len(json.dumps(sx_norm(c))) + len(json.dumps(sx_norm(impl_results[i]))) < 4000]
    k = 600 if chk.tier == "thorough" else 160
    idx = sorted(chk.rng.sample(small, min(k, len(small))))
    pairs = [(cases[i], impl_results[i]) for i in idx]
    bad, logs = vm_crosscheck(PROP, "run_C13", "Model.C13_Run", pairs, per_file=80)
    chk.coverage["vm_compute_crosschecked"] = len(pairs)
    model_bad = set(i for i, (a, m) in enumerate(zip(impl_results, model_results)) if sx_norm(a) != m)
    vm_bad = set(idx[b] for b in bad if isinstance(b, int))
    if any(not isinstance(b, int) for b in bad):
        chk.violation("tie", "vm_compute cross-check failed to run: " + (logs[0] if logs else ""), {"kind": "vm"}, {"log": logs}, no_input=True)
    if vm_bad != (model_bad & set(idx)):
        chk.violation("tie", "extracted model and in-Coq evaluation disagree on cases %r" % sorted(vm_bad ^ (model_bad & set(idx)))[:5],
                      {"kind": "extraction"}, {"cases": [cases[i] for i in sorted(vm_bad ^ (model_bad & set(idx)))[:5]]}, no_input=True)

    proof_gate(chk, pr)
    chk.coverage["exhaustive"] = False
    chk.coverage["rule"] = (
        "kind 1: operation sequences on 3 real FileHistory instances sharing a scratch file under /var/tmp (append via instance i, fresh load, cut to n bytes, "
        "inline load(), get_strings, foreign bytes), timestamps read back from the file; exhaustive single entries of length <= %d over %r and pairs; random "
        "multi-instance sequences over a %d-symbol adversarial alphabet; EVERY byte offset of %d real files (<= 420 bytes) as cut point followed by more appends; "
        "malformed stream (invalid UTF-8, lone surrogates, negative cuts). kind 5: CPython's utf-8/replace decoder vs the decoder model (all single bytes, lead x "
        "second byte grid, 3/4-byte boundary grid, random). kind 2: schedules enumerated by the Coq model (all forceable interleavings to the given depth, or a "
        "random sample of them) and model-guided random walks, forced on a real ThreadedHistory over a gated inner history, state observed after every step. "
        "kind 10: the same at thread-switch granularity (Model/C13_ThreadedFine.v): loader stopped after every lock region and before every set(), locked read / continuation of a load() as two steps, "
        "another instance storing on the same (eagerly read) storage; exhaustive family of <= 2 own x <= 2 foreign appends before the first load() x early read x foreign store in the window/after/none, model-enumerated schedules, walks. "
        "non-trivial: kind 1 contains an append or is a torn case; kind 5 contains a byte >= 0x80; kind 2 has >= 3 steps; distinct by hash of the whole case"
        % (3 if chk.tier == "thorough" else 2, SMALL, len(set(ALPHA)), sum(1 for m in metas if m.get("gen") == "every_offset" and m.get("n") == 0)))
    chk.assumptions += [
        "a crash during a write is DEFINED as truncation of the file's byte sequence; OS-level durability (no fsync, O_APPEND atomicity across processes) is outside the model",
        "CPython's UTF-8 decoder with errors='replace' is C code outside /repo: the Coq decoder (Model/C13_Utf8.v utf8_dec) is a model of it, tied by the kind-5 correspondence and by every torn-file case; the theorems hold for that model",
        "the timestamp is any byte string without line feed (datetime.now() formatting is outside the model)",
        "ThreadedHistory: lock regions are atomic steps; the loader's unlocked `for event in ...: event.set()` loops are one step in Model/C13_Threaded.v (kinds 2/6) and single set() calls in Model/C13_ThreadedEv.v (kind 7; the loop runs over a COPY of the list since commit 8f41d2f); a consumer unregisters atomically with its last read in those two models; Model/C13_ThreadedFine.v (kind 10) has every loader statement incl. the copy after the lock region, the locked read and its continuation, and another instance's stores as separate steps; the first load()'s reset/thread start/registration is one step everywhere; threading.Lock/Event, run_in_executor and list operations under the GIL are trusted; the model lets a consumer read at any time (superset of real schedules)",
        "load() and append_string both run on the event-loop thread: schedules in which a load() starts between the two halves of an append_string are not forced (and are outside the theorem's hypothesis ok_sched)",
    ]
    return chk.finish()


def load_corpus_file():
    out = []
    for c in load_corpus(PROP):
        if c and c[0] == 1:
            out.append(({"kind": "malformed", "gen": "corpus"}, [[o[0], o[1], None, o[3]] if o[0] == 1 else o for o in c[1]]))
    return out


def replay(data):
    repd = data["replay"]
    case = repd.get("case")
    if not case:
        print(json.dumps(repd, indent=1)[:3000])
        return 0
    rc = 0
    if case[0] == 1:
        runner = FileRunner()
        try:
            ops_in = [[o[0], o[1], None, o[3]] if o[0] == 1 else o for o in case[1]]
            ops, res = runner.run(ops_in)
            for o, r in zip(ops, res):
                print("%s%r -> %r" % (FOPS[o[0]], [unS(x) if (o[0] == 1 and j == 2) else x for j, x in enumerate(o[1:])],
                                      [unS(x) for x in r] if o[0] in (2, 4, 5) and not is_err(r) else r))
            meta = repd.get("meta")
            if meta:
                bad = oracle_file(meta, ops, res)
                print("ORACLE FAILS: %s (%s)" % (bad[0], bad[2]) if bad else "oracle ok")
                rc = 1 if bad else 0
            m = run_model("c13", [[1, ops]])[0]
            print("model agrees" if m == sx_norm(res) else "model differs: %r" % (m,))
        finally:
            runner.close()
            shutil.rmtree(SCRATCH_DIR, ignore_errors=True)
    elif case[0] == 2:
        rep = Replayer()
        try:
            obs, info = rep.replay(case[1], case[2])
            print("S0=%r schedule=%s" % ([unS(x) for x in case[1]], " ".join(label_name(l) for l in case[2])))
            for l, o in zip(case[2], obs):
                if len(o) > 3:
                    print("  %-9s cache=%r loaded=%r yielded=%r" % (label_name(l), [unS(x) for x in o[1]], o[2], [[unS(x) for x in c[0]] for c in o[3]]))
            bad = oracle_threaded(case[1], case[2], obs, info)
            print("ORACLE FAILS: %s (%s) tags=%r" % (bad[0], bad[2], bad[1]) if bad else "oracle ok")
            rc = 1 if bad else 0
            m = run_model("c13", [case])[0]
            print("model agrees" if m == sx_norm(obs) else "model differs")
        finally:
            rep.close()
    elif case[0] == 10:
        rep = Replayer()
        try:
            obs, info = rep.replay(case[1], case[2], fine=True)
            print("S0=%r schedule=%s   (l = one loader statement; CRead = locked read, CCont = its continuation; Other = another instance stores)" % (
                [unS(x) for x in case[1]], " ".join(label_name(l) + ("(%s)" % unS(l[1]) if l[0] in (4, 11) else "") for l in case[2])))
            for l, o in zip(case[2], obs):
                if len(o) > 3:
                    print("  %-7s storage=%r cache=%r loaded=%r yielded=%r events=%r" % (label_name(l), [unS(x) for x in o[0]], [unS(x) for x in o[1]], o[2], [[unS(x) for x in c[0]] for c in o[3]], o[4]))
            bad = oracle_threaded(case[1], case[2], [o for o in obs if len(o) > 3] or obs, info)
            print("ORACLE FAILS: %s (%s) tags=%r" % (bad[0], bad[2], bad[1]) if bad else "oracle ok")
            rc = 1 if bad else 0
            m = run_model("c13", [case])[0]
            print("model agrees" if m == sx_norm(obs) else "model differs")
        finally:
            rep.close()
    elif case[0] == 7:
        rep = Replayer()
        try:
            obs, info = rep.replay(case[1], case[2], event_gate=True)
            print("S0=%r schedule=%s   (l = one loader statement; the loader stops on entering every event.set())" % (
                [unS(x) for x in case[1]], " ".join(label_name(l) for l in case[2])))
            for l, o in zip(case[2], obs):
                if len(o) > 3:
                    print("  %-7s cache=%r loaded=%r yielded=%r events=%r" % (label_name(l), [unS(x) for x in o[1]], o[2], [[unS(x) for x in c[0]] for c in o[3]], o[4]))
            print("after the schedule the loader was let run to its end: unfinished load() left = %r" % info["unfinished"])
            bad = oracle_threaded(case[1], case[2], [o for o in obs if len(o) > 3] or obs, info)
            print("ORACLE FAILS: %s (%s) tags=%r" % (bad[0], bad[2], bad[1]) if bad else "oracle ok")
            rc = 1 if bad else 0
            m = run_model("c13", [case])[0]
            print("model (patched code) agrees" if m == sx_norm(obs) else "model (patched code) differs")
        finally:
            rep.close()
    elif case[0] == 6:
        rep = Replayer()
        try:
            holds = set(j for j in range(len(case[2]) - 1) if case[3][j] == 0 and case[2][j][0] == 3)
            obs, info = rep.replay(case[1], case[2], holds=holds)
            print("S0=%r schedule=%s held reads at %r" % ([unS(x) for x in case[1]], " ".join(label_name(l) for l in case[2]), sorted(holds)))
            seen = [o for o in obs if o is not None]
            for l, o in zip(case[2], obs):
                print("  %-9s %s" % (label_name(l), "(held)" if o is None else "cache=%r loaded=%r yielded=%r" % ([unS(x) for x in o[1]], o[2], [[unS(x) for x in c[0]] for c in o[3]]) if len(o) > 3 else o))
            bad = oracle_threaded(case[1], case[2], seen, info) if seen else None
            print("ORACLE FAILS: %s (%s) tags=%r" % (bad[0], bad[2], bad[1]) if bad else "oracle ok")
            rc = 1 if bad else 0
            m = run_model("c13", [case])[0]
            print("model agrees" if m == sx_norm(seen) else "model differs")
        finally:
            rep.close()
    elif case[0] == 5:
        a = impl_decode(case)
        m = run_model("c13", [case])[0]
        print("bytes %r -> impl %r model %r" % (case[1], a, m))
        rc = 0 if a == m else 1
    return rc
