#!/usr/bin/env python3
"""Regenerate the generated sections of DESIGN.md (between <!-- BEGIN:x --> / <!-- END:x --> markers):
findings (from known_findings.json), seeded (from seeded/*/meta.json), status (from evidence + manifest)."""
import glob, json, os, re, subprocess
V = os.path.dirname(os.path.dirname(os.path.abspath(__file__)))


def findings():
    d = json.load(open(os.path.join(V, "known_findings.json")))
    out = ["### 5.2 Genuine defects repaired in /repo (`fix:` commits; entries suppress nothing)", "",
           "| property | commit | what failed |", "|---|---|---|"]
    for s in d["fixed"]:
        m = re.match(r"fixed: property=(C\d+) (\w+) (.*)", s, re.S)
        if m:
            out.append("| %s | `%s` | %s |" % (m.group(1), m.group(2), m.group(3).replace("|", "/").replace("\n", " ")[:330]))
    out += ["", "### 5.3 Known findings (genuine defects recorded, not repaired; matched by tags, reported as KNOWN-FINDING)", ""]
    by = {}
    for f in d["findings"]:
        by.setdefault(f["property"], []).append(f)
    out += ["| id | property | matcher (tags) | what fails |", "|---|---|---|---|"]
    for p in sorted(by):
        fs = by[p]
        if len(fs) > 8:
            fams = sorted(set(str(f.get("match", {}).get("family", "")) for f in fs))
            out.append("| %s (%d entries) | %s | `{family, opgroup}` pairs; families: %s | %s |" % (
                fs[0]["id"].rsplit("-", 1)[0] + "-*", len(fs), p, ", ".join(fams)[:400],
                "operators applied to motions that fail or span nothing and are still not no-ops after the fixes (inclusive motions e/E/ge/gE/g_, j/k at the buffer boundary, line operators > < gq on a failed motion); one entry per (precondition family, operator group) so that a new family is still reported. Example: " + fs[0]["what"].replace("|", "/")[:200]))
            continue
        for f in fs:
            out.append("| %s | %s | `%s` | %s |" % (f["id"], p, json.dumps(f.get("match", {}))[:160].replace("|", "/"),
                                                  f["what"].replace("|", "/").replace("\n", " ")[:330]))
    return "\n".join(out)


def seeded():
    p = subprocess.run(["python3", os.path.join(V, "seeded", "mktable.py")], capture_output=True, text=True)
    return p.stdout.strip()


def status():
    man = json.load(open(os.path.join(V, "MANIFEST.json")))
    out = ["| property | theorems in Props | obligations (closure) | axioms | quick evaluations | known findings | seeded caught |",
           "|---|---|---|---|---|---|---|"]
    kf = json.load(open(os.path.join(V, "known_findings.json")))
    for c in man["checks"]:
        pid = c["property_id"]
        try:
            e = json.load(open(os.path.join(V, "evidence", pid + ".json")))
            cov = e["coverage"]
        except Exception:
            continue
        pa = cov.get("print_assumptions", {})
        closed = sum(1 for v in pa.values() if str(v).startswith("Closed"))
        ax = ", ".join(cov.get("axioms_used", [])) or "none"
        nk = sum(1 for f in kf["findings"] if f["property"] == pid)
        sd = glob.glob(os.path.join(V, "seeded", pid + "-*"))
        caught = 0
        for d in sd:
            try:
                caught += 1 if json.load(open(os.path.join(d, "meta.json"))).get("caught", True) else 0
            except Exception:
                pass
        out.append("| %s | %d (%d closed under the global context) | %s/%s | %s | %s (%s) | %d | %d/%d |" % (
            pid, len(pa), closed, cov.get("discharged"), cov.get("obligations"), ax, cov.get("evaluations"), e.get("tier"), nk, caught, len(sd)))
    return "\n".join(out)


def main():
    path = os.path.join(V, "DESIGN.md")
    s = open(path).read()
    for name, fn in (("findings", findings), ("seeded", seeded), ("status", status)):
        b, e = "<!-- BEGIN:%s -->" % name, "<!-- END:%s -->" % name
        if b in s and e in s:
            i, j = s.index(b) + len(b), s.index(e)
            s = s[:i] + "\n" + fn() + "\n" + s[j:]
    open(path, "w").write(s)
    print("DESIGN.md regenerated sections")


main()
