"""C05 - driver for the real line editor: a PromptSession on a pipe input and a
DummyOutput, keys delivered one by one through app.key_processor, the state
observed after every key.  Nothing here calls the Coq model.

A *case* is (config, keys):
  config = dict(mode 'vi'|'emacs', multiline, read_only, text, cursor,
                history [str], clipboard str, completer bool)
  keys   = list of key tokens: a one-character string (printable), or
           '<name>' for a Keys member (value, e.g. '<escape>', '<c-a>'),
           '<paste:TEXT>' for a bracketed paste, '<flush>' for the key
           processor's timeout flush.
"""
import asyncio
import logging

from common import with_watchdog, Hang  # noqa

logging.getLogger("asyncio").setLevel(logging.CRITICAL)


class _Abort(Exception):
    pass


class _Eof(Exception):
    pass


_REV = None


def raw_data_for(key):
    """The byte sequence a VT100 terminal sends for this key (what a handler
    sees as event.data)."""
    global _REV
    from prompt_toolkit.input.ansi_escape_sequences import ANSI_SEQUENCES
    if _REV is None:
        _REV = {}
        for seq, k in ANSI_SEQUENCES.items():
            if not isinstance(k, tuple) and (k not in _REV or len(seq) < len(_REV[k])):
                _REV[k] = seq
    return _REV.get(key, key.value)


def token_to_keypress(tok):
    from prompt_toolkit.key_binding.key_processor import KeyPress, _Flush
    from prompt_toolkit.keys import Keys
    if tok == "<flush>":
        return _Flush
    if len(tok) > 2 and tok[0] == "<" and tok[-1] == ">":
        name = tok[1:-1]
        if name.startswith("paste:"):
            return KeyPress(Keys.BracketedPaste, name[6:])
        if name == "cpr":
            return KeyPress(Keys.CPRResponse, "\x1b[5;3R")
        from prompt_toolkit.keys import KEY_ALIASES
        k = Keys(KEY_ALIASES.get(name, name))
        return KeyPress(k, raw_data_for(k))
    assert len(tok) == 1, tok
    return KeyPress(tok, tok)


def keypress_code(kp):
    from prompt_toolkit.keys import Keys
    if isinstance(kp.key, Keys):
        return 2000000 + _KEYS_INDEX()[kp.key]
    return ord(kp.key)


_KI = None


def _KEYS_INDEX():
    global _KI
    if _KI is None:
        from prompt_toolkit.keys import Keys
        _KI = {k: i for i, k in enumerate(Keys)}
    return _KI


def event_arg(arg):
    """KeyPressEvent.arg"""
    if arg == "-":
        return -1
    # as the code since fix 7b1fd9f: significant digits only, more than seven are not converted
    arg = arg or "1"
    neg = arg.startswith("-")
    digits = arg.lstrip("-").lstrip("0") or "0"
    if len(digits) > 7:
        return -1 if neg else 1
    r = -int(digits) if neg else int(digits)
    return 1 if r >= 1000000 else r


_P = "key_binding.bindings."
MODELLED = {
    _P + "vi.load_vi_bindings.<locals>._back_to_navigation": 1,
    _P + "search.accept_search": 2,
    _P + "named_commands.beginning_of_line": 3, _P + "named_commands.end_of_line": 4,
    _P + "named_commands.forward_char": 5, _P + "named_commands.backward_char": 6,
    _P + "named_commands.self_insert": 7, _P + "named_commands.delete_char": 8,
    _P + "named_commands.backward_delete_char": 9,
    _P + "vi.load_vi_bindings.<locals>._i": 10, _P + "vi.load_vi_bindings.<locals>._a": 11,
    _P + "vi.load_vi_bindings.<locals>._A": 12, _P + "vi.load_vi_bindings.<locals>._I": 13,
    _P + "vi.load_vi_bindings.<locals>._insert_mode": 14, _P + "vi.load_vi_bindings.<locals>._navigation_mode": 15,
    _P + "vi.load_vi_bindings.<locals>._go_left": 16, _P + "vi.load_vi_bindings.<locals>._replace_single": 17,
    _P + "vi.load_vi_bindings.<locals>._insert_text": 18, _P + "vi.load_vi_bindings.<locals>._digraph": 19,
    _P + "vi.load_vi_bindings.<locals>._quick_normal_mode": 20,
    _P + "vi.load_vi_bindings.<locals>._insert_text_multiple_cursors": 21,
    _P + "vi.load_vi_bindings.<locals>._delete_before_multiple_cursors": 22,
    _P + "vi.load_vi_bindings.<locals>._delete_after_multiple_cursors": 23,
    _P + "vi.load_vi_bindings.<locals>._left_multiple": 24, _P + "vi.load_vi_bindings.<locals>._right_multiple": 25,
    _P + "basic.load_basic_bindings.<locals>._ignore": 27,
    _P + "vi.load_vi_bindings.<locals>._up_in_selection": 28, _P + "vi.load_vi_bindings.<locals>._down_in_selection": 29,
    _P + "vi.load_vi_bindings.<locals>._up_in_navigation": 30, _P + "vi.load_vi_bindings.<locals>._go_up": 31,
    _P + "vi.load_vi_bindings.<locals>._go_down": 32, _P + "vi.load_vi_bindings.<locals>._go_down2": 33,
    _P + "named_commands.previous_history": 34, _P + "named_commands.next_history": 35,
    _P + "basic.load_basic_bindings.<locals>._go_up": 36, _P + "basic.load_basic_bindings.<locals>._go_down": 37,
    # entering insert-multiple mode (Model/C05_BlockInsert.v, case kind 7)
    _P + "vi.load_vi_bindings.<locals>.insert_in_block_selection": 39,
    _P + "vi.load_vi_bindings.<locals>._append_after_block": 40,
}
_OPNAV = _P + "vi.create_operator_decorator.<locals>.operator_decorator.<locals>.decorator.<locals>._operator_in_navigation"


def model_handler_id(name):
    if name in MODELLED:
        return MODELLED[name]
    if name.startswith(_OPNAV):
        return 26
    return None


def all_atoms(bindings):
    """Distinct Condition atoms of the registry, in order of first appearance
    (filter trees first, then eager trees)."""
    from prompt_toolkit.filters.base import _AndList, _OrList, _Invert, Condition
    seen, out = set(), []

    def walk(f):
        if isinstance(f, (_AndList, _OrList)):
            for x in f.filters:
                walk(x)
        elif isinstance(f, _Invert):
            walk(f.filter)
        elif isinstance(f, Condition):
            if id(f) not in seen:
                seen.add(id(f))
                out.append(f)
    for b in bindings:
        walk(b.filter)
        walk(b.eager)
    return out


def atom_name(c):
    return c.func.__module__.replace("prompt_toolkit.", "") + "." + c.func.__qualname__


class Session:
    """One live prompt.  Use inside `async with`-like protocol: start(), key(), finish()."""

    def __init__(self, cfg):
        self.cfg = cfg
        self.loop_errors = []

    async def start(self):
        from prompt_toolkit import PromptSession
        from prompt_toolkit.application.current import create_app_session
        from prompt_toolkit.completion import WordCompleter
        from prompt_toolkit.document import Document
        from prompt_toolkit.enums import EditingMode
        from prompt_toolkit.filters import to_filter
        from prompt_toolkit.history import InMemoryHistory
        from prompt_toolkit.input import create_pipe_input
        from prompt_toolkit.output import DummyOutput
        cfg = self.cfg
        self._pipe_cm = create_pipe_input()
        self.inp = self._pipe_cm.__enter__()
        self._sess_cm = create_app_session(input=self.inp, output=DummyOutput())
        self._sess_cm.__enter__()
        hist = InMemoryHistory(list(cfg.get("history", [])))
        kw = {}
        self.gate = None
        if cfg.get("completer") == "gated":
            # a slow asynchronous completer: answers only after the driver releases the gate
            from prompt_toolkit.completion import Completer, Completion
            self.gate = asyncio.Event()
            gate = self.gate

            class Gated(Completer):
                def get_completions(self, document, complete_event):
                    return iter(())

                async def get_completions_async(self, document, complete_event):
                    await gate.wait()
                    w = document.get_word_before_cursor()
                    for c in ["alpha", "alpine", "beta", "界面"]:
                        if c.startswith(w):
                            yield Completion(c, -len(w))
            kw["completer"] = Gated()
            kw["complete_while_typing"] = bool(cfg.get("complete_while_typing"))
        elif cfg.get("completer"):
            kw["completer"] = WordCompleter(["alpha", "alpine", "beta", "界面"])
            kw["complete_while_typing"] = bool(cfg.get("complete_while_typing"))
        s = PromptSession(editing_mode=EditingMode.VI if cfg["mode"] == "vi" else EditingMode.EMACS,
                          multiline=bool(cfg.get("multiline")), history=hist,
                          interrupt_exception=_Abort, eof_exception=_Eof, **kw)
        self.session = s
        self.app = s.app
        if cfg.get("read_only"):
            s.default_buffer.read_only = to_filter(True)
        if cfg.get("clipboard") is not None:
            cb = cfg["clipboard"]
            if isinstance(cb, str):
                s.app.clipboard.set_text(cb)
            else:
                from prompt_toolkit.clipboard import ClipboardData
                from prompt_toolkit.selection import SelectionType
                s.app.clipboard.set_data(ClipboardData(cb[0], SelectionType[cb[1]]))
        loop = asyncio.get_running_loop()
        self._old_handler = loop.get_exception_handler()
        loop.set_exception_handler(lambda lp, ctx: self.loop_errors.append(
            type(ctx.get("exception")).__name__ if ctx.get("exception") else ctx.get("message", "?")))
        text, cur = cfg.get("text", ""), cfg.get("cursor", None)
        self.task = asyncio.ensure_future(s.prompt_async("> ", default=Document(text, len(text) if cur is None else cur)))
        for _ in range(6):          # application starts, first render, history load
            await asyncio.sleep(0)
        # remember the buffer text at the moment the application is told to exit
        self.text_at_exit = None
        orig_exit = s.app.exit

        def exit_(*a, **kw):
            if self.text_at_exit is None:
                try:
                    self.text_at_exit = s.default_buffer.text
                except Exception:  # noqa
                    self.text_at_exit = "<unreadable>"
            return orig_exit(*a, **kw)
        s.app.exit = exit_
        self.flush_len = None
        self.escape_calls = []
        proc = s.app.key_processor
        orig_call = proc._call_handler

        def watch_escape(handler, key_sequence):
            from prompt_toolkit.keys import Keys
            is_esc = bool(key_sequence) and key_sequence[-1].key == Keys.Escape
            pre = None
            if is_esc:
                try:
                    pre = self.observe()
                    pre["kbuf"] = len(key_sequence) - 1      # keys that were pending in front of Escape
                except Exception:  # noqa
                    pre = None
            try:
                return orig_call(handler, key_sequence)
            finally:
                if pre is not None:
                    try:
                        post = self.observe()
                        post["kbuf"] = 0
                        self.escape_calls.append((pre, post, getattr(handler.handler, "__qualname__", "?")))
                    except Exception:  # noqa
                        pass
        proc._call_handler = watch_escape
        return self

    def render_now(self):
        """Force the render the application would do after this key (Application._redraw, synchronously, so
        that an exception of the layout / processors / menus code is collected at the key that causes it)."""
        from prompt_toolkit.application.current import set_app
        try:
            with set_app(self.app):
                self.app._redraw()
            return None
        except Exception as e:  # noqa
            import traceback
            tb = traceback.extract_tb(e.__traceback__)
            fr = tb[-1]
            return "%s@%s:%s" % (type(e).__name__, fr.filename.split("prompt_toolkit/")[-1], fr.name)

    # -- instrumentation of KeyProcessor._call_handler --------------------
    def instrument(self, ref_sig, records):
        """Record, for every handler call: the atom valuation, the key buffer,
        the chosen table row; and, for modelled handlers, state before/after.
        `ref_sig` is the structural signature of the regenerated table; the
        live registry must equal it."""
        import c05_table
        app = self.app
        proc = app.key_processor
        self.records = records
        self.calls_this_key = 0
        self._idmap = {}
        self._atoms = None

        def refresh():
            t = c05_table.table_of(app)
            sig = [(b["keys"], b["filter"], b["eager"], b["handler"]) for b in t["bindings"]]
            if sig != ref_sig:
                records["registry_mismatch"] = records.get("registry_mismatch", 0) + 1
            reg = c05_table.registry_of(app)
            self._idmap = {id(b): i for i, b in enumerate(reg)}
            self._reg = reg
            self._names = [b["handler"] for b in t["bindings"]]
            self._atoms = t["atom_objs"]
        refresh()
        self._refresh = refresh
        orig = proc._call_handler

        def wrapper(handler, key_sequence):
            self.calls_this_key += 1
            if id(handler) not in self._idmap:
                refresh()
            idx = self._idmap.get(id(handler), -1)
            bits = self.valuation()
            kb = [keypress_code(k) for k in proc.key_buffer]
            flush = 1 if (self.flush_len is not None and len(proc.key_buffer) == self.flush_len) else 0
            self.flush_len = None
            records["dispatch"].append((bits, kb, flush, [0, idx, len(key_sequence)]))
            name = self._names[idx] if idx >= 0 else "?"
            self.last_handler = name
            hid = model_handler_id(name)
            if hid == 26 and proc.arg is not None:
                hid = 38            # HViOperatorInNav with event.arg_present
            pre = None
            if hid is not None:
                pre = self.model_state()
                arg = event_arg(proc.arg)
                data = key_sequence[-1].data
                if arg is None:
                    pre = "skip"
            exc = None
            try:
                return orig(handler, key_sequence)
            except BaseException as e:  # noqa
                exc = e
                raise
            finally:
                if pre is not None and pre != "skip":
                    post = self.model_state()
                    if post != "skip":
                        code = 0
                        if exc is not None:
                            code = {"AssertionError": 1, "IndexError": 2}.get(type(exc).__name__, 99)
                        records["handler"].append((hid, pre, arg, data, code, post, name))
        proc._call_handler = wrapper

    def valuation(self):
        from prompt_toolkit.application.current import set_app
        with set_app(self.app):
            out = []
            for a in self._atoms:
                try:
                    out.append(1 if a() else 0)
                except Exception:  # noqa - e.g. a filter reading an unreadable buffer
                    out.append(0)
            return out

    def model_state(self):
        try:
            return self._model_state()
        except Exception:  # noqa - unreadable state: the oracle reports it, nothing to replay on the model
            return "skip"

    def _model_state(self):
        """The state in the wire format of Model/C05_Run.v, or 'skip' when the
        live state is outside the model's assumptions."""
        app = self.app
        b = app.current_buffer
        if b.complete_state is not None or b.enable_history_search():
            return "skip"
        if len(b.text) > 400 or sum(len(l) for l in b._working_lines) > 1200:
            return "skip"       # keeps the replay on the model cheap; the oracle still sees these states
        vs = app.vi_state
        sel = b.selection_state
        modes = {"vi-insert": 0, "vi-insert-multiple": 1, "vi-navigation": 2, "vi-replace": 3, "vi-replace-single": 4}
        types_ = {"CHARACTERS": 0, "LINES": 1, "BLOCK": 2}
        return [b.text, b.cursor_position,
                [] if sel is None else [sel.original_cursor_position, types_[sel.type.value]],
                list(b.multiple_cursor_positions), 1 if b.read_only() else 0,
                [] if b.preferred_column is None else [b.preferred_column],
                [l for l in b._working_lines], b.working_index,
                1 if app.editing_mode.value == "VI" else 0, modes[vs.input_mode.value],
                1 if vs.operator_func is not None else 0,
                [] if vs.operator_arg is None else [vs.operator_arg],
                1 if vs.waiting_for_digraph else 0, 1 if vs.temporary_navigation_mode else 0]

    # -- observation ---------------------------------------------------
    def observe(self):
        app = self.app
        b = app.current_buffer
        d = self.session.default_buffer
        vs = app.vi_state
        sel = b.selection_state
        others = []
        if getattr(self, "_all_buffers", None) is None:
            # the layout of a prompt is static: collect its buffers once per session
            from prompt_toolkit.layout.controls import BufferControl
            self._all_buffers = []
            for c in app.layout.find_all_controls():
                if isinstance(c, BufferControl) and all(c.buffer is not x for x in self._all_buffers):
                    self._all_buffers.append(c.buffer)
        # the editor's cursor: the focused buffer and the prompt's main buffer (the search / system line
        # buffers are not "the editor's cursor" of the property text when they are not focused)
        for ob in self._all_buffers:
            if ob is not b and ob is d:
                others.append((ob.name, ob.text, ob.cursor_position, ob.selection_state is not None))
        return {
            "others": others,
            "buf": b.name, "text": b.text, "cur": b.cursor_position,
            "sel": None if sel is None else [sel.original_cursor_position, sel.type.value],
            "mc": list(b.multiple_cursor_positions),
            "dtext": d.text, "dcur": d.cursor_position,
            "mode": vs.input_mode.value, "op": vs.operator_func is not None, "oparg": vs.operator_arg,
            "digraph": bool(vs.waiting_for_digraph), "tempnav": bool(vs.temporary_navigation_mode),
            "rec": vs.recording_register, "quoted": bool(app.quoted_insert),
            "arg": (lambda a: a if a is None or len(a) <= 24 else a[:24] + "...(%d)" % len(a))(app.key_processor.arg),
            "argdigits": len((app.key_processor.arg or "").lstrip("-")), "kbuf": len(app.key_processor.key_buffer),
            "done": bool(app.is_done), "ro": bool(b.read_only()),
            "editing": app.editing_mode.value,
        }

    def key(self, tok, seconds=5):
        """Deliver one key synchronously.  Returns None or the name of the
        exception that escaped process_keys()."""
        from prompt_toolkit.application.current import set_app
        kp = token_to_keypress(tok)
        proc = self.app.key_processor
        rec = getattr(self, "records", None)
        self.calls_this_key = 0
        self.last_handler = None
        if tok == "<flush>":
            self.flush_len = len(proc.key_buffer)
        else:
            self.flush_len = None
        if rec is not None and tok != "<flush>":
            bits0 = self.valuation()
            kb0 = [keypress_code(k) for k in proc.key_buffer]

        def go():
            with set_app(self.app):
                proc.feed(kp)
                proc.process_keys()
        try:
            with_watchdog(go, seconds)
        except Hang:
            # leave no runaway input behind (a recursive macro refills the queue for ever)
            try:
                proc.reset()
                proc.input_queue.clear()
                if proc._flush_wait_task:
                    proc._flush_wait_task.cancel()
            except BaseException:  # noqa
                pass
            return "Hang"
        except (KeyboardInterrupt, SystemExit):
            raise
        except BaseException as e:  # noqa
            import traceback
            tb = traceback.extract_tb(e.__traceback__)
            where = ""
            for fr in reversed(tb):
                if "prompt_toolkit" in fr.filename:
                    where = "%s:%s" % (fr.filename.split("prompt_toolkit/")[-1], fr.name)
                    break
            via = ""
            for fr in reversed(tb):         # the key handler the exception came through
                if "key_binding/bindings/" in fr.filename or fr.filename.endswith("shortcuts/prompt.py"):
                    via = "<%s:%s" % (fr.filename.split("/")[-1], fr.name)
                    break
            return "%s@%s%s" % (type(e).__name__, where, via)
        if rec is not None and tok != "<flush>" and self.calls_this_key == 0 and not self.app.is_done \
                and len(proc.key_buffer) == len(kb0) + 1:
            rec["dispatch"].append((bits0, kb0 + [keypress_code(kp)], 0, [1]))      # Wait
        return None

    async def finish(self):
        """Returns ('accept', value) | ('abort',) | ('eof',) | ('open',) | ('error', name)."""
        app = self.app
        for _ in range(3):
            await asyncio.sleep(0)
        out = ("open",)
        try:
            if not app.is_done:
                if app.is_running:
                    app.exit(exception=_Eof())
                    try:
                        await asyncio.wait_for(self.task, 8)
                    except _Eof:
                        pass
                    except BaseException as e:  # noqa
                        out = ("error", type(e).__name__)
            else:
                try:
                    v = await asyncio.wait_for(self.task, 8)
                    out = ("accept", v)
                except _Abort:
                    out = ("abort",)
                except _Eof:
                    out = ("eof",)
                except BaseException as e:  # noqa
                    out = ("error", type(e).__name__)
        finally:
            if not self.task.done():
                self.task.cancel()
                try:
                    await self.task
                except BaseException:  # noqa
                    pass
            asyncio.get_running_loop().set_exception_handler(self._old_handler)
            self._sess_cm.__exit__(None, None, None)
            self._pipe_cm.__exit__(None, None, None)
        return out


# --------------------------------------------------------------------------
# Oracle: the property text, clause by clause, on the observed states.

def oracle_state(o):
    """Clauses that must hold in every state at rest.  Returns [(clause, tag)]."""
    bad = []
    n = len(o["text"])
    if not (0 <= o["cur"] <= n):
        bad.append(("cursor %d outside 0..%d" % (o["cur"], n), "cursor-range"))
    if not (0 <= o["dcur"] <= len(o["dtext"])):
        bad.append(("default-buffer cursor %d outside 0..%d" % (o["dcur"], len(o["dtext"])), "cursor-range"))
    if o["sel"] is not None and not (0 <= o["sel"][0] <= n):
        bad.append(("selection anchor %d outside 0..%d" % (o["sel"][0], n), "anchor-range"))
    # multiple cursors exist (are displayed and edited) only in Vi insert-multiple mode
    if o["editing"] == "VI" and o["mode"] == "vi-insert-multiple":
        if any(not (0 <= p <= n) for p in o["mc"]):
            bad.append(("multiple-cursor positions %r outside 0..%d" % (o["mc"], n), "multicursor-range"))
    # Vi navigation mode, at rest: not past the last character of a non-empty line,
    # in the focused buffer and in every other buffer of the layout
    if (o["editing"] == "VI" and o["mode"] == "vi-navigation" and not o["op"] and not o["digraph"]
            and o["kbuf"] == 0 and not o["done"]):
        cands = [(o["buf"], o["text"], o["cur"], o["sel"] is not None)] + list(o.get("others", []))
        for name, t, c, has_sel in cands:
            if has_sel or not (0 <= c <= len(t)):
                continue
            line_start = t.rfind("\n", 0, c) + 1
            line_end = t.find("\n", c)
            line_end = len(t) if line_end < 0 else line_end
            if line_end > line_start and c == line_end:
                bad.append(("Vi navigation mode: cursor %d of buffer %s rests past the last character of the non-empty line %r"
                            % (c, name, t[line_start:line_end]), "vi-nav-cursor"))
    return bad


def oracle_escape(before, after):
    """Escape outside a quoted insert, Vi mode: navigation mode, nothing pending."""
    if before["editing"] != "VI" or before["quoted"] or after["done"] or before["done"]:
        return []
    if after["kbuf"]:       # Escape still waits in the key buffer (prefix of a longer binding): not dispatched yet
        return []
    bad = []
    if after["mode"] != "vi-navigation":
        bad.append(("after Escape the Vi input mode is %s, not navigation" % after["mode"], "escape-mode"))
    if after["op"] or after["oparg"] is not None:
        bad.append(("after Escape an operator is still pending", "escape-operator"))
    if after["digraph"]:
        bad.append(("after Escape a digraph is still pending", "escape-digraph"))
    return bad


class CaseTimeout(Exception):
    pass


def outer_watchdog(fn, seconds):
    """Second line of defence around a whole case (the per-key watchdog uses
    ITIMER_REAL, so this one uses a timer thread + SIGUSR1)."""
    import os
    import signal
    import threading

    def on_sig(signum, frame):
        raise CaseTimeout()
    old = signal.signal(signal.SIGUSR1, on_sig)
    t = threading.Timer(seconds, lambda: os.kill(os.getpid(), signal.SIGUSR1))
    t.daemon = True
    t.start()
    try:
        return fn()
    finally:
        t.cancel()
        signal.signal(signal.SIGUSR1, old)


def run_case(cfg, keys, yield_every=0, per_key=None, instrument=None):
    return outer_watchdog(lambda: _run_case(cfg, keys, yield_every, per_key, instrument), 40)


def _run_case(cfg, keys, yield_every=0, per_key=None, instrument=None):
    """Run one case in a fresh event loop.  Returns dict(trace=[...], outcome=...,
    loop_errors=[...]).  trace entries: (token, exc, before, after)."""
    async def main():
        s = Session(cfg)
        await s.start()
        if instrument is not None:
            s.instrument(instrument[0], instrument[1])
        trace = []
        try:
            for i, tok in enumerate(keys):
                try:
                    before = s.observe()
                except Exception as e:  # noqa
                    trace.append((tok, "StateUnreadable:%s" % type(e).__name__, trace[-1][3] if trace else {}, trace[-1][3] if trace else {}))
                    break
                if before["done"]:
                    break
                if tok in ("<yield>", "<release>"):
                    # not a key: let the event loop run (background completer, renders);
                    # <release> first lets the slow completer answer
                    if tok == "<release>" and s.gate is not None:
                        s.gate.set()
                    for _ in range(8):
                        await asyncio.sleep(0)
                    s.last_handler = None
                    exc = None
                else:
                    exc = s.key(tok)
                    if cfg.get("render_each") and not exc:
                        rexc = s.render_now()
                        if rexc:
                            s.loop_errors.append("render-after-key:" + rexc)
                try:
                    after = s.observe()
                except Exception as e:  # noqa - the editor state cannot even be read any more
                    after = dict(before)
                    exc = (exc + "; " if exc else "") + "StateUnreadable:%s" % type(e).__name__
                    after["handler"] = getattr(s, "last_handler", None)
                    trace.append((tok, exc, before, after))
                    break
                after["handler"] = getattr(s, "last_handler", None)
                after["escape_calls"] = list(s.escape_calls)
                s.escape_calls = []
                trace.append((tok, exc, before, after))
                if per_key:
                    per_key(s, tok, exc, before, after)
                if exc == "Hang" or sum(1 for t in trace if t[1]) >= 8:
                    break           # the key processor resets itself after an exception and the session goes on
                if yield_every and (i + 1) % yield_every == 0:
                    await asyncio.sleep(0)
        finally:
            outcome = await s.finish()
        return {"trace": trace, "outcome": outcome, "loop_errors": list(s.loop_errors), "text_at_exit": s.text_at_exit}
    return asyncio.run(main())
