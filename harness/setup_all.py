"""MANIFEST.setup_cmd: build the whole framework from files on disk, offline."""
import glob
import importlib
import os
import sys

from common import *  # noqa


def modules():
    out = []
    for p in sorted(glob.glob(os.path.join(VERIF, "harness", "c[0-9][0-9].py"))):
        out.append(importlib.import_module(os.path.basename(p)[:-3]))
    return out


def main():
    assert_repo()
    ok, out = gen_tables(["all"])
    print(out)
    if not ok:
        print("setup: table generation failed")
        return 1
    with BuildLock():
        ensure_makefile()
        rc, out = run(["make", "-j16"], cwd=COQ, timeout=7200)
    print(out[-3000:])
    if rc != 0:
        print("setup: coq build failed")
        return 1
    for m in modules():
        for (name, ev, fn) in getattr(m, "MODELS", []):
            ok, log = build_model(name, ev, fn)
            print("model %s: %s" % (name, "ok" if ok else "FAILED"))
            if not ok:
                print(log[-2000:])
                return 1
    print("setup: ok")
    return 0
