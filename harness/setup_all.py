"""MANIFEST.setup_cmd: build the whole framework from files on disk, offline."""
import glob
import importlib
import os
import sys

from common import *  # noqa


def modules():
    """property modules claimed in MANIFEST.json"""
    man = json.load(open(os.path.join(VERIF, "MANIFEST.json")))
    out = []
    for c in man["checks"]:
        out.append(importlib.import_module(c["property_id"].lower()))
    return out


def main():
    assert_repo()
    ok, out = gen_tables(["all"])
    print(out)
    if not ok:
        # a table generator that fails closed is reported by its own check
        print("setup: some table generator failed (reported by the owning check)")
    failed = []
    mods = modules()
    # one parallel build of every property's closure first (the per-property loop below then finds
    # everything up to date; a failure here is found again, and reported, by that loop)
    try:
        with BuildLock():
            ensure_makefile()
            run(["make", "-k", "-j16"] + ["Props/%s.vo" % m.PROP for m in mods], cwd=COQ, timeout=7200)
    except Exception as e:  # never let the shortcut break setup
        print("setup: parallel pre-build skipped (%s)" % e)
    for m in mods:
        prop = m.PROP
        with BuildLock():
            ensure_makefile()
            rc, out = run(["make", "-j16", "Props/%s.vo" % prop], cwd=COQ, timeout=7200)
        print("proofs %s: %s" % (prop, "ok" if rc == 0 else "FAILED"))
        if rc != 0:
            print(out[-1500:])
            failed.append(prop)
        for (name, ev, fn) in getattr(m, "MODELS", []):
            ok, log = build_model(name, ev, fn)
            print("model %s: %s" % (name, "ok" if ok else "FAILED"))
            if not ok:
                print(log[-1500:])
                failed.append(prop)
    # best effort: a property whose build fails here is rebuilt (and the failure
    # reported with the VIOLATION contract) by its own check
    print("setup: done" + (" (failed: %s)" % ",".join(sorted(set(failed))) if failed else ""))
    return 0
