"""C12 - split containers terminate and divide space within every child's bounds.
Model: coq/Model/C12_Divide.v; theorems: coq/Props/C12.v."""
import itertools

import sys

from common import *  # noqa
import c12_layout as LY

PROP = "C12"
TABLES = ["C12_Huge", "C12_FloatProbes"]
MODELS = [("c12", "Extract/ExC12.v", "run_C12")]
HUGE = 1000 ** 10
INF = None          # "max not given"
START = 3           # offset of the write position along the split axis
CROSS0, CROSS = 2, 7  # offset/extent across the split axis
SPLIT_OPS = (0,)   # op 4 of run_C12 is the pinned (pre-8a80803) division; no registered path uses it
OPNAME = {0: "split", 1: "sum", 2: "max", 3: "take", 4: "split", 5: "multi-render", 6: "split-report", 7: "merge-dimensions", 9: "window-preferred",
          10: "tree-write", 11: "tree-report", 12: "align-padding-assigned"}
LAYOUT_OPS = (10, 11, 12)   # nested layouts: harness/c12_layout.py, coq/Model/C12_Layout.v
ALIGN_NAMES = {0: "start(TOP/LEFT)", 1: "CENTER", 2: "end(BOTTOM/RIGHT)", 3: "JUSTIFY"}


# --------------------------------------------------------------------------
# case encoding

def opt(v):
    return [] if v is None else [v]


def raw(mn, mx, w, p):
    """raw Dimension arguments in the constructor's order (min, max, weight, preferred)"""
    return [opt(mn), opt(mx), opt(w), opt(p)]


def unraw(r):
    return tuple(x[0] if x else None for x in r)


def fuel_bound(ndims, weights, avail):
    """coq/Proofs/C12_Termination.v divide_fuel: iterations of one grow loop
    that always suffice (theorem C12_terminates): (max(0, avail) + 1) * sum(weights) + n + 1.
    `weights` may list fewer entries than there are dimensions (padding windows share one weight):
    each is counted ndims times, which only makes the fuel larger."""
    D = max(0, avail)
    return (D + 1) * ndims * sum(max(0, w) for w in weights) + ndims + 1


def split_case(orient, done, align, pad, children, avail):
    n = len(children)
    n_all = max(0, 2 * n - 1) + 2
    ws = [c[2][0] if c[2] else 1 for c in children] + [pad[2][0] if pad[2] else 1, 1]
    fuel = fuel_bound(n_all, ws, avail)
    return [0, orient, done, align, pad, children, avail, START, fuel]


# --------------------------------------------------------------------------
# implementation runner

class _Budget:
    n = 0
    limit = 10 ** 9


_patched = {}


def _install_hooks():
    """Count the items the divide loops pull out of take_using_weights (the
    real generator still produces them), and give get_app() a cheap stand-in
    whose is_done we control.  The 2 s watchdog stays on as a backstop."""
    if _patched:
        return
    import prompt_toolkit.layout.containers as C
    import prompt_toolkit.utils as U
    real = U.take_using_weights

    def counted(items, weights):
        for x in real(items, weights):
            _Budget.n += 1
            if _Budget.n > _Budget.limit:
                raise Hang()
            yield x

    class _App:
        is_done = False
        render_counter = 0        # as DummyApplication: outside a running application the counter never moves
    _patched["real_tuw"] = real
    _patched["real_get_app"] = C.get_app
    _patched["app"] = _App()
    _patched["counted"] = counted
    C.take_using_weights = counted
    C.get_app = lambda: _patched["app"]


def _unhook_generator(on):
    import prompt_toolkit.layout.containers as C
    C.take_using_weights = _patched["real_tuw"] if on else _patched["counted"]


def _mkdim(r):
    from prompt_toolkit.layout.dimension import Dimension
    mn, mx, w, p = unraw(r)
    return Dimension(min=mn, max=mx, weight=w, preferred=p)


def _box_class():
    if "Box" in _patched:
        return _patched["Box"]
    from prompt_toolkit.layout.containers import Container
    from prompt_toolkit.layout.dimension import Dimension

    class Box(Container):
        def __init__(self, dim, orient, log, other=None, pid=None):
            self.dim, self.orient, self.log, self.pid = dim, orient, log, pid
            self.other = other if other is not None else Dimension()   # requirement across the split axis

        def reset(self):
            pass

        def preferred_width(self, max_available_width):
            return self.dim if self.orient == 1 else self.other

        def preferred_height(self, width, max_available_height):
            return self.dim if self.orient == 0 else self.other

        def write_to_screen(self, screen, mouse_handlers, write_position, parent_style, erase_bg, z_index):
            self.log.append((self, write_position))

        def get_children(self):
            return []
    _patched["Box"] = Box
    return Box


class Built:
    pass


def build_split(case, real_windows=False):
    """-> Built (split, all children, log) or an int status (4 ValueError / 5 AssertionError from Dimension())."""
    from prompt_toolkit.layout.containers import (HSplit, VSplit, Window, VerticalAlign, HorizontalAlign)
    _, orient, done, align, pad, children, avail, start, fuel = case
    Box = _box_class()
    log = []
    try:
        padd = _mkdim(pad)
        dims = [_mkdim(c) for c in children]
    except ValueError:
        return 4
    except AssertionError:
        return 5
    if real_windows:
        kids = [Window(height=d) if orient == 0 else Window(width=d) for d in dims]
    else:
        kids = [Box(d, orient, log) for d in dims]
    return make_split(orient, align, padd, kids, log, real_windows)


def make_split(orient, align, padd, kids, log, real_windows=False):
    from prompt_toolkit.layout.containers import (HSplit, VSplit, VerticalAlign, HorizontalAlign)
    Box = _box_class()
    small = Box(None, orient, log)
    if orient == 0:
        al = [VerticalAlign.TOP, VerticalAlign.CENTER, VerticalAlign.BOTTOM, VerticalAlign.JUSTIFY][align]
        sp = HSplit(kids, window_too_small=small, align=al, padding=padd)
    else:
        al = [HorizontalAlign.LEFT, HorizontalAlign.CENTER, HorizontalAlign.RIGHT, HorizontalAlign.JUSTIFY][align]
        sp = VSplit(kids, window_too_small=small, align=al, padding=padd)
    b = Built()
    b.split, b.log, b.small, b.kids, b.padd, b.real = sp, log, small, kids, padd, real_windows
    refresh_all(b)
    return b


def refresh_all(b):
    """(Re)read _all_children as the split itself would and make its Windows record instead of paint."""
    from prompt_toolkit.layout.containers import Window
    sp, log = b.split, b.log
    b.all = list(sp._all_children)
    if not b.real:
        def rec(w):
            def f(screen, mouse_handlers, write_position, parent_style, erase_bg, z_index):
                log.append((w, write_position))
            f._c12_recorder = True
            return f
        for w in b.all + [sp._remaining_space_window]:
            if isinstance(w, Window) and not getattr(w.write_to_screen, "_c12_recorder", False):
                w.write_to_screen = rec(w)


def _wp(orient, avail, start):
    from prompt_toolkit.layout.screen import WritePosition
    if orient == 0:
        return WritePosition(CROSS0, start, CROSS, avail)
    return WritePosition(start, CROSS0, avail, CROSS)


def _divide(b, orient, avail, start):
    if orient == 0:
        return b.split._divide_heights(_wp(orient, avail, start))
    return b.split._divide_widths(avail)


def impl_split(case, watchdog=2.0):
    """-> (canonical result, info) ; info feeds the oracle."""
    _, orient, done, align, pad, children, avail, start, fuel = case
    b = build_split(case)
    if isinstance(b, int):
        return [b], None
    return render_once(b, orient, done, avail, start, fuel, watchdog)


def render_once(b, orient, done, avail, start, fuel, watchdog=2.0):
    """One render of the split object as it is now: divide, then write_to_screen."""
    refresh_all(b)
    children = list(b.split.children)
    info = {"orient": orient, "done": done, "avail": avail, "start": start, "nchildren": len(children),
            "children_now": children}
    _patched["app"].is_done = bool(done)
    if orient == 0:
        dl = [c.preferred_height(CROSS, avail) for c in b.all]
    else:
        dl = [c.preferred_width(avail) for c in b.all]
    info["dims"] = [(d.min, d.max, d.preferred, d.weight) for d in dl]
    info["divides"] = not (orient == 0 and not children)
    _Budget.n, _Budget.limit = 0, 2 * fuel + 1
    try:
        sizes = with_watchdog(lambda: _divide(b, orient, avail, start), watchdog)
    except Hang:
        info["result"] = "hang"
        info["nexts"] = _Budget.n
        return [3], info
    except ValueError as e:
        info["result"] = "ValueError"
        info["message"] = str(e)
        return [2], info
    finally:
        _Budget.limit = 10 ** 9
    info["nexts"] = _Budget.n
    info["result"] = sizes
    # now the drawing
    del b.log[:]
    try:
        with_watchdog(lambda: b.split.write_to_screen(None, None, _wp(orient, avail, start), "", False, None), watchdog)
    except Hang:
        info["draw"] = "hang"
        return [3], info
    except Exception as e:                       # e.g. WritePosition's `assert width >= 0`
        info["draw"] = "raised"
        info["draw_exc"] = "%s: %s" % (type(e).__name__, e)
        return [6], info
    regs, raw_regs = [], []
    for w, wp in b.log:
        if w is b.small:
            kind = 2
        elif w is b.split._remaining_space_window:
            kind = 1
        else:
            kind = 0
        off, ext = (wp.ypos, wp.height) if orient == 0 else (wp.xpos, wp.width)
        coff, cext = (wp.xpos, wp.width) if orient == 0 else (wp.ypos, wp.height)
        regs.append([kind, off, ext])
        raw_regs.append((kind, w, off, ext, coff, cext))
    info["regions"] = raw_regs
    info["all"] = b.all
    info["all_after"] = list(b.split._all_children)
    if sizes is None:
        return [1, regs], info
    return [0, list(sizes), regs], info


def impl_split_real(case):
    """The same case on real Windows, a real Screen and a real (dummy)
    application: sizes + the non-empty regions recorded by the Screen."""
    import prompt_toolkit.layout.containers as C
    from prompt_toolkit.layout.screen import Screen
    from prompt_toolkit.layout.mouse_handlers import MouseHandlers
    _, orient, done, align, pad, children, avail, start, fuel = case
    b = build_split(case, real_windows=True)
    if isinstance(b, int):
        return [b]
    old = C.get_app
    if "dummy_app" not in _patched:
        from prompt_toolkit.application import DummyApplication

        class _DoneApp(DummyApplication):
            done_flag = False
            is_done = property(lambda self: self.done_flag)
        _patched["dummy_app"] = _DoneApp()
    _patched["dummy_app"].done_flag = bool(done)
    C.get_app = lambda: _patched["dummy_app"]
    _Budget.n, _Budget.limit = 0, 2 * fuel + 1
    try:
        try:
            sizes = with_watchdog(lambda: _divide(b, orient, avail, start), 2)
        except Hang:
            return [3]
        except ValueError:
            return [2]
        screen = Screen()
        try:
            with_watchdog(lambda: b.split.write_to_screen(screen, MouseHandlers(), _wp(orient, avail, start), "", False, None), 5)
        except Hang:
            return [3]
        except Exception:
            return [6]
        regs = []
        vis = screen.visible_windows_to_write_positions
        for w in b.all:
            if w in vis:
                wp = vis[w]
                regs.append([0] + ([wp.ypos, wp.height] if orient == 0 else [wp.xpos, wp.width]))
        if b.split._remaining_space_window in vis:
            wp = vis[b.split._remaining_space_window]
            regs.append([1] + ([wp.ypos, wp.height] if orient == 0 else [wp.xpos, wp.width]))
        for w, wp in b.log:
            regs.append([2] + ([wp.ypos, wp.height] if orient == 0 else [wp.xpos, wp.width]))
        if sizes is None:
            return [1, regs]
        return [0, list(sizes), regs]
    finally:
        _Budget.limit = 10 ** 9
        C.get_app = old


def multi_case(orient, done, align, pad, pool, avail, steps):
    """steps: [[ids, [[id, raw requirement], ...]], ...]: before each render the children list becomes `ids`
    and the children named in the changes report a new requirement from now on"""
    pool0 = pool
    n_all = 2 * max(len(st[0]) for st in steps) + 2
    for st in steps:
        pool = pool + [ch[1] for ch in st[1]]          # weights of later requirements count for the fuel too
    ws = [c[2][0] if c[2] else 1 for c in pool] + [pad[2][0] if pad[2] else 1, 1]
    return [5, orient, done, align, pad, pool0, avail, START, fuel_bound(n_all, ws, avail), steps]


def impl_multi(case):
    """Render, edit split.children (in place, or by assigning a new list), render again, ..."""
    _, orient, done, align, pad, pool, avail, start, fuel, steps = case
    Box = _box_class()
    log = []
    try:
        padd = _mkdim(pad)
        dims = [_mkdim(c) for c in pool]
        newdims = [[(ch[0], _mkdim(ch[1])) for ch in st[1]] for st in steps]
    except ValueError:
        return [4], []
    except AssertionError:
        return [5], []
    boxes = [Box(d, orient, log, pid=k) for k, d in enumerate(dims)]
    b = make_split(orient, align, padd, [boxes[i] for i in steps[0][0]], log)
    out, infos = [], []
    for k, (ids, _chg) in enumerate(steps):
        for pid, nd in newdims[k]:
            boxes[pid].dim = nd                              # the same child object reports something else from now on
        if k > 0:
            cur = b.split.children
            new = [boxes[i] for i in ids]
            diff = [j for j in range(min(len(cur), len(new))) if cur[j] is not new[j]]
            if (k + len(ids)) % 4 == 0:
                b.split.children = new                       # a new list object
            elif len(cur) == len(new) and len(diff) == 2 and cur[diff[0]] is new[diff[1]] and cur[diff[1]] is new[diff[0]]:
                cur[diff[0]], cur[diff[1]] = cur[diff[1]], cur[diff[0]]     # swap in place
            elif len(cur) == len(new) and len(diff) == 1:
                cur[diff[0]] = new[diff[0]]                  # replace in place
            elif len(cur) == len(new) and len(cur) > 1 and all(cur[(j + 1) % len(cur)] is new[j] for j in range(len(cur))):
                cur.append(cur.pop(0))                       # pop + insert
            else:
                cur[:] = new                                 # any other in-place edit
        res, info = render_once(b, orient, done, avail, start, fuel)
        codes = []
        for w in b.all:
            if isinstance(w, Box):
                codes.append(w.pid)
            elif getattr(w, "height", None) is padd or getattr(w, "width", None) is padd:
                codes.append(-1)
            else:
                codes.append(-2)
        out.append([canon_split(res), codes])
        infos.append((res, info))
    return out, infos


def impl_report(case):
    """The Dimension a split reports to its parent: preferred_width / preferred_height."""
    _, orient, axis, align, pad, ws, hs, width, fuel, ov = case
    Box = _box_class()
    try:
        padd = _mkdim(pad)
        dw = [_mkdim(c) for c in ws]
    except ValueError:
        return [4]
    except AssertionError:
        return [5]
    try:
        dh = [_mkdim(c) for c in hs]
    except ValueError:
        return [4]
    except AssertionError:
        return [5]
    ovd = None
    if ov:
        try:
            ovd = _mkdim(ov[0])
        except ValueError:
            return [4]
        except AssertionError:
            return [5]
        mn_, mx_, w_, p_ = unraw(ov[0])
        if mn_ is not None and mn_ == mx_ == p_ and w_ is None and fuel % 2 == 0:
            ovd = mn_                                        # an int means Dimension.exact(int)
    log = []
    kids = [Box(dh[k] if orient == 0 else dw[k], orient, log, other=(dw[k] if orient == 0 else dh[k])) for k in range(len(dw))]
    b = make_split(orient, align, padd, kids, log)
    if ov:
        if axis == 0:
            b.split.width = ovd
        else:
            b.split.height = ovd
    _patched["app"].is_done = False
    _Budget.n, _Budget.limit = 0, 2 * fuel + 1
    try:
        if axis == 0:
            d = with_watchdog(lambda: b.split.preferred_width(width), 2)
        else:
            d = with_watchdog(lambda: b.split.preferred_height(width, 10 ** 6), 2)
    except Hang:
        return [3]
    except ValueError:
        return [4]
    except AssertionError:
        return [5]
    finally:
        _Budget.limit = 10 ** 9
    return canon_dim(d)


def impl_merge(case):
    """Window._merge_dimensions directly, and through Window.preferred_height/width with a stub control."""
    from prompt_toolkit.layout.containers import Window
    from prompt_toolkit.layout.controls import UIControl, UIContent
    r, cp, de = case[1], case[2], case[3]
    cpv = cp[0] if cp else None
    try:
        d = _mkdim(r)
    except ValueError:
        return [4], None
    except AssertionError:
        return [5], None
    if all(not x for x in r) and (cpv is None or cpv % 2 == 0):
        d = None                                              # Window(height=None)

    class Ctl(UIControl):
        def create_content(self, width, height):
            return UIContent(get_line=lambda i: [], line_count=1)

        def preferred_width(self, max_available_width):
            return cpv

        def preferred_height(self, width, max_available_height, wrap_lines, get_line_prefix):
            return cpv

    def run(f):
        try:
            return canon_dim(with_watchdog(f, 2))
        except ValueError:
            return [4]
        except AssertionError:
            return [5]
    a = run(lambda: Window._merge_dimensions(dimension=d, get_preferred=lambda: cpv, dont_extend=bool(de)))
    h = run(lambda: Window(content=Ctl(), height=d, dont_extend_height=bool(de)).preferred_height(10, 10))
    w = run(lambda: Window(content=Ctl(), width=d, dont_extend_width=bool(de)).preferred_width(10))
    return a, (h, w)


def impl_window(case):
    """Window.preferred_width/height with margins and ignore_content_*."""
    from prompt_toolkit.layout.containers import Window
    from prompt_toolkit.layout.controls import UIControl, UIContent
    from prompt_toolkit.layout.margins import Margin
    _, axis, r, cp, de, margin, ignore = case
    cpv = cp[0] if cp else None
    try:
        d = _mkdim(r)
    except ValueError:
        return [4]
    except AssertionError:
        return [5]

    class Ctl(UIControl):
        def create_content(self, width, height):
            return UIContent(get_line=lambda i: [], line_count=1)

        def preferred_width(self, max_available_width):
            return cpv

        def preferred_height(self, width, max_available_height, wrap_lines, get_line_prefix):
            return cpv

    class M(Margin):
        def __init__(self, w):
            self.w = w

        def get_width(self, get_ui_content):
            return self.w

        def create_margin(self, window_render_info, width, height):
            return []
    left = [M(margin // 2)] if margin else []
    right = [M(margin - margin // 2)] if margin else []
    try:
        if axis == 0:
            w = Window(content=Ctl(), width=d, dont_extend_width=bool(de), ignore_content_width=bool(ignore),
                       left_margins=left, right_margins=right)
            return canon_dim(with_watchdog(lambda: w.preferred_width(50), 2))
        w = Window(content=Ctl(), height=d, dont_extend_height=bool(de), ignore_content_height=bool(ignore),
                   left_margins=left, right_margins=right)
        return canon_dim(with_watchdog(lambda: w.preferred_height(50, 50), 2))
    except ValueError:
        return [4]
    except AssertionError:
        return [5]


def project_nonempty(m):
    """model result -> what a real Screen records (regions with extent > 0)"""
    if isinstance(m, list) and m and m[0] in (0, 1):
        regs = [r for r in m[-1] if r[2] > 0 or r[0] == 2]
        return m[:-1] + [regs]
    return m


BASE = 10 ** 15


def big(v):
    """coq sx_big: integers beyond the OCaml driver's int range as base-10^15 digit lists"""
    if -BASE < v < BASE:
        return v
    out, neg, v = [], v < 0, abs(v)
    while v >= BASE:
        out.append(v % BASE)
        v //= BASE
    out.append(v)
    return ([-1] if neg else []) + out


def unbig(v):
    if isinstance(v, int):
        return v
    neg = bool(v) and v[0] == -1
    ds = v[1:] if neg else v
    n = sum(x * BASE ** k for k, x in enumerate(ds))
    return -n if neg else n


def canon_dim(d):
    return [0, [big(d.min), big(d.max), big(d.preferred), big(d.weight)]]


def canon_split(res):
    if res[0] == 0:
        return [0, [big(s) for s in res[1]], [[k, big(o), big(e)] for k, o, e in res[2]]]
    if res[0] == 1:
        return [1, [[k, big(o), big(e)] for k, o, e in res[1]]]
    return res


def impl_dimop(case):
    from prompt_toolkit.layout.dimension import sum_layout_dimensions, max_layout_dimensions
    try:
        dims = [_mkdim(c) for c in case[1]]
    except ValueError:
        return [4], None
    except AssertionError:
        return [5], None
    try:
        d = with_watchdog(lambda: (sum_layout_dimensions if case[0] == 1 else max_layout_dimensions)(dims), 2)
    except ValueError:
        return [4], None
    except AssertionError:
        return [5], None
    return canon_dim(d), ([(x.min, x.max, x.preferred, x.weight) for x in dims], (d.min, d.max, d.preferred, d.weight))


def impl_take(case):
    from prompt_toolkit.utils import take_using_weights
    ws, n = case[1], case[2]

    def go():
        g = take_using_weights(list(range(len(ws))), ws)
        return [next(g) for _ in range(n)]
    try:
        return [0, with_watchdog(go, 2)]
    except ValueError:
        return [2]
    except Hang:
        return [3]


# --------------------------------------------------------------------------
# oracle: the property text / theorem statements over the implementation's
# own results (never calls the model)

def hang_expected(dims, avail):
    """The zero-weight family (fixed finding C12-F1, commit 8a80803): a child with weight 0 that
    has room to grow (towards preferred or max) while the weighted children
    cannot absorb the space the loops insist on handing out."""
    smin = sum(d[0] for d in dims)
    if smin > avail or not any(d[3] > 0 for d in dims):
        return False
    P = sum(d[2] if d[3] > 0 else d[0] for d in dims)
    M = sum(d[1] if d[3] > 0 else d[0] for d in dims)
    pstop = min(avail, sum(d[2] for d in dims))
    mstop = min(avail, sum(d[1] for d in dims))
    return pstop > P or mstop > M


def oracle_split(case, res, info):
    """-> None or (clause, family)"""
    if info is None:
        return None                      # invalid Dimension arguments: nothing to divide
    dims, avail, start, done = info["dims"], info["avail"], info["start"], info["done"]
    n = len(dims)
    if not info["divides"]:
        dims, n = [], 0
    smin, smax, spref = sum(d[0] for d in dims), sum(d[1] for d in dims), sum(d[2] for d in dims)
    r = info["result"]
    if any(not (0 <= d[0] <= d[2] <= d[1]) or d[3] < 0 for d in dims):
        return ("a child reported a size requirement that is not min <= preferred <= max, weight >= 0: %r" % (dims,), "child-dimension")
    if info.get("draw") == "raised":
        return ("write_to_screen raised %s while handing the divided sizes to the children" % info.get("draw_exc"), "draw-exception")
    if r == "hang" or info.get("draw") == "hang":
        zero = hang_expected(dims, avail)
        return ("dividing does not terminate (more than %d items drawn from the weight generator, or 2 s)" % info.get("nexts", -1),
                "hang-zero-weight-child-with-room" if zero else "hang-other")
    if r == "ValueError":
        if smin > avail:
            return ("ValueError although the minimums do not fit (expected 'too small')", "valueerror-too-small")
        allzero = n > 0 and all(d[3] == 0 for d in dims)
        return ("ValueError instead of sizes: %s" % info.get("message"),
                "valueerror-all-zero-weights" if allzero else "valueerror-other")
    if r is None:
        if not (smin > avail):
            return ("reports 'too small' although the minimums fit (sum min %d <= %d)" % (smin, avail), "too-small")
    else:
        if smin > avail and n > 0:
            return ("returns sizes although the minimums do not fit (sum min %d > %d)" % (smin, avail), "too-small")
        if len(r) != n:
            return ("number of sizes %d != number of children %d" % (len(r), n), "length")
        for k, (s, d) in enumerate(zip(r, dims)):
            if not (d[0] <= s <= d[1]):
                return ("child %d got size %d outside its min..max %d..%d" % (k, s, d[0], d[1]), "bounds")
        if sum(r) > avail:
            return ("total %d exceeds the available size %d" % (sum(r), avail), "total")
        if n > 0:
            # children with weight 0 take no part in growing (theorem C12_sizes): the
            # preferred/maximal clauses speak about the weighted ones
            rp = sum(d[2] if d[3] > 0 else d[0] for d in dims)
            rm = sum(d[1] if d[3] > 0 else d[0] for d in dims)
            if rp <= avail and any(s < d[2] for s, d in zip(r, dims) if d[3] > 0):
                return ("preferred sizes of the weighted children fit (%d <= %d) but one is below its preferred size: %r" % (rp, avail, r), "preferred-first")
            if avail <= rp and any(s > d[2] for s, d in zip(r, dims)):
                return ("extra space handed out although the preferred sizes are not all satisfied: %r" % (r,), "preferred-first")
            loop2_skipped = bool(done) and info["orient"] == 0     # only HSplit looks at app.is_done
            if not loop2_skipped and sum(r) != min(avail, smax, rm):
                return ("space not used as far as the weighted children can grow: total %d, available %d, sum of max %d, reachable %d" % (sum(r), avail, smax, rm), "maximal")
            if loop2_skipped and sum(r) != min(avail, spref, rp):
                return ("app.is_done: the total %d is not min(available %d, sum of preferred %d, reachable %d)" % (sum(r), avail, spref, rp), "done-total")
            if all(d[3] > 0 for d in dims):
                # no weight-0 child: the literal reading
                if spref <= avail and any(s < d[2] for s, d in zip(r, dims)):
                    return ("preferred sizes fit (sum %d <= %d) but a child is below its preferred size: %r" % (spref, avail, r), "preferred-first")
                if not loop2_skipped and sum(r) != min(avail, smax):
                    return ("space not used as far as the children can grow: total %d, available %d, sum of max %d" % (sum(r), avail, smax), "maximal")
    # regions
    regs = info.get("regions", [])
    vsplit_empty = info["orient"] == 1 and info["nchildren"] == 0
    for (kind, w, off, ext, coff, cext) in regs:
        if (coff, cext) != (CROSS0, CROSS):
            return ("a child is drawn with a different extent across the split axis", "regions")
    if r is None:
        if not vsplit_empty and [(k, o, e) for (k, w, o, e, _, _) in regs] != [(2, start, avail)]:
            return ("too small: the too-small container must get the whole region", "regions")
        return None
    kids = [x for x in regs if x[0] == 0]
    if vsplit_empty:
        return None
    Box = _box_class()
    listed = info.get("children_now")
    if listed is not None and all(isinstance(c, Box) for c in listed):
        drawn = [x[1] for x in kids if isinstance(x[1], Box)]
        if len(drawn) != len(listed) or any(a is not c for a, c in zip(drawn, listed)):
            return ("the children drawn are not the children listed now, one by one in their listed order (drawn %r, listed %r)" % (
                [getattr(a, "pid", "?") for a in drawn], [getattr(c, "pid", "?") for c in listed]), "regions-listed-children")
    if len(kids) != len(r) or any(x[1] is not c for x, c in zip(kids, info["all"])):
        return ("children are not drawn one by one in their listed order", "regions")
    pos = start
    for x, s in zip(kids, r):
        if x[2] != pos or x[3] != s:
            return ("child drawn at offset %d extent %d, expected offset %d extent %d (adjacent, disjoint, in order)" % (x[2], x[3], pos, s), "regions")
        pos += s
    if pos > start + avail:
        return ("children drawn beyond the available region", "regions")
    rest = [x for x in regs if x[0] == 1]
    if pos < start + avail and [(x[2], x[3]) for x in rest] != [(pos, start + avail - pos)]:
        return ("remaining space is not filled exactly", "regions")
    if pos == start + avail and rest:
        return ("a remaining-space window is drawn although nothing remains", "regions")
    return None


def oracle_dimop(case, res, info):
    if info is None or case[0] != 1:
        return None
    dims, r = info
    res = [0, list(r)]
    exp_min, exp_max, sp = sum(d[0] for d in dims), sum(d[1] for d in dims), sum(d[2] for d in dims)
    if res[0] != 0 or res[1][0] != exp_min or res[1][1] != exp_max or res[1][2] != max(exp_min, min(exp_max, sp)):
        return ("sum_layout_dimensions is not the componentwise sum", "sum")
    return None


def oracle_take(case, res):
    ws = case[1]
    if not any(w > 0 for w in ws):
        return None if res == [2] else ("take_using_weights with no positive weight did not raise ValueError", "take")
    if res[0] != 0:
        return ("take_using_weights did not yield", "take")
    if any(ws[i] <= 0 for i in res[1]):
        return ("take_using_weights yielded a zero-weight item", "take")
    # proportionality on whole periods: after k*sum(w)/g.. items -- checked on the prefix of one full cycle
    pos = [w for w in ws if w > 0]
    total = sum(pos)
    mw = max(pos)
    if len(res[1]) >= total and all(w * mw < 2 ** 53 for w in pos):
        first = res[1][:total]
        for i, w in enumerate(ws):
            if w > 0 and first.count(i) != w:
                return ("first sum(weights) items are not in proportion to the weights", "take")
    return None


# --------------------------------------------------------------------------
# generators

VALS = [0, 1, 2, 5]


def small_triples():
    out = []
    for mn in VALS:
        for p in VALS:
            if p < mn:
                continue
            for mx in VALS + [INF]:
                if mx is not None and mx < p:
                    continue
                out.append((mn, p, mx))
    return out


def child_specs():
    return [raw(mn, mx, w, p) for (mn, p, mx) in small_triples() for w in (0, 1, 2)]


PADS = [raw(0, 0, None, 0), raw(1, 1, None, 1), raw(0, 2, 1, 1), raw(0, None, 0, 1), raw(1, 3, 0, 1)]


def gen_cases(chk):
    rng = chk.rng
    thorough = chk.tier == "thorough"
    specs = child_specs()
    dist = {}
    cases = []

    def add(kind, c):
        cases.append(c)
        dist[kind] = dist.get(kind, 0) + 1

    # the hand-found witnesses first
    add("witness", split_case(0, 0, 3, raw(0, 0, None, 0), [raw(0, 5, 0, 5), raw(0, 0, 1, 0)], 10))
    add("witness", split_case(1, 0, 3, raw(0, 0, None, 0), [raw(0, 5, 0, 5), raw(0, 0, 1, 0)], 10))
    add("witness", split_case(0, 0, 3, raw(0, 0, None, 0), [raw(1, 1, 0, 1)], 10))
    # exhaustive, JUSTIFY, no padding: lists of length <= 2 (all), length 3 (stratified), avail 0..12, H and V
    p2 = 1.0 if thorough else 0.12
    p3 = 0.02 if thorough else 0.0012
    for n, p in ((0, 1.0), (1, 1.0), (2, p2), (3, p3)):
        for combo in itertools.product(specs, repeat=n):
            for avail in range(13):
                if p < 1.0 and rng.random() >= p:
                    continue
                orient = rng.randint(0, 1) if n >= 2 else None
                for o in ((0, 1) if orient is None else (orient,)):
                    add("exhaustive_len%d" % n, split_case(o, 0, 3, PADS[0], list(combo), avail))
    # alignments x paddings x done
    nal = 60000 if thorough else 5000
    for _ in range(nal):
        n = rng.choice([0, 1, 1, 2, 2, 2, 3, 3])
        kids = [rng.choice(specs) for _ in range(n)]
        add("align_padding", split_case(rng.randint(0, 1), rng.choice([0, 0, 0, 1]), rng.randint(0, 3),
                                        rng.choice(PADS), kids, rng.randint(0, 14)))
    # random longer lists, larger numbers; weights mostly positive so that most terminate
    nr = 12000 if thorough else 1500
    for _ in range(nr):
        n = rng.randint(1, 8)
        kids = []
        wz = rng.random() < 0.3
        for _ in range(n):
            mn = rng.choice([0, 0, 1, 2, 3, 7])
            p = mn + rng.choice([0, 0, 1, 2, 5, 9])
            mx = rng.choice([None, None, p, p + 1, p + 4, p + 20])
            w = rng.choice([0, 1, 2, 3, 5]) if wz else rng.choice([1, 1, 2, 3, 5])
            # raw arguments may be unnormalised: preferred outside min..max, omitted fields
            r = rng.random()
            if r < 0.1:
                kids.append(raw(mn, mx, w, rng.choice([None, 0, 50])))
            elif r < 0.15:
                kids.append(raw(None, mx, None, p))
            else:
                kids.append(raw(mn, mx, w, p))
        add("random_long", split_case(rng.randint(0, 1), rng.choice([0, 0, 1]), rng.randint(0, 3), rng.choice(PADS),
                                      kids, rng.choice([0, 1, 5, 10, 20, 37, 40, rng.randint(0, 40)])))
    # large equal-ish weights: float division against exact comparison (i * w < 2**53)
    for _ in range(400 if thorough else 80):
        n = rng.randint(1, 4)
        base = rng.choice([2 ** 20, 2 ** 31 - 1, 2 ** 40, 10 ** 12 + 7])
        kids = []
        for _ in range(n):
            mn = rng.choice([0, 1])
            p = mn + rng.choice([0, 2, 5])
            kids.append(raw(mn, rng.choice([None, p + 6]), base - rng.choice([0, 0, 1, 2, base // 2, base // 3]), p))
        c = split_case(rng.randint(0, 1), 0, 3, PADS[0], kids, rng.randint(0, 40))
        c[8] = 4000
        add("large_weights", c)
    # invalid constructor arguments
    for _ in range(300 if thorough else 60):
        kids = [rng.choice(specs) for _ in range(rng.randint(0, 2))]
        kids.insert(rng.randint(0, len(kids)), rng.choice([raw(3, 2, 1, 2), raw(-1, 2, 1, 2), raw(0, 2, -1, 1), raw(0, -2, 1, 1),
                                                           raw(0, 2, 1, -1), raw(5, 1, None, None)]))
        add("invalid_dimension", split_case(rng.randint(0, 1), 0, rng.randint(0, 3), rng.choice(PADS), kids, rng.randint(0, 12)))
    # one split object rendered several times with its children list edited in between
    small = [sp for sp in specs if sp[2] != [0] or rng.random() < 0.3]
    for _ in range(20000 if thorough else 2500):
        npool = rng.randint(2, 5)
        pool = [rng.choice(small) for _ in range(npool)]
        cur = rng.sample(range(npool), rng.randint(1, npool))
        steps = [[list(cur), []]]
        for _ in range(rng.randint(1, 3)):
            cur = list(cur)
            e = rng.choice(["swap", "swap", "replace", "replace", "rotate", "rotate", "append", "delete", "same", "same", "same",
                            "same", "shuffle", "reverse"])
            rest = [i for i in range(npool) if i not in cur]
            if e == "swap" and len(cur) >= 2:
                a, b2 = rng.sample(range(len(cur)), 2)
                cur[a], cur[b2] = cur[b2], cur[a]
            elif e == "replace" and rest and cur:
                cur[rng.randrange(len(cur))] = rng.choice(rest)
            elif e == "rotate" and len(cur) >= 2:
                cur = cur[1:] + cur[:1]
            elif e == "append" and rest:
                cur.append(rng.choice(rest))
            elif e == "delete" and cur:
                del cur[rng.randrange(len(cur))]
            elif e == "shuffle":
                rng.shuffle(cur)
            elif e == "reverse":
                cur.reverse()
            # what a child reports may change between two renders (same object, same list)
            chg = []
            if cur and (e == "same" or rng.random() < 0.3):
                for pid in rng.sample(cur, rng.randint(1, min(2, len(cur)))):
                    chg.append([pid, rng.choice(small)])
            steps.append([list(cur), chg])
        add("multi_render_edited_children", multi_case(rng.randint(0, 1), rng.choice([0, 0, 0, 1]), rng.randint(0, 3),
                                                       rng.choice(PADS), pool, rng.randint(0, 14), steps))
    # the dimension a split reports to its parent
    for _ in range(8000 if thorough else 1200):
        n = rng.choice([0, 1, 2, 2, 3, 3, 4])
        ws_ = [rng.choice(specs) for _ in range(n)]
        hs_ = [rng.choice(specs) for _ in range(n)]
        pad = rng.choice(PADS)
        width = rng.randint(0, 14)
        wts = [c[2][0] if c[2] else 1 for c in ws_] + [pad[2][0] if pad[2] else 1, 1]
        ov = [] if rng.random() < 0.75 else [rng.choice(specs + [raw(3, 3, None, 3), raw(0, 0, None, 0), raw(7, 7, None, 7)])]
        add("split_reported_dimension", [6, rng.randint(0, 1), rng.randint(0, 1), rng.randint(0, 3), pad, ws_, hs_, width,
                                         fuel_bound(2 * n + 2, wts, width), ov])
    # Window._merge_dimensions
    mvals = [None, 0, 1, 2, 5]
    for mn in mvals:
        for mx in mvals:
            for p_ in mvals:
                for cp in ([], [0], [1], [3], [9]):
                    for de in (0, 1):
                        if thorough or rng.random() < 0.5:
                            add("merge_dimensions", [7, raw(mn, mx, rng.choice([None, 0, 1, 3]), p_), cp, de])
    for _ in range(6000 if thorough else 900):
        add("window_preferred_with_margins", [9, rng.randint(0, 1), raw(rng.choice(mvals), rng.choice(mvals), rng.choice([None, 0, 1, 3]), rng.choice(mvals)),
                                              rng.choice([[], [0], [1], [3], [9]]), rng.randint(0, 1), rng.choice([0, 0, 1, 2, 5]), rng.choice([0, 0, 0, 1])])
    # dimension algebra and the generator on their own
    for _ in range(4000 if thorough else 600):
        kids = [rng.choice(specs) for _ in range(rng.randint(0, 4))]
        add("sum_max_dimensions", [rng.choice([1, 2]), kids])
    for ws in itertools.product([0, 1, 2, 3, 5], repeat=3):
        add("take_using_weights", [3, list(ws), 25])
    for _ in range(1500 if thorough else 200):
        ws = [rng.choice([0, 1, 1, 2, 3, 5, 7, 10, 20]) for _ in range(rng.randint(1, 6))]
        add("take_using_weights", [3, ws, rng.choice([10, 40, 90])])
    LY.gen_cases(chk, add)
    return cases, dist


# --------------------------------------------------------------------------

def describe_case(c):
    if c[0] in LAYOUT_OPS:
        return LY.describe_case(c)
    if c[0] in SPLIT_OPS:
        return "%s(children=%s, align=%s, padding=%s).%s(%d)%s" % (
            "HSplit" if c[1] == 0 else "VSplit",
            ["D(min=%r,max=%r,weight=%r,preferred=%r)" % unraw(k) for k in c[5]], ALIGN_NAMES.get(c[3]),
            "D(min=%r,max=%r,weight=%r,preferred=%r)" % unraw(c[4]),
            "_divide_heights" if c[1] == 0 else "_divide_widths", c[6], " [app.is_done]" if c[2] else "")
    if c[0] == 5:
        return "%s(children=pool[%r], align=%s, padding=D%r) with pool=%s, available %d%s; then split.children edited to %s, rendered after each edit" % (
            "HSplit" if c[1] == 0 else "VSplit", c[9][0][0], ALIGN_NAMES.get(c[3]), unraw(c[4]),
            ["D(min=%r,max=%r,weight=%r,preferred=%r)" % unraw(k) for k in c[5]], c[6], " [app.is_done]" if c[2] else "",
            " -> ".join("children=pool[%r]%s" % (st[0], "".join(", child %d now reports D(min=%r,max=%r,weight=%r,preferred=%r)" % ((ch[0],) + unraw(ch[1])) for ch in st[1]))
                        for st in c[9][1:]))
    if c[0] == 6:
        return "%s(children with widths %s heights %s, align=%s, padding=D%r%s).%s" % (
            "HSplit" if c[1] == 0 else "VSplit", [unraw(k) for k in c[5]], [unraw(k) for k in c[6]], ALIGN_NAMES.get(c[3]), unraw(c[4]),
            (", %s=D%r" % ("width" if c[2] == 0 else "height", unraw(c[9][0]))) if c[9] else "",
            "preferred_width(%d)" % c[7] if c[2] == 0 else "preferred_height(%d, ..)" % c[7])
    if c[0] == 7:
        return "Window._merge_dimensions(D(min=%r,max=%r,weight=%r,preferred=%r), get_preferred -> %r, dont_extend=%r)" % (
            unraw(c[1]) + (c[2][0] if c[2] else None, bool(c[3])))
    if c[0] == 9:
        return "Window(%s=D(min=%r,max=%r,weight=%r,preferred=%r), content preferring %r, dont_extend=%r, margins of total width %d, ignore_content=%r).preferred_%s" % (
            ("width" if c[1] == 0 else "height",) + unraw(c[2]) + (c[3][0] if c[3] else None, bool(c[4]), c[5], bool(c[6]), "width" if c[1] == 0 else "height"))
    if c[0] in (1, 2):
        return "%s(%s)" % ("sum_layout_dimensions" if c[0] == 1 else "max_layout_dimensions", [unraw(k) for k in c[1]])
    return "take_using_weights(range(%d), %r) first %d" % (len(c[1]), c[1], c[2])


def run_impl(c):
    """Whatever the implementation raises while a case is driven is a verdict, never a crash of the check:
    an exception that the per-op runner does not already classify becomes the result [7] (which no model
    result equals) plus an oracle violation naming the exception and the input."""
    try:
        return _run_impl(c)
    except Hang:
        return [3], None, ("the implementation does not return (2 s / item budget) on this input", "hang-other")
    except Exception as e:          # noqa: BLE001 - by design: every exception class
        import traceback
        tb = traceback.extract_tb(e.__traceback__)
        where = "%s:%d" % (os.path.basename(tb[-1].filename), tb[-1].lineno) if tb else "?"
        return [7], None, ("the implementation raised %s: %s (at %s)" % (type(e).__name__, e, where), "unexpected-exception")


def _run_impl(c):
    if c[0] in LAYOUT_OPS:
        return LY.run_impl(c)
    if c[0] in SPLIT_OPS:
        res, info = impl_split(c)
        return canon_split(res), info, oracle_split(c, res, info)
    if c[0] in (1, 2):
        res, dims = impl_dimop(c)
        return res, dims, oracle_dimop(c, res, dims)
    if c[0] == 5:
        res, infos = impl_multi(c)
        bad = None
        for k, (r, info) in enumerate(infos):
            bad = oracle_split(c, r, info)
            if bad:
                bad = ("render %d of %d: %s" % (k + 1, len(infos), bad[0]), bad[1])
                break
        return res, infos, bad
    if c[0] == 6:
        res = impl_report(c)
        bad = None
        if res[0] == 0 and not (0 <= unbig(res[1][0]) <= unbig(res[1][2]) <= unbig(res[1][1])):
            bad = ("a split reports a dimension that is not min <= preferred <= max", "report")
        return res, None, bad
    if c[0] == 7:
        res, hw = impl_merge(c)
        h, w = hw or (None, None)
        bad = None
        if h is not None and (h != res or w != res):
            bad = ("Window.preferred_height/width differ from Window._merge_dimensions: %r %r %r" % (res, h, w), "merge-path")
        return res, None, bad
    if c[0] == 9:
        return impl_window(c), None, None
    res = impl_take(c)
    return res, None, oracle_take(c, res)


def confirm_hang(c):
    """Re-run a case that exhausted the item budget on the untouched
    generator under the plain 2 s watchdog."""
    _unhook_generator(True)
    try:
        res, info = impl_split(c, watchdog=2.0)
        return res == [3]
    finally:
        _unhook_generator(False)


def main(tier):
    chk = Check(PROP, tier)
    pr = chk.proofs("Props/C12.v", tables=TABLES)
    okm, logm = build_model("c12", "Extract/ExC12.v", "run_C12", tables=TABLES)
    if not okm:
        chk.violation("tie", "model does not build: " + logm[-400:], {"kind": "model-build"}, {"log": logm[-3000:]}, no_input=True)
        return chk.finish()
    _install_hooks()
    phase = {"proofs+model_build": round(time.time() - chk.t0, 1)}
    cases, dist = gen_cases(chk)
    cases = load_corpus(PROP) + cases
    impl_results = []
    oracle_bad = set()
    fams = {}
    hangs = []
    for i, c in enumerate(cases):
        res, info, bad = run_impl(c)
        impl_results.append(res)
        nontrivial = c[0] not in SPLIT_OPS or (res[0] == 0 and any(x != 0 for x in res[1])) or res[0] in (1, 2, 3)
        chk.count_case(c, nontrivial)
        heads = [st[0][0] for st in res] if c[0] in (5, 12) and res and isinstance(res[0], list) and isinstance(res[0][0], list) else [res[0]]
        for hd in heads:
            tagname = {0: "sizes", 1: "too-small", 2: "ValueError", 3: "hang", 4: "ctor-ValueError", 5: "ctor-AssertionError", 6: "draw-exception", 7: "unexpected-exception"}.get(hd, "?")
            fams[tagname] = fams.get(tagname, 0) + 1
        if res == [3] and c[0] in SPLIT_OPS:
            hangs.append(i)
        if bad:
            oracle_bad.add(i)
            clause, fam = bad
            chk.violation("oracle", "%s: %s -> %r" % (clause, describe_case(c), res),
                          {"op": OPNAME[c[0]], "family": fam},
                          {"case": c, "observed": res, "clause": clause, "how": describe_case(c)})
        if i % 4001 == 0:
            chk.sample({"case": describe_case(c), "impl_result": res})
    phase["implementation+oracle"] = round(time.time() - chk.t0, 1)
    # CPython's `taken < i*weight/float(max_weight)` against the exact integer comparison, below 2**53
    # (theorem C12_float_compare_exact is about IEEE binary64; this ties CPython's int/float semantics to it)
    nprobe, nbadf = (200000 if chk.tier == "thorough" else 30000), 0
    for _ in range(nprobe):
        bb = chk.rng.choice([chk.rng.randint(1, 2 ** 53 - 1), chk.rng.randint(1, 2 ** 27), 2 ** chk.rng.randint(0, 52) + chk.rng.randint(0, 3)])
        aa = chk.rng.choice([chk.rng.randint(0, 2 ** 53 - 1), min(2 ** 53 - 1, bb * chk.rng.randint(0, 2 ** 26) + chk.rng.randint(0, 2))])
        q = aa // bb
        for tt in (q - 1, q, q + 1):
            if (tt < aa / float(bb)) != (tt * bb < aa):
                nbadf += 1
                if nbadf == 1:
                    chk.violation("tie", "CPython float test differs from the exact comparison below 2**53: taken=%d i*weight=%d max_weight=%d" % (tt, aa, bb),
                                  {"kind": "float-compare"}, {"taken": tt, "i_times_weight": aa, "max_weight": bb}, no_input=True)
    chk.coverage["float_compare_probes"] = 3 * nprobe
    # the witness of C12_float_beyond_2p53_refuted replayed on CPython: 2**53 + 1 converts to 2**53
    if (2 ** 53 < (2 ** 53 + 1) * 1 / float(1)) is not False:
        chk.violation("tie", "CPython does not reproduce the witness of C12_float_beyond_2p53_refuted (taken=2**53, i*weight=2**53+1, max_weight=1)",
                      {"kind": "float-compare-witness"}, {"taken": 2 ** 53, "i_times_weight": 2 ** 53 + 1, "max_weight": 1}, no_input=True)
    # hangs found through the item budget: confirm a few on the untouched generator with the plain watchdog
    confirmed = 0
    for i in hangs[:2] + (hangs[-1:] if len(hangs) > 2 else []):
        if confirm_hang(cases[i]):
            confirmed += 1
        else:
            chk.violation("tie", "a case that exhausted the item budget returns within 2 s on the untouched generator: " + describe_case(cases[i]),
                          {"kind": "hang-budget"}, {"case": cases[i]}, no_input=True)
    chk.coverage["hangs_confirmed_by_plain_watchdog"] = confirmed
    chk.coverage["input_distribution"] = dict(dist, results=fams)

    def tagger(c, a, m):
        return {"op": OPNAME.get(c[0], "?") if isinstance(c, list) and c else "?",
                "impl": a[0] if a else None, "model": m[0] if isinstance(m, list) and m else None}

    model_results, nbad = correspondence(
        chk, "c12", cases, impl_results, tagger,
        describe=lambda c, a, m: "%s impl=%r model=%r" % (describe_case(c), a, m),
        oracle_failed=lambda i: i in oracle_bad)

    phase["model_run"] = round(time.time() - chk.t0, 1)
    # the same split cases on real Windows + Screen (non-empty regions)
    split_idx = [i for i, c in enumerate(cases) if c[0] in SPLIT_OPS and impl_results[i][0] in (0, 1)]
    k = 1500 if chk.tier == "thorough" else 250
    nreal = 0
    for i in chk.rng.sample(split_idx, min(k, len(split_idx))):
        try:
            r = sx_norm(canon_split(impl_split_real(cases[i])))
        except Exception as e:      # noqa: BLE001 - a crash of the real objects is a verdict too
            r = [7, type(e).__name__]
        exp = project_nonempty(model_results[i])
        nreal += 1
        if r != exp:
            chk.violation("correspondence", "real Window children: %s impl=%r model=%r" % (describe_case(cases[i]), r, exp),
                          {"kind": "correspondence", "op": "split-real-windows"},
                          {"case": cases[i], "impl": r, "model": exp}, no_input=i not in oracle_bad)
    chk.coverage["real_window_cases"] = nreal

    phase["real_windows"] = round(time.time() - chk.t0, 1)
    kk = 1200 if chk.tier == "thorough" else 300
    idx = sorted(chk.rng.sample(range(len(cases)), min(kk, len(cases))))
    pairs = [(cases[i], impl_results[i]) for i in idx]
    bad, logs = vm_crosscheck(PROP, "run_C12", "Model.C12_Layout", pairs)
    chk.coverage["vm_compute_crosschecked"] = len(pairs)
    model_bad = set(i for i, (a, m) in enumerate(zip(impl_results, model_results)) if sx_norm(a) != m)
    vm_bad = set(idx[b] for b in bad if isinstance(b, int))
    if any(not isinstance(b, int) for b in bad):
        chk.violation("tie", "vm_compute cross-check failed to run: " + (logs[0] if logs else ""), {"kind": "vm"}, {"log": logs}, no_input=True)
    if vm_bad != (model_bad & set(idx)):
        chk.violation("tie", "extracted model and in-Coq evaluation disagree on cases %r" % sorted(vm_bad ^ (model_bad & set(idx)))[:5],
                      {"kind": "extraction"}, {"cases": [cases[i] for i in sorted(vm_bad ^ (model_bad & set(idx)))[:5]]}, no_input=True)

    phase["vm_crosscheck"] = round(time.time() - chk.t0, 1)
    chk.coverage["cumulative_phase_seconds"] = phase
    proof_gate(chk, pr)
    chk.coverage["rule"] = ("case = (orientation, app.is_done, alignment, padding, child Dimension arguments, available size) run on a real "
                            "HSplit/VSplit (_divide_heights/_divide_widths, then write_to_screen with recording children) and on the Coq model; "
                            "exhaustive child lists over (min,pref,max) from {0,1,2,5,inf} x weight {0,1,2} x avail 0..12 x H/V (length <= 1 all, "
                            "length 2 %s, length 3 %s), random alignment/padding, random longer lists, large weights, invalid Dimension arguments, "
                            "sum/max_layout_dimensions and take_using_weights alone; nested HSplit/VSplit trees (exhaustive split-in-split pairs, random depth <= 3) "
                            "drawn by write_to_screen at non-zero offsets and compared region by region, their reported dimensions, renders with align/padding/children "
                            "assigned in between; non-trivial = some child got a positive size or the result is "
                            "too-small/ValueError/hang; distinct by hash of the case" % (
                                "all" if chk.tier == "thorough" else "12%", "2%" if chk.tier == "thorough" else "0.12%"))
    chk.assumptions += [
        "take_using_weights compares `taken < i*weight/float(max_weight)`; the model compares taken*max_weight < i*weight exactly; proved equal for IEEE binary64 when i*weight < 2**53 and max_weight < 2**53 (C12_float_compare_exact, Flocq); CPython's int/float division and int<float comparison are assumed to be the IEEE operations (probed on this run); beyond 2**53 no agreement is claimed",
        "split.align / split.padding assigned after construction are modelled as the code behaves (read on a cache miss only: C12_align_padding_from_last_miss, family align_padding_assigned_later); the stale rendering is recorded as an API observation, not as a violation of C12",
        "nested layouts: leaves are stub containers reporting a fixed (width, height) requirement that does not depend on the width offered (a wrapping Window would); every padding/alignment/remaining-space Window records its WritePosition instead of painting",
        "a hang would be observed as: more than 2*fuel+1 items pulled from the real generator (fuel = divide_fuel, the proven per-loop bound; 4000 for the large-weight cases) or the 2 s watchdog; such cases are re-run on the untouched generator under the plain 2 s watchdog",
        "children are stub containers reporting a fixed Dimension (and real Window(height=/width=) children on a sample); get_app() is replaced by a stand-in with a controllable is_done; Window contents (C11) are outside",
        "the dimensions children report are constant during one divide call"]
    return chk.finish()


def replay(data):
    _install_hooks()
    rep = data["replay"]
    case = rep["case"]
    res, info, bad = run_impl(case)
    print(describe_case(case))
    print("implementation ->", res, "(0 sizes+regions, 1 too small, 2 ValueError, 3 hang, 4/5 Dimension() raised)")
    if case[0] in SPLIT_OPS and res == [3]:
        print("untouched generator under the plain 2 s watchdog:", "hangs" if confirm_hang(case) else "returns")
    print("ORACLE FAILS: %s [%s]" % bad if bad else "oracle ok")
    m = run_model("c12", [case])[0]
    print("model agrees" if m == sx_norm(res) else "model differs: %r" % (m,))
    return 1 if bad else 0


LY.bind(sys.modules[__name__])
