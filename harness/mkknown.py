#!/usr/bin/env python3
"""Assemble known_findings.json from known_findings.d/*.json (never run by a check)."""
import glob, json, os
V = os.path.dirname(os.path.dirname(os.path.abspath(__file__)))
findings, fixed = [], []
for p in sorted(glob.glob(os.path.join(V, "known_findings.d", "*.json"))):
    d = json.load(open(p))
    findings += d.get("findings", [])
    fixed += d.get("fixed", [])
out = {"_comment": "Committed list of genuine defects of /repo found by the checks. 'known' entries are reported as KNOWN-FINDING and do not fail the check (matched by tags, so a different violation of the same property is still reported); 'fixed' entries suppress nothing. Assembled from known_findings.d/ by harness/mkknown.py; never written at run time.",
       "findings": findings, "fixed": fixed}
json.dump(out, open(os.path.join(V, "known_findings.json"), "w"), indent=1)
print("known_findings.json: %d findings, %d fixed" % (len(findings), len(fixed)))
