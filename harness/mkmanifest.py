#!/usr/bin/env python3
"""Assemble MANIFEST.json from manifest.d/*.json (one fragment per claimed
property) and manifest.d/not_applicable.json."""
import glob, json, os
V = os.path.dirname(os.path.dirname(os.path.abspath(__file__)))
# only checks the coordinator has run and accepted are claimed (manifest.d/ENABLED)
enabled = set(open(os.path.join(V, "manifest.d", "ENABLED")).read().split())
checks = []
for p in sorted(glob.glob(os.path.join(V, "manifest.d", "C*.json"))):
    if os.path.basename(p)[:-5] in enabled:
        checks.append(json.load(open(p)))
claimed = {c["property_id"] for c in checks}
na_path = os.path.join(V, "manifest.d", "not_applicable.json")
na = json.load(open(na_path)) if os.path.exists(na_path) else {}
props = [json.loads(l)["id"] for l in open(os.path.join(V, "properties.jsonl"))]
not_applicable = []
for pid in props:
    if pid not in claimed:
        not_applicable.append({"property_id": pid, "reason": na.get(pid, "check not built yet in this round; design in DESIGN.md section 6 %s" % pid)})
m = {
 "version": 1,
 "setup_cmd": "./check --setup",
 "hooks": {"guard": "PROMPT_TOOLKIT_VERIF", "enable": "no hooks exist: checks drive /repo/src unmodified via PYTHONPATH=/repo/src",
           "baseline_off_cmd": "cd /repo && /venv/bin/python -m pytest -ra -q -p no:cacheprovider --timeout=900 --continue-on-collection-errors",
           "source_commits": [], "add_only": True},
 "engines": [{"name": "coq-model+correspondence", "path": "/verif/check",
              "serves_properties": sorted(claimed),
              "kind_free_text": "Coq 8.16.1 development (coq/) with property theorems in coq/Props; tables regenerated from /repo (gen/gen_tables.py); hand models tied by a differential correspondence run (harness/) through the extracted OCaml model and in-Coq vm_compute"}],
 "checks": checks,
 "notes": "All checks: ./check <id> quick|thorough. VERIF_SEED selects the random stream. See DESIGN.md.",
 "not_applicable": not_applicable,
}
json.dump(m, open(os.path.join(V, "MANIFEST.json"), "w"), indent=1)
print("MANIFEST.json: %d checks, %d not_applicable" % (len(checks), len(not_applicable)))
