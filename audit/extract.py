#!/usr/bin/env python3
"""extract.py <task-output.jsonl> <Cxx>: save the auditor's final message as Cxx.md"""
import json, sys
last = None
for line in open(sys.argv[1]):
    try: o = json.loads(line)
    except Exception: continue
    m = o.get("message") or {}
    if m.get("role") == "assistant":
        for c in m.get("content") or []:
            if isinstance(c, dict) and c.get("type") == "text" and len(c["text"]) > 400:
                last = c["text"]
open(sys.argv[2] + ".md", "w").write("# Audit of %s (independent, read-only)\n\n%s\n" % (sys.argv[2], last))
print(sys.argv[2], len(last or ""))
