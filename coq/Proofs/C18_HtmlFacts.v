(* C18 - facts about html_escape and the HTML machine (Model/C18_Html.v). *)
From Coq Require Import ZArith List Bool Lia.
From PTK Require Import Lib.Sx Lib.Py Gen.Whitespace Model.C18_Fragments Model.C18_Ansi Model.C18_Html.
Import ListNotations.
Open Scope Z_scope.

(* ---------------------------------------------------------------------- *)
(* html_escape, character by character *)

(* what one character of the value becomes *)
Definition esc1 (k : cfg) (c : Z) : str :=
  if c =? AMP then e_amp else if c =? LT then e_lt else if c =? GT then e_gt
  else if c =? DQ then e_quot
  else if (c =? SQ) && cfg_html_apos k then e_apos
  else if (c =? 13) && cfg_html_cr k then e_cr
  else if cfg_html_xmlsafe k && negb (xml_char c) then [QM] else [c].

(* the character that escaping + entity decoding delivers as data *)
Definition dat (k : cfg) (c : Z) : Z :=
  if cfg_html_xmlsafe k && negb (xml_char c) then QM else c.

Lemma replace1_app c rep a b : replace1 c rep (a ++ b) = replace1 c rep a ++ replace1 c rep b.
Proof. unfold replace1. apply flat_map_app. Qed.

Lemma html_escape_app k a b : html_escape k (a ++ b) = html_escape k a ++ html_escape k b.
Proof.
  unfold html_escape.
  destruct (cfg_html_apos k); destruct (cfg_html_xmlsafe k); destruct (cfg_html_cr k);
    rewrite ?map_app, ?replace1_app; reflexivity.
Qed.

Lemma html_escape_one k c : html_escape k [c] = esc1 k c.
Proof.
  unfold esc1.
  destruct (c =? AMP) eqn:E1.
  { apply Z.eqb_eq in E1. subst c. destruct k as [a b [] [] e f g []]; reflexivity. }
  destruct (c =? LT) eqn:E2.
  { apply Z.eqb_eq in E2. subst c. destruct k as [a b [] [] e f g []]; reflexivity. }
  destruct (c =? GT) eqn:E3.
  { apply Z.eqb_eq in E3. subst c. destruct k as [a b [] [] e f g []]; reflexivity. }
  destruct (c =? DQ) eqn:E4.
  { apply Z.eqb_eq in E4. subst c. destruct k as [a b [] [] e f g []]; reflexivity. }
  destruct (c =? SQ) eqn:E5.
  { apply Z.eqb_eq in E5. subst c. destruct k as [a b [] [] e f g []]; reflexivity. }
  destruct (c =? 13) eqn:E6.
  { apply Z.eqb_eq in E6. subst c. destruct k as [a b [] [] e f g []]; reflexivity. }
  cbn [andb].
  assert (Hplain : forall (ap cr : bool) (d : Z),
             (d =? AMP) = false -> (d =? LT) = false -> (d =? GT) = false -> (d =? DQ) = false ->
             (d =? SQ) = false -> (d =? 13) = false ->
             (if cr then replace1 13 e_cr
                (if ap then replace1 SQ e_apos
                              (replace1 DQ e_quot (replace1 GT e_gt (replace1 LT e_lt (replace1 AMP e_amp [d]))))
                 else replace1 DQ e_quot (replace1 GT e_gt (replace1 LT e_lt (replace1 AMP e_amp [d]))))
              else (if ap then replace1 SQ e_apos
                              (replace1 DQ e_quot (replace1 GT e_gt (replace1 LT e_lt (replace1 AMP e_amp [d]))))
                    else replace1 DQ e_quot (replace1 GT e_gt (replace1 LT e_lt (replace1 AMP e_amp [d])))))
             = [d]).
  { intros ap cr d D1 D2 D3 D4 D5 D6. unfold replace1. cbn [flat_map app]. rewrite D1. cbn [flat_map app].
    rewrite D2. cbn [flat_map app]. rewrite D3. cbn [flat_map app]. rewrite D4.
    destruct ap, cr; cbn [flat_map app]; rewrite ?D5; cbn [flat_map app]; rewrite ?D6; reflexivity. }
  unfold html_escape. cbn zeta.
  destruct (cfg_html_xmlsafe k); cbn [andb map].
  - destruct (xml_char c); cbn [negb].
    + now apply Hplain.
    + now apply Hplain.
  - now apply Hplain.
Qed.

Theorem html_escape_flat k v : html_escape k v = flat_map (esc1 k) v.
Proof.
  induction v as [|c r IH]; [destruct k as [a b [] [] e f g []]; reflexivity|].
  change (c :: r) with ([c] ++ r). rewrite html_escape_app, html_escape_one, IH. reflexivity.
Qed.

(* no markup character survives escaping: no LT, no double quote, and (when
   the apostrophe is escaped too) no apostrophe *)
Lemma esc1_no_markup k c : forallb (fun x => negb ((x =? LT) || (x =? DQ))) (esc1 k c) = true.
Proof.
  unfold esc1.
  destruct (c =? AMP); [reflexivity|]. destruct (c =? LT) eqn:E2; [reflexivity|].
  destruct (c =? GT); [reflexivity|]. destruct (c =? DQ) eqn:E4; [reflexivity|].
  destruct ((c =? SQ) && cfg_html_apos k); [reflexivity|].
  destruct ((c =? 13) && cfg_html_cr k); [reflexivity|].
  destruct (cfg_html_xmlsafe k && negb (xml_char c)); [reflexivity|].
  cbn [forallb]. now rewrite E2, E4.
Qed.

Theorem html_escape_no_markup k v :
  forallb (fun x => negb ((x =? LT) || (x =? DQ))) (html_escape k v) = true.
Proof.
  rewrite html_escape_flat. induction v as [|c r IH]; [reflexivity|].
  cbn [flat_map]. rewrite forallb_app, esc1_no_markup, IH. reflexivity.
Qed.

Theorem html_escape_no_apos_repaired k v :
  cfg_html_apos k = true -> mem_Z SQ (html_escape k v) = false.
Proof.
  intros Hk. rewrite html_escape_flat. induction v as [|c r IH]; [reflexivity|].
  cbn [flat_map]. assert (H : mem_Z SQ (esc1 k c) = false).
  { unfold esc1. rewrite Hk.
    destruct (c =? AMP); [reflexivity|]. destruct (c =? LT); [reflexivity|].
    destruct (c =? GT); [reflexivity|]. destruct (c =? DQ); [reflexivity|].
    destruct (c =? SQ) eqn:E5; [reflexivity|]. cbn [andb].
    destruct ((c =? 13) && cfg_html_cr k); [reflexivity|].
    destruct (cfg_html_xmlsafe k && negb (xml_char c)); [reflexivity|].
    cbn [mem_Z]. now rewrite E5. }
  revert H IH. generalize (esc1 k c) as a, (flat_map (esc1 k) r) as b.
  induction a as [|x a IHa]; intros b Ha Hb; [exact Hb|].
  cbn [app mem_Z] in *. apply orb_false_iff in Ha. destruct Ha as [Hx Ha].
  rewrite Hx. cbn [orb]. now apply IHa.
Qed.

(* ---------------------------------------------------------------------- *)
(* the machine *)

Lemma hrun_app k : forall a h b,
  hrun k h (a ++ b) = match hrun k h a with Ok h' => hrun k h' b | Err e => Err e end.
Proof.
  induction a as [|c r IH]; intros h b; [reflexivity|].
  cbn [app hrun]. destruct (hstep k h c) as [h'|e]; [apply IH | reflexivity].
Qed.

Lemma set_hmode_twice h m1 m2 : set_hmode (set_hmode h m1) m2 = set_hmode h m2.
Proof. reflexivity. Qed.

Ltac open_hst h Hm Hs :=
  destruct h as [m stk nms fgs bgs out verr rd]; cbn [h_mode h_stack] in Hm, Hs; subst m;
  destruct stk as [|fr stk]; [congruence|].

(* the five entities in character data *)
Lemma text_entity k h acc cr rb c :
  h_mode h = HText acc cr rb -> h_stack h <> [] ->
  (c = AMP \/ c = LT \/ c = GT \/ c = DQ \/ c = SQ) ->
  hrun k h (if c =? AMP then e_amp else if c =? LT then e_lt else if c =? GT then e_gt
            else if c =? DQ then e_quot else e_apos)
  = Ok (set_hmode h (HText (acc ++ [c]) false 0)).
Proof.
  intros Hm Hs Hc. open_hst h Hm Hs.
  destruct Hc as [->|[->|[->|[->| ->]]]]; reflexivity.
Qed.

(* an ordinary character in character data *)
Lemma text_plain k h acc rb d :
  h_mode h = HText acc false rb -> h_stack h <> [] ->
  xml_char d = true -> (d =? LT) = false -> (d =? AMP) = false -> (d =? 13) = false -> (d =? GT) = false ->
  exists rb', hstep k h d = Ok (set_hmode h (HText (acc ++ [d]) false rb')).
Proof.
  intros Hm Hs Hx H1 H2 H3 H4. open_hst h Hm Hs.
  unfold hstep. rewrite Hx. cbn [negb h_mode h_stack]. rewrite H1, H2, H3.
  destruct (d =? 10) eqn:E10; [apply Z.eqb_eq in E10; subst d; eexists; reflexivity|].
  destruct (d =? 93); [eexists; reflexivity|].
  rewrite H4. cbn [andb]. eexists; reflexivity.
Qed.

Definition ok_text_char (k : cfg) (c : Z) : Prop := xml_char (dat k c) = true /\ c <> 13.

Lemma esc1_cases k c : c <> 13 ->
  (esc1 k c = (if c =? AMP then e_amp else if c =? LT then e_lt else if c =? GT then e_gt
               else if c =? DQ then e_quot else e_apos)
   /\ (c = AMP \/ c = LT \/ c = GT \/ c = DQ \/ c = SQ))
  \/ (esc1 k c = [dat k c] /\ (c =? AMP) = false /\ (c =? LT) = false /\ (c =? GT) = false /\ (c =? DQ) = false
      /\ ((c =? SQ) = false \/ cfg_html_apos k = false)).
Proof.
  intros H13. apply Z.eqb_neq in H13. unfold esc1, dat. rewrite H13. cbn [andb].
  destruct (c =? AMP) eqn:E1. { left. split; [reflexivity|]. apply Z.eqb_eq in E1. tauto. }
  destruct (c =? LT) eqn:E2. { left. split; [reflexivity|]. apply Z.eqb_eq in E2. tauto. }
  destruct (c =? GT) eqn:E3. { left. split; [reflexivity|]. apply Z.eqb_eq in E3. tauto. }
  destruct (c =? DQ) eqn:E4. { left. split; [reflexivity|]. apply Z.eqb_eq in E4. tauto. }
  destruct (c =? SQ) eqn:E5.
  - destruct (cfg_html_apos k) eqn:Ek; cbn [andb].
    + left. split; [reflexivity|]. apply Z.eqb_eq in E5. tauto.
    + right. destruct (cfg_html_xmlsafe k && negb (xml_char c)); tauto.
  - cbn [andb]. right. destruct (cfg_html_xmlsafe k && negb (xml_char c)); tauto.
Qed.

Lemma dat_not k c x :
  xml_char x = true -> (c =? x) = false -> (dat k c =? x) = false \/ dat k c = QM.
Proof. unfold dat. destruct (cfg_html_xmlsafe k && negb (xml_char c)); tauto. Qed.

(* Character data.  A machine inside an element, between tokens, fed the
   escaped value, consumes all of it as data of the text node under
   construction: same stacks, same output so far, no markup state entered. *)
Theorem html_text_inert k : forall v h acc rb,
  h_mode h = HText acc false rb -> h_stack h <> [] ->
  Forall (ok_text_char k) v ->
  exists rb', hrun k h (html_escape k v) = Ok (set_hmode h (HText (acc ++ map (dat k) v) false rb')).
Proof.
  induction v as [|c r IH]; intros h acc rb Hm Hs Hv.
  - exists rb. rewrite html_escape_flat. cbn [flat_map hrun map]. rewrite app_nil_r.
    destruct h; cbn in Hm; subst; reflexivity.
  - inversion Hv as [|? ? [Hx H13] Hr]; subst.
    change (c :: r) with ([c] ++ r). rewrite html_escape_app, html_escape_one, hrun_app.
    assert (Hstep : exists rb1, hrun k h (esc1 k c) = Ok (set_hmode h (HText (acc ++ [dat k c]) false rb1))).
    { destruct (esc1_cases k c H13) as [[He Hc]|(He & E1 & E2 & E3 & E4 & E5)].
      - rewrite He. exists 0. rewrite (text_entity k h acc false rb c Hm Hs Hc).
        assert (Hd : dat k c = c).
        { unfold dat. destruct Hc as [->|[->|[->|[->| ->]]]]; cbn; now rewrite andb_false_r. }
        now rewrite Hd.
      - rewrite He. cbn [hrun].
        assert (Hq : (dat k c =? LT) = false /\ (dat k c =? AMP) = false /\ (dat k c =? 13) = false
                     /\ (dat k c =? GT) = false).
        { unfold dat in *. destruct (cfg_html_xmlsafe k && negb (xml_char c)).
          - repeat split; reflexivity.
          - repeat split; try assumption. now apply Z.eqb_neq. }
        destruct Hq as (Q1 & Q2 & Q3 & Q4).
        destruct (text_plain k h acc rb (dat k c) Hm Hs Hx Q1 Q2 Q3 Q4) as [rb1 ->].
        now exists rb1. }
    destruct Hstep as [rb1 ->].
    destruct (IH (set_hmode h (HText (acc ++ [dat k c]) false rb1)) (acc ++ [dat k c]) rb1
                eq_refl Hs Hr) as [rb' ->].
    exists rb'. rewrite set_hmode_twice. cbn [map]. now rewrite <- app_assoc.
Qed.

(* ---------------------------------------------------------------------- *)
(* attribute values *)

Lemma attr_entity k h nm ats an q acc cr c :
  h_mode h = HAttrVal nm ats an q acc cr -> (q = DQ \/ q = SQ) ->
  (c = AMP \/ c = LT \/ c = GT \/ c = DQ \/ c = SQ) ->
  hrun k h (if c =? AMP then e_amp else if c =? LT then e_lt else if c =? GT then e_gt
            else if c =? DQ then e_quot else e_apos)
  = Ok (set_hmode h (HAttrVal nm ats an q (acc ++ [c]) false)).
Proof.
  intros Hm Hq Hc. destruct h as [m stk nms fgs bgs out verr rd]; cbn [h_mode] in Hm; subst m.
  destruct Hq as [-> | ->]; destruct Hc as [->|[->|[->|[->| ->]]]]; reflexivity.
Qed.

Lemma attr_plain k h nm ats an q acc d :
  h_mode h = HAttrVal nm ats an q acc false ->
  xml_char d = true -> (d =? q) = false -> (d =? LT) = false -> (d =? AMP) = false ->
  (d =? 13) = false -> (d =? 10) = false -> (d =? 9) = false ->
  hstep k h d = Ok (set_hmode h (HAttrVal nm ats an q (acc ++ [d]) false)).
Proof.
  intros Hm Hx H0 H1 H2 H3 H4 H5.
  destruct h as [m stk nms fgs bgs out verr rd]; cbn [h_mode] in Hm; subst m.
  unfold hstep. rewrite Hx. cbn [negb h_mode]. now rewrite H0, H1, H2, H3, H4, H5.
Qed.

Definition ok_attr_char (k : cfg) (c : Z) : Prop :=
  xml_char (dat k c) = true /\ c <> 13 /\ c <> 10 /\ c <> 9.

(* An attribute value.  Inside a double-quoted value (or a single-quoted one
   once ' is escaped) the escaped value is consumed as part of that attribute's
   value: the quote is not closed, no attribute is added. *)
Theorem html_attr_inert k nm ats an q : forall v h acc,
  h_mode h = HAttrVal nm ats an q acc false ->
  (q = DQ \/ (q = SQ /\ cfg_html_apos k = true)) ->
  Forall (ok_attr_char k) v ->
  hrun k h (html_escape k v) = Ok (set_hmode h (HAttrVal nm ats an q (acc ++ map (dat k) v) false)).
Proof.
  induction v as [|c r IH]; intros h acc Hm Hq Hv.
  - rewrite html_escape_flat. cbn [flat_map hrun map]. rewrite app_nil_r.
    destruct h; cbn in Hm; subst; reflexivity.
  - inversion Hv as [|? ? (Hx & H13 & H10 & H9) Hr]; subst.
    change (c :: r) with ([c] ++ r). rewrite html_escape_app, html_escape_one, hrun_app.
    assert (Hq' : q = DQ \/ q = SQ) by tauto.
    assert (Hstep : hrun k h (esc1 k c) = Ok (set_hmode h (HAttrVal nm ats an q (acc ++ [dat k c]) false))).
    { destruct (esc1_cases k c H13) as [[He Hc]|(He & E1 & E2 & E3 & E4 & E5)].
      - rewrite He. rewrite (attr_entity k h nm ats an q acc false c Hm Hq' Hc).
        assert (Hd : dat k c = c).
        { unfold dat. destruct Hc as [->|[->|[->|[->| ->]]]]; cbn; now rewrite andb_false_r. }
        now rewrite Hd.
      - rewrite He. cbn [hrun].
        assert (Hn : (dat k c =? q) = false /\ (dat k c =? LT) = false /\ (dat k c =? AMP) = false
                     /\ (dat k c =? 13) = false /\ (dat k c =? 10) = false /\ (dat k c =? 9) = false).
        { unfold dat in *. destruct (cfg_html_xmlsafe k && negb (xml_char c)).
          - destruct Hq as [-> | [-> _]]; repeat split; reflexivity.
          - repeat split; try assumption; try (now apply Z.eqb_neq).
            destruct Hq as [-> | [-> Hk]]; [assumption|].
            destruct E5 as [E5|E5]; [assumption | congruence]. }
        destruct Hn as (N0 & N1 & N2 & N3 & N4 & N5).
        now rewrite (attr_plain k h nm ats an q acc (dat k c) Hm Hx N0 N1 N2 N3 N4 N5). }
    rewrite Hstep.
    rewrite (IH (set_hmode h (HAttrVal nm ats an q (acc ++ [dat k c]) false)) (acc ++ [dat k c])
               eq_refl Hq Hr).
    rewrite set_hmode_twice. cbn [map]. now rewrite <- app_assoc.
Qed.

(* after the repairs every value is acceptable (no side condition on XML's Char) *)
Lemma dat_xml_repaired k c : cfg_html_xmlsafe k = true -> xml_char (dat k c) = true.
Proof.
  intros Hk. unfold dat. rewrite Hk. cbn [andb]. destruct (xml_char c) eqn:E; [exact E | reflexivity].
Qed.

(* ---------------------------------------------------------------------- *)
(* the code as it stands *)

Definition S_style_fg_sq : str :=   (* <style fg=' *)
  [60; 115; 116; 121; 108; 101; 32; 102; 103; 61; 39].
Definition S_style_fg_dq : str :=   (* style start tag up to the opening double quote of fg *)
  [60; 115; 116; 121; 108; 101; 32; 102; 103; 61; 34].
Definition S_x_end_sq : str :=      (* '>x</style> *)
  [39; 62; 120; 60; 47; 115; 116; 121; 108; 101; 62].
Definition S_x_end_dq : str :=      (* closing double quote, end of tag, x, end tag *)
  [34; 62; 120; 60; 47; 115; 116; 121; 108; 101; 62].
Definition S_red_bg_blue : str :=   (* red' bg='blue *)
  [114; 101; 100; 39; 32; 98; 103; 61; 39; 98; 108; 117; 101].
Definition S_fg_red_bg_blue : str := (* fg:red bg:blue *)
  [102; 103; 58; 114; 101; 100; 32; 98; 103; 58; 98; 108; 117; 101].
Definition S_red_nbsp_bold : str := (* red<NBSP>bold *)
  [114; 101; 100; 160; 98; 111; 108; 100].

(* F10: the value closes the single-quoted attribute and adds bg *)
Theorem html_attr_inert_single_quote_refuted :
  html_template cfg_pinned [S_style_fg_sq; S_x_end_sq] [S_red_bg_blue]
  = Ok [mkfrag S_fg_red_bg_blue [120] []].
Proof. vm_compute. reflexivity. Qed.

Example html_attr_single_quote_repaired_example :
  html_template cfg_now [S_style_fg_sq; S_x_end_sq] [S_red_bg_blue] = Err 1.
  (* fg is the whole value; it contains a space: the documented ValueError *)
Proof. vm_compute. reflexivity. Qed.

(* F8: a value character outside XML's Char makes the call raise *)
Theorem html_text_value_raises_refuted :
  html_template cfg_pinned [[60; 105; 62]; [60; 47; 105; 62]] [[27; 91; 48; 109]] = Err 2.
Proof. vm_compute. reflexivity. Qed.

Example html_text_value_repaired_example :
  html_template cfg_now [[60; 105; 62]; [60; 47; 105; 62]] [[27; 91; 48; 109]]
  = Ok [mkfrag [99; 108; 97; 115; 115; 58; 105] [63; 91; 48; 109] []].
Proof. vm_compute. reflexivity. Qed.

(* the fg/bg guard lets a no-break space through: the style string gets a second word *)
Theorem html_attr_space_guard_refuted :
  html_template cfg_pinned [S_style_fg_dq; S_x_end_dq] [S_red_nbsp_bold]
  = Ok [mkfrag ([102; 103; 58] ++ S_red_nbsp_bold) [120] []].
Proof. vm_compute. reflexivity. Qed.

Example html_attr_space_guard_repaired_example :
  html_template cfg_now [S_style_fg_dq; S_x_end_dq] [S_red_nbsp_bold] = Err 1.
Proof. vm_compute. reflexivity. Qed.

(* hypotheses of the inertness theorems are satisfiable *)
Example html_text_inert_example :
  exists h acc rb, hrun cfg_pinned hst0 (t_open_root ++ [60; 98; 62; 97]) = Ok h /\
                   h_mode h = HText acc false rb /\ h_stack h <> [].
Proof. eexists. eexists. eexists. split; [vm_compute; reflexivity|]. split; [reflexivity | discriminate]. Qed.

Example html_attr_inert_example :
  exists h acc, hrun cfg_pinned hst0 (t_open_root ++ S_style_fg_dq) = Ok h /\
                h_mode h = HAttrVal n_style [] n_fg DQ acc false.
Proof. eexists. eexists. split; [vm_compute; reflexivity | reflexivity]. Qed.

(* ---------------------------------------------------------------------- *)
(* The code that is in /repo now (cfg_now): no side condition on XML's Char,
   both quote styles. *)

Theorem html_escape_no_apos_now v : mem_Z SQ (html_escape cfg_now v) = false.
Proof. exact (html_escape_no_apos_repaired cfg_now v eq_refl). Qed.

Theorem html_text_inert_now v h acc rb :
  h_mode h = HText acc false rb -> h_stack h <> [] ->
  ~ In 13 v ->
  exists rb', hrun cfg_now h (html_escape cfg_now v)
              = Ok (set_hmode h (HText (acc ++ map (dat cfg_now) v) false rb')).
Proof.
  intros Hm Hs Hv. apply (html_text_inert cfg_now v h acc rb Hm Hs).
  apply Forall_forall. intros c Hc. split.
  - now apply dat_xml_repaired.
  - intros ->. contradiction.
Qed.

Theorem html_attr_inert_now nm ats an q v h acc :
  h_mode h = HAttrVal nm ats an q acc false ->
  (q = DQ \/ q = SQ) ->
  (forall c, In c v -> c <> 13 /\ c <> 10 /\ c <> 9) ->
  hrun cfg_now h (html_escape cfg_now v)
  = Ok (set_hmode h (HAttrVal nm ats an q (acc ++ map (dat cfg_now) v) false)).
Proof.
  intros Hm Hq Hv. apply (html_attr_inert cfg_now nm ats an q v h acc Hm).
  - destruct Hq as [Hq|Hq]; [now left | right; split; [assumption | reflexivity]].
  - apply Forall_forall. intros c Hc. split; [now apply dat_xml_repaired | now apply Hv].
Qed.

(* the fg/bg guard: a value it lets through contains no str.isspace character *)
Theorem html_space_guard_now v :
  has_space cfg_now v = false ->
  forall c, In c v -> mem_Z c Gen.Whitespace.py_isspace_table = false.
Proof.
  unfold has_space. cbn [cfg_attr_isspace cfg_now]. intros H c Hc.
  destruct (mem_Z c Gen.Whitespace.py_isspace_table) eqn:E; [|reflexivity].
  assert (Hx : existsb (fun c0 => mem_Z c0 Gen.Whitespace.py_isspace_table) v = true).
  { apply existsb_exists. exists c. now split. }
  congruence.
Qed.
