(* Round 6: exact effect of transpose-chars (every position) and of
   join_selected_lines (every selection inside the text); what str.splitlines
   keeps of the selection. *)
From Coq Require Import ZArith List Bool Lia.
From PTK Require Import Lib.Sx Lib.Py Lib.PyLines Model.Document Model.BufferEdit
  Proofs.BufferEditFacts Proofs.BufferEditLines.
Import ListNotations.
Open Scope Z_scope.

(* ---------------------------------------------------------------------- *)
(* transpose-chars *)

Lemma index_nth {T} (s : list T) (i : Z) :
  0 <= i < len s -> index s i = nth_error s (Z.to_nat i).
Proof.
  intros H. unfold index. destruct (i <? 0) eqn:E; [lia|].
  destruct ((i <? 0) || (len s <=? i)) eqn:E2; [lia|]. reflexivity.
Qed.

Lemma skipn_nth_cons {T} : forall (s : list T) n y,
  nth_error s n = Some y -> skipn n s = y :: skipn (S n) s.
Proof.
  induction s as [|x s IH]; intros [|n] y H; cbn in *; try discriminate.
  - now injection H as ->.
  - now apply IH.
Qed.

Lemma nth_error_len {T} (s : list T) n y : nth_error s n = Some y -> Z.of_nat n < len s.
Proof. intros H. unfold len. apply Nat2Z.inj_lt. apply nth_error_Some. congruence. Qed.

(* the cursor can step right over a character that is not a line ending *)
Lemma cursor_right_one b y :
  Inv b -> nth_error (btext b) (Z.to_nat (bcur b)) = Some y -> y <> NL ->
  get_cursor_right_position (bdoc b) 1 = 1.
Proof.
  intros [H0 H1] Hy Hn. unfold get_cursor_right_position.
  destruct (1 <? 0) eqn:E; [lia|].
  unfold current_line_after_cursor, text_after_cursor, bdoc; cbn [dtext dcur].
  pose proof (nth_error_len _ _ _ Hy) as Hl. rewrite Z2Nat.id in Hl by lia.
  rewrite slice_from_in_range by lia.
  rewrite (skipn_nth_cons _ _ _ Hy). cbn [before_first].
  destruct (y =? NL) eqn:E2; [lia|]. rewrite len_cons.
  pose proof (len_nonneg (before_first NL (skipn (S (Z.to_nat (bcur b))) (btext b)))). lia.
Qed.

(* Away from the edges: the characters around the cursor are exchanged and
   the cursor steps over them; nothing else changes. *)
Lemma transpose_interior b x y :
  Inv b -> 0 < bcur b ->
  nth_error (btext b) (Z.to_nat (bcur b - 1)) = Some x ->
  nth_error (btext b) (Z.to_nat (bcur b)) = Some y -> y <> NL ->
  transpose_chars b =
  Ok (mkbuf (firstn (Z.to_nat (bcur b - 1)) (btext b) ++ [y; x]
             ++ skipn (Z.to_nat (bcur b + 1)) (btext b)) (bcur b + 1)) [].
Proof.
  intros H Hp Hx Hy Hn. pose proof H as [H0 H1].
  pose proof (nth_error_len _ _ _ Hy) as Hl. rewrite Z2Nat.id in Hl by lia.
  unfold transpose_chars. destruct (bcur b =? 0) eqn:E0; [lia|].
  destruct (bcur b =? len (btext b)) eqn:E1; [lia|].
  rewrite index_nth by lia. rewrite Hy.
  destruct (y =? NL) eqn:E2; [lia|]. cbn [orb].
  rewrite (cursor_right_one b y H Hy Hn).
  rewrite set_cursor_in_range by lia.
  set (b1 := mkbuf (btext b) (bcur b + 1)).
  assert (HI : Inv b1) by (unfold Inv, b1; cbn [btext bcur]; lia).
  pose proof (swap_spec b1 x y HI) as S. unfold b1 in S; cbn [btext bcur] in S.
  replace (bcur b + 1 - 2) with (bcur b - 1) in S by lia.
  replace (bcur b + 1 - 1) with (bcur b) in S by lia.
  apply S; [lia|exact Hx|exact Hy].
Qed.

(* At the end of the text or of a line: the two characters BEFORE the cursor
   are exchanged, the cursor stays. *)
Lemma transpose_eol b x y :
  Inv b -> 2 <= bcur b ->
  (bcur b = len (btext b) \/ nth_error (btext b) (Z.to_nat (bcur b)) = Some NL) ->
  nth_error (btext b) (Z.to_nat (bcur b - 2)) = Some x ->
  nth_error (btext b) (Z.to_nat (bcur b - 1)) = Some y ->
  transpose_chars b =
  Ok (mkbuf (firstn (Z.to_nat (bcur b - 2)) (btext b) ++ [y; x]
             ++ skipn (Z.to_nat (bcur b)) (btext b)) (bcur b)) [].
Proof.
  intros H Hp He Hx Hy. pose proof H as [H0 H1].
  unfold transpose_chars. destruct (bcur b =? 0) eqn:E0; [lia|].
  assert (Hc : (bcur b =? len (btext b))
               || match index (btext b) (bcur b) with Some c => c =? NL | None => false end = true).
  { destruct He as [He|He].
    - rewrite He, Z.eqb_refl. reflexivity.
    - pose proof (nth_error_len _ _ _ He) as Hl. rewrite Z2Nat.id in Hl by lia.
      rewrite index_nth by lia. rewrite He. rewrite Z.eqb_refl. apply orb_true_r. }
  rewrite Hc. now apply swap_spec.
Qed.

(* ... with a single character before the cursor there is nothing to exchange *)
Lemma transpose_eol_one b :
  bcur b = 1 ->
  (bcur b = len (btext b) \/ nth_error (btext b) (Z.to_nat (bcur b)) = Some NL) ->
  transpose_chars b = Ok b [].
Proof.
  intros Hp He. unfold transpose_chars. rewrite Hp in *. change (1 =? 0) with false. cbv iota.
  assert (Hc : (1 =? len (btext b))
               || match index (btext b) 1 with Some c => c =? NL | None => false end = true).
  { destruct He as [He|He].
    - rewrite <- He. reflexivity.
    - pose proof (nth_error_len _ _ _ He) as Hl. rewrite Z2Nat.id in Hl by lia.
      rewrite index_nth by lia. rewrite He. rewrite Z.eqb_refl. apply orb_true_r. }
  rewrite Hc. unfold swap_characters_before_cursor. rewrite Hp. reflexivity.
Qed.

(* ---------------------------------------------------------------------- *)
(* join_selected_lines *)

Lemma len_concat_removelast {T} (ls : list (list T)) :
  len (concat (removelast ls)) <= len (concat ls).
Proof.
  induction ls as [|l ls IH]; [cbn; lia|].
  destruct ls as [|l2 ls].
  - cbn [removelast concat]. rewrite app_nil_r. pose proof (len_nonneg l). cbn. lia.
  - change (removelast (l :: l2 :: ls)) with (l :: removelast (l2 :: ls)).
    cbn [concat] in *. rewrite !len_app in *. lia.
Qed.

(* For every selection inside the text: the text before and after the
   selection is kept, the selection is replaced by its lines (Python's
   splitlines), each stripped of leading blanks and followed by the
   separator; the call never fails; the cursor lands on the character before
   the last joined line (clamped at 0). *)
Lemma join_selected_lines_spec b orig sep :
  Inv b -> 0 <= orig <= len (btext b) ->
  let a := Z.min (bcur b) orig in
  let e := Z.max (bcur b) orig in
  let ls := map (fun l => lstrip_by (Z.eqb SP) l ++ sep)
                (splitlines (firstn (Z.to_nat (e - a)) (skipn (Z.to_nat a) (btext b)))) in
  join_selected_lines b orig sep =
  Ok (mkbuf (firstn (Z.to_nat a) (btext b) ++ concat ls ++ skipn (Z.to_nat e) (btext b))
            (Z.max 0 (a + len (concat (removelast ls)) - 1))) [].
Proof.
  intros [H0 H1] Ho a e ls. unfold join_selected_lines. fold a e.
  assert (Ha : 0 <= a <= e) by (unfold a, e; lia).
  assert (He : e <= len (btext b)) by (unfold e; lia).
  rewrite slice_to_in_range, slice2_in_range, slice_from_in_range by lia.
  fold ls. unfold set_document.
  set (before := firstn (Z.to_nat a) (btext b)).
  assert (Hb : len before = a) by (unfold before; rewrite len_firstn; lia).
  pose proof (len_concat_removelast ls) as Hr.
  pose proof (len_nonneg (skipn (Z.to_nat e) (btext b))) as Hs.
  rewrite !len_app, Hb.
  destruct (a + (len (concat ls) + len (skipn (Z.to_nat e) (btext b)))
            <? a + len (concat (removelast ls)) - 1) eqn:E; [lia|].
  reflexivity.
Qed.

(* What splitlines keeps: the lines, concatenated, are the selection without
   its line boundary characters, in order; no line holds a boundary. *)
Definition not_linebreak (c : Z) : bool := negb (is_linebreak c).

Lemma splitlines_aux_concat : forall s cur ac,
  concat (splitlines_aux s cur ac) = rev cur ++ filter not_linebreak s.
Proof.
  induction s as [|x r IH]; intros cur ac; cbn [splitlines_aux filter].
  - destruct cur as [|c cur']; cbn [concat]; [reflexivity|]. now rewrite !app_nil_r.
  - unfold not_linebreak at 1.
    destruct (ac && (x =? 10)) eqn:E1.
    + apply andb_prop in E1 as [_ E1]. apply Z.eqb_eq in E1. subst x.
      change (is_linebreak 10) with true. cbn [negb]. apply IH.
    + destruct (is_linebreak x) eqn:E2; cbn [negb].
      * cbn [concat]. rewrite IH. reflexivity.
      * rewrite IH. cbn [rev]. now rewrite <- app_assoc.
Qed.

Lemma splitlines_chars s : concat (splitlines s) = filter not_linebreak s.
Proof. unfold splitlines. now rewrite splitlines_aux_concat. Qed.

Lemma splitlines_aux_lines : forall s cur ac,
  forallb not_linebreak cur = true ->
  forallb (forallb not_linebreak) (splitlines_aux s cur ac) = true.
Proof.
  induction s as [|x r IH]; intros cur ac Hc; cbn [splitlines_aux].
  - destruct cur as [|c cur']; [reflexivity|]. cbn [forallb]. rewrite andb_true_r.
    rewrite forallb_forall in *. intros z Hz. apply Hc. now apply in_rev.
  - destruct (ac && (x =? 10)); [now apply IH|].
    destruct (is_linebreak x) eqn:E2.
    + cbn [forallb]. rewrite IH by reflexivity. rewrite andb_true_r.
      rewrite forallb_forall in *. intros z Hz. apply Hc. now apply in_rev.
    + apply IH. cbn [forallb]. unfold not_linebreak at 1. now rewrite E2, Hc.
Qed.

Lemma splitlines_lines s : forallb (forallb not_linebreak) (splitlines s) = true.
Proof. unfold splitlines. now apply splitlines_aux_lines. Qed.
