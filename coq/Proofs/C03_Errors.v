(* C03 - the decoder with the other error handlers (Model/C03_Errors.v):
   "surrogateescape" is the decoder of Model/C03_Vt100Input.v; on well-formed
   UTF-8 the handler makes no difference. *)
From Coq Require Import ZArith List Bool Lia.
From PTK Require Import Model.C03_Vt100Input Model.C03_Utf8Spec Model.C03_Cache Model.C03_Errors
  Proofs.C03_Input Proofs.C03_Utf8.
Import ListNotations.
Open Scope Z_scope.

Definition of_dres (r : dres) : eres := mke (dout r) (dpend r) false (doof r).

Lemma dec_e_fuel_surrogate f : forall bs, dec_e_fuel f ESurrogate bs = of_dres (dec_fuel f bs).
Proof.
  induction f as [|f IH]; intros bs; [reflexivity|]. cbn [dec_e_fuel dec_fuel].
  destruct (step bs) as [cp n| |] eqn:E; try reflexivity.
  destruct (is_err bs n) eqn:X.
  - assert (n = 1%nat) as ->.
    { unfold is_err in X. destruct bs; [discriminate|]. apply andb_true_iff in X. destruct X as [_ X].
      now apply Nat.eqb_eq in X. }
    rewrite IH. reflexivity.
  - rewrite IH. reflexivity.
Qed.

Lemma dec_e_surrogate old bs :
  dec_e ESurrogate old bs = of_dres (dec (old ++ bs)).
Proof. unfold dec_e, dec. rewrite dec_e_fuel_surrogate. reflexivity. Qed.

Lemma wf_not_err cp rest : scalar cp = true -> is_err (encode1 cp ++ rest) (length (encode1 cp)) = false.
Proof.
  intros S. pose proof (scalar_range cp S) as R.
  destruct (Z.lt_ge_cases cp 128); [|destruct (Z.lt_ge_cases cp 2048); [|destruct (Z.lt_ge_cases cp 65536)]].
  - destruct (enc1 cp) as [E _]; [lia|]. rewrite E. cbn [app length is_err].
    replace (128 <=? cp) with false by (symmetry; apply Z.leb_gt; lia). reflexivity.
  - destruct (val2 cp) as (b & b2 & E & _); [lia|]. rewrite E. cbn [app length is_err]. apply andb_false_r.
  - destruct (val3 cp) as (b & b2 & b3 & E & _); [lia|exact S|]. rewrite E. cbn [app length is_err]. apply andb_false_r.
  - destruct (val4 cp) as (b & b2 & b3 & b4 & E & _); [lia|]. rewrite E. cbn [app length is_err]. apply andb_false_r.
Qed.

Lemma encode1_nonempty cp : (1 <= length (encode1 cp))%nat.
Proof. unfold encode1. repeat match goal with |- context [if ?c then _ else _] => destruct c end; cbn [length]; lia. Qed.

Lemma dec_e_fuel_clean m t : forallb scalar t = true -> forall f,
  (length (encode t) < f)%nat -> dec_e_fuel f m (encode t) = mke t [] false false.
Proof.
  induction t as [|cp t IH]; intros H f Hf.
  - destruct f; [lia|]. reflexivity.
  - cbn [forallb] in H. apply andb_true_iff in H. destruct H as [S H].
    destruct f; [lia|]. unfold encode in *. cbn [flat_map] in *. cbn [dec_e_fuel].
    rewrite (step_wf cp _ S), (wf_not_err cp _ S), skipn_app_exact.
    rewrite IH; [reflexivity|exact H|].
    rewrite app_length in Hf. pose proof (encode1_nonempty cp). lia.
Qed.

(* whatever the handler: well-formed text decodes to itself, nothing pending, no exception *)
Lemma dec_e_clean m t : forallb scalar t = true -> dec_e m [] (encode t) = mke t [] false false.
Proof.
  intros H. unfold dec_e. cbn [app]. rewrite dec_e_fuel_clean by (auto; lia). reflexivity.
Qed.

(* the handlers do differ on malformed input: C3 28 *)
Lemma dec_e_modes_differ :
  dec_e ESurrogate [] [195; 40] = mke [56515; 40] [] false false /\
  dec_e EIgnore [] [195; 40] = mke [40] [] false false /\
  dec_e EReplace [] [195; 40] = mke [65533; 40] [] false false /\
  dec_e EStrict [] [195; 40] = mke [] [] true false.
Proof. repeat split; vm_compute; reflexivity. Qed.
