(* ThreadedHistory at thread-switch granularity (Model/C13_ThreadedFine.v):
   safety, progress and the composition with the file over ONE system. *)
From Coq Require Import ZArith List Bool Lia.
From PTK Require Import Lib.Sx Lib.Py Model.C13_Utf8 Model.C13_HistFile Model.C13_Threaded Model.C13_ThreadedEv
  Model.C13_ThreadedFine Proofs.C13_Utf8Facts Proofs.C13_HistFileFacts Proofs.C13_ThreadedFacts
  Proofs.C13_ThreadedEvFacts Proofs.C13_ComposeFacts.
Import ListNotations.
Open Scope Z_scope.

(* ---- what Inv says about one consumer -------------------------------------- *)
Lemma Inv_concl st c :
  Inv st -> In c (t_cons st) ->
  (c_fin c = true -> c_out c = rev (c_start c)) /\
  (c_fin c = false -> pre (c_out c) (rev (c_start c))) /\
  (t_loaded st = true -> t_ls st = rev (t_store st ++ t_fly st)).
Proof.
  intros [Hp Hc] Hin. rewrite Forall_forall in Hc. specialize (Hc c Hin). unfold cinv in Hc.
  split; [|split].
  - intros E. now rewrite E in Hc.
  - intros E. rewrite E in Hc. destruct (t_ph st) as [| |pend|].
    + contradiction.
    + destruct Hc as (-> & _). apply pre_nil.
    + destruct Hc as (V0 & V1 & _ & _ & _ & H & _). exact H.
    + destruct Hc as (V0 & V1 & _ & _ & _ & H & _). exact H.
  - intros El. destruct Hp as [_ Hp]. destruct (t_ph st) as [| |pend|].
    + destruct Hp as (_ & H). congruence.
    + destruct Hp as (_ & _ & H). congruence.
    + destruct Hp as (A & T & _ & _ & _ & H). congruence.
    + destruct Hp as (A & H1 & H2 & _). rewrite H2, H1, <- app_assoc.
      rewrite (rev_app_distr (t_base st)). reflexivity.
Qed.

Lemma cinv_gset_ev st c : cinv st c -> cinv st (gset_ev c).
Proof. unfold cinv, gset_ev. cbn [c_fin c_out c_start c_iy c_p0]. auto. Qed.

Lemma Inv_gset_ev st i : Inv st -> Inv (set_cons st (upd_nth (t_cons st) i gset_ev)).
Proof.
  intros [[Hfl Hp] Hc]. split.
  - split; [exact Hfl|]. unfold set_cons. cbn. destruct (t_ph st); try exact Hp.
    destruct Hp as (E & Hl). rewrite E. cbn. auto.
  - unfold set_cons. cbn [t_cons]. apply Forall_upd_nth.
    + intros c Hci. apply cinv_gset_ev. revert Hci. apply cinv_ext; reflexivity.
    + eapply Forall_impl; [|exact Hc]. intros c. apply cinv_ext; reflexivity.
Qed.

(* ---- the invariant of the fine system --------------------------------------- *)
Definition all_early (r : list (bool * str)) : bool := forallb (fun p => negb (fst p)) r.

Definition GI (gs : gstate) : Prop :=
  t_store (g_st gs) = own_view (g_real gs) /\
  (match t_ph (g_st gs) with P0 | P2 => all_early (g_real gs) = true | _ => True end).

Definition HInv (gs : gstate) : Prop :=
  Forall (fun p => c_fin (snd p) = false /\ pre (c_out (snd p)) (rev (c_start (snd p)))) (g_hold gs).

Definition GInv (gs : gstate) : Prop := Inv (g_st gs) /\ HInv gs.

Lemma own_view_snoc r b s : own_view (r ++ [(b, s)]) = own_view r ++ (if b then [] else [s]).
Proof. unfold own_view. rewrite filter_app, map_app. cbn. destruct b; reflexivity. Qed.

Lemma all_early_snoc r s : all_early r = true -> all_early (r ++ [(false, s)]) = true.
Proof. unfold all_early. rewrite forallb_app. intros ->. reflexivity. Qed.

Lemma own_view_all_early r : all_early r = true -> own_view r = map snd r.
Proof.
  unfold own_view, all_early. induction r as [|[b s] r IH]; [reflexivity|].
  cbn. destruct b; cbn; [discriminate|]. intros H. now rewrite IH.
Qed.

Lemma loader_action_store st : t_store (loader_action st) = t_store st.
Proof. unfold loader_action, tstep. destruct (t_ph st) as [| |[|x r]|]; reflexivity. Qed.

Lemma gstep_GI gs l : GI gs -> GI (gstep gs l).
Proof.
  intros [Hs He]. unfold GI. destruct l as [| |i|i|s|s|s]; cbn [gstep].
  - destruct (g_loop gs) as [| |[|j r]]; cbn [g_st g_real set_cons t_store t_ph]; try (split; assumption).
    split; [now rewrite loader_action_store|].
    unfold loader_action, tstep. destruct (t_ph (g_st gs)) as [| |[|x r]|] eqn:Eph; cbn [t_ph]; rewrite ?Eph; auto.
  - cbn [g_st g_real]. unfold tstep. destruct (t_ph (g_st gs)) eqn:Eph; cbn [t_store t_ph]; rewrite ?Eph; auto.
  - destruct (nth_error (t_cons (g_st gs)) i) as [c|]; [|split; assumption].
    destruct (held (g_hold gs) i); [split; assumption|].
    destruct (c_fin c); [split; assumption|]. cbn [g_st g_real tstep t_store t_ph]. auto.
  - cbn [g_st g_real]. auto.
  - cbn [g_st g_real tstep ains t_store t_ph]. auto.
  - cbn [g_st g_real tstep asto t_store t_ph]. rewrite own_view_snoc, Hs. split; [reflexivity|].
    destruct (t_ph (g_st gs)); auto using all_early_snoc.
  - destruct (t_ph (g_st gs)) eqn:E; cbn [g_st g_real set_store t_store t_ph]; rewrite ?own_view_snoc, ?app_nil_r, ?E;
      (split; [now rewrite ?Hs|]); auto using all_early_snoc.
Qed.

Lemma grun_GI sched : forall gs, GI gs -> GI (grun gs sched).
Proof.
  induction sched as [|l r IH]; intros gs H; [exact H|].
  unfold grun. cbn [fold_left]. apply IH. now apply gstep_GI.
Qed.

Lemma ginit_GI S0 : GI (ginit S0).
Proof.
  unfold GI, ginit, own_view, all_early. cbn. split.
  - induction S0 as [|s r IH]; [reflexivity|]. cbn. now rewrite <- IH.
  - induction S0 as [|s r IH]; [reflexivity|]. cbn. exact IH.
Qed.

Lemma held_in h i c : held h i = Some c -> In (i, c) h.
Proof.
  induction h as [|[j c'] r IH]; [discriminate|]. cbn [held].
  destruct (Nat.eqb j i) eqn:E.
  - apply Nat.eqb_eq in E. subst. intros [= ->]. now left.
  - intros H. right. now apply IH.
Qed.

Lemma held_unhold h i : held (unhold h i) i = None.
Proof.
  induction h as [|[j c'] r IH]; [reflexivity|]. cbn [unhold filter fst].
  destruct (Nat.eqb j i) eqn:E; cbn [negb]; [exact IH|]. cbn [held]. rewrite E. exact IH.
Qed.

Lemma set_store_Inv st s : t_ph st = P0 \/ t_ph st = P2 -> Inv st -> Inv (set_store st s).
Proof.
  intros E [[Hfl Hp] Hc]. destruct E as [E|E]; rewrite E in Hp.
  - destruct Hp as (Hcs & Hl). split.
    + split; [exact Hfl|]. cbn. rewrite E, Hcs. auto.
    + cbn [set_store t_cons]. rewrite Hcs. constructor.
  - destruct Hp as (Hls & Hfly & Hl). split.
    + split; [exact Hfl|]. cbn. rewrite E. auto.
    + cbn [set_store t_cons]. apply Forall_map. eapply Forall_impl; [|exact Hc].
      intros c Hci. unfold cinv, add_start in *. destruct (c_fin c) eqn:Ef.
      * rewrite Ef. exact Hci.
      * cbn [c_fin c_out c_iy c_start c_p0 set_store t_ph t_store t_np]. rewrite E in *.
        destruct Hci as (Ho & Hi & Hs & Hn). rewrite Hs. auto.
Qed.

Lemma gstep_GInv gs l : GInv gs -> gok_label gs l = true -> GInv (gstep gs l).
Proof.
  intros [Hi Hh] Hok. unfold GInv, HInv. destruct l as [| |i|i|s|s|s]; cbn [gstep].
  - destruct (g_loop gs) as [| |[|j r]]; cbn [g_st g_hold]; split; try assumption.
    + now apply Inv_loader_action.
    + now apply Inv_gset_ev.
  - cbn [g_st g_hold]. split; [|exact Hh]. now apply step_inv.
  - destruct (nth_error (t_cons (g_st gs)) i) as [c|] eqn:En; [|split; assumption].
    destruct (held (g_hold gs) i); [split; assumption|].
    destruct (c_fin c) eqn:Ef; [split; assumption|]. cbn [g_st g_hold]. split.
    + now apply step_inv.
    + constructor; [|exact Hh]. cbn [snd]. split; [exact Ef|].
      apply nth_error_In in En. destruct (Inv_concl _ _ Hi En) as (_ & H & _). now apply H.
  - cbn [g_st g_hold]. split; [exact Hi|]. unfold unhold.
    apply Forall_forall. intros p Hp. apply filter_In in Hp as [Hp _]. unfold HInv in Hh.
    rewrite Forall_forall in Hh. now apply Hh.
  - cbn [g_st g_hold]. split; [|exact Hh]. now apply step_inv.
  - cbn [g_st g_hold]. split; [|exact Hh]. now apply step_inv.
  - destruct (t_ph (g_st gs)) eqn:E; cbn [g_st g_hold]; split; try assumption;
      apply set_store_Inv; auto.
Qed.

Lemma gsched_GInv sched : forall gs, GInv gs -> gok_sched gs sched = true -> GInv (grun gs sched).
Proof.
  induction sched as [|l r IH]; intros gs Hi Hok; [exact Hi|].
  cbn [gok_sched] in Hok. apply andb_true_iff in Hok as [H1 H2].
  unfold grun. cbn [fold_left]. apply IH; [now apply gstep_GInv|exact H2].
Qed.

Lemma ginit_GInv S0 : GInv (ginit S0).
Proof. split; [apply init_inv|constructor]. Qed.

(* Safety over the fine system, stated for what the event-loop side SEES of
   every load() (a pending read result not yet delivered): a load() that has
   ended yielded exactly the entries stored or being stored when it started,
   newest first; one that has not, a prefix; once loading is complete the cache
   is the storage as this object knows it (entries another instance stored
   after the loader's read are not in it: [own_view]). *)
Theorem g_exactly_once S0 sched i c :
  gok_sched (ginit S0) sched = true ->
  let gs := grun (ginit S0) sched in
  vis gs i = Some c ->
  (c_fin c = true -> c_out c = rev (c_start c)) /\
  (c_fin c = false -> pre (c_out c) (rev (c_start c))) /\
  (t_loaded (g_st gs) = true -> t_ls (g_st gs) = rev (own_view (g_real gs) ++ t_fly (g_st gs))).
Proof.
  intros Hok gs Hv. destruct (gsched_GInv sched _ (ginit_GInv S0) Hok) as [Hi Hh]. fold gs in Hi, Hh.
  destruct (grun_GI sched _ (ginit_GI S0)) as [Hs _]. fold gs in Hs.
  assert (Hcache : t_loaded (g_st gs) = true -> t_ls (g_st gs) = rev (own_view (g_real gs) ++ t_fly (g_st gs))).
  { intros El. rewrite <- Hs. destruct Hi as [[_ Hp] _]. destruct (t_ph (g_st gs)) as [| |pend|].
    - destruct Hp as (_ & H). congruence.
    - destruct Hp as (_ & _ & H). congruence.
    - destruct Hp as (A & T & _ & _ & _ & H). congruence.
    - destruct Hp as (A & H1 & H2 & _). rewrite H2, H1, <- app_assoc.
      rewrite (rev_app_distr (t_base (g_st gs))). reflexivity. }
  unfold vis in Hv. destruct (held (g_hold gs) i) as [c'|] eqn:Eh.
  - injection Hv as <-. apply held_in in Eh. unfold HInv in Hh. rewrite Forall_forall in Hh.
    destruct (Hh _ Eh) as [Hf Hpre]. cbn [snd] in *. split; [congruence|]. split; [auto|exact Hcache].
  - apply nth_error_In in Hv. destruct (Inv_concl _ _ Hi Hv) as (H1 & H2 & _). auto.
Qed.

(* ---- progress: nobody is left asleep ------------------------------------------ *)
Lemma reg_from_in cs : forall n k h c,
  nth_error cs k = Some c -> c_fin c = false -> In (n + k)%nat (reg_from n h cs).
Proof.
  induction cs as [|c0 cs IH]; intros n k h c Hn Hf; [destruct k; discriminate|].
  cbn [reg_from]. destruct k as [|k].
  - cbn in Hn. injection Hn as ->. rewrite Hf. cbn. left. lia.
  - cbn in Hn. replace (n + S k)%nat with (S n + k)%nat by lia.
    destruct (negb (c_fin c0) || _); [right|]; eapply IH; eauto.
Qed.

Lemma lset_of_in r i : In i r -> exists L, lset_of r = LSet L /\ In i L.
Proof. destruct r; [contradiction|]. intros H. eexists. split; [reflexivity|exact H]. Qed.

Definition Wg (gs : gstate) : Prop :=
  let st := g_st gs in
  (t_ph st = P4 -> t_loaded st = true) /\
  (t_loaded st = true -> t_ph st = P4) /\
  (t_loaded st = true -> forall i c, nth_error (t_cons st) i = Some c -> c_fin c = false ->
     c_ev c = true \/ g_loop gs = LCopy \/ exists L, g_loop gs = LSet L /\ In i L).

Lemma gstep_Wg gs l : Wg gs -> Wg (gstep gs l).
Proof.
  intros (H0 & H1 & H2). destruct l as [| |k|k|s|s|s]; cbn [gstep].
  - destruct (g_loop gs) as [| |[|i r]] eqn:El.
    + (* the locked statement *)
      unfold loader_action. destruct (t_ph (g_st gs)) as [| |[|x r]|] eqn:Eph; cbn [has_loop].
      * unfold Wg. cbn [g_st g_loop]. rewrite Eph. split; [exact H0|]. split; [exact H1|].
        intros Hl j c Hn Hf. destruct (H2 Hl j c Hn Hf) as [H|[H|(L & E & _)]]; auto; discriminate.
      * assert (Hlf : t_loaded (g_st gs) = false).
        { destruct (t_loaded (g_st gs)) eqn:E; [discriminate (H1 eq_refl)|reflexivity]. }
        unfold Wg, tstep. rewrite Eph. cbn [g_st g_loop t_ph t_loaded]. rewrite Hlf.
        split; [discriminate|]. split; discriminate.
      * unfold Wg. cbn [g_st g_loop t_ph t_loaded t_cons]. split; [reflexivity|]. split; [reflexivity|]. auto.
      * assert (Hlf : t_loaded (g_st gs) = false).
        { destruct (t_loaded (g_st gs)) eqn:E; [discriminate (H1 eq_refl)|reflexivity]. }
        unfold Wg. cbn [g_st g_loop t_ph t_loaded]. rewrite Hlf. split; [discriminate|]. split; discriminate.
      * unfold Wg. cbn [g_st g_loop]. rewrite Eph. split; [exact H0|]. split; [exact H1|].
        intros Hl j c Hn Hf. destruct (H2 Hl j c Hn Hf) as [H|[H|(L & E & _)]]; auto; discriminate.
    + (* the copy: every load() that has not finished is registered *)
      unfold Wg. cbn [g_st g_loop]. split; [exact H0|]. split; [exact H1|]. intros Hl j c Hn Hf.
      right. right. apply lset_of_in. unfold reg_ids. apply (reg_from_in _ 0%nat j _ c Hn Hf).
    + unfold Wg. cbn [g_st g_loop]. split; [exact H0|]. split; [exact H1|]. intros Hl j c Hn Hf.
      destruct (H2 Hl j c Hn Hf) as [H|[H|(L & E & Hin)]]; auto; [discriminate|].
      injection E as <-. contradiction.
    + unfold Wg. cbn [g_st g_loop set_cons t_ph t_loaded t_cons]. split; [exact H0|]. split; [exact H1|].
      intros Hl j c Hn Hf. destruct (Nat.eq_dec i j) as [<-|Hne].
      * rewrite nth_error_upd_nth_same in Hn. destruct (nth_error (t_cons (g_st gs)) i) as [c0|]; [|discriminate].
        cbn in Hn. injection Hn as <-. left. reflexivity.
      * rewrite nth_error_upd_nth_other in Hn by exact Hne.
        destruct (H2 Hl j c Hn Hf) as [H|[H|(L & E & Hin)]]; auto; [discriminate|]. injection E as <-.
        destruct Hin as [->|Hin]; [congruence|]. right. right. now apply lset_of_in.
  - (* load() *)
    unfold Wg, tstep. cbn [g_st g_loop].
    destruct (t_ph (g_st gs)) eqn:Eph; cbn [t_ph t_loaded t_cons].
    + split; [discriminate|]. split; [intros Hl; discriminate (H1 Hl)|]. intros Hl. discriminate (H1 Hl).
    + split; [exact H0|]. split; [exact H1|]. intros Hl. discriminate (H1 Hl).
    + split; [exact H0|]. split; [exact H1|]. intros Hl. discriminate (H1 Hl).
    + split; [exact H0|]. split; [exact H1|]. intros Hl j c Hn Hf.
      destruct (Nat.lt_ge_cases j (length (t_cons (g_st gs)))) as [Hlt|Hge].
      * rewrite nth_error_app1 in Hn by exact Hlt. now apply (H2 Hl j c).
      * rewrite nth_error_app2 in Hn by exact Hge.
        destruct (j - length (t_cons (g_st gs)))%nat as [|m]; [|destruct m; discriminate Hn].
        cbn in Hn. injection Hn as <-. left. reflexivity.
  - (* the locked read *)
    destruct (nth_error (t_cons (g_st gs)) k) as [c0|] eqn:E0; [|split; [exact H0|split; [exact H1|exact H2]]].
    destruct (held (g_hold gs) k); [split; [exact H0|split; [exact H1|exact H2]]|].
    destruct (c_fin c0) eqn:Ef0; [split; [exact H0|split; [exact H1|exact H2]]|].
    unfold Wg. cbn [g_st g_loop tstep t_ph t_loaded t_cons].
    split; [exact H0|]. split; [exact H1|]. intros Hl j c Hn Hf.
    destruct (Nat.eq_dec k j) as [<-|Hne].
    + rewrite nth_error_upd_nth_same, E0 in Hn. cbn in Hn. injection Hn as <-.
      unfold read in Hf. rewrite Ef0 in Hf. cbn in Hf. congruence.
    + rewrite nth_error_upd_nth_other in Hn by exact Hne. now apply (H2 Hl j c).
  - unfold Wg. cbn [g_st g_loop]. auto.
  - unfold Wg. cbn [g_st g_loop tstep ains t_ph t_loaded t_cons]. auto.
  - unfold Wg. cbn [g_st g_loop tstep asto t_ph t_loaded t_cons]. auto.
  - destruct (t_ph (g_st gs)) eqn:E; unfold Wg; cbn [g_st g_loop set_store t_ph t_loaded t_cons]; rewrite ?E; auto;
      (split; [discriminate|]); split; intros Hl; discriminate (H1 Hl).
Qed.

Lemma grun_Wg sched : forall gs, Wg gs -> Wg (grun gs sched).
Proof.
  induction sched as [|l r IH]; intros gs Hw; [exact Hw|].
  unfold grun. cbn [fold_left]. apply IH. now apply gstep_Wg.
Qed.

(* EVERY reachable state of the fine system (any schedule, no hypothesis): once
   the loader thread is through - flag set, last loop over -, for every load()
   i: its pending continuation (if any) delivers what was read, and then it
   either has ended or its event is set and its next read ends it. *)
Theorem g_wakeup S0 sched i c :
  let gs := grun (ginit S0) sched in
  t_ph (g_st gs) = P4 -> g_loop gs = LNone ->
  nth_error (t_cons (g_st gs)) i = Some c ->
  vis (gstep gs (GCont i)) i = Some c /\
  (c_fin c = false -> c_ev c = true /\ c_fin (read (g_st gs) c) = true).
Proof.
  intros gs Hp Hl Hn. split.
  - unfold vis. cbn [gstep g_hold g_st]. now rewrite held_unhold.
  - intros Hf.
    assert (Hw : Wg gs).
    { apply grun_Wg. unfold Wg, ginit. cbn. repeat split; try discriminate. }
    destruct Hw as (H0 & H1 & H2). pose proof (H0 Hp) as Hld. split.
    + destruct (H2 Hld i c Hn Hf) as [H|[H|(L & E & _)]]; [exact H|congruence|congruence].
    + unfold read. rewrite Hf. cbn. exact Hld.
Qed.

(* ---- the fine system over the file's bytes -------------------------------------- *)
Section FineOverFile.
  Variable ts_of : str -> bytes.
  Hypothesis ts_ok : forall s, nolf (ts_of s).

  Definition gcstep (sf : gstate * bytes) (l : glabel) : gstate * bytes :=
    let '(gs, f) := sf in
    let st := g_st gs in
    match l with
    | GL =>
        match g_loop gs, t_ph st with
        | LNone, P2 => (mkg (mkt (t_store st) (t_ls st) (t_loaded st) (t_np st) (P3 (load_bytes f))
                                 (t_cons st) (t_fly st) (t_store st)) LNone (g_hold gs) (g_real gs), f)
        | _, _ => (gstep gs GL, f)
        end
    | GSto s => (gstep gs l, f ++ store_bytes (ts_of s) s)
    | GOther s => (gstep gs l, f ++ store_bytes (ts_of s) s)
    | _ => (gstep gs l, f)
    end.
  Definition gcrun (sf : gstate * bytes) (sched : list glabel) : gstate * bytes := fold_left gcstep sched sf.

  Definition glabel_valid (l : glabel) : Prop :=
    match l with
    | GIns s | GSto s | GOther s => forallb is_scalar s = true
    | _ => True
    end.

  (* the file holds exactly the strings stored by anybody, in order *)
  Definition GR (sf : gstate * bytes) : Prop :=
    exists rs, Forall valid_rec rs /\ snd sf = file_of rs /\ map snd rs = real_store (fst sf).

  Lemma GR_store gs f s gs' :
    GR (gs, f) -> forallb is_scalar s = true ->
    (exists b, g_real gs' = g_real gs ++ [(b, s)]) -> GR (gs', f ++ store_bytes (ts_of s) s).
  Proof.
    intros (rs & Hv & Hf & Hs) Hsc [b E]. exists (rs ++ [(ts_of s, s)]). cbn [fst snd] in *. split; [|split].
    - apply Forall_app. split; [exact Hv|]. constructor; [|constructor]. split; [apply ts_ok|exact Hsc].
    - rewrite file_of_app, file_of_single, Hf. reflexivity.
    - unfold real_store in *. rewrite E, !map_app, Hs. reflexivity.
  Qed.

  Lemma gcstep_sim gs f l :
    GR (gs, f) -> GI gs -> glabel_valid l ->
    fst (gcstep (gs, f) l) = gstep gs l /\ GR (gcstep (gs, f) l).
  Proof.
    intros HR [Hs He] Hl. pose proof HR as (rs & Hv & Hf & Hm). cbn [fst snd] in Hf, Hm.
    assert (Hsame : forall gs', g_real gs' = g_real gs -> GR (gs', f)).
    { intros gs' E. exists rs. unfold real_store. cbn [fst snd]. rewrite E. auto. }
    destruct l as [| |i|i|s|s|s]; cbn [gcstep].
    - destruct (g_loop gs) eqn:El.
      + destruct (t_ph (g_st gs)) eqn:Ep; cbn [fst].
        * split; [reflexivity|]. apply Hsame. cbn [gstep]. rewrite El. reflexivity.
        * (* the snapshot: inline load of the file = everything stored so far, newest first *)
          assert (Hlb : load_bytes f = rev (t_store (g_st gs))).
          { rewrite Hf, roundtrip by exact Hv. rewrite Hm. unfold real_store.
            now rewrite <- (own_view_all_early _ He), <- Hs. }
          rewrite Hlb. split.
          -- cbn [gstep]. rewrite El. unfold loader_action, tstep. rewrite Ep. reflexivity.
          -- apply Hsame. reflexivity.
        * split; [reflexivity|]. apply Hsame. cbn [gstep]. rewrite El. reflexivity.
        * split; [reflexivity|]. apply Hsame. cbn [gstep]. rewrite El. reflexivity.
      + split; [reflexivity|]. apply Hsame. cbn [gstep]. rewrite El. reflexivity.
      + split; [reflexivity|]. apply Hsame. cbn [gstep]. rewrite El. destruct l; reflexivity.
    - split; [reflexivity|]. apply Hsame. reflexivity.
    - split; [reflexivity|]. apply Hsame. cbn [gstep].
      destruct (nth_error (t_cons (g_st gs)) i); [|reflexivity]. destruct (held (g_hold gs) i); [reflexivity|].
      destruct (c_fin c); reflexivity.
    - split; [reflexivity|]. apply Hsame. reflexivity.
    - split; [reflexivity|]. apply Hsame. reflexivity.
    - split; [reflexivity|]. apply (GR_store gs f s _ HR Hl). exists false. reflexivity.
    - split; [reflexivity|]. apply (GR_store gs f s _ HR Hl). cbn [gstep].
      destruct (t_ph (g_st gs)); eexists; reflexivity.
  Qed.

  Lemma gcrun_sim sched : forall gs f,
    GR (gs, f) -> GI gs -> Forall glabel_valid sched ->
    fst (gcrun (gs, f) sched) = grun gs sched /\ GR (gcrun (gs, f) sched).
  Proof.
    induction sched as [|l r IH]; intros gs f HR HG Hv; [split; [reflexivity|exact HR]|].
    inversion Hv as [|? ? Hl Hr]; subst. unfold gcrun, grun. cbn [fold_left].
    destruct (gcstep_sim gs f l HR HG Hl) as [E HR'].
    destruct (gcstep (gs, f) l) as [gs' f'] eqn:Ec. cbn [fst] in E. subst gs'.
    apply (IH _ _ HR' (gstep_GI _ _ HG) Hr).
  Qed.

  (* The whole property over one system: a history file holding the records
     rs0; this object (ThreadedHistory over FileHistory) and OTHER instances
     append to it, load() calls, reads, their continuations and the loader's
     single statements interleave in any covered way.  Then
       1. the bytes-level run IS the abstract run, and the file is the
          concatenation of the records of every string stored by anybody, in
          order: a fresh instance reads them all back, newest first;
       2. once loaded (and no append_string half way) this object's cache is
          the inline load of the file without the records other instances
          stored after the loader had read it - of the file itself when there
          are none;
       3. every load() that has ended yielded what FileHistory's own loader
          returns for a file with the records present when that load() started. *)
  Theorem g_over_file rs0 sched :
    Forall valid_rec rs0 -> Forall glabel_valid sched ->
    gok_sched (ginit (map snd rs0)) sched = true ->
    let sf := gcrun (ginit (map snd rs0), file_of rs0) sched in
    let gs := fst sf in
    gs = grun (ginit (map snd rs0)) sched /\
    (exists rs, Forall valid_rec rs /\ snd sf = file_of rs /\ map snd rs = real_store gs /\
                load_bytes (snd sf) = rev (real_store gs)) /\
    (t_loaded (g_st gs) = true -> t_fly (g_st gs) = [] ->
       (forall rs, Forall valid_rec rs -> map snd rs = own_view (g_real gs) ->
                   t_ls (g_st gs) = load_bytes (file_of rs)) /\
       (all_early (g_real gs) = true -> t_ls (g_st gs) = load_bytes (snd sf))) /\
    (forall i c, vis gs i = Some c -> c_fin c = true ->
       forall rs, Forall valid_rec rs -> map snd rs = c_start c -> c_out c = load_bytes (file_of rs)).
  Proof.
    intros Hv0 Hlv Hok sf gs.
    assert (HR0 : GR (ginit (map snd rs0), file_of rs0)).
    { exists rs0. unfold real_store, ginit. cbn [fst snd g_real]. rewrite map_map. cbn [snd].
      rewrite map_id. auto. }
    destruct (gcrun_sim sched _ _ HR0 (ginit_GI _) Hlv) as [E (rs & Hv & Hf & Hs)].
    fold sf in E, Hf, Hs. fold gs in E, Hs.
    assert (Hload : load_bytes (snd sf) = rev (real_store gs)) by (rewrite Hf, roundtrip, Hs by exact Hv; reflexivity).
    split; [exact E|]. split; [exists rs; auto|]. split.
    - intros Hl Hfly.
      assert (Hc : t_ls (g_st gs) = rev (own_view (g_real gs))).
      { destruct (gsched_GInv sched _ (ginit_GInv (map snd rs0)) Hok) as [[[_ Hp] _] _].
        destruct (grun_GI sched _ (ginit_GI (map snd rs0))) as [Hst _].
        rewrite <- E in Hp, Hst. rewrite <- Hst. destruct (t_ph (g_st gs)).
        - destruct Hp as (_ & H). congruence.
        - destruct Hp as (_ & _ & H). congruence.
        - destruct Hp as (A & T & _ & _ & _ & H). congruence.
        - destruct Hp as (A & H1 & H2 & _). rewrite H2, H1, Hfly, app_nil_r.
          rewrite (rev_app_distr (t_base (g_st gs))). reflexivity. }
      split.
      + intros rs' Hv' Hs'. rewrite Hc, <- Hs'. symmetry. now apply roundtrip.
      + intros He. rewrite Hc, Hload, (own_view_all_early _ He). reflexivity.
    - intros i c Hvis Hfin rs' Hv' Hs'. rewrite E in Hvis.
      destruct (g_exactly_once _ _ i c Hok Hvis) as (H & _).
      rewrite (H Hfin), <- Hs'. symmetry. now apply roundtrip.
  Qed.
End FineOverFile.
