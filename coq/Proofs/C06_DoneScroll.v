(* C06 - the final render on the bounded terminal scrolls at most once, and if it
   does, the terminal ends as the unbounded terminal's state shifted up one line. *)
From Coq Require Import ZArith List Bool Lia.
From PTK Require Import Lib.Sx Lib.Py Model.C06_Terminal Model.C06_Renderer
  Proofs.C06_TermFacts Proofs.C06_RowFacts Proofs.C06_DiffFacts Proofs.C06_SyncFacts Proofs.C06_ScrollFacts.
Import ListNotations.
Open Scope Z_scope.

Lemma trunB_app : forall B W a b s, trunB B W s (a ++ b) = trunB B W (trunB B W s a) b.
Proof. intros. unfold trunB. apply fold_left_app. Qed.

Section DoneScroll.
Variable W H : Z.
Variable fs : bool.
Variable tbs : Z -> tabs.
Variable pvis : Z -> Z.
Variable wof : list Z -> Z.
Hypothesis HW : 1 <= W.
Hypothesis HH : 0 <= H.
Hypothesis Hpv : forall c a, ahs (tbs c) a = false -> pvis (apen (tbs c) a) = pvis 0.
Hypothesis Hw32 : wof [32] = 1.

Lemma render_done_scroll : forall r t cfg scr r' ks n,
  Sync W H fs tbs pvis wof r t -> wf_screen W wof H scr -> 1 <= H ->
  r_render tbs fs r cfg true W H scr = (r', ks) ->
  trunB H W (t, n) ks = (trun W t ks, n) \/
  exists tb', trunB H W (t, n) ks = (tb', n + 1) /\ shifted H (trun W t ks) tb'.
Proof.
  intros r t cfg scr r' ks n S Ws H1 R.
  pose proof (render_done_rows W H fs tbs pvis wof HW HH Hpv Hw32 r t cfg scr r' ks S Ws H1 R) as OK.
  rewrite (r_render_unfold W H fs tbs) in R.
  pose proof (plain_screen_diff (tbs cfg) W H fs true scr (last2_of W H r cfg) (rpos r) None
                (match rsize r with Some (w, _) => w | None => 0 end) (rcv r)) as PD.
  destruct (screen_diff _ _ _ _ _ _ _ _ _ _ _) as [[pos cv] td] eqn:D. cbn [snd] in PD.
  cbv zeta in R.
  match type of R with context [r_reset ?x] =>
    pose proof (plain_reset x) as PR; destruct (r_reset x) as [r2 te] eqn:RS end.
  cbn [snd] in PR. inversion R; subst r' ks; clear R.
  apply okrun_app in OK. destruct OK as (OK1 & OK2).
  assert (CY : cy t <= H - 1) by (destruct S as (_ & Cy & _ & Cyr & _); lia).
  assert (OKP : okrun (H - 1) 0 W t (prologue fs r)).
  { apply okrun_nondesc; [|exact CY|lia].
    unfold prologue. apply Forall_app. split; [destruct (fs && negb (ralt r)); repeat constructor|].
    apply Forall_app. split; [destruct (rbp r); repeat constructor|destruct (rckm r); repeat constructor]. }
  rewrite trunB_app, (trunB_eq H W 0 (prologue fs r) t n CY OKP), trun_app.
  set (tp := trun W t (prologue fs r)) in *.
  apply (run_scroll_once H W (td ++ te) tp n (Z.min (Z.max (sh scr) (prevh r)) H - 1)).
  - apply Forall_app. split; assumption.
  - eapply okrun_mono; [| |exact OK2]; lia.
Qed.

End DoneScroll.
