(* C12 - safety of the space division: everything that holds for ANY item
   stream the weight generator might produce (bounds, totals, preferred
   before extra, maximal use, regions).  Termination is in C12_Termination.v. *)
From Coq Require Import ZArith List Bool Lia.
From PTK Require Import Lib.Sx Model.C12_Divide.
Import ListNotations.
Open Scope Z_scope.

(* ------------------------------------------------------------------ *)
(* lists of integers *)

Definition le_all (a b : list Z) : Prop := Forall2 Z.le a b.

Lemma le_all_refl : forall a, le_all a a.
Proof. induction a; constructor; auto; lia. Qed.

Lemma le_all_trans : forall a b c, le_all a b -> le_all b c -> le_all a c.
Proof.
  intros a b c H; revert c; induction H; intros c0 H1; inversion H1; subst; constructor.
  - lia.
  - apply IHForall2; assumption.
Qed.

Lemma le_all_length : forall a b, le_all a b -> length a = length b.
Proof. intros a b H; induction H; simpl; congruence. Qed.

Lemma le_all_sum : forall a b, le_all a b -> zsum a <= zsum b.
Proof. intros a b H; induction H; simpl; lia. Qed.

Lemma le_all_sum_eq : forall a b, le_all a b -> zsum b <= zsum a -> a = b.
Proof.
  intros a b H; induction H; intro Hs; [reflexivity|].
  simpl in Hs. pose proof (le_all_sum _ _ H0) as Hle.
  assert (x = y) by lia. subst. f_equal. apply IHForall2. lia.
Qed.

Lemma le_all_nth : forall a b k, le_all a b -> nth k a 0 <= nth k b 0.
Proof.
  intros a b k H; revert k; induction H; intro k; destruct k; simpl; try lia. apply IHForall2.
Qed.

(* a strict total leaves a strict component *)
Lemma le_all_sum_lt_ex : forall a b, le_all a b -> zsum a < zsum b ->
  exists k, (k < length a)%nat /\ nth k a 0 < nth k b 0.
Proof.
  intros a b H; induction H; simpl; intro Hs; [lia|].
  destruct (Z_lt_le_dec x y) as [Hxy|Hxy].
  - exists O; simpl; split; [lia|assumption].
  - destruct IHForall2 as [k [Hk Hn]]; [lia|]. exists (S k); simpl; split; [lia|assumption].
Qed.

(* one component's growth is at most the growth of the total *)
Lemma le_all_nth_diff : forall a b k, le_all a b ->
  nth k b 0 - nth k a 0 <= zsum b - zsum a.
Proof.
  intros a b k H; revert k; induction H; intro k; destruct k; simpl; try lia.
  - pose proof (le_all_sum _ _ H0). lia.
  - specialize (IHForall2 k). lia.
Qed.

Lemma length_inc_nth : forall l k, length (inc_nth l k) = length l.
Proof. induction l; intro k; destruct k; simpl; auto. Qed.

Lemma zsum_inc_nth : forall l k, (k < length l)%nat -> zsum (inc_nth l k) = zsum l + 1.
Proof.
  induction l; intros k Hk; simpl in Hk; [lia|]. destruct k; simpl; [lia|].
  rewrite IHl; lia.
Qed.

Lemma nth_inc_nth_eq : forall l k, (k < length l)%nat -> nth k (inc_nth l k) 0 = nth k l 0 + 1.
Proof.
  induction l; intros k Hk; simpl in Hk; [lia|]. destruct k; simpl; [reflexivity|]. apply IHl; lia.
Qed.

Lemma nth_inc_nth_neq : forall l k j, j <> k -> nth j (inc_nth l k) 0 = nth j l 0.
Proof.
  induction l; intros k j Hjk; destruct k, j; simpl; try reflexivity; try congruence.
  apply IHl; congruence.
Qed.

Lemma nth_inc_nth_ge : forall l k j, nth j l 0 <= nth j (inc_nth l k) 0.
Proof.
  intros l k j. destruct (Nat.eq_dec j k) as [->|Hn].
  - destruct (Nat.lt_ge_cases k (length l)) as [Hk|Hk].
    + rewrite nth_inc_nth_eq by assumption. lia.
    + rewrite !nth_overflow; [lia| rewrite length_inc_nth; lia | lia].
  - rewrite nth_inc_nth_neq by assumption. lia.
Qed.

Lemma le_all_inc_nth : forall l k, le_all l (inc_nth l k).
Proof.
  induction l; intro k; destruct k; simpl; try constructor; try lia.
  - apply le_all_refl.
  - apply IHl.
Qed.

Lemma le_all_inc_nth_cap : forall l c k, le_all l c -> nth k l 0 < nth k c 0 -> le_all (inc_nth l k) c.
Proof.
  intros l c k H; revert k; induction H; intros k Hlt; destruct k; simpl in *; try lia.
  - constructor; [lia|assumption].
  - constructor; [assumption|]. apply IHForall2; assumption.
Qed.

Lemma nth_lt_in_range : forall l c k, length l = length c -> nth k l 0 < nth k c 0 -> (k < length l)%nat.
Proof.
  intros l c k Hl Hlt. destruct (Nat.lt_ge_cases k (length l)) as [Hk|Hk]; [assumption|].
  rewrite !nth_overflow in Hlt; lia.
Qed.

(* ------------------------------------------------------------------ *)
(* Dimension *)

Definition valid (d : dim) : Prop :=
  0 <= dmin d /\ dmin d <= dpref d /\ dpref d <= dmax d /\ 0 <= dweight d.

Lemma HUGE_pos : 0 < HUGE.
Proof. reflexivity. Qed.

Lemma oneg_false : forall o v, oneg o = false -> o = Some v -> 0 <= v.
Proof. intros o v H ->. simpl in H. apply Z.ltb_ge in H. assumption. Qed.

Lemma dimension_valid : forall mn mx w p d, dimension mn mx w p = COk d -> valid d.
Proof.
  intros mn mx w p d. unfold dimension.
  destruct (oneg w) eqn:Ew; [discriminate|].
  destruct (oneg mn) eqn:Emn; [discriminate|].
  destruct (oneg mx) eqn:Emx; [discriminate|].
  destruct (oneg p) eqn:Ep; [discriminate|].
  cbn [orb].
  pose proof HUGE_pos as HH.
  assert (Hmn : 0 <= odef 0 mn) by (destruct mn; cbn [odef oneg] in *; [apply Z.ltb_ge in Emn; exact Emn|lia]).
  assert (Hmx : 0 <= odef HUGE mx) by (destruct mx; cbn [odef oneg] in *; [apply Z.ltb_ge in Emx; exact Emx|lia]).
  assert (Hw : 0 <= odef 1 w) by (destruct w; cbn [odef oneg] in *; [apply Z.ltb_ge in Ew; exact Ew|lia]).
  destruct (odef HUGE mx <? odef 0 mn) eqn:E1; [discriminate|].
  apply Z.ltb_ge in E1.
  intro H; injection H as <-. unfold valid; cbn [dmin dmax dpref dweight].
  destruct (odef (odef 0 mn) p <? odef 0 mn) eqn:E2;
    [apply Z.ltb_lt in E2|apply Z.ltb_ge in E2].
  - destruct (odef 0 mn >? odef HUGE mx) eqn:E3; [apply Z.gtb_lt in E3|]; lia.
  - destruct (odef (odef 0 mn) p >? odef HUGE mx) eqn:E3.
    + apply Z.gtb_lt in E3. lia.
    + assert (odef (odef 0 mn) p <= odef HUGE mx) by (rewrite Z.gtb_ltb in E3; apply Z.ltb_ge in E3; lia). lia.
Qed.

Lemma valid_sums : forall ds, Forall valid ds ->
  0 <= zsum (map dmin ds) /\ zsum (map dmin ds) <= zsum (map dpref ds)
  /\ zsum (map dpref ds) <= zsum (map dmax ds).
Proof.
  intros ds H; induction H; simpl; [lia|]. destruct H as (?&?&?&?). lia.
Qed.

Lemma valid_le_all : forall ds, Forall valid ds ->
  le_all (map dmin ds) (map dpref ds) /\ le_all (map dpref ds) (map dmax ds).
Proof.
  intros ds H; induction H; simpl; split; try constructor; try tauto; destruct H as (?&?&?&?); lia.
Qed.

Lemma sum_layout_valid : forall ds, Forall valid ds ->
  sum_layout_dimensions ds =
  COk (mkdim (zsum (map dmin ds)) (zsum (map dmax ds)) (zsum (map dpref ds)) 1).
Proof.
  intros ds H. destruct (valid_sums ds H) as (H0 & H1 & H2).
  unfold sum_layout_dimensions, dimension. cbn [oneg odef orb].
  assert (E0 : zsum (map dmin ds) <? 0 = false) by (apply Z.ltb_ge; lia).
  assert (E1 : zsum (map dmax ds) <? 0 = false) by (apply Z.ltb_ge; lia).
  assert (E2 : zsum (map dpref ds) <? 0 = false) by (apply Z.ltb_ge; lia).
  rewrite E0, E1, E2. cbn [orb].
  assert (E3 : zsum (map dmax ds) <? zsum (map dmin ds) = false) by (apply Z.ltb_ge; lia).
  rewrite E3.
  assert (E4 : zsum (map dpref ds) <? zsum (map dmin ds) = false) by (apply Z.ltb_ge; lia).
  rewrite E4.
  assert (E5 : zsum (map dpref ds) >? zsum (map dmax ds) = false)
    by (rewrite Z.gtb_ltb; apply Z.ltb_ge; lia).
  rewrite E5. reflexivity.
Qed.

(* ------------------------------------------------------------------ *)
(* one grow loop, for an arbitrary generator *)

Section GrowSafety.
  Context {G : Type}.
  Variable nx : G -> option (nat * G).

  Lemma grow_spec : forall fuel stop caps sizes i g s' i' g',
    length sizes = length caps ->
    grow nx fuel stop caps sizes i g = Some (s', i', g') ->
    length s' = length sizes /\ le_all sizes s'
    /\ (le_all sizes caps -> le_all s' caps)
    /\ zsum s' = Z.max (zsum sizes) stop.
  Proof.
    induction fuel as [|f IH]; intros stop caps sizes i g s' i' g' Hlen Hg.
    - cbn [grow] in Hg. destruct (zsum sizes <? stop) eqn:E; [discriminate|].
      apply Z.ltb_ge in E. injection Hg as <- <- <-.
      repeat split; auto using le_all_refl; lia.
    - cbn [grow] in Hg. destruct (zsum sizes <? stop) eqn:E.
      + apply Z.ltb_lt in E.
        destruct (nx g) as [[i1 g1]|] eqn:En; [|discriminate].
        destruct (nth i sizes 0 <? nth i caps 0) eqn:Ec.
        * apply Z.ltb_lt in Ec.
          pose proof (nth_lt_in_range _ _ _ Hlen Ec) as Hi.
          apply IH in Hg; [|rewrite length_inc_nth; assumption].
          destruct Hg as (Hl & Hle & Hcap & Hsum).
          rewrite length_inc_nth in Hl. rewrite zsum_inc_nth in Hsum by assumption.
          repeat split.
          -- assumption.
          -- eapply le_all_trans; [apply le_all_inc_nth|eassumption].
          -- intro Hc. apply Hcap. apply le_all_inc_nth_cap; assumption.
          -- lia.
        * apply IH in Hg; [|assumption].
          destruct Hg as (Hl & Hle & Hcap & Hsum). repeat split; auto; lia.
      + apply Z.ltb_ge in E. injection Hg as <- <- <-.
        repeat split; auto using le_all_refl; lia.
  Qed.
End GrowSafety.

(* ------------------------------------------------------------------ *)
(* the whole division *)

Definition mins (ds : list dim) := map dmin ds.
Definition prefs (ds : list dim) := map dpref ds.
Definition maxs (ds : list dim) := map dmax ds.

Lemma divide_sizes_inv : forall fuel done ds avail l,
  ds <> [] -> Forall valid ds -> divide_pinned fuel done ds avail = Sizes l ->
  zsum (mins ds) <= avail /\
  exists g0 i g1 s1 i1 g2,
    gen_init (seq 0 (length ds)) (map dweight ds) = Some g0 /\
    next g0 = Some (i, g1) /\
    grow next fuel (Z.min avail (zsum (prefs ds))) (prefs ds) (mins ds) i g1 = Some (s1, i1, g2) /\
    ((done = true /\ l = s1) \/
     (done = false /\ exists i2 g3,
        grow next fuel (Z.min avail (zsum (maxs ds))) (maxs ds) s1 i1 g2 = Some (l, i2, g3))).
Proof.
  intros fuel done ds avail l Hne Hv Hd. unfold divide_pinned in Hd.
  destruct ds as [|d0 dr]; [congruence|].
  rewrite (sum_layout_valid _ Hv) in Hd. cbn [dmin dmax dpref] in Hd.
  destruct (zsum (map dmin (d0 :: dr)) >? avail) eqn:E; [discriminate|].
  assert (Hfit : zsum (map dmin (d0 :: dr)) <= avail)
    by (rewrite Z.gtb_ltb in E; apply Z.ltb_ge in E; lia).
  split; [exact Hfit|].
  destruct (gen_init (seq 0 (length (d0 :: dr))) (map dweight (d0 :: dr))) as [g0|] eqn:Eg; [|discriminate].
  destruct (next g0) as [[i g1]|] eqn:En; [|discriminate].
  destruct (grow next fuel (Z.min avail (zsum (map dpref (d0 :: dr)))) (map dpref (d0 :: dr))
                 (map dmin (d0 :: dr)) i g1) as [[[s1 i1] g2]|] eqn:E1; [|discriminate].
  exists g0, i, g1, s1, i1, g2. repeat split; try assumption.
  destruct done.
  - left. injection Hd as <-. auto.
  - right. split; [reflexivity|].
    destruct (grow next fuel (Z.min avail (zsum (map dmax (d0 :: dr)))) (map dmax (d0 :: dr)) s1 i1 g2)
      as [[[s2 i2] g3]|] eqn:E2; [|discriminate].
    injection Hd as <-. eauto.
Qed.

(* 'too small' exactly when the minimums do not fit *)
Lemma divide_too_small : forall fuel done ds avail,
  Forall valid ds ->
  (divide_pinned fuel done ds avail = TooSmall <-> ds <> [] /\ zsum (mins ds) > avail).
Proof.
  intros fuel done ds avail Hv. unfold divide_pinned.
  destruct ds as [|d0 dr].
  - split; [discriminate|]. intros [H _]; congruence.
  - rewrite (sum_layout_valid _ Hv). cbn [dmin].
    destruct (zsum (map dmin (d0 :: dr)) >? avail) eqn:E.
    + apply Z.gtb_lt in E. split; [|reflexivity]. intros _. split; [discriminate|unfold mins; lia].
    + assert (zsum (map dmin (d0 :: dr)) <= avail)
        by (rewrite Z.gtb_ltb in E; apply Z.ltb_ge in E; lia).
      split.
      * destruct (gen_init _ _); [|discriminate]. destruct (next g) as [[? ?]|]; [|discriminate].
        destruct (grow _ _ _ _ _ _ _) as [[[? ?] ?]|]; [|discriminate].
        destruct done; [discriminate|].
        destruct (grow _ _ _ _ _ _ _) as [[[? ?] ?]|]; discriminate.
      * unfold mins. intros [_ ?]. lia.
Qed.

Record good_sizes (done : bool) (ds : list dim) (avail : Z) (l : list Z) : Prop := {
  gs_len : length l = length ds;
  gs_min : le_all (mins ds) l;
  gs_max : le_all l (maxs ds);
  gs_total : zsum l <= avail;
  gs_pref_reached : zsum (prefs ds) <= avail -> le_all (prefs ds) l;
  gs_no_extra : avail <= zsum (prefs ds) -> le_all l (prefs ds);
  gs_maximal : done = false -> zsum l = Z.min avail (zsum (maxs ds));
  gs_done : done = true -> zsum l = Z.max (zsum (mins ds)) (Z.min avail (zsum (prefs ds)))
}.

Lemma divide_good : forall fuel done ds avail l,
  ds <> [] -> Forall valid ds -> divide_pinned fuel done ds avail = Sizes l ->
  good_sizes done ds avail l.
Proof.
  intros fuel done ds avail l Hne Hv Hd.
  destruct (divide_sizes_inv _ _ _ _ _ Hne Hv Hd)
    as (Hfit & g0 & i & g1 & s1 & i1 & g2 & _ & _ & Hg1 & Hrest).
  destruct (valid_sums _ Hv) as (S0 & S1 & S2).
  destruct (valid_le_all _ Hv) as (L1 & L2).
  fold (mins ds) in *. fold (prefs ds) in *. fold (maxs ds) in *.
  assert (Hlen1 : length (mins ds) = length (prefs ds)) by (unfold mins, prefs; rewrite !map_length; reflexivity).
  destruct (grow_spec _ _ _ _ _ _ _ _ _ _ Hlen1 Hg1) as (Hl1 & Hle1 & Hcap1 & Hsum1).
  specialize (Hcap1 L1).
  assert (Hs1 : zsum s1 = Z.max (zsum (mins ds)) (Z.min avail (zsum (prefs ds)))) by exact Hsum1.
  assert (Hpref_reached : zsum (prefs ds) <= avail -> s1 = prefs ds).
  { intro Hp. apply le_all_sum_eq; [assumption|]. lia. }
  destruct Hrest as [[Hdone ->]|[Hdone (i2 & g3 & Hg2)]].
  - (* app.is_done: only the first loop ran *)
    constructor.
    + rewrite Hl1. unfold mins. apply map_length.
    + assumption.
    + apply le_all_trans with (prefs ds); assumption.
    + lia.
    + intro Hp. rewrite (Hpref_reached Hp). apply le_all_refl.
    + intros _. assumption.
    + congruence.
    + intros _. assumption.
  - assert (Hlen2 : length s1 = length (maxs ds))
      by (rewrite Hl1; unfold mins, maxs; rewrite !map_length; reflexivity).
    destruct (grow_spec _ _ _ _ _ _ _ _ _ _ Hlen2 Hg2) as (Hl2 & Hle2 & Hcap2 & Hsum2).
    assert (Hc2 : le_all l (maxs ds)) by (apply Hcap2; apply le_all_trans with (prefs ds); assumption).
    constructor.
    + rewrite Hl2, Hl1. unfold mins. apply map_length.
    + apply le_all_trans with s1; assumption.
    + assumption.
    + lia.
    + intro Hp. rewrite <- (Hpref_reached Hp). assumption.
    + intro Hp.
      (* the first loop already used all the space: the second adds nothing *)
      assert (l = s1) as ->; [|assumption].
      symmetry. apply le_all_sum_eq; [assumption|]. lia.
    + intros _. lia.
    + congruence.
Qed.

(* ------------------------------------------------------------------ *)
(* _all_children keeps the children valid *)

Lemma flex_valid : valid flex.
Proof. unfold valid, flex; cbn [dmin dmax dpref dweight]. pose proof HUGE_pos. lia. Qed.

Lemma Forall_removelast : forall (A : Type) (P : A -> Prop) (l : list A), Forall P l -> Forall P (removelast l).
Proof.
  intros A P l H; induction H; simpl; [constructor|]. destruct l; [constructor|]. constructor; assumption.
Qed.

Lemma all_children_valid : forall align pad cs,
  valid pad -> Forall valid cs -> Forall valid (all_children align pad cs).
Proof.
  intros align pad cs Hp Hc. unfold all_children.
  apply Forall_app; split.
  - apply Forall_removelast. apply Forall_app; split.
    + destruct ((align =? 1) || (align =? 2)); [apply Forall_cons; [apply flex_valid|apply Forall_nil]|apply Forall_nil].
    + induction Hc; simpl; [apply Forall_nil|]. apply Forall_cons; [assumption|]. apply Forall_cons; assumption.
  - destruct ((align =? 1) || (align =? 0)); [apply Forall_cons; [apply flex_valid|apply Forall_nil]|apply Forall_nil].
Qed.

(* ------------------------------------------------------------------ *)
(* regions: prefix sums *)

Inductive chain : Z -> list (Z * Z * Z) -> Z -> Prop :=
| chain_nil : forall p, chain p [] p
| chain_cons : forall p s r e, chain (p + s) r e -> chain p ((0, p, s) :: r) e.

Lemma regions_chain : forall sizes pos,
  chain pos (fst (regions_from pos sizes)) (snd (regions_from pos sizes))
  /\ snd (regions_from pos sizes) = pos + zsum sizes
  /\ map (fun r => snd r) (fst (regions_from pos sizes)) = sizes.
Proof.
  induction sizes as [|s r IH]; intro pos; simpl.
  - repeat split; [constructor|lia].
  - destruct (regions_from (pos + s) r) as [l e] eqn:E.
    specialize (IH (pos + s)). rewrite E in IH. simpl in *.
    destruct IH as (Hc & He & Hm). repeat split.
    + constructor. assumption.
    + lia.
    + f_equal. assumption.
Qed.
