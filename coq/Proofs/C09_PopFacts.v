(* C09 round 6 - the yank / yank-pop cycle for a ring holding entries of ANY type
   (CHARACTERS, LINES, BLOCK): yank; yank-pop^k shows the document that pasting
   ring[k mod n] into the ORIGINAL document gives; the ring is the original one
   rotated k times; the snapshot is kept. *)
From Coq Require Import ZArith List Bool Lia PeanoNat Permutation.
From PTK Require Import Lib.Sx Lib.Py Model.Document Model.BufferEdit Proofs.BufferEditFacts
  Proofs.C02_Base
  Model.C09_Kill Proofs.C09_Ring Proofs.C09_KillFacts Proofs.C09_YankFacts Proofs.C09_LinesFacts.
Import ListNotations.
Open Scope Z_scope.

(* the text Document.paste_clipboard_data(data, EMACS, 1) produces *)
Definition paste_text (d : doc) (e : clip) : str :=
  match doc_paste d e EMACS 1 with Some (t, _) => t | None => [] end.

Definition pastes_ok (d : doc) (r : list clip) : Prop :=
  forall e, In e r -> doc_paste d e EMACS 1 <> None.

Lemma buf_paste_state s e :
  doc_paste (cur_doc s) e EMACS 1 <> None ->
  exists s', buf_paste s e EMACS 1 = (0, s') /\
    btext (sb s') = paste_text (cur_doc s) e /\ sring s' = sring s /\
    sdbp s' = Some (btext (sb s), bcur (sb s)).
Proof.
  intros Hne. unfold buf_paste, paste_text.
  destruct (doc_paste (cur_doc s) e EMACS 1) as [[t c]|]; [|congruence].
  eexists. split; [reflexivity|]. cbn [with_dbp set_doc upd with_buf sb sring sdbp btext]. repeat split.
Qed.

Lemma yank_pops_cycle_any s k d0 :
  Inv (sb s) -> sring s <> [] -> pastes_ok (cur_doc s) (sring s) ->
  let sk := pops k (snd (yank s 1)) in
  btext (sb sk) = paste_text (cur_doc s) (nth (k mod length (sring s)) (sring s) d0)
  /\ sring sk = rotate_n k (sring s)
  /\ Permutation (sring sk) (sring s)
  /\ sdbp sk = Some (btext (sb s), bcur (sb s)).
Proof.
  intros Hi Hne Hok.
  assert (Hin : forall j, In (ring_get (rotate_n j (sring s))) (sring s)).
  { intros j. eapply Permutation_in; [apply rotate_n_perm|].
    apply ring_get_in. intros E. apply Hne.
    pose proof (rotate_n_length j (sring s)) as L. rewrite E in L. destruct (sring s); [reflexivity|discriminate]. }
  assert (Hgen : forall k, let sk := pops k (snd (yank s 1)) in
            btext (sb sk) = paste_text (cur_doc s) (ring_get (rotate_n k (sring s)))
            /\ sring sk = rotate_n k (sring s)
            /\ sdbp sk = Some (btext (sb s), bcur (sb s))).
  { induction k0 as [|k0 IH].
    - cbn [pops rotate_n]. unfold yank.
      destruct (buf_paste_state s (ring_get (sring s)) (Hok _ (Hin O))) as (s' & E & A & B & C).
      rewrite E. cbn [snd]. repeat split; assumption.
    - cbn [pops]. destruct IH as [_ [Hr Hd]].
      set (sk := pops k0 (snd (yank s 1))) in *.
      unfold yank_pop. rewrite Hd.
      set (s1 := set_doc sk (btext (sb s)) (bcur (sb s))).
      set (s2 := with_ring s1 (ring_rotate (sring s1))).
      assert (Hdoc : cur_doc s2 = cur_doc s).
      { unfold s2, s1, cur_doc, bdoc, set_doc. cbn [with_ring upd with_buf sb btext bcur].
        destruct Hi. now replace (Z.max 0 (bcur (sb s))) with (bcur (sb s)) by lia. }
      assert (Hring : sring s2 = rotate_n (S k0) (sring s)).
      { unfold s2, s1. cbn [with_ring set_doc upd with_buf sring rotate_n]. now rewrite Hr. }
      destruct (buf_paste_state s2 (ring_get (sring s2))) as (s' & E & A & B & C).
      { rewrite Hdoc, Hring. apply Hok, Hin. }
      rewrite E. cbn [snd]. rewrite A, B, C, Hdoc, Hring.
      split; [reflexivity|]. split; [reflexivity|].
      unfold s2, s1, set_doc. cbn [with_ring upd with_buf sb btext bcur].
      destruct Hi. now replace (Z.max 0 (bcur (sb s))) with (bcur (sb s)) by lia. }
  cbn zeta. destruct (Hgen k) as [Ht [Hr Hd]].
  rewrite (rotate_n_head k (sring s) d0 Hne) in Ht.
  repeat split; try assumption.
  rewrite Hr. apply rotate_n_perm.
Qed.

(* CHARACTERS and LINES entries can always be pasted into a consistent document *)
Lemma pastes_ok_chars_lines d r :
  valid d -> Forall (fun e => ctype e = CHARACTERS \/ ctype e = LINES) r -> pastes_ok d r.
Proof.
  intros Hv Hall e He. rewrite Forall_forall in Hall. destruct (Hall e He) as [Hc|Hl].
  - destruct d as [t c].
    destruct (doc_paste_chars_n t c e EMACS 1 Hv Hc (or_introl eq_refl)) as [c' ->]. discriminate.
  - destruct (doc_paste_lines d e EMACS 1 Hv Hl (Z.le_refl 1) (or_introl eq_refl)) as [c' E].
    cbv zeta in E. rewrite E. discriminate.
Qed.

(* what a LINES entry shows: the data as one whole line below the cursor line *)
Lemma paste_text_lines d e :
  valid d -> ctype e = LINES ->
  paste_text d e = join [NL] (firstn (Z.to_nat (cursor_position_row d + 1)) (lines d) ++ [ctext e]
                              ++ skipn (Z.to_nat (cursor_position_row d + 1)) (lines d)).
Proof.
  intros Hv Hl. unfold paste_text.
  destruct (doc_paste_lines d e EMACS 1 Hv Hl (Z.le_refl 1) (or_introl eq_refl)) as [c' E].
  cbv zeta in E. rewrite E. reflexivity.
Qed.

Lemma paste_text_chars t c e :
  0 <= c <= len t -> ctype e = CHARACTERS ->
  paste_text (mkdoc t c) e = firstn (Z.to_nat c) t ++ ctext e ++ skipn (Z.to_nat c) t.
Proof.
  intros Hc He. unfold paste_text.
  destruct (doc_paste_chars_n t c e EMACS 1 Hc He (or_introl eq_refl)) as [c' E].
  rewrite E. unfold paste_at. change (EMACS =? VI_AFTER) with false.
  change (Z.to_nat 1) with 1%nat. cbn [repeat_str]. now rewrite app_nil_r.
Qed.

(* example: a ring holding a LINES and a CHARACTERS entry *)
Lemma yank_pop_typed_example :
  let s := mkst (mkbuf [97; 10; 98] 0) None [mkclip [120] LINES; mkclip [121] CHARACTERS] None 0 [] false in
  btext (sb (snd (yank s 1))) = [97; 10; 120; 10; 98] /\
  btext (sb (pops 1 (snd (yank s 1)))) = [121; 97; 10; 98] /\
  btext (sb (pops 2 (snd (yank s 1)))) = [97; 10; 120; 10; 98].
Proof. cbv zeta. repeat split; vm_compute; reflexivity. Qed.
