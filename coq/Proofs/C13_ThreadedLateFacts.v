From Coq Require Import ZArith List Bool Lia.
From PTK Require Import Lib.Sx Lib.Py Model.C13_Threaded Model.C13_ThreadedLate Proofs.C13_ThreadedFacts.
Import ListNotations.
Open Scope Z_scope.

Lemma upd_nth_twice {T} (l : list T) i (f g : T -> T) :
  upd_nth (upd_nth l i f) i g = upd_nth l i (fun x => g (f x)).
Proof.
  revert i. induction l as [|x l IH]; intros [|i]; cbn [upd_nth]; try reflexivity. now rewrite IH.
Qed.

Lemma upd_nth_ext {T} (l : list T) i (f g : T -> T) :
  (forall x, f x = g x) -> upd_nth l i f = upd_nth l i g.
Proof.
  intros H. revert i. induction l as [|x l IH]; intros [|i]; cbn [upd_nth]; try reflexivity.
  - now rewrite H.
  - now rewrite IH.
Qed.

(* In /repo both statements sit in one lock region: nothing can come between
   them, and together they are exactly the model's [CRead]. *)
Lemma items_then_done_is_read st i :
  tstep3 (tstep3 st (CItems i)) (CDone i) = tstep st (CRead i).
Proof.
  unfold tstep3, tstep, with_cons. cbn [t_store t_ls t_loaded t_np t_ph t_cons t_fly t_base].
  f_equal. rewrite upd_nth_twice. apply upd_nth_ext. intros c.
  unfold check_done, read_items, read. cbn [t_loaded].
  destruct (c_fin c) eqn:E; [now rewrite E|]. reflexivity.
Qed.

(* With loader steps allowed in between (flag read after the lock is released)
   a load() can stop before the last entries arrive. *)
Definition late_sched : list label3 :=
  [Base CStart; Base LStep; Base LStep; CItems 0; Base LStep; Base LStep; Base LStep; CDone 0].

Lemma late_done_refuted :
  ~ (forall S0 sched c,
       In c (t_cons (trun3 (tinit S0) sched)) -> c_fin c = true -> c_out c = rev (c_start c)).
Proof.
  intros H.
  specialize (H [sa; sb; sc] late_sched (mkc 1 0 [sc] true true [sa; sb; sc])).
  assert (E : t_cons (trun3 (tinit [sa; sb; sc]) late_sched) = [mkc 1 0 [sc] true true [sa; sb; sc]])
    by (vm_compute; reflexivity).
  rewrite E in H. specialize (H (or_introl eq_refl) eq_refl). vm_compute in H. discriminate H.
Qed.
