(* C11 - visible_line_to_row_col: the rows registered by _copy_body are
   consecutive screen rows showing consecutive document lines in order - for
   ALL character widths, prefixes, modes and scroll states (structural). *)
From Coq Require Import ZArith List Bool Lia.
From PTK Require Import Lib.Sx Lib.Py Model.C11_Scroll Model.C11_CopyBody.
Import ListNotations.
Open Scope Z_scope.

(* newest first: each entry is one row below the next older one and shows the
   same or the following document line *)
Fixpoint chain (l : list (Z * (Z * Z))) : Prop :=
  match l with
  | (y', (l', _)) :: (((y, (l0, _)) :: _) as r) => y' = y + 1 /\ (l' = l0 \/ l' = l0 + 1) /\ chain r
  | _ => True
  end.

(* the newest entry is the current row and the current line *)
Definition vl_ok (lineno : Z) (s : cst) : Prop :=
  chain (cvl s) /\
  match cvl s with [] => False | (y, (l, _)) :: _ => y = cy s /\ l = lineno end.

Section Rows.
  Variables (sw dw : Z -> Z) (disp : Z -> str).
  Variables (wrap haspfx : bool) (pfx : Z -> Z -> str).
  Variables (width height xpos ypos : Z).

  Local Notation put' := (put sw dw disp width xpos ypos).
  Local Notation copy_plain' := (copy_plain sw dw disp wrap width height xpos ypos).
  Local Notation copy_input' := (copy_input sw dw disp wrap haspfx pfx width height xpos ypos).
  Local Notation copy_line' := (copy_line sw dw disp wrap haspfx pfx width height xpos ypos).
  Local Notation copy_lines' := (copy_lines sw dw disp wrap haspfx pfx width height xpos ypos).

  Lemma put_rows : forall isin l kc c s, cy (put' isin l kc c s) = cy s /\ cvl (put' isin l kc c s) = cvl s.
  Proof. intros. unfold put. destruct (_ && _); split; reflexivity. Qed.

  Lemma put_ok : forall isin l kc c s lineno, vl_ok lineno s -> vl_ok lineno (put' isin l kc c s).
  Proof.
    intros isin l kc c s lineno [H1 H2]. destruct (put_rows isin l kc c s) as [A B].
    unfold vl_ok. rewrite A, B. split; assumption.
  Qed.

  Lemma wrap_row_ok : forall lineno s, vl_ok lineno s -> vl_ok lineno (wrap_row lineno s).
  Proof.
    intros lineno s [H1 H2]. unfold vl_ok, wrap_row. cbn [cvl cy].
    destruct (cvl s) as [|[y [l c]] r] eqn:E; [contradiction|]. destruct H2 as [-> ->].
    split; [|split; reflexivity]. cbn [chain]. repeat split; [now left | exact H1].
  Qed.

  Lemma copy_plain_ok : forall cs lineno s, vl_ok lineno s -> vl_ok lineno (copy_plain' cs lineno s).
  Proof.
    induction cs as [|c r IH]; intros lineno s H; cbn [copy_plain]; [exact H|].
    destruct (wrap && _).
    - destruct (height <=? _); [now apply wrap_row_ok|].
      apply IH. apply put_ok. now apply wrap_row_ok.
    - apply IH. now apply put_ok.
  Qed.

  Lemma copy_input_ok : forall cs lineno col sk wc s,
    vl_ok lineno s -> vl_ok lineno (copy_input' cs lineno col sk wc s).
  Proof.
    induction cs as [|c r IH]; intros lineno col sk wc s H; cbn [copy_input]; [exact H|].
    destruct (wrap && _).
    - assert (H2 : vl_ok lineno (if haspfx then copy_plain' (pfx lineno (wc + 1)) lineno (wrap_row lineno s)
                                 else wrap_row lineno s)).
      { destruct haspfx; [apply copy_plain_ok|]; now apply wrap_row_ok. }
      destruct (height <=? _); [exact H2|]. apply IH. now apply put_ok.
    - apply IH. now apply put_ok.
  Qed.

  Lemma copy_line_ok : forall h line lineno s, vl_ok lineno s -> vl_ok lineno (copy_line' h line lineno s).
  Proof.
    intros h line lineno s H. unfold copy_line.
    assert (H1 : vl_ok lineno (if haspfx then copy_plain' (pfx lineno 0) lineno s else s)).
    { destruct haspfx; [now apply copy_plain_ok | exact H]. }
    destruct (h =? 0); [now apply copy_input_ok|].
    destruct (skip_loop sw line h 0) as [[line' h'] sk]. apply copy_input_ok.
    destruct H1 as [A B]. split; exact A || exact B.
  Qed.

  (* between lines the state has moved one row down and one line on *)
  Definition between (lineno : Z) (s : cst) : Prop :=
    chain (cvl s) /\
    match cvl s with [] => True | (y, (l, _)) :: _ => y + 1 = cy s /\ l + 1 = lineno end.

  Lemma copy_lines_chain : forall h rest lineno s,
    between lineno s -> chain (cvl (copy_lines' h rest lineno s)).
  Proof.
    induction rest as [|line r IH]; intros lineno s [H1 H2]; cbn [copy_lines]; [exact H1|].
    destruct (cy s <? height); [|exact H1].
    apply IH.
    set (s0 := mkcst 0 (cy s) (cscr s) (cr2 s) ((cy s, (lineno, h)) :: cvl s)).
    assert (H0 : vl_ok lineno s0).
    { unfold vl_ok, s0. cbn [cvl cy]. split; [|split; reflexivity].
      destruct (cvl s) as [|[y [l c]] r'] eqn:E; [exact I|]. destruct H2 as [<- <-].
      cbn [chain]. repeat split; [now right | exact H1]. }
    destruct (copy_line_ok h line lineno s0 H0) as [A B].
    unfold between. cbn [cvl cy]. split; [exact A|].
    destruct (cvl (copy_line' h line lineno s0)) as [|[y [l c]] r']; [exact I|].
    destruct B as [-> ->]. split; reflexivity.
  Qed.
End Rows.

(* lookups *)
Lemma chain_keys_below : forall L y0 v, chain ((y0, v) :: L) ->
  forall y, y0 <= y -> zlist_get L y = None.
Proof.
  induction L as [|[y1 [l1 c1]] r IH]; intros y0 v H y Hy; [reflexivity|].
  destruct v as [l0 c0]. cbn [chain] in H. destruct H as (E & _ & Hr).
  cbn [zlist_get]. destruct (y1 =? y) eqn:E1; [lia|]. apply (IH y1 (l1, c1) Hr). lia.
Qed.

Lemma chain_lookup : forall L y l c l' c', chain L ->
  zlist_get L y = Some (l, c) -> zlist_get L (y + 1) = Some (l', c') ->
  l' = l \/ l' = l + 1.
Proof.
  induction L as [|[y0 [l0 c0]] r IH]; intros y l c l' c' H Hy Hy1; [discriminate|].
  cbn [zlist_get] in Hy, Hy1.
  destruct (y0 =? y + 1) eqn:E1.
  - inversion Hy1; subst l' c'; clear Hy1.
    destruct (y0 =? y) eqn:E0; [lia|].
    destruct r as [|[y1 [l1 c1]] r']; [discriminate|].
    cbn [chain] in H. destruct H as (E & Hl & _).
    cbn [zlist_get] in Hy. destruct (y1 =? y) eqn:E2; [|lia].
    inversion Hy; subst. exact Hl.
  - destruct (y0 =? y) eqn:E0.
    + exfalso. rewrite (chain_keys_below r y0 (l0, c0) H (y + 1)) in Hy1; [discriminate | lia].
    + apply (IH y l c l' c'); try assumption.
      destruct r as [|[y1 [l1 c1]] r']; [exact I|]. cbn [chain] in H. tauto.
Qed.

(* The rows clause of C11: in visible_line_to_row_col, two successive rows show
   the same document line or the next one; the first registered row is
   (-vertical_scroll_2) and shows line vertical_scroll. *)
Lemma rows_consecutive : forall sw dw disp wrap haspfx pfx width height xpos ypos lines st,
  let out := copy_body sw dw disp wrap haspfx pfx width height xpos ypos lines st in
  forall y l c l' c',
    zlist_get (cvl out) y = Some (l, c) -> zlist_get (cvl out) (y + 1) = Some (l', c') ->
    l' = l \/ l' = l + 1.
Proof.
  intros sw dw disp wrap haspfx pfx width height xpos ypos lines st out y l c l' c'.
  apply chain_lookup. unfold out, copy_body. apply copy_lines_chain.
  unfold between. cbn [cvl chain]. split; exact I.
Qed.
