(* C11 - visible_line_to_row_col: the rows registered by _copy_body are
   consecutive screen rows showing consecutive document lines in order - for
   ALL character widths, prefixes, modes and scroll states (structural). *)
From Coq Require Import ZArith List Bool Lia.
From PTK Require Import Lib.Sx Lib.Py Model.C11_Scroll Model.C11_CopyBody.
Import ListNotations.
Open Scope Z_scope.

(* newest first: each entry is one row below the next older one and shows the
   same or the following document line *)
Fixpoint chain (l : list (Z * (Z * Z))) : Prop :=
  match l with
  | (y', (l', _)) :: (((y, (l0, _)) :: _) as r) => y' = y + 1 /\ (l' = l0 \/ l' = l0 + 1) /\ chain r
  | _ => True
  end.

(* the newest entry is the current row and the current line *)
Definition vl_ok (lineno : Z) (s : cst) : Prop :=
  chain (cvl s) /\
  match cvl s with [] => False | (y, (l, _)) :: _ => y = cy s /\ l = lineno end.

Section Rows.
  Variables (sw dw : Z -> Z) (disp : Z -> str).
  Variables (wrap haspfx : bool) (pfx : Z -> Z -> str).
  Variables (width height xpos ypos : Z).

  Local Notation put' := (put sw dw disp width xpos ypos).
  Local Notation copy_plain' := (copy_plain sw dw disp wrap width height xpos ypos).
  Local Notation copy_input' := (copy_input sw dw disp wrap haspfx pfx width height xpos ypos).
  Local Notation copy_line' := (copy_line sw dw disp wrap haspfx pfx width height xpos ypos).
  Local Notation copy_lines' := (copy_lines sw dw disp wrap haspfx pfx width height xpos ypos).

  Lemma put_rows : forall isin l kc c s, cy (put' isin l kc c s) = cy s /\ cvl (put' isin l kc c s) = cvl s.
  Proof. intros. unfold put. destruct (_ && _); split; reflexivity. Qed.

  Lemma put_ok : forall isin l kc c s lineno, vl_ok lineno s -> vl_ok lineno (put' isin l kc c s).
  Proof.
    intros isin l kc c s lineno [H1 H2]. destruct (put_rows isin l kc c s) as [A B].
    unfold vl_ok. rewrite A, B. split; assumption.
  Qed.

  Lemma wrap_row_ok : forall lineno s, vl_ok lineno s -> vl_ok lineno (wrap_row lineno s).
  Proof.
    intros lineno s [H1 H2]. unfold vl_ok, wrap_row. cbn [cvl cy].
    destruct (cvl s) as [|[y [l c]] r] eqn:E; [contradiction|]. destruct H2 as [-> ->].
    split; [|split; reflexivity]. cbn [chain]. repeat split; [now left | exact H1].
  Qed.

  Lemma copy_plain_ok : forall cs lineno s, vl_ok lineno s -> vl_ok lineno (copy_plain' cs lineno s).
  Proof.
    induction cs as [|c r IH]; intros lineno s H; cbn [copy_plain]; [exact H|].
    destruct (wrap && _).
    - destruct (height <=? _); [now apply wrap_row_ok|].
      apply IH. apply put_ok. now apply wrap_row_ok.
    - apply IH. now apply put_ok.
  Qed.

  Lemma copy_input_ok : forall cs lineno col sk wc s,
    vl_ok lineno s -> vl_ok lineno (copy_input' cs lineno col sk wc s).
  Proof.
    induction cs as [|c r IH]; intros lineno col sk wc s H; cbn [copy_input]; [exact H|].
    destruct (wrap && _).
    - assert (H2 : vl_ok lineno (if haspfx then copy_plain' (pfx lineno (wc + 1)) lineno (wrap_row lineno s)
                                 else wrap_row lineno s)).
      { destruct haspfx; [apply copy_plain_ok|]; now apply wrap_row_ok. }
      destruct (height <=? _); [exact H2|]. apply IH. now apply put_ok.
    - apply IH. now apply put_ok.
  Qed.

  Lemma copy_line_ok : forall h line lineno s, vl_ok lineno s -> vl_ok lineno (copy_line' h line lineno s).
  Proof.
    intros h line lineno s H. unfold copy_line.
    assert (H1 : vl_ok lineno (if haspfx then copy_plain' (pfx lineno 0) lineno s else s)).
    { destruct haspfx; [now apply copy_plain_ok | exact H]. }
    destruct (h =? 0); [now apply copy_input_ok|].
    destruct (skip_loop sw line h 0) as [[line' h'] sk]. apply copy_input_ok.
    destruct H1 as [A B]. split; exact A || exact B.
  Qed.

  (* between lines the state has moved one row down and one line on *)
  Definition between (lineno : Z) (s : cst) : Prop :=
    chain (cvl s) /\
    match cvl s with [] => True | (y, (l, _)) :: _ => y + 1 = cy s /\ l + 1 = lineno end.

  Lemma copy_lines_chain : forall h rest lineno s,
    between lineno s -> chain (cvl (copy_lines' h rest lineno s)).
  Proof.
    induction rest as [|line r IH]; intros lineno s [H1 H2]; cbn [copy_lines]; [exact H1|].
    destruct (cy s <? height); [|exact H1].
    apply IH.
    set (s0 := mkcst 0 (cy s) (cscr s) (cr2 s) ((cy s, (lineno, h)) :: cvl s)).
    assert (H0 : vl_ok lineno s0).
    { unfold vl_ok, s0. cbn [cvl cy]. split; [|split; reflexivity].
      destruct (cvl s) as [|[y [l c]] r'] eqn:E; [exact I|]. destruct H2 as [<- <-].
      cbn [chain]. repeat split; [now right | exact H1]. }
    destruct (copy_line_ok h line lineno s0 H0) as [A B].
    unfold between. cbn [cvl cy]. split; [exact A|].
    destruct (cvl (copy_line' h line lineno s0)) as [|[y [l c]] r']; [exact I|].
    destruct B as [-> ->]. split; reflexivity.
  Qed.
End Rows.

(* ---------------------------------------------------------------------- *)
(* visible_line_to_row_col only grows (entries are pushed, never changed) *)
Section Grows.
  Variables (sw dw : Z -> Z) (disp : Z -> str).
  Variables (wrap haspfx : bool) (pfx : Z -> Z -> str).
  Variables (width height xpos ypos : Z).

  Definition grows (s s' : cst) : Prop := exists l, cvl s' = l ++ cvl s.

  Lemma grows_refl : forall s, grows s s.
  Proof. intros s. now exists []. Qed.
  Lemma grows_trans : forall a b c, grows a b -> grows b c -> grows a c.
  Proof. intros a b c [l1 H1] [l2 H2]. exists (l2 ++ l1). rewrite H2, H1. now rewrite app_assoc. Qed.

  Lemma put_grows : forall isin l kc c s, grows s (put sw dw disp width xpos ypos isin l kc c s).
  Proof. intros. exists []. unfold put. destruct (_ && _); reflexivity. Qed.
  Lemma wrap_row_grows : forall l s, grows s (wrap_row l s).
  Proof. intros. eexists [_]. reflexivity. Qed.

  Lemma copy_plain_grows : forall cs l s, grows s (copy_plain sw dw disp wrap width height xpos ypos cs l s).
  Proof.
    induction cs as [|c r IH]; intros l s; cbn [copy_plain]; [apply grows_refl|].
    destruct (wrap && _).
    - destruct (height <=? _); [apply wrap_row_grows|].
      eapply grows_trans; [apply wrap_row_grows|]. eapply grows_trans; [apply put_grows | apply IH].
    - eapply grows_trans; [apply put_grows | apply IH].
  Qed.

  Lemma copy_input_grows : forall cs l col sk wc s,
    grows s (copy_input sw dw disp wrap haspfx pfx width height xpos ypos cs l col sk wc s).
  Proof.
    induction cs as [|c r IH]; intros l col sk wc s; cbn [copy_input]; [apply grows_refl|].
    destruct (wrap && _).
    - assert (G : grows s (if haspfx then copy_plain sw dw disp wrap width height xpos ypos (pfx l (wc + 1)) l (wrap_row l s)
                           else wrap_row l s)).
      { destruct haspfx; [eapply grows_trans; [apply wrap_row_grows | apply copy_plain_grows] | apply wrap_row_grows]. }
      destruct (height <=? _); [exact G|].
      eapply grows_trans; [exact G|]. eapply grows_trans; [apply put_grows | apply IH].
    - eapply grows_trans; [apply put_grows | apply IH].
  Qed.

  Lemma copy_line_grows : forall h line l s,
    grows s (copy_line sw dw disp wrap haspfx pfx width height xpos ypos h line l s).
  Proof.
    intros h line l s. unfold copy_line.
    assert (G : grows s (if haspfx then copy_plain sw dw disp wrap width height xpos ypos (pfx l 0) l s else s)).
    { destruct haspfx; [apply copy_plain_grows | apply grows_refl]. }
    destruct (h =? 0); [eapply grows_trans; [exact G | apply copy_input_grows]|].
    destruct (skip_loop sw line h 0) as [[line' h'] sk].
    eapply grows_trans; [exact G|]. eapply grows_trans; [|apply copy_input_grows].
    destruct G as [l0 G]. exists []. cbn [cvl]. reflexivity.
  Qed.

  Lemma copy_lines_grows : forall h rest lineno s,
    grows s (copy_lines sw dw disp wrap haspfx pfx width height xpos ypos h rest lineno s).
  Proof.
    induction rest as [|line r IH]; intros lineno s; cbn [copy_lines]; [apply grows_refl|].
    destruct (cy s <? height); [|apply grows_refl].
    set (s0 := mkcst 0 (cy s) (cscr s) (cr2 s) ((cy s, (lineno, h)) :: cvl s)).
    assert (G0 : grows s s0) by (exists [(cy s, (lineno, h))]; reflexivity).
    pose proof (copy_line_grows h line lineno s0) as G1.
    set (sL := copy_line sw dw disp wrap haspfx pfx width height xpos ypos h line lineno s0) in *.
    assert (G2 : grows sL (mkcst (cx sL) (cy sL + 1) (cscr sL) (cr2 sL) (cvl sL))) by (exists []; reflexivity).
    eapply grows_trans; [exact G0|]. eapply grows_trans; [exact G1|]. eapply grows_trans; [exact G2|]. apply IH.
  Qed.

  (* the oldest entry of copy_body's table: row -vertical_scroll_2 shows
     (vertical_scroll, horizontal_scroll) *)
  Lemma copy_body_oldest : forall lines st,
    skipn (Z.to_nat (vs st)) lines <> [] -> - vs2 st < height ->
    exists l, cvl (copy_body sw dw disp wrap haspfx pfx width height xpos ypos lines st)
              = l ++ [(- vs2 st, (vs st, hs st))].
  Proof.
    intros lines st Hne Hy. unfold copy_body.
    destruct (skipn (Z.to_nat (vs st)) lines) as [|line r]; [now elim Hne|].
    cbn [copy_lines cy]. destruct (- vs2 st <? height) eqn:E; [|lia].
    cbn [cx cy cscr cr2 cvl].
    match goal with |- context [copy_lines _ _ _ _ _ _ _ _ _ _ ?h r ?ln ?s1] =>
      destruct (copy_lines_grows h r ln s1) as [l1 G1] end.
    cbn [cvl] in G1.
    match type of G1 with _ = l1 ++ cvl ?s2 =>
      match s2 with copy_line _ _ _ _ _ _ _ _ _ _ ?h ?ln ?l ?s0 =>
        destruct (copy_line_grows h ln l s0) as [l2 G2] end end.
    cbn [cvl] in G2. exists (l1 ++ l2). rewrite G1, G2. now rewrite app_assoc.
  Qed.
End Grows.

(* lookups *)
Lemma chain_keys_below : forall L y0 v, chain ((y0, v) :: L) ->
  forall y, y0 <= y -> zlist_get L y = None.
Proof.
  induction L as [|[y1 [l1 c1]] r IH]; intros y0 v H y Hy; [reflexivity|].
  destruct v as [l0 c0]. cbn [chain] in H. destruct H as (E & _ & Hr).
  cbn [zlist_get]. destruct (y1 =? y) eqn:E1; [lia|]. apply (IH y1 (l1, c1) Hr). lia.
Qed.

Lemma chain_lookup : forall L y l c l' c', chain L ->
  zlist_get L y = Some (l, c) -> zlist_get L (y + 1) = Some (l', c') ->
  l' = l \/ l' = l + 1.
Proof.
  induction L as [|[y0 [l0 c0]] r IH]; intros y l c l' c' H Hy Hy1; [discriminate|].
  cbn [zlist_get] in Hy, Hy1.
  destruct (y0 =? y + 1) eqn:E1.
  - inversion Hy1; subst l' c'; clear Hy1.
    destruct (y0 =? y) eqn:E0; [lia|].
    destruct r as [|[y1 [l1 c1]] r']; [discriminate|].
    cbn [chain] in H. destruct H as (E & Hl & _).
    cbn [zlist_get] in Hy. destruct (y1 =? y) eqn:E2; [|lia].
    inversion Hy; subst. exact Hl.
  - destruct (y0 =? y) eqn:E0.
    + exfalso. rewrite (chain_keys_below r y0 (l0, c0) H (y + 1)) in Hy1; [discriminate | lia].
    + apply (IH y l c l' c'); try assumption.
      destruct r as [|[y1 [l1 c1]] r']; [exact I|]. cbn [chain] in H. tauto.
Qed.

(* The rows clause of C11, part 1: in visible_line_to_row_col, two successive
   rows show the same document line or the next one.  (First row and
   contiguity: rows_interval below.) *)
Lemma rows_consecutive : forall sw dw disp wrap haspfx pfx width height xpos ypos lines st,
  let out := copy_body sw dw disp wrap haspfx pfx width height xpos ypos lines st in
  forall y l c l' c',
    zlist_get (cvl out) y = Some (l, c) -> zlist_get (cvl out) (y + 1) = Some (l', c') ->
    l' = l \/ l' = l + 1.
Proof.
  intros sw dw disp wrap haspfx pfx width height xpos ypos lines st out y l c l' c'.
  apply chain_lookup. unfold out, copy_body. apply copy_lines_chain.
  unfold between. cbn [cvl chain]. split; exact I.
Qed.

(* a chain that ends in (y0, v0): keys are exactly an interval starting at y0 *)
Lemma chain_tail : forall e L, chain (e :: L) -> chain L.
Proof. intros [y [l c]] L H. destruct L as [|[y1 [l1 c1]] r]; [exact I|]. cbn [chain] in H. tauto. Qed.

Lemma chain_interval : forall l y0 v0, chain (l ++ [(y0, v0)]) ->
  zlist_get (l ++ [(y0, v0)]) y0 = Some v0 /\
  (forall y e, zlist_get (l ++ [(y0, v0)]) y = Some e ->
     y0 <= y /\ (y0 < y -> exists e', zlist_get (l ++ [(y0, v0)]) (y - 1) = Some e')) /\
  (match l with [] => True | (y1, _) :: _ => y0 < y1 end).
Proof.
  induction l as [|[y1 [l1 c1]] l' IH]; intros y0 v0 H.
  - cbn [app zlist_get]. rewrite Z.eqb_refl. split; [reflexivity|]. split; [|exact I].
    intros y e Hg. destruct (y0 =? y) eqn:E; [|discriminate]. split; lia.
  - cbn [app] in *. pose proof (chain_tail _ _ H) as Ht.
    destruct (IH y0 v0 Ht) as (I1 & I2 & I3).
    (* the key below y1 is the head of the tail *)
    assert (Hnext : exists e', zlist_get (l' ++ [(y0, v0)]) (y1 - 1) = Some e' /\ y0 <= y1 - 1).
    { destruct l' as [|[y2 [l2 c2]] l'']; cbn [app] in *.
      - destruct v0 as [a b]. cbn [chain] in H. destruct H as (E & _). subst y1.
        exists (a, b). cbn [zlist_get]. replace (y0 + 1 - 1) with y0 by lia. rewrite Z.eqb_refl. split; [reflexivity | lia].
      - cbn [chain] in H. destruct H as (E & _). subst y1.
        exists (l2, c2). cbn [zlist_get]. replace (y2 + 1 - 1) with y2 by lia. rewrite Z.eqb_refl. split; [reflexivity | lia]. }
    destruct Hnext as (e' & Hn & Hge).
    split; [|split].
    + cbn [zlist_get]. destruct (y1 =? y0) eqn:E; [lia | exact I1].
    + intros y e Hg. cbn [zlist_get] in Hg |- *. destruct (y1 =? y) eqn:E.
      * assert (y = y1) by lia. subst y. split; [lia|]. intros _.
        destruct (y1 =? y1 - 1) eqn:E2; [lia|]. now exists e'.
      * destruct (I2 y e Hg) as [Hy0 Hprev]. split; [exact Hy0|]. intros Hlt.
        destruct (Hprev Hlt) as [e2 He2]. destruct (y1 =? y - 1) eqn:E3; eauto.
    + lia.
Qed.

(* The rows clause of C11, strengthened: the first registered row is
   -vertical_scroll_2 and shows (vertical_scroll, horizontal_scroll); the
   registered rows form a contiguous interval starting there (no gap); and
   successive rows show the same document line or the next one. *)
Lemma rows_interval : forall sw dw disp wrap haspfx pfx width height xpos ypos lines st,
  skipn (Z.to_nat (vs st)) lines <> [] -> - vs2 st < height ->
  let out := copy_body sw dw disp wrap haspfx pfx width height xpos ypos lines st in
  zlist_get (cvl out) (- vs2 st) = Some (vs st, hs st) /\
  (forall y e, zlist_get (cvl out) y = Some e ->
     - vs2 st <= y /\ (- vs2 st < y -> exists e', zlist_get (cvl out) (y - 1) = Some e')).
Proof.
  intros sw dw disp wrap haspfx pfx width height xpos ypos lines st Hne Hy out.
  destruct (copy_body_oldest sw dw disp wrap haspfx pfx width height xpos ypos lines st Hne Hy) as [l Hl].
  assert (Hc : chain (cvl out)).
  { unfold out, copy_body. apply copy_lines_chain. unfold between. cbn [cvl chain]. split; exact I. }
  fold out in Hl. rewrite Hl in *.
  destruct (chain_interval l _ _ Hc) as (A & B & _). split; [exact A | exact B].
Qed.
