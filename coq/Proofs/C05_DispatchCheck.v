(* C05: a generic, proved decision procedure for "for EVERY valuation of the
   filter atoms that satisfies some fixed assignments, dispatching key buffer
   [ks] over the regenerated table has property P".  The rows that can see [ks]
   are computed once; the finite product of the free atoms in their cone of
   influence is enumerated by vm_compute; soundness for all valuations is
   proved here (extensionality of [feval]).  Instances: Escape alone (again)
   and Escape after a pending character-argument key (non-empty key buffer). *)
From Coq Require Import ZArith List Bool Lia.
From PTK Require Import Lib.Sx Lib.Py Lib.C05_Filter Gen.C05_Bindings Model.C05_Dispatch
  Proofs.C05_EscapeFacts Proofs.C05_DispatchFacts.
Import ListNotations.
Open Scope Z_scope.

(* the step with the valuation-independent row lists made explicit *)
Definition gm' (rows : list (Z * binding)) (v : Z -> bool) : list (Z * binding) :=
  filter (fun ib => feval v (bfilter (snd ib))) rows.

Fixpoint lp' (pres : list (list (Z * binding))) (v : Z -> bool) (i : nat) : outcome :=
  match i with
  | O => DropOne
  | S i' =>
      match last_idx (gm' (nth i' pres []) v) with
      | Some k => Call k (Z.of_nat i)
      | None => lp' pres v i'
      end
  end.

Definition ms' (rows : list (Z * binding)) (sw : list binding) (pres : list (list (Z * binding)))
           (n : nat) (v : Z -> bool) (flush : bool) : outcome :=
  let matches := gm' rows v in
  let pre := if flush then false else existsb (fun b => feval v (bfilter b)) sw in
  let eager := filter (fun ib => feval v (beager (snd ib))) matches in
  let '(matches, pre) := match eager with [] => (matches, pre) | _ => (eager, false) end in
  if negb pre then
    match last_idx matches with
    | Some k => Call k (Z.of_nat n)
    | None => lp' pres v n
    end
  else Wait.

(* pres = [rows for firstn 1 ks; rows for firstn 2 ks; ...] *)
Fixpoint prefixes_rows (tbl : list binding) (ks : list Z) (i : nat) : list (list (Z * binding)) :=
  match i with
  | O => []
  | S i' => prefixes_rows tbl ks i' ++ [bindings_for_keys tbl (firstn i ks)]
  end.

Lemma prefixes_rows_length tbl ks i : length (prefixes_rows tbl ks i) = i.
Proof. induction i; cbn [prefixes_rows]; [reflexivity|]. rewrite app_length, IHi. cbn. lia. Qed.

Lemma prefixes_rows_nth tbl ks : forall n i, (i < n)%nat ->
  nth i (prefixes_rows tbl ks n) [] = bindings_for_keys tbl (firstn (S i) ks).
Proof.
  induction n as [|n IH]; intros i Hi; [lia|]. cbn [prefixes_rows].
  destruct (Nat.eq_dec i n) as [->|].
  - rewrite app_nth2 by (rewrite prefixes_rows_length; lia). rewrite prefixes_rows_length, Nat.sub_diag. reflexivity.
  - rewrite app_nth1 by (rewrite prefixes_rows_length; lia). apply IH. lia.
Qed.

Lemma lp'_eq tbl v ks n : forall i, (i <= n)%nat ->
  lp' (prefixes_rows tbl ks n) v i = longest_prefix tbl v ks i.
Proof.
  induction i as [|i IH]; intros Hi; cbn [lp' longest_prefix]; [reflexivity|].
  rewrite prefixes_rows_nth by lia. unfold gm', get_matches. rewrite IH by lia. reflexivity.
Qed.

Lemma ms'_eq tbl v ks flush :
  match_step tbl v ks flush =
  ms' (bindings_for_keys tbl ks) (starting_with tbl ks) (prefixes_rows tbl ks (length ks)) (length ks) v flush.
Proof.
  unfold match_step, ms', gm', get_matches, is_prefix_of_longer.
  rewrite lp'_eq by lia. reflexivity.
Qed.

(* ---------------------------------------------------------------------- *)
(* extensionality of ms' in the valuation *)

Definition row_atoms (ib : Z * binding) : list Z := fatoms (bfilter (snd ib)) ++ fatoms (beager (snd ib)).

Definition all_atoms (rows : list (Z * binding)) (sw : list binding) (pres : list (list (Z * binding))) : list Z :=
  flat_map row_atoms rows ++ flat_map (fun b => fatoms (bfilter b)) sw ++ flat_map row_atoms (concat pres).

Lemma gm'_ext rows v v' :
  (forall a, In a (flat_map row_atoms rows) -> v a = v' a) -> gm' rows v = gm' rows v'.
Proof.
  intros H. unfold gm'. apply filter_ext_in'. intros ib Hib. apply feval_ext. intros a Ha.
  apply H. apply in_flat_map. exists ib. split; [exact Hib|]. unfold row_atoms. apply in_or_app. now left.
Qed.

Lemma lp'_ext pres v v' : (forall a, In a (flat_map row_atoms (concat pres)) -> v a = v' a) ->
  forall i, (i <= length pres)%nat -> lp' pres v i = lp' pres v' i.
Proof.
  intros H. induction i as [|i IH]; intros Hi; cbn [lp']; [reflexivity|].
  rewrite (gm'_ext (nth i pres []) v v'); [rewrite IH by lia; reflexivity|].
  intros a Ha. apply H. apply in_flat_map in Ha as (ib & Hib & Ha).
  apply in_flat_map. exists ib. split; [|exact Ha]. apply in_concat. exists (nth i pres []).
  split; [apply nth_In; lia|exact Hib].
Qed.

Lemma ms'_ext rows sw pres n v v' flush :
  (n <= length pres)%nat ->
  (forall a, In a (all_atoms rows sw pres) -> v a = v' a) ->
  ms' rows sw pres n v flush = ms' rows sw pres n v' flush.
Proof.
  intros Hn H. unfold ms', all_atoms in *.
  rewrite (gm'_ext rows v v') by (intros a Ha; apply H; apply in_or_app; now left).
  assert (E2 : existsb (fun b => feval v (bfilter b)) sw = existsb (fun b => feval v' (bfilter b)) sw).
  { apply existsb_ext_in. intros b Hb. apply feval_ext. intros a Ha. apply H.
    apply in_or_app; right; apply in_or_app; left. apply in_flat_map. exists b. tauto. }
  rewrite E2.
  assert (E3 : filter (fun ib => feval v (beager (snd ib))) (gm' rows v')
             = filter (fun ib => feval v' (beager (snd ib))) (gm' rows v')).
  { apply filter_ext_in'. intros ib Hib. apply feval_ext. intros a Ha. apply H.
    apply in_or_app; left. apply in_flat_map. exists ib. split.
    - unfold gm' in Hib. apply filter_In in Hib. tauto.
    - unfold row_atoms. apply in_or_app. now right. }
  rewrite E3.
  rewrite (lp'_ext pres v v') by (try lia; intros a Ha; apply H; apply in_or_app; right; apply in_or_app; now right).
  reflexivity.
Qed.

(* ---------------------------------------------------------------------- *)
(* the checker *)

Definition dispatch_check (ks : list Z) (fx : list (Z * bool)) (P : outcome -> bool) : bool :=
  let rows := bindings_for_keys bindings ks in
  let sw := starting_with bindings ks in
  let pres := prefixes_rows bindings ks (length ks) in
  let fixed := map fst fx in
  let free := filter (fun a => negb (mem_Z a fixed)) (nodup Z.eq_dec (all_atoms rows sw pres)) in
  let atoms := fixed ++ free in
  forallb (fun a => mem_Z a atoms) (all_atoms rows sw pres) &&
  forallb (fun bits =>
             let v := assign atoms (map snd fx ++ bits) in
             P (ms' rows sw pres (length ks) v true) && P (ms' rows sw pres (length ks) v false))
          (all_bits (length free)).

Lemma dispatch_check_sound ks fx P :
  dispatch_check ks fx P = true ->
  forall (v : Z -> bool) (flush : bool),
    (forall a b, In (a, b) fx -> v a = b) ->
    P (match_step bindings v ks flush) = true.
Proof.
  unfold dispatch_check. intros H v flush Hfx.
  set (rows := bindings_for_keys bindings ks) in *.
  set (sw := starting_with bindings ks) in *.
  set (pres := prefixes_rows bindings ks (length ks)) in *.
  set (fixed := map fst fx) in *.
  set (free := filter (fun a => negb (mem_Z a fixed)) (nodup Z.eq_dec (all_atoms rows sw pres))) in *.
  apply andb_true_iff in H as [Hcov Hall].
  rewrite ms'_eq. fold rows sw pres.
  set (atoms := fixed ++ free) in *.
  assert (Hag : forall a, In a (all_atoms rows sw pres) -> v a = assign atoms (map v atoms) a).
  { intros a Ha. symmetry. apply assign_map. rewrite forallb_forall in Hcov. apply mem_Z_In, Hcov, Ha. }
  rewrite (ms'_ext rows sw pres (length ks) v (assign atoms (map v atoms)) flush);
    [|unfold pres; rewrite prefixes_rows_length; lia|exact Hag].
  assert (Hm : map v atoms = map snd fx ++ map v free).
  { unfold atoms, fixed. rewrite map_app, map_map. f_equal.
    apply map_ext_in. intros [a b] Hab. cbn [fst snd]. now apply Hfx. }
  rewrite Hm. rewrite forallb_forall in Hall.
  assert (Hin : In (map v free) (all_bits (length free))).
  { replace (length free) with (length (map v free)) by apply map_length. apply all_bits_complete. }
  specialize (Hall _ Hin). apply andb_true_iff in Hall as [Ht Hf]. destruct flush; assumption.
Qed.

(* ---------------------------------------------------------------------- *)
(* Instances *)

Definition calls_back_to_nav (n : Z) (o : outcome) : bool :=
  match o with
  | Call idx m =>
      (m =? n) && (0 <=? idx) &&
      match handler_at idx with Some h => h =? h_back_to_navigation | None => false end
  | _ => false
  end.

Definition vi_fixed : list (Z * bool) :=
  [(a_vi_mode, true); (a_emacs_mode, false); (a_buffer_has_focus, true); (a_in_quoted_insert, false)].

(* the keys after which a character argument is awaited *)
Definition char_arg_prefixes : list Z := [102; 70; 116; 84; 114; 34; 113; 64].   (* f F t T r dquote q @ *)

Definition pending_modes : list Z := [a_vi_navigation_mode; a_vi_selection_mode; a_vi_waiting_for_text_object_mode].

Lemma escape_after_prefix_check :
  forallb (fun p => forallb (fun m =>
     dispatch_check [p; K_Escape] ((m, true) :: vi_fixed) (calls_back_to_nav 2)) pending_modes) char_arg_prefixes = true.
Proof. vm_cast_no_check (eq_refl true). Qed.

Lemma escape_after_prefix : forall (v : Z -> bool) (flush : bool) (p m : Z),
  In p char_arg_prefixes -> In m pending_modes -> v m = true ->
  v a_vi_mode = true -> v a_emacs_mode = false -> v a_buffer_has_focus = true ->
  v a_in_quoted_insert = false ->
  calls_back_to_nav 2 (match_step bindings v [p; K_Escape] flush) = true.
Proof.
  intros v flush p m Hp Hm Hvm H1 H2 H3 H4.
  pose proof escape_after_prefix_check as C. rewrite forallb_forall in C.
  specialize (C p Hp). rewrite forallb_forall in C. specialize (C m Hm).
  apply (dispatch_check_sound _ _ _ C).
  intros a b [E|[E|[E|[E|[E|[]]]]]]; injection E as <- <-; assumption.
Qed.

(* ---------------------------------------------------------------------- *)
(* Escape typed while ONE key is pending in the key buffer - for every key that
   can be pending at all (the first keys of the multi-key rows of the table) *)

Definition first_keys : list Z :=
  nodup Z.eq_dec (flat_map (fun b => match bkeys b with k :: _ :: _ => [k] | _ => [] end) bindings).

(* either both keys go to _back_to_navigation, or exactly one key is consumed
   (called or dropped) and Escape is looked at again on its own; never Wait *)
Definition escape_progress (o : outcome) : bool :=
  match o with
  | Call idx m =>
      if m =? 2 then match handler_at idx with Some h => h =? h_back_to_navigation | None => false end
      else m =? 1
  | DropOne => true
  | Wait => false
  end.

Lemma escape_after_any_pending_check :
  forallb (fun k => dispatch_check [k; K_Escape] vi_fixed escape_progress) first_keys = true.
Proof. vm_cast_no_check (eq_refl true). Qed.

Lemma escape_after_any_pending : forall (v : Z -> bool) (flush : bool) (k : Z),
  In k first_keys ->
  v a_vi_mode = true -> v a_emacs_mode = false -> v a_buffer_has_focus = true ->
  v a_in_quoted_insert = false ->
  escape_progress (match_step bindings v [k; K_Escape] flush) = true.
Proof.
  intros v flush k Hk H1 H2 H3 H4.
  pose proof escape_after_any_pending_check as C. rewrite forallb_forall in C.
  apply (dispatch_check_sound _ _ _ (C k Hk)).
  intros a b [E|[E|[E|[E|[]]]]]; injection E as <- <-; assumption.
Qed.

(* ... and only those keys can be pending: a one-key buffer waits only for a
   first key of a multi-key row *)
Lemma starting_with_in tbl ks b : In b (starting_with tbl ks) ->
  In b tbl /\ len ks < len (bkeys b) /\ keys_match (bkeys b) ks = true.
Proof.
  unfold starting_with. intros H. apply filter_In in H as [H1 H2].
  apply andb_true_iff in H2 as [H2 H3]. split; [exact H1|]. split; [lia|exact H3].
Qed.

Lemma pending_key_is_first_key_gen (tbl : list binding) (v : Z -> bool) (flush : bool) (k : Z) :
  match_step tbl v [k] flush = Wait ->
  exists b k1 k2 r, In b tbl /\ bkeys b = k1 :: k2 :: r /\ (k1 = k \/ k1 = K_Any).
Proof.
  intros H. apply match_step_wait in H as (_ & Hp & _).
  unfold is_prefix_of_longer in Hp. apply existsb_exists in Hp as (b & Hb & _).
  apply starting_with_in in Hb as (Hin & Hlen & Hm).
  destruct (bkeys b) as [|k1 [|k2 r]] eqn:Ek.
  - cbn in Hlen. lia.
  - change (len [k]) with 1 in Hlen. change (len [k1]) with 1 in Hlen. lia.
  - exists b, k1, k2, r. split; [exact Hin|]. split; [exact Ek|].
    cbn [keys_match] in Hm. apply andb_true_iff in Hm as [Hm _]. apply orb_true_iff in Hm as [Hm|Hm];
      apply Z.eqb_eq in Hm; [left|right]; congruence.
Qed.

Lemma pending_key_is_first_key (v : Z -> bool) (flush : bool) (k : Z) :
  match_step bindings v [k] flush = Wait -> In k first_keys \/ In K_Any first_keys.
Proof.
  intros H. destruct (pending_key_is_first_key_gen bindings v flush k H) as (b & k1 & k2 & r & Hin & Ek & Hk).
  assert (In k1 first_keys).
  { unfold first_keys. apply nodup_In. apply in_flat_map. exists b. split; [exact Hin|rewrite Ek; now left]. }
  destruct Hk as [<-|<-]; [now left|now right].
Qed.

Lemma no_wildcard_first_key_pre : ~ In K_Any first_keys.
Proof.
  intros H. assert (E : mem_Z K_Any first_keys = false) by (vm_compute; reflexivity).
  assert (mem_Z K_Any first_keys = true); [|congruence].
  clear E. induction first_keys as [|x r IH]; [destruct H|]. cbn [mem_Z].
  destruct H as [->|H]; [now rewrite Z.eqb_refl|]. rewrite IH by exact H. apply orb_true_r.
Qed.

(* Audit item 2: the remainder [k; Escape] for a key k that is NOT the first
   key of any multi-key row: no two-key row matches and no longer row can, so
   the processor neither waits nor consumes both keys - exactly one key is
   called or dropped and Escape is dispatched again on its own. *)
Lemma two_keys_no_row tbl (v : Z -> bool) (k e : Z) (flush : bool) :
  (forall b k1 k2 r, In b tbl -> bkeys b = k1 :: k2 :: r -> k1 <> k /\ k1 <> K_Any) ->
  match_step tbl v [k; e] flush = DropOne \/ exists idx, match_step tbl v [k; e] flush = Call idx 1.
Proof.
  intros Hno.
  assert (Hm : get_matches tbl v [k; e] = []).
  { destruct (get_matches tbl v [k; e]) as [|[i b] r] eqn:E; [reflexivity|exfalso].
    assert (Hin : In (i, b) (get_matches tbl v [k; e])) by (rewrite E; now left).
    destruct (get_matches_in _ _ _ _ _ Hin) as (_ & Hn & Hl & Hk & _).
    apply nth_error_In in Hn.
    destruct (bkeys b) as [|k1 [|k2 r']] eqn:Eb; try (cbn in Hl; lia).
    destruct (Hno b k1 k2 r' Hn Eb) as [A B].
    cbn [keys_match] in Hk. apply andb_true_iff in Hk as [Hk _].
    apply orb_true_iff in Hk as [Hk|Hk]; apply Z.eqb_eq in Hk; congruence. }
  assert (Hp : is_prefix_of_longer tbl v [k; e] = false).
  { unfold is_prefix_of_longer. destruct (existsb _ _) eqn:E; [exfalso|reflexivity].
    apply existsb_exists in E as (b & Hb & _). apply starting_with_in in Hb as (Hin & Hl & Hk).
    destruct (bkeys b) as [|k1 [|k2 r']] eqn:Eb; try (cbn in Hl; lia).
    destruct (Hno b k1 k2 r' Hin Eb) as [A B].
    cbn [keys_match] in Hk. apply andb_true_iff in Hk as [Hk _].
    apply orb_true_iff in Hk as [Hk|Hk]; apply Z.eqb_eq in Hk; congruence. }
  unfold match_step. rewrite Hm, Hp. cbn [filter]. destruct flush; cbn [negb last_idx rev];
    change (length [k; e]) with 2%nat; cbn [longest_prefix firstn]; rewrite Hm; cbn [last_idx rev];
    (destruct (last_idx (get_matches tbl v [k])) as [idx|]; [right; exists idx; reflexivity|left; reflexivity]).
Qed.

Lemma escape_after_non_pending_key (v : Z -> bool) (flush : bool) (k : Z) :
  ~ In k first_keys ->
  match_step bindings v [k; K_Escape] flush = DropOne \/
  exists idx, match_step bindings v [k; K_Escape] flush = Call idx 1.
Proof.
  intros Hk. apply two_keys_no_row. intros b k1 k2 r Hin Eb.
  assert (H1 : In k1 first_keys).
  { unfold first_keys. apply nodup_In. apply in_flat_map. exists b. split; [exact Hin|rewrite Eb; now left]. }
  split; [intros ->; contradiction|].
  intros ->. pose proof no_wildcard_first_key_pre as W. apply W. exact H1.
Qed.

Lemma no_wildcard_first_key : mem_Z K_Any first_keys = false.
Proof. vm_compute. reflexivity. Qed.

(* ---------------------------------------------------------------------- *)
(* Escape typed while TWO keys are pending (three-key rows: dquote + register +
   operator, `g` + ..., Escape/C-x sequences).  The second key ranges over every
   key that occurs in the table plus one key that occurs nowhere (999999: any
   key the table does not mention is matched by the same rows, the wildcard
   ones). *)
Definition first_keys3 : list Z :=
  nodup Z.eq_dec (flat_map (fun b => match bkeys b with k :: _ :: _ :: _ => [k] | _ => [] end) bindings).
Definition table_keys : list Z := nodup Z.eq_dec (flat_map bkeys bindings).
Definition fresh_key : Z := 999999.
Definition pending_pairs : list (Z * Z) :=
  flat_map (fun k1 => map (fun k2 => (k1, k2)) (fresh_key :: table_keys)) first_keys3.

Definition escape_progress3 (o : outcome) : bool :=
  match o with
  | Call idx m =>
      if m =? 3 then match handler_at idx with Some h => h =? h_back_to_navigation | None => false end
      else (m =? 1) || (m =? 2)
  | DropOne => true
  | Wait => false
  end.

Lemma fresh_key_is_fresh : mem_Z fresh_key table_keys = false.
Proof. vm_compute. reflexivity. Qed.

Lemma escape_after_two_pending_check :
  forallb (fun p => dispatch_check [fst p; snd p; K_Escape] vi_fixed escape_progress3) pending_pairs = true.
Proof. vm_cast_no_check (eq_refl true). Qed.

Lemma escape_after_two_pending : forall (v : Z -> bool) (flush : bool) (k1 k2 : Z),
  In (k1, k2) pending_pairs ->
  v a_vi_mode = true -> v a_emacs_mode = false -> v a_buffer_has_focus = true ->
  v a_in_quoted_insert = false ->
  escape_progress3 (match_step bindings v [k1; k2; K_Escape] flush) = true.
Proof.
  intros v flush k1 k2 Hk H1 H2 H3 H4.
  pose proof escape_after_two_pending_check as C. rewrite forallb_forall in C.
  apply (dispatch_check_sound _ _ _ (C (k1, k2) Hk)).
  intros a b [E|[E|[E|[E|[]]]]]; injection E as <- <-; assumption.
Qed.
