(* C17 - witnesses computed on the instance with the real binding table
   (Model/C17_Emacs.v), a satisfiability example for the hypotheses of the
   accept-boundary theorems, and the exit-binding criterion evaluated on the
   regenerated table. *)
From Coq Require Import ZArith List Bool Lia.
From PTK Require Import Lib.Sx Lib.Py Gen.C03_AnsiSequences Gen.C17_Bindings Model.C03_Vt100Parser
  Model.C17_Typeahead Model.C17_Emacs Proofs.C17_Core Proofs.C17_Accept Proofs.C17_Script.
Import ListNotations.
Open Scope Z_scope.

(* "foo bar" ESC b X CR, and the same bytes with the report ESC [ 5 ; 1 R between ESC and b *)
Definition w_plain : str := [102; 111; 111; 32; 98; 97; 114; 27; 98; 88; 13].
Definition w_report : str := [27; 91; 53; 59; 49; 82].
Definition w_split : str := [102; 111; 111; 32; 98; 97; 114; 27] ++ w_report ++ [98; 88; 13].
Definition one_prompt (bytes : str) : list label := [LWrite bytes; LStart; LRead 1024; LExit].
Definition results_of (ls : list label) : list result := results (e_run ls (e_init_sys false false)).

Lemma witness_plain : results_of (one_prompt w_plain) = [RText [102; 111; 111; 32; 88; 98; 97; 114]].   (* 'foo Xbar' *)
Proof. vm_compute. reflexivity. Qed.
(* with the report between ESC and b the result is the same (it was 'foo barbX'
   before the report bypassed the key buffer: DESIGN F11 / C17-F1) *)
Lemma witness_split : results_of (one_prompt w_split) = [RText [102; 111; 111; 32; 88; 98; 97; 114]].
Proof. vm_compute. reflexivity. Qed.

(* c-q, a report, then 'a' 'r' CR: the key typed after c-q is inserted, the
   report is not (it was 'fo\x1b[5;1Rar' before: C17-F2) *)
Definition w_quoted : str := [102; 111; 17] ++ w_report ++ [97; 114; 13].
Lemma witness_quoted : results_of (one_prompt w_quoted) = [RText [102; 111; 97; 114]].
Proof. vm_compute. reflexivity. Qed.

(* 'one' LF 'two' LF 'three' LF written at once, three prompts: the ControlM that the
   C-j handler feeds goes to the FRONT of the queue, so each line ends where its LF is *)
Definition w_lf : str := [111; 110; 101; 10; 116; 119; 111; 10; 116; 104; 114; 101; 101; 10].
Lemma witness_lf :
  results_of [LWrite w_lf; LStart; LRead 1024; LExit; LStart; LExit; LStart; LExit]
  = [RText [111; 110; 101]; RText [116; 119; 111]; RText [116; 104; 114; 101; 101]].
Proof. vm_compute. reflexivity. Qed.

(* ---------------------------------------------------------------------- *)
(* The hypotheses of C17_script are satisfiable: a one-key-per-binding
   keyboard (Enter accepts the typed text, any other key is inserted). *)

Definition t_lookup (e : str) (ks : list kp) : option bool :=
  match ks with
  | [k] => Some (match fst k with KKey i => i =? 15 | KChar _ => false end)
  | _ => None
  end.
Definition t_waits (e : str) (ks : list kp) : bool := false.
Definition t_eff (b : bool) (ks : list kp) (e : str) : str * option str :=
  if b then (e, Some e) else (e ++ concat (map snd ks), None).
Definition t_cpr_lookup (e : str) : option bool := None.

Definition t_feeds (b : bool) (ks : list kp) (e : str) : list kp := [].

Lemma tiny_cpr_silent : cpr_silent t_eff t_cpr_lookup t_feeds.
Proof. intros e b H. discriminate H. Qed.

Lemma tiny_no_pushback : no_pushback t_lookup t_lookup t_waits t_eff (fun _ => false) t_cpr_lookup t_feeds.
Proof.
  intros c it PH P0 K ND.
  destruct K as [K|K]; [|discriminate K].
  assert (X : forall c1 : core str bool str, pb c1 = [] -> cph c1 <> CRun str -> pb (deliver_d t_lookup t_lookup t_waits t_eff (fun _ => false) t_cpr_lookup t_feeds it c) = pb c1 -> True) by auto.
  clear X. revert ND. unfold deliver_d.
  destruct it as [k|]; cbn [deliver].
  - destruct (is_cpr k).
    + unfold handle_cpr. cbn [t_cpr_lookup]. rewrite PH. rewrite P0. cbn [drain]. intros ND. exfalso. apply ND. exact PH.
    + unfold send. rewrite K. cbn [length app loop kbuf set_kbuf cph est]. rewrite PH. cbn [negb andb t_waits t_lookup].
      unfold call; cbn [kbuf set_kbuf cph pb est t_feeds app]. rewrite PH, P0.
      destruct (match fst k with KKey i => (i =? 15)%Z | KChar _ => false end); cbn [t_eff snd fst]; intros ND.
      * reflexivity.
      * cbn [drain]. reflexivity.
  - unfold send. cbn [loop]. rewrite K, PH, P0. cbn [drain]. intros ND. exfalso. apply ND. exact PH.
Qed.

(* ---------------------------------------------------------------------- *)
(* Exit-binding criterion on the regenerated table: no binding that can end
   the prompt (accept 13, KeyboardInterrupt 14, EOF 15, operate-and-get-next 21,
   insert-comment 22, unmodelled-may-exit 98)
   can match keys lying strictly inside a longer binding, i.e. for every
   offset j with j + len p < len q the patterns p and q[j : j+len p] cannot
   match the same keys.  Filters are ignored (all rows taken as active): the
   criterion is conservative. *)

Definition pat_overlap (a b : Z) : bool := (a =? -1) || (b =? -1) || (a =? b).
Fixpoint pats_overlap (p q : list Z) : bool :=
  match p, q with
  | [], _ => true
  | a :: p', b :: q' => pat_overlap a b && pats_overlap p' q'
  | _ :: _, [] => false
  end.
Definition may_exit (r : row) : bool :=
  (r_eff r =? 13) || (r_eff r =? 14) || (r_eff r =? 15) || (r_eff r =? 21) || (r_eff r =? 22) || (r_eff r =? 98).
Fixpoint inside (p q : list Z) (fuel : nat) : bool :=     (* p overlaps q at some offset, ending before q's last key *)
  match fuel with
  | O => false
  | S f => (Nat.ltb (length p) (length q) && pats_overlap p q)
           || match q with [] => false | _ :: q' => inside p q' f end
  end.
Definition exit_criterion : bool :=
  forallb (fun p => negb (may_exit p) ||
                    forallb (fun q => negb (inside (r_pats p) (r_pats q) (S (length (r_pats q))))) c17_bindings)
          c17_bindings.

Lemma exit_criterion_holds : exit_criterion = true.
Proof. vm_compute. reflexivity. Qed.

Lemma exit_criterion_rows : forall p q,
  In p c17_bindings -> In q c17_bindings -> may_exit p = true ->
  inside (r_pats p) (r_pats q) (S (length (r_pats q))) = false.
Proof.
  intros p q Hp Hq M. pose proof exit_criterion_holds as H. unfold exit_criterion in H.
  rewrite forallb_forall in H. specialize (H p Hp). rewrite M in H. cbn [negb orb] in H.
  rewrite forallb_forall in H. specialize (H q Hq). now apply negb_true_iff in H.
Qed.

(* the report binding of the real table: in every state of the truth tables a
   report is delivered to the handler of bindings/cpr.py, which neither ends
   the prompt nor touches the edit state *)
Lemma emacs_cpr_silent : cpr_silent e_eff e_cpr_lookup e_feeds.
Proof.
  intros e b H ks e'.
  assert (X : snd b = 19).
  { destruct e as [t cu q u x]. destruct t as [|t0 t]; destruct cu as [|cu]; destruct q; destruct x;
      vm_compute in H; inversion H; reflexivity. }
  unfold e_eff, e_feeds. rewrite X. split; reflexivity.
Qed.

Lemma emacs_cpr_bound : forall e, exists b, e_cpr_lookup e = Some b /\ e_is_cprh b = true.
Proof.
  intros e. destruct e as [t cu q u x]. destruct t as [|t0 t]; destruct cu as [|cu]; destruct q; destruct x;
    eexists; (split; [vm_compute; reflexivity|reflexivity]).
Qed.

(* ---------------------------------------------------------------------- *)
(* EOF: the three clauses of nothing_after_accept that do not survive closing
   the input, on the instance.  c-x (a prefix of the c-x bindings) is typed,
   then the write end is closed: read_from_input sets EOFError with c-x still in
   the key buffer; the next reset() throws it away; a timeoutlen flush arriving
   before the application has finished stays in the queue and is stored as
   type-ahead. *)
Definition w_eof : list label := [LStart; LWrite [24]; LRead 1024; LClose; LRead 1024].
Definition has_lost (c : core estate bid result) : bool :=
  existsb (fun e => match e with ELost _ (_ :: _) _ => true | _ => false end) (rlog c).
Definition has_flush (q : list item) : bool := existsb (fun i => match i with IFlush => true | _ => false end) q.

Lemma witness_eof_kbuf :
  let s := e_run w_eof (e_init_sys false false) in
  late (co s) = true /\ length (kbuf (co s)) = 1%nat /\ results (e_run (w_eof ++ [LExit]) (e_init_sys false false)) = [REof].
Proof. vm_compute. auto. Qed.

Lemma witness_eof_lost : has_lost (co (e_run (w_eof ++ [LExit; LStart]) (e_init_sys false false))) = true.
Proof. vm_compute. reflexivity. Qed.

Lemma witness_eof_flush_stored : has_flush (store (e_run (w_eof ++ [LFlushKeys; LExit]) (e_init_sys false false))) = true.
Proof. vm_compute. reflexivity. Qed.
