(* C15 - the scheduler steps preserve the invariant; the invariant holds after
   every label list. *)
From Coq Require Import ZArith List Bool Lia.
From PTK Require Import Lib.Sx Lib.Py Model.C15_Async Proofs.C15_Base Proofs.C15_User.
Import ListNotations.
Open Scope Z_scope.

Definition CntVS (s : state) : Prop :=
  length (vcos s) = (if vrun s then 1 else 0)%nat /\
  length (scos s) = (if srun s then 1 else 0)%nat.

Lemma cs_static_weaken nid cos cs : cs_static nid cos cs -> cs_static nid [] cs.
Proof.
  intros (A & B & C & _). split; [auto|]. split; [auto|]. split; [auto|]. intros co [].
Qed.

Lemma cs_static_nid nid nid' cos cs : nid <= nid' -> cs_static nid cos cs -> cs_static nid' cos cs.
Proof. intros H (A & B & C & D). split; [lia|]. split; [auto|]. split; auto. Qed.

(* the completer coroutine ends: `finally: running = False` *)
Lemma end_Inv s : Wf s -> CsOk s -> ccos s = [] -> CntVS s -> Inv (set_crun s false).
Proof.
  intros W K Hc (V & S). split; [unfold Wf in *; simp; exact W|]. split.
  - unfold Cnt; simp. rewrite Hc. auto.
  - split.
    + unfold Ids; simp. rewrite Hc. intros co [].
    + unfold CsOk in *; simp. exact K.
Qed.

(* async_completer from the top (first call or _Retry) *)
Lemma body_Inv s f : Wf s -> CsOk s -> ccos s = [] -> crun s = true -> CntVS s ->
  Inv (completer_body s f).
Proof.
  intros W K Hc Hr VS. unfold completer_body. destruct (cst s) as [cs|] eqn:Ec.
  - apply end_Inv; auto.
  - simp. rewrite Hc. cbn [app]. pose proof W as (Wc & _).
    split; [unfold Wf in *; simp; exact W|]. split.
    + unfold Cnt; simp. rewrite Hr. destruct VS. auto.
    + split.
      * unfold Ids; simp. intros co [Hco|[]]. subst co; simp. lia.
      * unfold CsOk; simp. intros cs Hcs. inversion Hcs; subst cs; clear Hcs. split.
        -- unfold cs_static; simp. split; [lia|]. split; [unfold wf_doc; simp; lia|]. split; [constructor|].
           intros co [Hco|[]] _. subst co; simp. split; [reflexivity|]. split; [reflexivity|].
           intros (_ & Hb). simp. congruence.
        -- left. split; [unfold idx_ok; simp; exact Logic.I|]. reflexivity.
Qed.

Lemma Cnt_VS s : Cnt s -> CntVS s.
Proof. intros (_ & A & B). split; auto. Qed.

Lemma length0 {T} (l : list T) : length l = 0%nat -> l = [].
Proof. destruct l; [reflexivity|discriminate]. Qed.

Lemma start_task_Inv s t : Inv s -> Inv (start_task s t).
Proof.
  intros HI. pose proof HI as (W & C & I & K). pose proof C as (Cc & Cv & Cs).
  destruct t as [f| |]; cbn [start_task].
  - destruct (crun s) eqn:E; [exact HI|].
    apply body_Inv.
    + unfold Wf in *; simp; exact W.
    + unfold CsOk in *; simp; exact K.
    + simp. apply length0; auto.
    + reflexivity.
    + unfold CntVS; simp. split; auto.
  - destruct (vrun s) eqn:E; [exact HI|]. apply length0 in Cv.
    unfold validator_body; simp. destruct (vst s =? 0).
    + split; [unfold Wf in *; simp; exact W|]. split.
      * unfold Cnt; simp. rewrite Cv. cbn [app length]. auto.
      * split; [unfold Ids in *; simp; exact I|unfold CsOk in *; simp; exact K].
    + split; [unfold Wf in *; simp; exact W|]. split.
      * unfold Cnt; simp. rewrite Cv. auto.
      * split; [unfold Ids in *; simp; exact I|unfold CsOk in *; simp; exact K].
  - destruct (srun s) eqn:E; [exact HI|]. apply length0 in Cs.
    unfold suggester_body; simp. destruct (sug s).
    + split; [unfold Wf in *; simp; exact W|]. split.
      * unfold Cnt; simp. rewrite Cs. auto.
      * split; [unfold Ids in *; simp; exact I|unfold CsOk in *; simp; exact K].
    + split; [unfold Wf in *; simp; exact W|]. split.
      * unfold Cnt; simp. rewrite Cs. cbn [app length]. auto.
      * split; [unfold Ids in *; simp; exact I|unfold CsOk in *; simp; exact K].
Qed.

Lemma set_pending_Inv s p : Inv s -> Inv (set_pending s p).
Proof.
  intros (W & C & I & K). split; [unfold Wf in *; simp; exact W|]. split; [unfold Cnt in *; simp; exact C|].
  split; [unfold Ids in *; simp; exact I|unfold CsOk in *; simp; exact K].
Qed.

Lemma start_nth_Inv s i : Inv s -> Inv (start_nth s i).
Proof.
  intros HI. unfold start_nth. destruct (get_nth (pending s) i); [|exact HI].
  apply start_task_Inv. apply set_pending_Inv. exact HI.
Qed.

Lemma tick_n_Inv n : forall s, Inv s -> Inv (tick_n n s).
Proof. induction n as [|n IH]; intros s HI; cbn [tick_n]; auto. apply IH. apply start_nth_Inv. exact HI. Qed.

(* --- the completer resumes ------------------------------------------------ *)
Lemma Inv_ccos_single s k co : Inv s -> get_nth (ccos s) k = Some co ->
  ccos s = [co] /\ k = 0 /\ crun s = true.
Proof.
  intros (_ & (Cc & _) & _ & _) H.
  assert (Hl : (length (ccos s) <= 1)%nat) by (rewrite Cc; destruct (crun s); lia).
  destruct (get_nth_single _ _ _ Hl H) as (A & B). split; [auto|]. split; [auto|].
  rewrite A in Cc. destruct (crun s); [reflexivity|discriminate].
Qed.

Lemma fresh_new_from_pos orig common (comps : list completion) :
  common <> [] ->
  Forall (fresh orig []) comps ->
  Forall (fresh (doc_insert orig common) common) (map (new_from_pos (len common)) comps).
Proof.
  intros Hc H. induction H as [|c r Hf _ IH]; cbn [map]; constructor; auto.
  right. split; [auto|]. unfold new_from_pos; simp.
  destruct Hf as [(_ & A)|(A & _)]; [rewrite A; reflexivity|congruence].
Qed.

Lemma cpost_Inv s k co s' e : Inv s -> get_nth (ccos s) k = Some co -> cpost s k co = (s', e) -> Inv s'.
Proof.
  intros HI Hg H. destruct (Inv_ccos_single _ _ _ HI Hg) as (Hcc & Hk & Hr). subst k.
  pose proof HI as (W & C & I & K). pose proof (Cnt_VS _ C) as VS.
  unfold cpost in H. rewrite Hcc in H. change (remove_nth [co] 0) with (@nil ccoro) in H.
  set (s0 := set_ccos s []) in *.
  assert (W0 : Wf s0) by (unfold Wf in *; simp; exact W).
  assert (VS0 : CntVS s0) by (unfold CntVS in *; simp; exact VS).
  assert (K0 : CsOk s0).
  { unfold CsOk in *; simp. intros cs Hcs. destruct (K cs Hcs) as (A & B). split; [|exact B].
    eapply cs_static_weaken; eauto. }
  assert (Hc0 : ccos s0 = []) by reflexivity.
  assert (Hr0 : crun s0 = true) by exact Hr.
  destruct (attached s0 co) eqn:Ea.
  - unfold attached, s0 in Ea. simp. destruct (cst s) as [cs|] eqn:Ecs; [|discriminate].
    apply Z.eqb_eq in Ea.
    destruct (K cs Ecs) as (St & Dy). pose proof St as (S1 & S2 & S3 & S4).
    destruct (S4 co) as (A1 & A2 & A3); [rewrite Hcc; left; reflexivity|exact Ea|].
    destruct Dy as [(Ok & Nt)|(_ & Bk)]; [|contradiction].
    change (cst s0) with (cst s) in H. rewrite Ecs in H.
    set (drop := match cs_comps cs with
                 | [c] => does_nothing (cc_doc co) c &&
                          (negb (fx (cfg s0)) || match cs_idx cs with None => true | Some _ => false end)
                 | _ => false end) in *.
    (* any state with this menu (or none), no completer: fine once `running` is reset *)
    assert (Fin : forall cs1, cs_static (next_id s) [] cs1 -> cs_dyn (fx (cfg s)) (text s) (cur s) cs1 ->
                  Wf (set_cst s0 (Some cs1)) /\ CsOk (set_cst s0 (Some cs1)) /\
                  ccos (set_cst s0 (Some cs1)) = [] /\ CntVS (set_cst s0 (Some cs1))).
    { intros cs1 P Q. split; [unfold Wf in *; simp; exact W|]. split.
      - unfold CsOk; simp. intros cs' Hcs'. inversion Hcs'; subst cs'. split; auto.
      - split; [reflexivity|unfold CntVS in *; simp; exact VS]. }
    assert (FinN : forall s1, Wf s1 -> ccos s1 = [] -> CntVS s1 -> Inv (set_crun (set_cst s1 None) false)).
    { intros s1 P Q R. apply end_Inv.
      - unfold Wf in *; simp; exact P.
      - apply CsOk_none; reflexivity.
      - exact Q.
      - unfold CntVS in *; simp; exact R. }
    assert (StW : cs_static (next_id s) [] cs) by (eapply cs_static_weaken; eauto).
    destruct drop eqn:Ed.
    + (* the single no-op completion is dropped *)
      set (cs1 := cs_with_comps cs []) in *.
      assert (St1 : cs_static (next_id s) [] cs1).
      { unfold cs1, cs_static; simp. split; [auto|]. split; [auto|]. split; [constructor|]. intros ? []. }
      change (cs_idx cs1) with (cs_idx cs) in H. change (cs_comps cs1) with (@nil completion) in H.
      destruct (cs_idx cs) as [j|] eqn:Ej.
      * inversion H; subst s' e; clear H.
        assert (Hfx : fx (cfg s) = false).
        { unfold drop in Ed. destruct (cs_comps cs) as [|c [|c2 r]]; try discriminate.
          apply andb_true_iff in Ed. destruct Ed as (_ & Ed). simp. try rewrite Ej in Ed.
          change (fx (cfg s0)) with (fx (cfg s)) in Ed.
          destruct (fx (cfg s)); [discriminate Ed|reflexivity]. }
        assert (Dy1 : cs_dyn (fx (cfg s)) (text s) (cur s) cs1).
        { right. split; [auto|]. unfold broken, cs1; simp. split; [reflexivity|congruence]. }
        destruct (Fin cs1 St1 Dy1) as (P & Q & R & T). apply end_Inv; auto.
      * inversion H; subst s' e; clear H. apply FinN.
        -- unfold Wf in *; simp; exact W.
        -- reflexivity.
        -- unfold CntVS in *; simp; exact VS.
    + (* nothing dropped *)
      assert (Dy0 : cs_dyn (fx (cfg s)) (text s) (cur s) cs) by (left; auto).
      destruct (Fin cs StW Dy0) as (P & Q & R & T).
      set (s1 := set_cst s0 (Some cs)) in *.
      simp. destruct (cs_idx cs) as [j|] eqn:Ej.
      * inversion H; subst s' e; clear H. apply end_Inv; auto.
      * destruct (cs_comps cs) as [|c0 r0] eqn:Ecomps.
        { inversion H; subst s' e; clear H. apply FinN; auto. }
        assert (Gtc : forall i s2 e2, go_to_completion s1 i = (s2, e2) -> Inv (set_crun s2 false)).
        { intros i s2 e2 Hg2. destruct (gtc_spec _ _ _ _ P Q Hg2) as (Fr & W2 & K2 & _).
          destruct Fr as (_ & _ & _ & F4 & F5 & F6 & F7 & F8).
          apply end_Inv; [exact W2|exact K2|rewrite F6; exact R|unfold CntVS in *; rewrite F4, F5, F7, F8; exact T]. }
        destruct (cc_flag co =? 1).
        { destruct (go_to_completion s1 (Some 0)) as [s2 e2] eqn:Hg2. inversion H; subst. eapply Gtc; eauto. }
        destruct (cc_flag co =? 2).
        { destruct (go_to_completion s1 (Some (len (c0 :: r0) - 1))) as [s2 e2] eqn:Hg2.
          inversion H; subst. eapply Gtc; eauto. }
        destruct (cc_flag co =? 3).
        2:{ inversion H; subst. apply end_Inv; auto. }
        destruct (common_suffix (cc_doc co) (c0 :: r0)) as [|x cm] eqn:Ecm.
        { destruct (len (c0 :: r0) =? 1).
          - destruct (go_to_completion s1 (Some 0)) as [s2 e2] eqn:Hg2. inversion H; subst. eapply Gtc; eauto.
          - inversion H; subst. apply end_Inv; auto. }
        destruct (insert_text s1 (x :: cm)) as [s2 e2] eqn:Hins.
        destruct (insert_text_spec _ _ _ _ P Hins) as (E0 & (Fr & W2 & _) & Hd).
        subst e2. cbn [Z.eqb] in H.
        destruct Fr as (F1 & F2 & F3 & F4 & F5 & F6 & F7 & F8).
        assert (R2 : ccos s2 = []) by (rewrite F6; exact R).
        assert (T2 : CntVS s2) by (unfold CntVS in *; rewrite F4, F5, F7, F8; exact T).
        destruct (1 <? len (c0 :: r0)).
        2:{ inversion H; subst. apply FinN; auto. }
        inversion H; subst s' e; clear H.
        apply end_Inv.
        -- unfold set_completions, Wf in *; simp. exact W2.
        -- unfold set_completions, CsOk; simp. intros cs' Hcs'. inversion Hcs'; subst cs'; clear Hcs'.
           pose proof W2 as (Wc2 & _).
           assert (Ho : cs_orig cs = cur_doc s1).
           { rewrite (ntp_none_idx cs Ej) in Nt. inversion Nt. unfold s1, s0; simp.
             destruct (cs_orig cs); simp. subst. reflexivity. }
           split.
           ++ unfold cs_static; simp. split; [lia|]. split; [unfold wf_doc; simp; lia|]. split.
              ** fold (cur_doc s2). rewrite Hd, <- Ho. apply (fresh_new_from_pos (cs_orig cs) (x :: cm) (c0 :: r0)); [discriminate|].
                 rewrite <- A2. exact S3.
              ** rewrite R2. intros ? [].
           ++ left. split; [unfold idx_ok; simp; exact Logic.I|]. reflexivity.
        -- unfold set_completions; simp. exact R2.
        -- unfold set_completions, CntVS in *; simp. exact T2.
  - (* the text changed under the completer *)
    destruct (str_eqb (tbc (cur_doc s0)) (tbc (cc_doc co))).
    { inversion H; subst. apply end_Inv; auto. }
    destruct (startswith (tbc (cur_doc s0)) (tbc (cc_doc co))).
    + inversion H; subst. apply body_Inv; auto.
    + inversion H; subst. apply end_Inv; auto.
Qed.

Lemma cend_Inv s k s' e : Inv s -> cend s k = (s', e) -> Inv s'.
Proof.
  intros HI H. unfold cend in H. destruct (get_nth (ccos s) k) as [co|] eqn:Eg.
  - eapply cpost_Inv; eauto.
  - inversion H; subst; auto.
Qed.

Lemma cyield_Inv s k t st s' e : Inv s -> cyield s k t st = (s', e) -> Inv s'.
Proof.
  intros HI H. unfold cyield in H. destruct (0 <? st); [inversion H; subst; auto|].
  destruct (get_nth (ccos s) k) as [co|] eqn:Eg; [|inversion H; subst; auto].
  destruct (attached s co) eqn:Ea; [|eapply cpost_Inv; eauto].
  unfold attached in Ea. destruct (cst s) as [cs|] eqn:Ecs; [|discriminate].
  apply Z.eqb_eq in Ea.
  destruct (Inv_ccos_single _ _ _ HI Eg) as (Hcc & Hk & Hr).
  pose proof HI as (W & C & I & K).
  destruct (K cs Ecs) as (St & Dy). pose proof St as (S1 & S2 & S3 & S4).
  destruct (S4 co) as (A1 & A2 & A3); [rewrite Hcc; left; reflexivity|exact Ea|].
  destruct Dy as [(Ok & Nt)|(_ & Bk)]; [|contradiction].
  set (c := mkc t st (cc_doc co)) in *.
  set (cs1 := cs_with_comps cs (cs_comps cs ++ [c])) in *.
  set (s1 := set_cst s (Some cs1)) in *.
  assert (HI1 : Inv s1).
  { split; [unfold Wf in *; simp; exact W|]. split; [unfold Cnt in *; simp; exact C|].
    split; [unfold Ids in *; simp; exact I|].
    unfold CsOk, s1; simp. intros cs' Hcs'. inversion Hcs'; subst cs'; clear Hcs'. split.
    - unfold cs_static, cs1; simp. split; [auto|]. split; [auto|]. split.
      + apply Forall_app. split; [exact S3|]. constructor; [|constructor].
        left. unfold c; simp. split; auto.
      + intros co' Hin Hid. destruct (S4 co' Hin Hid) as (B1 & B2 & _). split; [auto|]. split; [auto|].
        intros (Hb & _). simp. destruct (cs_comps cs); discriminate.
    - left. unfold idx_ok, ntp, cs1 in *; simp. destruct (cs_idx cs) as [j|].
      + split; [rewrite len_app; pose proof (len_nonneg [c]); lia|].
        rewrite index_app_l by exact Ok. exact Nt.
      + split; auto. }
  assert (Eg1 : get_nth (ccos s1) k = Some co) by exact Eg.
  destruct (maxn (cfg s) <=? len (cs_comps cs1)).
  - eapply cpost_Inv; eauto.
  - inversion H; subst; auto.
Qed.

(* --- validator and suggester --------------------------------------------- *)
Lemma vreturn_Inv s k ok s' e : Inv s -> vreturn s k ok = (s', e) -> Inv s'.
Proof.
  intros HI H. pose proof HI as (W & C & I & K). pose proof C as (Cc & Cv & Cs).
  unfold vreturn in H. destruct (get_nth (vcos s) k) as [d|] eqn:Eg; [|inversion H; subst; auto].
  assert (Hl : (length (vcos s) <= 1)%nat) by (rewrite Cv; destruct (vrun s); lia).
  destruct (get_nth_single _ _ _ Hl Eg) as (Hv & Hk). subst k. rewrite Hv in *.
  change (remove_nth [d] 0) with (@nil doc) in H.
  change (replace_nth [d] 0 (cur_doc s)) with [cur_doc s] in H.
  assert (Hvr : vrun s = true) by (destruct (vrun s); [reflexivity|discriminate]).
  pose proof W as (Wc & Wv & Ws).
  destruct (doc_eqb (cur_doc s) d) eqn:Ed.
  - apply doc_eqb_eq in Ed. inversion H; subst s' e; clear H.
    split.
    + unfold Wf; simp. split; [exact Wc|]. split; [|exact Ws].
      intros _. exists d. split; [reflexivity|]. rewrite <- Ed. reflexivity.
    + split; [unfold Cnt; simp; auto|]. split; [unfold Ids in *; simp; exact I|unfold CsOk in *; simp; exact K].
  - destruct (vst s =? 0); inversion H; subst s' e; clear H.
    + split; [unfold Wf in *; simp; exact W|]. split; [unfold Cnt; simp; rewrite Hvr; auto|].
      split; [unfold Ids in *; simp; exact I|unfold CsOk in *; simp; exact K].
    + split; [unfold Wf in *; simp; exact W|]. split; [unfold Cnt; simp; auto|].
      split; [unfold Ids in *; simp; exact I|unfold CsOk in *; simp; exact K].
Qed.

Lemma sreturn_Inv s k v s' e : Inv s -> sreturn s k v = (s', e) -> Inv s'.
Proof.
  intros HI H. pose proof HI as (W & C & I & K). pose proof C as (Cc & Cv & Cs).
  unfold sreturn in H. destruct (get_nth (scos s) k) as [d|] eqn:Eg; [|inversion H; subst; auto].
  assert (Hl : (length (scos s) <= 1)%nat) by (rewrite Cs; destruct (srun s); lia).
  destruct (get_nth_single _ _ _ Hl Eg) as (Hv & Hk). subst k. rewrite Hv in *.
  change (remove_nth [d] 0) with (@nil doc) in H.
  assert (Hsr : srun s = true) by (destruct (srun s); [reflexivity|discriminate]).
  pose proof W as (Wc & Wv & Ws).
  change (cur_doc (set_scos s [])) with (cur_doc s) in H. destruct (doc_eqb (cur_doc s) d) eqn:Ed.
  - apply doc_eqb_eq in Ed. inversion H; subst s' e; clear H.
    split.
    + unfold Wf; simp. split; [exact Wc|]. split; [exact Wv|].
      intros t0 d0 Hs0. destruct v; [|discriminate]. inversion Hs0; subst. reflexivity.
    + split; [unfold Cnt; simp; auto|]. split; [unfold Ids in *; simp; exact I|unfold CsOk in *; simp; exact K].
  - inversion H; subst s' e; clear H. unfold suggester_body; simp. destruct (sug s).
    + split; [unfold Wf in *; simp; exact W|]. split; [unfold Cnt; simp; auto|].
      split; [unfold Ids in *; simp; exact I|unfold CsOk in *; simp; exact K].
    + split; [unfold Wf in *; simp; exact W|]. split; [unfold Cnt; simp; rewrite Hsr; auto|].
      split; [unfold Ids in *; simp; exact I|unfold CsOk in *; simp; exact K].
Qed.

(* --- a menu installed synchronously ---------------------------------------- *)
Lemma set_completions_Inv s comps : Inv s -> Forall (fun c => csrc c = cur_doc s) comps ->
  Inv (set_completions s comps []).
Proof.
  intros (W & C & I & K) Hf. pose proof W as (Wc & _). unfold set_completions.
  split; [unfold Wf in *; simp; exact W|]. split; [unfold Cnt in *; simp; exact C|]. split.
  - unfold Ids in *; simp. intros co Hin. specialize (I co Hin). lia.
  - unfold CsOk; simp. intros cs Hcs. inversion Hcs; subst cs; clear Hcs. split.
    + unfold cs_static; simp. split; [lia|]. split; [unfold wf_doc; simp; lia|]. split.
      * eapply Forall_impl; [|exact Hf]. intros c Hc. left. split; [reflexivity|exact Hc].
      * intros co Hin Hid. specialize (I co Hin). lia.
    + left. split; [unfold idx_ok; simp; exact Logic.I|reflexivity].
Qed.

Lemma install_menu_Inv s l s' e : Inv s -> install_menu s l = (s', e) -> Inv s'.
Proof.
  intros HI H. unfold install_menu in H. eapply gtc_Inv; [|exact H]. apply set_completions_Inv; auto.
  apply Forall_forall. intros c Hin. apply in_map_iff in Hin. destruct Hin as (x & Hx & _). subst c. reflexivity.
Qed.

(* --- every step, every label list ----------------------------------------- *)
Lemma add_pending_Inv s t : Inv s -> Inv (add_pending s t).
Proof. intros H. unfold add_pending. apply set_pending_Inv. exact H. Qed.

Theorem step_Inv s l : Inv s -> Inv (apply s l).
Proof.
  intros HI. unfold apply. destruct (step s l) as [s' e] eqn:E. cbn [fst].
  pose proof HI as (W & _).
  destruct l; cbn [step] in E.
  - destruct (insert_text_spec _ _ _ _ W E) as (_ & Ed & _). eapply Edit_Inv; eauto.
  - destruct (delete_before_spec _ _ _ _ W E) as (Ed & _). eapply Edit_Inv; eauto.
  - inversion E; subst. eapply Edit_Inv; [apply move_cursor_spec; auto|auto].
  - eapply complete_next_Inv; eauto.
  - eapply complete_prev_Inv; eauto.
  - eapply cancel_Inv; eauto.
  - inversion E; subst. apply add_pending_Inv; auto.
  - inversion E; subst. apply start_nth_Inv; auto.
  - inversion E; subst. unfold tick. apply tick_n_Inv; auto.
  - eapply cyield_Inv; eauto.
  - eapply cend_Inv; eauto.
  - eapply vreturn_Inv; eauto.
  - eapply sreturn_Inv; eauto.
  - eapply install_menu_Inv; eauto.
  - inversion E; subst. eapply Edit_Inv; [apply delete_fwd_spec; auto|auto].
  - inversion E; subst. eapply Edit_Inv; [apply set_text_spec; auto|auto].
  - eapply Edit_Inv; [eapply swap_chars_spec; eauto|auto].
  - inversion E; subst. eapply Edit_Inv; [apply validate_sync_spec; auto|auto].
  - eapply Edit_Inv; [eapply reset_buf_spec; eauto|auto].
  - inversion E; subst. eapply Edit_Inv; [apply validate_and_handle_spec; auto|auto].
  - unfold hist_step in E. eapply install_menu_Inv; eauto.
Qed.

Theorem run_Inv ls : forall s, Inv s -> Inv (run s ls).
Proof.
  induction ls as [|l r IH]; intros s HI; cbn [run fold_left]; auto.
  apply IH. apply step_Inv. exact HI.
Qed.
