(* C11 - facts about the scrolling arithmetic (Model/C11_Scroll.v). *)
From Coq Require Import ZArith List Bool Lia.
From PTK Require Import Lib.Sx Lib.Py Model.C11_Scroll.
Import ListNotations.
Open Scope Z_scope.

(* ---------------------------------------------------------------------- *)
(* do_scroll keeps the cursor inside the window *)

Lemma quot2_bounds : forall w, 0 <= w -> 0 <= Z.quot w 2 /\ 2 * Z.quot w 2 <= w.
Proof.
  intros w Hw. rewrite Z.quot_div_nonneg by lia.
  pose proof (Z.div_mod w 2 ltac:(lia)) as E.
  pose proof (Z.mod_pos_bound w 2 ltac:(lia)) as B. lia.
Qed.

Lemma do_scroll_visible : forall allow cur so_s so_e pos w content,
  1 <= w -> 0 <= pos < content -> 0 <= so_s -> 0 <= so_e ->
  let r := do_scroll allow cur so_s so_e pos w content in
  0 <= r /\ r <= pos < r + w.
Proof.
  intros allow cur so_s so_e pos w content Hw Hpos Hs He.
  unfold do_scroll.
  destruct (quot2_bounds w ltac:(lia)) as [Hq0 Hq1].
  set (q := Z.quot w 2) in *.
  set (ss := Z.min so_s (Z.min q pos)).
  set (se := Z.min so_e (Z.min q (content - 1 - pos))).
  assert (Hss : 0 <= ss <= pos) by (unfold ss; lia).
  assert (Hse : 0 <= se /\ se <= w - 1) by (unfold se; lia).
  destruct (cur <? 0) eqn:E1;
  destruct (negb allow && (content - w <? _)) eqn:E2;
  match goal with |- context [if ?a - ss <? ?c then _ else _] =>
    destruct (a - ss <? c) eqn:E3 end;
  match goal with |- context [if ?c <? ?d then _ else _] =>
    destruct (c <? d) eqn:E4 end; cbv zeta; lia.
Qed.

(* the scroll offsets are honoured whenever the window is large enough *)
Lemma do_scroll_nonneg : forall allow cur so_s so_e pos w content,
  1 <= w -> 0 <= pos < content -> 0 <= so_s -> 0 <= so_e ->
  0 <= do_scroll allow cur so_s so_e pos w content.
Proof. intros. now apply do_scroll_visible. Qed.

(* ---------------------------------------------------------------------- *)
(* sums of line heights *)

(* sum of Hf over the lines a <= l < n *)
Fixpoint sumH (Hf : Z -> Z) (a : Z) (n : nat) : Z :=
  match n with
  | O => 0
  | S k => (if a <=? Z.of_nat k then Hf (Z.of_nat k) else 0) + sumH Hf a k
  end.

Lemma sumH_empty : forall Hf a n, Z.of_nat n <= a -> sumH Hf a n = 0.
Proof.
  induction n as [|k IH]; intros Hle; cbn [sumH]; [reflexivity|].
  destruct (a <=? Z.of_nat k) eqn:E; [lia|]. rewrite IH by lia. lia.
Qed.

Lemma sumH_nonneg : forall Hf a n, (forall l, 0 <= Hf l) -> 0 <= sumH Hf a n.
Proof.
  intros Hf a n Hp. induction n as [|k IH]; cbn [sumH]; [lia|].
  destruct (a <=? Z.of_nat k); specialize (Hp (Z.of_nat k)); lia.
Qed.

Lemma sumH_step : forall Hf a n, 0 <= a -> a < Z.of_nat n ->
  sumH Hf a n = Hf a + sumH Hf (a + 1) n.
Proof.
  induction n as [|k IH]; intros H0 Hlt; [lia|].
  cbn [sumH].
  destruct (Z.eq_dec a (Z.of_nat k)) as [->|Hne].
  - rewrite Z.leb_refl.
    destruct (Z.of_nat k + 1 <=? Z.of_nat k) eqn:E; [lia|].
    rewrite (sumH_empty Hf (Z.of_nat k) k) by lia.
    rewrite (sumH_empty Hf (Z.of_nat k + 1) k) by lia. lia.
  - destruct (a <=? Z.of_nat k) eqn:E1; [|lia].
    destruct (a + 1 <=? Z.of_nat k) eqn:E2; [|lia].
    rewrite IH by lia. lia.
Qed.

(* monotone in the start line when heights are non-negative *)
Lemma sumH_mono : forall Hf a b n, (forall l, 0 <= Hf l) -> a <= b ->
  sumH Hf b n <= sumH Hf a n.
Proof.
  intros Hf a b n Hp Hab. induction n as [|k IH]; cbn [sumH]; [lia|].
  specialize (Hp (Z.of_nat k)).
  destruct (a <=? Z.of_nat k) eqn:E1; destruct (b <=? Z.of_nat k) eqn:E2; lia.
Qed.

Lemma sumH_succ : forall Hf a k, a <= Z.of_nat k ->
  sumH Hf a (S k) = sumH Hf a k + Hf (Z.of_nat k).
Proof. intros. cbn [sumH]. destruct (a <=? Z.of_nat k) eqn:E; lia. Qed.

(* monotone in the end line *)
Lemma sumH_mono_end : forall Hf a n m, (forall l, 0 <= Hf l) -> (n <= m)%nat ->
  sumH Hf a n <= sumH Hf a m.
Proof.
  intros Hf a n m Hp Hnm. induction Hnm as [|m' _ IH]; [lia|].
  cbn [sumH]. specialize (Hp (Z.of_nat m')).
  destruct (a <=? Z.of_nat m'); lia.
Qed.

(* ---------------------------------------------------------------------- *)
(* the downward loops *)

Lemma down_loop_id : forall Hf bound n used prev,
  let r := down_loop Hf bound (fun p => p) n used prev in
  r = prev \/ (0 <= r < Z.of_nat n /\ used + sumH Hf r n <= bound).
Proof.
  intros Hf bound. induction n as [|k IH]; intros used prev; cbn [down_loop]; [now left|].
  destruct (bound <? used + Hf (Z.of_nat k)) eqn:E; [now left|].
  right. destruct (IH (used + Hf (Z.of_nat k)) (Z.of_nat k)) as [-> | [Hr Hs]].
  - split; [lia|]. cbn [sumH]. rewrite Z.leb_refl.
    rewrite sumH_empty by lia. lia.
  - split; [lia|]. cbn [sumH].
    destruct (_ <=? Z.of_nat k) eqn:E2; lia.
Qed.

Lemma down_loop_zero : forall Hf bound n used prev, (0 < n)%nat ->
  let r := down_loop Hf bound (fun _ => 0) n used prev in
  r = prev \/ (0 <= r < Z.of_nat n /\ used + sumH Hf r n <= bound).
Proof.
  intros Hf bound. induction n as [|k IH]; intros used prev Hn; [lia|].
  cbn [down_loop].
  destruct (bound <? used + Hf (Z.of_nat k)) eqn:E; [now left|].
  right. destruct k as [|k'].
  - cbn [down_loop]. split; [lia|]. cbn [sumH]. cbn [Z.of_nat] in *. cbn [Z.leb Z.compare]. lia.
  - destruct (IH (used + Hf (Z.of_nat (S k'))) (Z.of_nat (S k')) ltac:(lia)) as [-> | [Hr Hs]].
    + split; [lia|]. rewrite sumH_succ by lia. rewrite sumH_empty by lia. lia.
    + split; [lia|]. rewrite sumH_succ by lia. lia.
Qed.

(* ---------------------------------------------------------------------- *)
(* _scroll_when_linewrapping, the cursor line fits: after scrolling, the lines
   from the scroll position up to and including the cursor line fit the window *)

Section WrapFits.
  Variables (Hf : Z -> Z) (tbh : Z -> Z).
  Variables (width height top bottom cy cx nlines : Z).
  Hypothesis Hpos : forall l, 0 <= Hf l.
  Hypothesis Hwidth : 1 <= width.
  Hypothesis Hcy : 0 <= cy < nlines.
  Hypothesis Htop : 0 <= top.
  Hypothesis Hbottom : 0 <= bottom.

  Lemma scroll_wrap_fits : forall fixed allow st,
    Hf cy <= height - top ->
    let st' := scroll_wrap_gen fixed allow Hf tbh width height top bottom cy cx nlines st in
    vs2 st' = 0 /\ hs st' = 0 /\ (0 <= vs st -> 0 <= vs st') /\ vs st' <= cy /\
    sumH Hf (vs st') (Z.to_nat (cy + 1)) <= height.
  Proof.
    intros fixed allow st Hfit. unfold scroll_wrap_gen.
    destruct (width <=? 0) eqn:Ew; [lia|].
    destruct (height - top <? Hf cy) eqn:Ec; [lia|].
    cbv zeta.
    set (T := get_topmost_visible Hf height nlines).
    set (m := get_min_vertical_scroll Hf height bottom cy).
    set (M := get_max_vertical_scroll Hf top cy).
    (* facts about m *)
    assert (Hm : 0 <= m <= cy /\ sumH Hf m (Z.to_nat (cy + 1)) <= height).
    { unfold m, get_min_vertical_scroll.
      destruct (down_loop_zero Hf (height - bottom) (Z.to_nat (cy + 1)) 0 cy ltac:(lia)) as [-> | [Hr Hs]].
      - split; [lia|]. replace (Z.to_nat (cy + 1)) with (S (Z.to_nat cy)) by lia.
        rewrite sumH_succ by lia. rewrite sumH_empty by lia. rewrite Z2Nat.id by lia. lia.
      - split; lia. }
    (* facts about M *)
    assert (HM : 0 <= M <= cy /\ sumH Hf M (Z.to_nat cy) <= top).
    { unfold M, get_max_vertical_scroll.
      destruct (down_loop_id Hf top (Z.to_nat cy) 0 cy) as [-> | [Hr Hs]].
      - split; [lia|]. rewrite sumH_empty by lia. lia.
      - split; lia. }
    (* facts about T *)
    assert (HT : 0 <= T /\ (T <= cy -> sumH Hf T (Z.to_nat (cy + 1)) <= height)).
    { unfold T, get_topmost_visible.
      destruct (down_loop_id Hf height (Z.to_nat nlines) 0 (nlines - 1)) as [-> | [Hr Hs]].
      - split; [lia|]. intros Hle. assert (cy = nlines - 1) by lia. subst cy.
        replace (Z.to_nat (nlines - 1 + 1)) with (S (Z.to_nat (nlines - 1))) by lia.
        rewrite sumH_succ by lia. rewrite sumH_empty by lia. rewrite Z2Nat.id by lia. lia.
      - split; [lia|]. intros Hle.
        pose proof (sumH_mono_end Hf (down_loop Hf height (fun p => p) (Z.to_nat nlines) 0 (nlines - 1))
                      (Z.to_nat (cy + 1)) (Z.to_nat nlines) Hpos ltac:(lia)). lia. }
    assert (HMfit : sumH Hf M (Z.to_nat (cy + 1)) <= height).
    { replace (Z.to_nat (cy + 1)) with (S (Z.to_nat cy)) by lia.
      rewrite sumH_succ by lia. rewrite Z2Nat.id by lia. lia. }
    (* monotonicity: starting later only shrinks the sum *)
    assert (Hmono : forall a b, a <= b -> sumH Hf b (Z.to_nat (cy + 1)) <= sumH Hf a (Z.to_nat (cy + 1))).
    { intros a b Hab. now apply sumH_mono. }
    set (L0 := Z.min T m).
    assert (HL0 : 0 <= L0 <= cy /\ sumH Hf L0 (Z.to_nat (cy + 1)) <= height).
    { unfold L0. destruct (Z.min_spec T m) as [[Hlt ->] | [Hge ->]]; [|exact Hm].
      split; [lia|]. apply HT. lia. }
    set (A := Z.max (vs st) L0).
    set (B := Z.min A M).
    assert (HB : 0 <= B <= cy /\ sumH Hf B (Z.to_nat (cy + 1)) <= height).
    { unfold B. destruct (Z.min_spec A M) as [[Hlt ->] | [Hge ->]].
      - split; [unfold A; lia|]. pose proof (Hmono L0 A ltac:(unfold A; lia)). lia.
      - split; [lia|]. exact HMfit. }
    assert (HC : 0 <= Z.min B T <= cy /\ sumH Hf (Z.min B T) (Z.to_nat (cy + 1)) <= height).
    { destruct (Z.min_spec B T) as [[Hlt ->] | [Hge ->]]; [exact HB|].
      split; [lia|]. apply HT. lia. }
    destruct allow; cbn [vs vs2 hs]; repeat split; try lia.
  Qed.

  (* the cursor line is taller than the window minus the top offset: the
     intra-line scroll.  [r] is the row of the cursor inside its line. *)
  Lemma scroll_wrap_tall : forall fixed allow st,
    1 <= height -> height - top < Hf cy ->
    let st' := scroll_wrap_gen fixed allow Hf tbh width height top bottom cy cx nlines st in
    let t := tbh (if fixed then cx + 1 else cx) in
    vs st' = cy /\ hs st' = 0 /\ 0 <= vs2 st' /\
    (forall r, 0 <= r -> t - 1 <= r -> vs2 st' <= r) /\
    (forall r, r + 1 <= t -> r - vs2 st' < height).
  Proof.
    intros fixed allow st Hh Htall. unfold scroll_wrap_gen.
    destruct (width <=? 0) eqn:Ew; [lia|].
    destruct (height - top <? Hf cy) eqn:Ec; [|lia].
    cbv zeta. cbn [vs vs2 hs].
    repeat split; intros; try lia.
  Qed.
End WrapFits.
