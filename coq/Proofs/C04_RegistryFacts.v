(* C04 - lookups through KeyBindings and its wrappers equal the uncached
   recomputation over the current binding lists, after any history of
   add / remove / dynamic switch / lookups. *)
From Coq Require Import ZArith List Bool Lia Arith.PeanoNat.
From PTK Require Import Lib.Sx Model.C04_KeyProc Model.C04_Registry.
Import ListNotations.
Open Scope Z_scope.

(* ---------------------------------------------------------------- basic facts *)
Fixpoint ver_eqb_sound (a : ver) : forall b, ver_eqb a b = true -> a = b.
Proof.
  destruct a as [x|xs|i x]; intros [y|ys|j y] H; cbn in H; try discriminate.
  - apply Z.eqb_eq in H. congruence.
  - f_equal. revert ys H. induction xs as [|x xs IHxs]; intros [|y ys] H; try discriminate; [reflexivity|].
    apply andb_prop in H. destruct H as [H1 H2]. f_equal; [apply ver_eqb_sound; exact H1|apply IHxs; exact H2].
  - apply andb_prop in H. destruct H as [H1 H2]. apply Nat.eqb_eq in H1. subst. f_equal. apply ver_eqb_sound. exact H2.
Qed.

Lemma keys_eqb_sound a : forall b, keys_eqb a b = true -> a = b.
Proof.
  induction a as [|x a IH]; intros [|y b] H; try discriminate; [reflexivity|].
  cbn in H. apply andb_prop in H. destruct H as [H1 H2]. apply Z.eqb_eq in H1. subst. f_equal. apply IH. exact H2.
Qed.

Lemma set_nth_length {T} (l : list T) i x : length (set_nth l i x) = length l.
Proof. revert i. induction l as [|y l IH]; intros [|i]; cbn; auto. Qed.

Lemma set_nth_same {T} (l : list T) i x : (i < length l)%nat -> nth_error (set_nth l i x) i = Some x.
Proof. revert i. induction l as [|y l IH]; intros [|i] H; cbn in *; try lia; [reflexivity|]. apply IH. lia. Qed.

Lemma set_nth_other {T} (l : list T) i j x : i <> j -> nth_error (set_nth l i x) j = nth_error l j.
Proof.
  revert i j. induction l as [|y l IH]; intros [|i] [|j] H; cbn; try reflexivity; try congruence.
  apply IH. congruence.
Qed.

Lemma set_nth_map_same {T U} (f : T -> U) (l : list T) i x y :
  nth_error l i = Some y -> f x = f y -> map f (set_nth l i x) = map f l.
Proof.
  revert i. induction l as [|z l IH]; intros [|i] H E; cbn in *; try discriminate.
  - injection H as ->. rewrite E. reflexivity.
  - f_equal. apply IH; assumption.
Qed.

(* ---------------------------------------------------------------- cores *)
Definition obj_core (o : obj) : obj :=
  match o with
  | OKB bs v _ _ => OKB bs v [] []
  | OCondW c f _ => OCondW c f proxy0
  | OMerged cs _ => OMerged cs proxy0
  | ODyn cs sel => ODyn cs sel
  | OGlobal c _ => OGlobal c proxy0
  end.

Definition core_eq (s s' : store) : Prop := map obj_core s = map obj_core s'.

Lemma core_eq_refl s : core_eq s s. Proof. reflexivity. Qed.
Lemma core_eq_trans a b c : core_eq a b -> core_eq b c -> core_eq a c.
Proof. unfold core_eq. congruence. Qed.
Lemma core_eq_length s s' : core_eq s s' -> length s = length s'.
Proof. intros H. apply (f_equal (@length obj)) in H. rewrite !map_length in H. exact H. Qed.

Lemma core_eq_nth s s' i o : core_eq s s' -> nth_error s i = Some o ->
  exists o', nth_error s' i = Some o' /\ obj_core o = obj_core o'.
Proof.
  intros H Hn. apply (f_equal (fun l => nth_error l i)) in H. rewrite !nth_error_map, Hn in H. cbn in H.
  destruct (nth_error s' i) as [o'|]; [|discriminate]. exists o'. cbn in H. split; congruence.
Qed.

Lemma core_eq_set s i o o' : nth_error s i = Some o -> obj_core o' = obj_core o -> core_eq s (set_nth s i o').
Proof. intros H E. unfold core_eq. symmetry. eapply set_nth_map_same; eauto. Qed.

Lemma osum_core acc i o : osum acc i (obj_core o) = osum acc i o.
Proof. destruct o; reflexivity. Qed.

Lemma summ_from_core s : forall acc, summ_from acc (map obj_core s) = summ_from acc s.
Proof.
  induction s as [|o s IH]; intros acc; [reflexivity|].
  unfold summ_from in *. cbn [map fold_left]. rewrite osum_core. apply IH.
Qed.

Lemma summ_core_eq s s' : core_eq s s' -> summ s = summ s'.
Proof. intros H. unfold summ. rewrite <- (summ_from_core s), <- (summ_from_core s'), H. reflexivity. Qed.

(* ---------------------------------------------------------------- summaries *)
Lemma summ_from_prefix s : forall acc, exists tl, summ_from acc s = acc ++ tl /\ length tl = length s.
Proof.
  induction s as [|o s IH]; intros acc; cbn.
  - exists []. rewrite app_nil_r. split; reflexivity.
  - destruct (IH (acc ++ [osum acc (length acc) o])) as [tl [H1 H2]]. unfold summ_from in *. rewrite H1.
    exists (osum acc (length acc) o :: tl). rewrite <- app_assoc. cbn. split; [reflexivity|lia].
Qed.

Lemma summ_from_length s acc : length (summ_from acc s) = (length acc + length s)%nat.
Proof. destruct (summ_from_prefix s acc) as [tl [-> H]]. rewrite app_length. lia. Qed.

Lemma summ_from_nth_acc s acc i : (i < length acc)%nat -> nth i (summ_from acc s) sdflt = nth i acc sdflt.
Proof. intros H. destruct (summ_from_prefix s acc) as [tl [-> _]]. apply app_nth1. exact H. Qed.

Lemma summ_from_app a b acc : summ_from acc (a ++ b) = summ_from (summ_from acc a) b.
Proof. unfold summ_from. apply fold_left_app. Qed.

Definition kids (o : obj) : list nat :=
  match o with
  | OKB _ _ _ _ => []
  | OCondW c _ _ | OGlobal c _ => [c]
  | OMerged cs _ | ODyn cs _ => cs
  end.

Definition wfs (s : store) : Prop :=
  forall i o, nth_error s i = Some o -> forall c, In c (kids o) -> (c < i)%nat.

Lemma kids_core o : kids (obj_core o) = kids o.
Proof. destruct o; reflexivity. Qed.

Lemma wfs_core_eq s s' : core_eq s s' -> wfs s -> wfs s'.
Proof.
  intros CE W i o' Hn c Hc. apply (f_equal (fun l => nth_error l i)) in CE. rewrite !nth_error_map, Hn in CE.
  destruct (nth_error s i) as [o|] eqn:E; [|discriminate]. cbn in CE. injection CE as CE.
  apply (W i o E c). rewrite <- kids_core, CE, kids_core. exact Hc.
Qed.

Lemma dyn_child_in cands sel c : dyn_child cands sel = Some c -> In c cands.
Proof. destruct sel as [k|]; cbn; [apply nth_error_In|discriminate]. Qed.

(* osum only looks at the summaries of the children *)
Lemma osum_ext a1 a2 i o :
  (forall c, In c (kids o) -> nth c a1 sdflt = nth c a2 sdflt) -> osum a1 i o = osum a2 i o.
Proof.
  destruct o as [bs v c1 c2|c f p|cs p|cands sel|c p]; cbn [osum kids]; intros H; try reflexivity.
  - rewrite (H c (or_introl eq_refl)). reflexivity.
  - f_equal.
    + f_equal. apply map_ext_in. intros c Hc. rewrite (H c Hc). reflexivity.
    + clear p. induction cs as [|c cs IH]; [reflexivity|]. cbn. rewrite (H c (or_introl eq_refl)). f_equal.
      apply IH. intros c' Hc'. apply H. right. exact Hc'.
  - destruct (dyn_child cands sel) as [c|] eqn:E; [|reflexivity].
    rewrite (H c (dyn_child_in _ _ _ E)). reflexivity.
  - rewrite (H c (or_introl eq_refl)). reflexivity.
Qed.

Lemma summ_from_cons acc o post :
  summ_from acc (o :: post) = summ_from (acc ++ [osum acc (length acc) o]) post.
Proof. reflexivity. Qed.

Lemma summ_unfold s i o : wfs s -> nth_error s i = Some o -> nth i (summ s) sdflt = osum (summ s) i o.
Proof.
  intros W Hn. destruct (nth_error_split _ _ Hn) as [pre [post [E L]]].
  assert (KI : forall c, In c (kids o) -> (c < i)%nat) by (intros c Hc; exact (W i o Hn c Hc)).
  clear W Hn. unfold summ. subst s. rewrite !summ_from_app, !summ_from_cons. set (V := summ_from [] pre).
  assert (LV : length V = i) by (unfold V; rewrite summ_from_length; cbn; lia).
  rewrite summ_from_nth_acc by (rewrite app_length; cbn; lia).
  rewrite app_nth2 by lia. rewrite LV, Nat.sub_diag. cbn [nth].
  apply osum_ext. intros c Hc. pose proof (KI c Hc) as Hlt.
  rewrite summ_from_nth_acc by (rewrite app_length; cbn; lia). rewrite app_nth1 by lia. reflexivity.
Qed.

Definition cver (s : store) (i : nat) : ver := fst (nth i (summ s) sdflt).

Lemma summ_pair s i : nth i (summ s) sdflt = (cver s i, denot s i).
Proof. unfold cver, denot. destruct (nth i (summ s) sdflt); reflexivity. Qed.

(* ---------------------------------------------------------------- history order *)
Definition obj_older (o0 o : obj) : Prop :=
  match o0, o with
  | OKB bs0 v0 _ _, OKB bs v _ _ => v0 <= v /\ (v0 = v -> bs0 = bs)
  | OCondW c0 f0 _, OCondW c f _ => c0 = c /\ f0 = f
  | OMerged cs0 _, OMerged cs _ => cs0 = cs
  | ODyn cs0 _, ODyn cs _ => cs0 = cs
  | OGlobal c0 _, OGlobal c _ => c0 = c
  | _, _ => False
  end.

Definition older (s0 s : store) : Prop := Forall2 obj_older s0 s.

Lemma obj_older_refl o : obj_older o o.
Proof. destruct o; cbn; auto. split; [lia|auto]. Qed.

Lemma obj_older_trans a b c : obj_older a b -> obj_older b c -> obj_older a c.
Proof.
  destruct a, b, c; cbn; try tauto; try congruence.
  - intros [H1 H2] [H3 H4]. split; [lia|]. intros E. assert (v = v0) by lia. assert (v0 = v1) by lia.
    rewrite H2, H4 by assumption. reflexivity.
  - intros [-> ->] [-> ->]. auto.
Qed.

Lemma older_refl s : older s s.
Proof. induction s; constructor; [apply obj_older_refl|assumption]. Qed.

Lemma older_trans a b c : older a b -> older b c -> older a c.
Proof.
  intros H. revert c. induction H as [|x y a b Hxy Hab IH]; intros c Hc; inversion Hc; subst; constructor.
  - eapply obj_older_trans; eauto.
  - apply IH. assumption.
Qed.

Lemma obj_older_core o0 o o' : obj_older o0 o -> obj_core o = obj_core o' -> obj_older o0 o'.
Proof. destruct o0, o, o'; cbn; try tauto; try discriminate; intros H [= ]; subst; auto. Qed.

Lemma older_core_eq s0 s s' : older s0 s -> core_eq s s' -> older s0 s'.
Proof.
  intros H. revert s'. induction H as [|x y a b Hxy Hab IH]; intros [|z c] CE; try discriminate; constructor.
  - unfold core_eq in CE. cbn in CE. injection CE as E1 E2. eapply obj_older_core; eauto.
  - apply IH. unfold core_eq in *. cbn in CE. injection CE as E1 E2. exact E2.
Qed.

Lemma older_nth s0 s i o : older s0 s -> nth_error s i = Some o ->
  exists o0, nth_error s0 i = Some o0 /\ obj_older o0 o.
Proof.
  intros H. revert i. induction H as [|x y a b Hxy Hab IH]; intros [|i] Hn; cbn in *; try discriminate.
  - injection Hn as <-. exists x. auto.
  - apply IH. exact Hn.
Qed.

Lemma older_length s0 s : older s0 s -> length s0 = length s.
Proof. induction 1; cbn; congruence. Qed.

Lemma obj_older_kids o0 o : obj_older o0 o -> kids o0 = kids o.
Proof. destruct o0, o; cbn; try tauto; intros; try destruct H; subst; reflexivity. Qed.

Lemma older_wfs s0 s : older s0 s -> wfs s -> wfs s0.
Proof.
  intros H W i o0 Hn c Hc.
  assert (exists o, nth_error s i = Some o /\ obj_older o0 o) as [o [Ho Hold]].
  { clear W Hc. revert i Hn. induction H as [|x y a b Hxy Hab IH]; intros [|i] Hn; cbn in *; try discriminate.
    - injection Hn as <-. exists y. auto.
    - apply IH. exact Hn. }
  apply (W i o Ho c). rewrite <- (obj_older_kids _ _ Hold). exact Hc.
Qed.

(* Equal versions mean equal contents: the version counters only increase,
   so a wrapper that sees an unchanged version really has unchanged children. *)
Lemma same_version_same_bindings s0 s : older s0 s -> wfs s ->
  forall i, (i < length s)%nat -> cver s0 i = cver s i -> denot s0 i = denot s i.
Proof.
  intros HO W. pose proof (older_wfs _ _ HO W) as W0.
  intros i. induction i as [i IH] using lt_wf_ind. intros Hi HV.
  destruct (nth_error s i) as [o|] eqn:Ho; [|apply nth_error_None in Ho; lia].
  destruct (older_nth _ _ _ _ HO Ho) as [o0 [Ho0 Hold]].
  unfold cver, denot in *. rewrite (summ_unfold s0 i o0 W0 Ho0), (summ_unfold s i o W Ho) in *.
  assert (KL : forall c, In c (kids o) -> (c < length s)%nat) by (intros c Hc; pose proof (W i o Ho c Hc); lia).
  destruct o0 as [bs0 v0 ? ?|c0 f0 p0|cs0 p0|cands0 sel0|c0 p0];
    destruct o as [bs v ? ?|c f p|cs p|cands sel|c p]; cbn in Hold; try contradiction.
  - cbn in *. destruct Hold as [_ H]. apply H. congruence.
  - destruct Hold as [-> ->]. cbn [osum fst snd kids] in *. f_equal.
    apply IH; [apply (W i _ Ho); left; reflexivity|apply KL; left; reflexivity|exact HV].
  - subst cs0. cbn [osum fst snd kids] in *. injection HV as HV.
    assert (HD : forall c, In c cs -> snd (nth c (summ s0) sdflt) = snd (nth c (summ s) sdflt)).
    { intros c Hc. apply IH; [exact (W i _ Ho c Hc)|exact (KL c Hc)|].
      clear - HV Hc. induction cs as [|x cs IHcs]; [destruct Hc|]. cbn in HV. injection HV as H1 H2.
      destruct Hc as [<-|Hc]; [exact H1|auto]. }
    clear - HD. induction cs as [|x cs IHcs]; [reflexivity|]. cbn. f_equal.
    + apply HD. left; reflexivity.
    + apply IHcs. intros c Hc. apply HD. right; exact Hc.
  - subst cands0. cbn [osum kids] in *.
    destruct (dyn_child cands sel0) as [c0|] eqn:E0; destruct (dyn_child cands sel) as [c|] eqn:E; cbn [fst snd] in *.
    + injection HV as -> HV. apply IH; [apply (W i _ Ho); exact (dyn_child_in _ _ _ E)|apply KL; exact (dyn_child_in _ _ _ E)|exact HV].
    + injection HV as -> _. pose proof (W0 i _ Ho0 i (dyn_child_in _ _ _ E0)). lia.
    + injection HV as <- _. pose proof (W i _ Ho i (dyn_child_in _ _ _ E)). lia.
    + reflexivity.
  - subst c0. cbn [osum fst snd kids] in *. f_equal.
    apply IH; [apply (W i _ Ho); left; reflexivity|apply KL; left; reflexivity|exact HV].
Qed.

(* the initial `()` only ever equals the version of something empty *)
Lemma empty_version_empty s : wfs s -> forall i, (i < length s)%nat -> cver s i = VTup [] -> denot s i = [].
Proof.
  intros W i. induction i as [i IH] using lt_wf_ind. intros Hi HV.
  destruct (nth_error s i) as [o|] eqn:Ho; [|apply nth_error_None in Ho; lia].
  unfold cver, denot in *. rewrite (summ_unfold s i o W Ho) in *.
  destruct o as [bs v ? ?|c f p|cs p|cands sel|c p]; cbn [osum fst snd] in *.
  - discriminate.
  - assert (Hc : (c < i)%nat) by (apply (W i _ Ho); left; reflexivity). rewrite (IH c Hc); [reflexivity|lia|exact HV].
  - injection HV as HV. destruct cs; [reflexivity|discriminate].
  - destruct (dyn_child cands sel); discriminate.
  - assert (Hc : (c < i)%nat) by (apply (W i _ Ho); left; reflexivity). rewrite (IH c Hc); [reflexivity|lia|exact HV].
Qed.

(* ---------------------------------------------------------------- the invariant *)
Definition cache_ok (which : bool) (bs : list binding) (c : lcache) : Prop :=
  forall ks r, cache_get ks c = Some r -> r = getter which bs ks.

Lemma cache_ok_nil w bs : cache_ok w bs [].
Proof. intros ks r H. discriminate. Qed.

Lemma cache_ok_cons w bs c ks : cache_ok w bs c -> cache_ok w bs ((ks, getter w bs ks) :: c).
Proof.
  intros H ks' r. cbn. destruct (keys_eqb ks' ks) eqn:E.
  - apply keys_eqb_sound in E. subst. intros [= <-]. reflexivity.
  - apply H.
Qed.

(* eviction only drops the oldest entry: what is found afterwards was found before *)
Lemma cache_get_removelast ks (c : lcache) r : cache_get ks (removelast c) = Some r -> cache_get ks c = Some r.
Proof.
  induction c as [|[k v] c IH]; [intros H; discriminate|].
  destruct c as [|e c']; [intros H; discriminate|].
  change (removelast ((k, v) :: e :: c')) with ((k, v) :: removelast (e :: c')).
  cbn [cache_get]. destruct (keys_eqb ks k); [intros H; exact H|exact IH].
Qed.

Lemma cache_ok_put mx w bs c ks : cache_ok w bs c -> cache_ok w bs (cache_put mx ks (getter w bs ks) c).
Proof.
  intros H. unfold cache_put. cbv zeta.
  destruct (Nat.ltb mx (length ((ks, getter w bs ks) :: c))).
  - intros ks' r E. apply cache_get_removelast in E. exact (cache_ok_cons w bs c ks H ks' r E).
  - apply cache_ok_cons; exact H.
Qed.

Definition proxy_ok (s : store) (i : nat) (p : proxy) : Prop :=
  cache_ok true (b2 p) (pc1 p) /\ cache_ok false (b2 p) (pc2 p) /\
  ((lastv p = VTup [] /\ b2 p = []) \/
   exists s0, older s0 s /\ lastv p = cver s0 i /\ b2 p = denot s0 i).

Definition obj_ok (s : store) (i : nat) (o : obj) : Prop :=
  match o with
  | OKB bs v c1 c2 => cache_ok true bs c1 /\ cache_ok false bs c2
  | OCondW _ _ p | OMerged _ p | OGlobal _ p => proxy_ok s i p
  | ODyn _ _ => True
  end.

Definition Inv (s : store) : Prop := wfs s /\ forall i o, nth_error s i = Some o -> obj_ok s i o.

Lemma proxy_ok_older s s' i p : (forall s0, older s0 s -> older s0 s') -> proxy_ok s i p -> proxy_ok s' i p.
Proof.
  intros H [H1 [H2 H3]]. split; [exact H1|]. split; [exact H2|].
  destruct H3 as [H3|[s0 [X1 X2]]]; [left; exact H3|right]. exists s0. split; [apply H; exact X1|exact X2].
Qed.

Lemma obj_ok_older s s' i o : (forall s0, older s0 s -> older s0 s') -> obj_ok s i o -> obj_ok s' i o.
Proof. intros H. destruct o; cbn; try tauto; apply proxy_ok_older; exact H. Qed.

(* a proxy whose recorded version is current holds the current bindings *)
Lemma proxy_current s i p : wfs s -> (i < length s)%nat -> proxy_ok s i p -> lastv p = cver s i -> b2 p = denot s i.
Proof.
  intros W Hi [_ [_ [[H1 H2]|[s0 [X1 [X2 X3]]]]]] HV.
  - rewrite H2. symmetry. apply empty_version_empty; [exact W|exact Hi|congruence].
  - rewrite X3. apply same_version_same_bindings; [exact X1|exact W|exact Hi|congruence].
Qed.

(* replacing object i by an equal-core object that is itself fine keeps the invariant *)
Lemma Inv_set s i o o' :
  Inv s -> nth_error s i = Some o -> obj_core o' = obj_core o -> obj_ok (set_nth s i o') i o' ->
  Inv (set_nth s i o').
Proof.
  intros [W I] Hn E OK. pose proof (core_eq_set s i o o' Hn E) as CE.
  split; [exact (wfs_core_eq _ _ CE W)|].
  intros j oj Hj. destruct (Nat.eq_dec i j) as [<-|NE].
  - rewrite set_nth_same in Hj by (apply nth_error_Some; congruence). injection Hj as <-. exact OK.
  - rewrite set_nth_other in Hj by exact NE. apply (obj_ok_older s); [|exact (I j oj Hj)].
    intros s0 H0. exact (older_core_eq _ _ _ H0 CE).
Qed.

(* ---------------------------------------------------------------- _update_cache *)
Definition upd_post (s : store) (i : nat) (res : store * ver * list binding) : Prop :=
  let '(s', v, bs) := res in
  v = cver s i /\ bs = denot s i /\ Inv s' /\ core_eq s s' /\
  (forall j, (i < j)%nat -> nth_error s' j = nth_error s j) /\
  forall o' p, nth_error s' i = Some o' -> proxy_of o' = Some p -> lastv p = v /\ b2 p = bs.

Definition upd_good (u : store -> nat -> store * ver * list binding) (bound : nat) : Prop :=
  forall s i, (i < bound)%nat -> (i < length s)%nat -> Inv s -> upd_post s i (u s i).

Lemma upd_list_ok u bound : upd_good u bound ->
  forall cs s, (forall c, In c cs -> (c < bound)%nat /\ (c < length s)%nat) -> Inv s ->
  let '(s', vs, bs) := upd_list u s cs in
  vs = map (cver s) cs /\ bs = flat_map (denot s) cs /\ Inv s' /\ core_eq s s' /\
  forall j, (forall c, In c cs -> (c < j)%nat) -> nth_error s' j = nth_error s j.
Proof.
  intros G cs. induction cs as [|c cs IH]; intros s HC I; cbn [upd_list map flat_map].
  - split; [reflexivity|]. split; [reflexivity|]. split; [exact I|]. split; [apply core_eq_refl|reflexivity].
  - destruct (HC c (or_introl eq_refl)) as [Hb Hl].
    pose proof (G s c Hb Hl I) as P. destruct (u s c) as [[s1 v] b]. destruct P as [-> [-> [I1 [CE1 [FR1 _]]]]].
    assert (HC1 : forall c', In c' cs -> (c' < bound)%nat /\ (c' < length s1)%nat).
    { intros c' Hc'. rewrite <- (core_eq_length _ _ CE1). apply HC. right; exact Hc'. }
    specialize (IH s1 HC1 I1). destruct (upd_list u s1 cs) as [[s2 vs] bs]. destruct IH as [-> [-> [I2 [CE2 FR2]]]].
    unfold cver, denot. rewrite (summ_core_eq _ _ CE1).
    split; [reflexivity|]. split; [reflexivity|]. split; [exact I2|]. split; [exact (core_eq_trans _ _ _ CE1 CE2)|].
    intros j Hj. rewrite FR2 by (intros c' Hc'; apply Hj; right; exact Hc'). apply FR1. apply Hj. left; reflexivity.
Qed.

Lemma proxy_fresh_ok s i v bs : v = cver s i -> bs = denot s i -> proxy_ok s i (mkproxy v bs [] []).
Proof.
  intros -> ->. split; [apply cache_ok_nil|]. split; [apply cache_ok_nil|]. right. exists s.
  split; [apply older_refl|]. split; reflexivity.
Qed.

(* the common tail of the three caching wrappers' _update_cache *)
Lemma proxy_step s s1 i (mk : proxy -> obj) p v nb :
  (forall q, proxy_of (mk q) = Some q) -> (forall q q', obj_core (mk q) = obj_core (mk q')) ->
  (forall st j q, obj_ok st j (mk q) = proxy_ok st j q) ->
  Inv s1 -> core_eq s s1 -> (i < length s)%nat -> nth_error s1 i = Some (mk p) ->
  (forall j, (i < j)%nat -> nth_error s1 j = nth_error s j) ->
  v = cver s i -> nb = denot s i ->
  upd_post s i (if ver_eqb (lastv p) v then (s1, v, b2 p) else (set_nth s1 i (mk (mkproxy v nb [] [])), v, nb)).
Proof.
  intros MK1 MK2 MK3 I1 CE1 Hi Hn FR HV HB.
  pose proof I1 as [W1 IO1].
  assert (Hi1 : (i < length s1)%nat) by (rewrite <- (core_eq_length _ _ CE1); exact Hi).
  assert (SS : summ s1 = summ s) by (symmetry; apply summ_core_eq; exact CE1).
  destruct (ver_eqb (lastv p) v) eqn:EV.
  - apply ver_eqb_sound in EV.
    pose proof (IO1 i _ Hn) as PO. rewrite MK3 in PO.
    assert (HB2 : b2 p = denot s1 i) by (apply (proxy_current s1 i p W1 Hi1 PO); unfold cver; rewrite SS; fold (cver s i); congruence).
    unfold denot in HB2. rewrite SS in HB2. fold (denot s i) in HB2.
    unfold upd_post. split; [exact HV|]. split; [exact HB2|]. split; [exact I1|]. split; [exact CE1|]. split; [exact FR|].
    intros o' p' Hn' Hp. rewrite Hn in Hn'. injection Hn' as <-. rewrite MK1 in Hp. injection Hp as <-. split; [exact EV|reflexivity].
  - set (o' := mk (mkproxy v nb [] [])).
    assert (CE2 : core_eq s1 (set_nth s1 i o')) by (apply (core_eq_set s1 i (mk p)); [exact Hn|apply MK2]).
    assert (SS2 : summ (set_nth s1 i o') = summ s) by (rewrite <- SS; symmetry; apply summ_core_eq; exact CE2).
    unfold upd_post. split; [exact HV|]. split; [exact HB|]. split; [|split; [exact (core_eq_trans _ _ _ CE1 CE2)|split]].
    + apply (Inv_set s1 i (mk p) o' I1 Hn (MK2 _ _)).
      change (obj_ok (set_nth s1 i o') i (mk (mkproxy v nb [] []))).
      rewrite (MK3 (set_nth s1 i o') i (mkproxy v nb [] [])). apply proxy_fresh_ok.
      * unfold cver. rewrite SS2. exact HV.
      * unfold denot. rewrite SS2. exact HB.
    + intros j Hj. rewrite set_nth_other by lia. apply FR. exact Hj.
    + intros o'' p' Hn' Hp. rewrite set_nth_same in Hn' by exact Hi1. injection Hn' as <-. unfold o' in Hp.
      rewrite MK1 in Hp. injection Hp as <-. split; reflexivity.
Qed.

Lemma upd_ok : forall fuel, upd_good (upd fuel) fuel.
Proof.
  induction fuel as [|f IH]; intros s i Hf Hi I; [lia|].
  pose proof I as [W IO]. cbn [upd].
  destruct (nth_error s i) as [o|] eqn:Ho; [|apply nth_error_None in Ho; lia].
  pose proof (summ_unfold s i o W Ho) as SU. rewrite summ_pair in SU.
  destruct o as [bs v c1 c2|c flt p|cs p|cands sel|c p].
  - (* KeyBindings *)
    cbn in SU. injection SU as SV SD. unfold upd_post.
    split; [congruence|]. split; [congruence|]. split; [exact I|]. split; [apply core_eq_refl|]. split; [reflexivity|].
    intros o' p Hn Hp. rewrite Ho in Hn. injection Hn as <-. discriminate.
  - (* ConditionalKeyBindings *)
    assert (Hc : (c < i)%nat) by (apply (W i _ Ho); left; reflexivity).
    pose proof (IH s c ltac:(lia) ltac:(lia) I) as P. destruct (upd f s c) as [[s1 v] bs].
    destruct P as [-> [-> [I1 [CE1 [FR1 _]]]]].
    cbn [osum] in SU. injection SU as SV SD.
    apply (proxy_step s s1 i (OCondW c flt) p); auto.
    + rewrite FR1 by exact Hc. exact Ho.
    + intros j Hj. apply FR1. lia.
  - (* _MergedKeyBindings *)
    assert (HC : forall c, In c cs -> (c < f)%nat /\ (c < length s)%nat).
    { intros c Hc. pose proof (W i _ Ho c Hc). lia. }
    pose proof (upd_list_ok (upd f) f IH cs s HC I) as P. destruct (upd_list (upd f) s cs) as [[s1 vs] bs].
    destruct P as [-> [-> [I1 [CE1 FR1]]]].
    cbn [osum] in SU. injection SU as SV SD.
    apply (proxy_step s s1 i (OMerged cs) p); auto.
    + rewrite FR1 by (intros c Hc; exact (W i _ Ho c Hc)). exact Ho.
    + intros j Hj. apply FR1. intros c Hc. pose proof (W i _ Ho c Hc). lia.
  - (* DynamicKeyBindings *)
    cbn [osum] in SU. destruct (dyn_child cands sel) as [c|] eqn:ED.
    + assert (Hc : (c < i)%nat) by (apply (W i _ Ho); exact (dyn_child_in _ _ _ ED)).
      pose proof (IH s c ltac:(lia) ltac:(lia) I) as P. destruct (upd f s c) as [[s1 v] bs].
      destruct P as [-> [-> [I1 [CE1 [FR1 _]]]]]. injection SU as SV SD. unfold upd_post.
      split; [rewrite SV; reflexivity|]. split; [rewrite SD; reflexivity|]. split; [exact I1|]. split; [exact CE1|].
      split; [intros j Hj; apply FR1; lia|].
      intros o' p Hn Hp. rewrite FR1 in Hn by exact Hc. rewrite Ho in Hn. injection Hn as <-. discriminate.
    + injection SU as SV SD. unfold upd_post.
      split; [congruence|]. split; [congruence|]. split; [exact I|]. split; [apply core_eq_refl|]. split; [reflexivity|].
      intros o' p Hn Hp. rewrite Ho in Hn. injection Hn as <-. discriminate.
  - (* GlobalOnlyKeyBindings *)
    assert (Hc : (c < i)%nat) by (apply (W i _ Ho); left; reflexivity).
    pose proof (IH s c ltac:(lia) ltac:(lia) I) as P. destruct (upd f s c) as [[s1 v] bs].
    destruct P as [-> [-> [I1 [CE1 [FR1 _]]]]].
    cbn [osum] in SU. injection SU as SV SD.
    apply (proxy_step s s1 i (OGlobal c) p); auto.
    + rewrite FR1 by exact Hc. exact Ho.
    + intros j Hj. apply FR1. lia.
Qed.

(* ---------------------------------------------------------------- lookups *)
Lemma getter_nil w ks : getter w [] ks = [].
Proof. destruct w; reflexivity. Qed.

Lemma with_proxy_core o p q : proxy_of o = Some p -> obj_core (with_proxy o q) = obj_core o.
Proof. destruct o; cbn; intros; try discriminate; reflexivity. Qed.

Lemma with_proxy_ok st j o p q : proxy_of o = Some p -> obj_ok st j (with_proxy o q) = proxy_ok st j q.
Proof. destruct o; cbn; intros; try discriminate; reflexivity. Qed.

Lemma proxy_of_ok st j o p : proxy_of o = Some p -> obj_ok st j o = proxy_ok st j p.
Proof. destruct o; cbn; intros H; try discriminate; injection H as <-; reflexivity. Qed.

Definition lookup_post (w : bool) (s : store) (i : nat) (ks : list Z) (res : store * list binding) : Prop :=
  let '(s', r) := res in r = getter w (denot s i) ks /\ Inv s' /\ core_eq s s'.

(* the tail shared by the three caching wrappers: look in _bindings2's own cache *)
Lemma proxy_lookup mx w s s1 i ks o1 p :
  Inv s1 -> core_eq s s1 -> nth_error s1 i = Some o1 -> proxy_of o1 = Some p -> b2 p = denot s i ->
  lookup_post w s i ks
    (match cache_get ks (if w then pc1 p else pc2 p) with
     | Some r => (s1, r)
     | None => let r := getter w (b2 p) ks in
               let p' := if w then mkproxy (lastv p) (b2 p) (cache_put (fst mx) ks r (pc1 p)) (pc2 p)
                         else mkproxy (lastv p) (b2 p) (pc1 p) (cache_put (snd mx) ks r (pc2 p)) in
               (set_nth s1 i (with_proxy o1 p'), r)
     end).
Proof.
  intros I1 CE1 Hn Hp HB. pose proof I1 as [W1 IO1].
  pose proof (IO1 i o1 Hn) as PO. rewrite (proxy_of_ok _ _ _ _ Hp) in PO. destruct PO as [C1 [C2 C3]].
  destruct (cache_get ks (if w then pc1 p else pc2 p)) as [r|] eqn:EC.
  - unfold lookup_post. split; [|split; [exact I1|exact CE1]]. rewrite <- HB.
    destruct w; [exact (C1 ks r EC)|exact (C2 ks r EC)].
  - cbv zeta. set (p' := if w then _ else _). set (o' := with_proxy o1 p').
    assert (CE2 : core_eq s1 (set_nth s1 i o')) by (apply (core_eq_set s1 i o1); [exact Hn|exact (with_proxy_core _ _ _ Hp)]).
    unfold lookup_post. split; [rewrite HB; reflexivity|]. split; [|exact (core_eq_trans _ _ _ CE1 CE2)].
    apply (Inv_set s1 i o1 o' I1 Hn (with_proxy_core _ _ _ Hp)).
    unfold o'. rewrite (with_proxy_ok _ _ _ _ _ Hp).
    assert (P3 : (lastv p' = VTup [] /\ b2 p' = []) \/
                 exists s0, older s0 (set_nth s1 i o') /\ lastv p' = cver s0 i /\ b2 p' = denot s0 i).
    { assert (E1 : lastv p' = lastv p) by (unfold p'; destruct w; reflexivity).
      assert (E2 : b2 p' = b2 p) by (unfold p'; destruct w; reflexivity). rewrite E1, E2.
      destruct C3 as [C3|[s0 [X1 X2]]]; [left; exact C3|right]. exists s0. split; [exact (older_core_eq _ _ _ X1 CE2)|exact X2]. }
    unfold p' in *. destruct w; cbn [pc1 pc2 b2 lastv] in *.
    + split; [apply cache_ok_put; exact C1|]. split; [exact C2|exact P3].
    + split; [exact C1|]. split; [apply cache_ok_put; exact C2|exact P3].
Qed.

Lemma lookup_ok mx w ks : forall fuel s i, (i < fuel)%nat -> (i < length s)%nat -> Inv s ->
  lookup_post w s i ks (lookup mx fuel w s i ks).
Proof.
  induction fuel as [|f IH]; intros s i Hf Hi I; [lia|].
  pose proof I as [W IO]. cbn [lookup].
  destruct (nth_error s i) as [o|] eqn:Ho; [|apply nth_error_None in Ho; lia].
  pose proof (summ_unfold s i o W Ho) as SU. rewrite summ_pair in SU.
  assert (PROXY : forall p0, proxy_of o = Some p0 ->
            lookup_post w s i ks
              (let '(s1, _, _) := upd (S f) s i in
               match nth_error s1 i with
               | Some o1 =>
                   match proxy_of o1 with
                   | Some p =>
                       match cache_get ks (if w then pc1 p else pc2 p) with
                       | Some r => (s1, r)
                       | None => let r := getter w (b2 p) ks in
                                 let p' := if w then mkproxy (lastv p) (b2 p) (cache_put (fst mx) ks r (pc1 p)) (pc2 p)
                                           else mkproxy (lastv p) (b2 p) (pc1 p) (cache_put (snd mx) ks r (pc2 p)) in
                                 (set_nth s1 i (with_proxy o1 p'), r)
                       end
                   | None => (s1, [])
                   end
               | None => (s1, [])
               end)).
  { intros p0 Hp0. pose proof (upd_ok (S f) s i Hf Hi I) as P. destruct (upd (S f) s i) as [[s1 v] bs].
    destruct P as [HV [HB [I1 [CE1 [FR1 PX]]]]].
    destruct (core_eq_nth _ _ _ _ CE1 Ho) as [o1 [Ho1 Eo1]]. rewrite Ho1.
    assert (exists p, proxy_of o1 = Some p) as [p Hp].
    { destruct o; cbn in Hp0; try discriminate; destruct o1; cbn in Eo1; try discriminate; eexists; reflexivity. }
    rewrite Hp. destruct (PX o1 p Ho1 Hp) as [_ HB2]. apply (proxy_lookup mx w s s1 i ks o1 p I1 CE1 Ho1 Hp). congruence. }
  destruct o as [bs v c1 c2|c flt p|cs p|cands sel|c p].
  - (* KeyBindings: its own SimpleCache *)
    cbn in SU. injection SU as SV SD. pose proof (IO i _ Ho) as [C1 C2]. cbn in C1, C2.
    destruct (cache_get ks (if w then c1 else c2)) as [r|] eqn:EC.
    + unfold lookup_post. split; [|split; [exact I|apply core_eq_refl]]. rewrite SD.
      destruct w; [exact (C1 ks r EC)|exact (C2 ks r EC)].
    + cbv zeta. set (o' := if w then OKB bs v _ c2 else OKB bs v c1 _).
      assert (EC' : obj_core o' = obj_core (OKB bs v c1 c2)) by (unfold o'; destruct w; reflexivity).
      unfold lookup_post. split; [rewrite SD; reflexivity|]. split; [|exact (core_eq_set s i _ o' Ho EC')].
      apply (Inv_set s i _ o' I Ho EC'). unfold o'. destruct w; cbn.
      * split; [apply cache_ok_put; exact C1|exact C2].
      * split; [exact C1|apply cache_ok_put; exact C2].
  - exact (PROXY p eq_refl).
  - exact (PROXY p eq_refl).
  - (* DynamicKeyBindings: delegate to the selected registry *)
    pose proof (upd_ok (S f) s i Hf Hi I) as P. destruct (upd (S f) s i) as [[s1 v] bs].
    destruct P as [HV [HB [I1 [CE1 _]]]].
    cbn [osum] in SU. destruct (dyn_child cands sel) as [c|] eqn:ED.
    + assert (Hc : (c < i)%nat) by (apply (W i _ Ho); exact (dyn_child_in _ _ _ ED)).
      injection SU as SV SD.
      assert (Hl1 : (c < length s1)%nat) by (rewrite <- (core_eq_length _ _ CE1); lia).
      pose proof (IH s1 c ltac:(lia) Hl1 I1) as P. destruct (lookup mx f w s1 c ks) as [s2 r].
      destruct P as [HR [I2 CE2]]. unfold lookup_post.
      split; [|split; [exact I2|exact (core_eq_trans _ _ _ CE1 CE2)]].
      rewrite HR, SD. unfold denot. rewrite (summ_core_eq _ _ CE1). reflexivity.
    + injection SU as SV SD. unfold lookup_post. split; [|split; [exact I1|exact CE1]].
      rewrite SD, getter_nil. reflexivity.
  - exact (PROXY p eq_refl).
Qed.

(* ---------------------------------------------------------------- mutators *)
Lemma wfs_set s i o o' : wfs s -> nth_error s i = Some o -> kids o' = kids o -> wfs (set_nth s i o').
Proof.
  intros W Hn K j oj Hj c Hc. destruct (Nat.eq_dec i j) as [<-|NE].
  - rewrite set_nth_same in Hj by (apply nth_error_Some; congruence). injection Hj as <-.
    apply (W i o Hn). rewrite <- K. exact Hc.
  - rewrite set_nth_other in Hj by exact NE. exact (W j oj Hj c Hc).
Qed.

Lemma older_set s i o o' : nth_error s i = Some o -> obj_older o o' -> older s (set_nth s i o').
Proof.
  revert i. induction s as [|x s IH]; intros [|i] Hn HO; cbn in *; try discriminate.
  - injection Hn as ->. constructor; [exact HO|apply older_refl].
  - constructor; [apply obj_older_refl|apply IH; assumption].
Qed.

(* a change of one object that only moves forward in history keeps the invariant *)
Lemma Inv_step s i o o' :
  Inv s -> nth_error s i = Some o -> kids o' = kids o -> obj_older o o' ->
  (forall st, obj_ok st i o') -> Inv (set_nth s i o').
Proof.
  intros [W IO] Hn K HO OK. split; [exact (wfs_set s i o o' W Hn K)|].
  pose proof (older_set s i o o' Hn HO) as OS.
  intros j oj Hj. destruct (Nat.eq_dec i j) as [<-|NE].
  - rewrite set_nth_same in Hj by (apply nth_error_Some; congruence). injection Hj as <-. apply OK.
  - rewrite set_nth_other in Hj by exact NE. apply (obj_ok_older s); [|exact (IO j oj Hj)].
    intros s0 H0. exact (older_trans _ _ _ H0 OS).
Qed.

Lemma kb_append_inv s k b : Inv s -> Inv (kb_append s k b).
Proof.
  intros I. unfold kb_append. destruct (nth_error s k) as [[bs v c1 c2| | | |]|] eqn:Hn; try exact I.
  apply (Inv_step s k _ _ I Hn); [reflexivity|cbn; split; [lia|intros; lia]|intros st; cbn; split; apply cache_ok_nil].
Qed.

Lemma kb_add_inv s k b : Inv s -> Inv (kb_add s k b).
Proof. intros I. unfold kb_add. destruct (cls (bfilter b)); try exact I; apply kb_append_inv; exact I. Qed.

Lemma kb_addb_inv s k pre arg : Inv s -> Inv (kb_addb s k pre arg).
Proof. intros I. unfold kb_addb. destruct (cls (bfilter arg)); try exact I; apply kb_append_inv; exact I. Qed.

Lemma kb_remove_inv s k bh h ks : Inv s -> Inv (fst (kb_remove s k bh h ks)).
Proof.
  intros I. unfold kb_remove. destruct (nth_error s k) as [[bs v c1 c2| | | |]|] eqn:Hn; try exact I.
  destruct (rm_loop _ bs) as [bs' found]. destruct found; [|exact I]. cbn [fst].
  apply (Inv_step s k _ _ I Hn); [reflexivity|cbn; split; [lia|intros; lia]|intros st; cbn; split; apply cache_ok_nil].
Qed.

Lemma set_dyn_inv s d sel : Inv s -> Inv (set_dyn s d sel).
Proof.
  intros I. unfold set_dyn. destruct (nth_error s d) as [[| | |cands sel0|]|] eqn:Hn; try exact I.
  apply (Inv_step s d _ _ I Hn); [reflexivity|reflexivity|intros st; exact Logic.I].
Qed.

(* ---------------------------------------------------------------- initial stores *)
Definition fresh_obj (o : obj) : Prop :=
  match o with
  | OKB _ _ c1 c2 => c1 = [] /\ c2 = []
  | OCondW _ _ p | OMerged _ p | OGlobal _ p => p = proxy0
  | ODyn _ _ => True
  end.

Lemma Inv_init s : wfs s -> (forall i o, nth_error s i = Some o -> fresh_obj o) -> Inv s.
Proof.
  intros W F. split; [exact W|]. intros i o Hn. specialize (F i o Hn).
  assert (P0 : proxy_ok s i proxy0).
  { split; [apply cache_ok_nil|]. split; [apply cache_ok_nil|]. left. split; reflexivity. }
  destruct o; cbn in *; try (subst; exact P0); [|exact Logic.I].
  destruct F as [-> ->]. split; apply cache_ok_nil.
Qed.

Lemma wf_objs_wfs_from n l : wf_objs n l = true ->
  forall i o, nth_error l i = Some o -> forall c, In c (kids o) -> (c < n + i)%nat.
Proof.
  revert n. induction l as [|x l IH]; intros n H [|i] o Hn c Hc; cbn in Hn; try discriminate.
  - injection Hn as ->. cbn in H. apply andb_prop in H. destruct H as [H _].
    destruct o; cbn in Hc; try contradiction.
    + destruct Hc as [<-|[]]. apply Nat.ltb_lt in H. lia.
    + rewrite forallb_forall in H. specialize (H c Hc). apply Nat.ltb_lt in H. lia.
    + rewrite forallb_forall in H. specialize (H c Hc). apply Nat.ltb_lt in H. lia.
    + destruct Hc as [<-|[]]. apply Nat.ltb_lt in H. lia.
  - cbn in H. apply andb_prop in H. destruct H as [_ H]. specialize (IH (S n) H i o Hn c Hc). lia.
Qed.

Lemma wf_objs_wfs l : wf_objs 0 l = true -> wfs l.
Proof. intros H i o Hn c Hc. exact (wf_objs_wfs_from 0 l H i o Hn c Hc). Qed.

(* ---------------------------------------------------------------- histories *)
Definition rstep (mx : maxsizes) (s : store) (o : rop) : store :=
  match o with
  | RAdd k b => kb_add s k b
  | RAddB k pre arg => kb_addb s k pre arg
  | RRemoveKeys k ks => fst (kb_remove s k false 0 ks)
  | RRemoveHandler k h => fst (kb_remove s k true h [])
  | RSetDyn d sel => set_dyn s d sel
  | RLookup w i ks => fst (lookup mx (S (length s)) w s i ks)
  | RBindings i => fst (fst (upd (S (length s)) s i))
  end.

Lemma rstep_inv mx s o : Inv s -> Inv (rstep mx s o).
Proof.
  intros I. destruct o as [k b|k pre arg|k ks|k h|d sel|w i ks|i]; cbn [rstep].
  - apply kb_add_inv; exact I.
  - apply kb_addb_inv; exact I.
  - apply kb_remove_inv; exact I.
  - apply kb_remove_inv; exact I.
  - apply set_dyn_inv; exact I.
  - destruct (Nat.lt_ge_cases i (length s)) as [Hi|Hi].
    + pose proof (lookup_ok mx w ks (S (length s)) s i ltac:(lia) Hi I) as P.
      destruct (lookup mx (S (length s)) w s i ks) as [s' r]. exact (proj1 (proj2 P)).
    + cbn [lookup]. assert (E : nth_error s i = None) by (apply nth_error_None; lia). rewrite E. exact I.
  - destruct (Nat.lt_ge_cases i (length s)) as [Hi|Hi].
    + pose proof (upd_ok (S (length s)) s i ltac:(lia) Hi I) as P.
      destruct (upd (S (length s)) s i) as [[s' v] bs]. destruct P as [_ [_ [I' _]]]. exact I'.
    + cbn [upd]. assert (E : nth_error s i = None) by (apply nth_error_None; lia). rewrite E. exact I.
Qed.

Lemma history_inv mx ops : forall s, Inv s -> Inv (fold_left (rstep mx) ops s).
Proof. induction ops as [|o ops IH]; intros s I; [exact I|]. cbn [fold_left]. apply IH, rstep_inv, I. Qed.

Lemma Inv_wfs s : Inv s -> wfs s.
Proof. intros [W _]. exact W. Qed.

(* After any history, a lookup through any object returns what the uncached
   getter returns on the object's current binding list. *)
Theorem cache_coherent mx s0 ops w i ks :
  Inv s0 -> let s := fold_left (rstep mx) ops s0 in
  (i < length s)%nat ->
  snd (lookup mx (S (length s)) w s i ks) = getter w (denot s i) ks /\
  snd (upd (S (length s)) s i) = denot s i.
Proof.
  intros I0 s Hi. pose proof (history_inv mx ops s0 I0) as I. fold s in I. split.
  - pose proof (lookup_ok mx w ks (S (length s)) s i ltac:(lia) Hi I) as P.
    destruct (lookup mx (S (length s)) w s i ks) as [s' r]. exact (proj1 P).
  - pose proof (upd_ok (S (length s)) s i ltac:(lia) Hi I) as P.
    destruct (upd (S (length s)) s i) as [[s' v] bs]. destruct P as [_ [HB _]]. exact HB.
Qed.

(* what [denot] is, object by object: the current list of a KeyBindings, and
   for a wrapper the recomputation over its children's current lists *)
Theorem denot_unfold s i o : wfs s -> nth_error s i = Some o ->
  denot s i =
  match o with
  | OKB bs _ _ _ => bs
  | OCondW c f _ => map (cond_binding f) (denot s c)
  | OMerged cs _ => flat_map (denot s) cs
  | ODyn cands sel => match dyn_child cands sel with Some c => denot s c | None => [] end
  | OGlobal c _ => filter bglobal (denot s c)
  end.
Proof.
  intros W Hn. unfold denot at 1. rewrite (summ_unfold s i o W Hn).
  destruct o as [bs v c1 c2|c flt p|cs p|cands sel|c p]; cbn [osum snd]; try reflexivity.
  destruct (dyn_child cands sel); reflexivity.
Qed.

(* the list mutators *)
Lemma set_nth_nth_error_same {T} (l : list T) i x y : nth_error l i = Some y -> nth_error (set_nth l i x) i = Some x.
Proof. intros H. apply set_nth_same. apply nth_error_Some. congruence. Qed.

Lemma denot_after_append s k b bs v c1 c2 :
  wfs s -> nth_error s k = Some (OKB bs v c1 c2) -> denot (kb_append s k b) k = bs ++ [b].
Proof.
  intros W Hn. unfold kb_append. rewrite Hn.
  rewrite (denot_unfold _ k (OKB (bs ++ [b]) (v + 1) [] [])); [reflexivity| |eapply set_nth_nth_error_same; eauto].
  eapply wfs_set; eauto.
Qed.

Theorem denot_after_add s k b bs v c1 c2 :
  wfs s -> nth_error s k = Some (OKB bs v c1 c2) -> cls (bfilter b) <> CNever ->
  denot (kb_add s k b) k = bs ++ [b].
Proof.
  intros W Hn NC. unfold kb_add.
  pose proof (denot_after_append s k b bs v c1 c2 W Hn) as E.
  destruct (cls (bfilter b)); try exact E. congruence.
Qed.

(* ... also when what is added is a pre-built Binding object *)
Theorem denot_after_addb s k pre arg bs v c1 c2 :
  wfs s -> nth_error s k = Some (OKB bs v c1 c2) -> cls (bfilter arg) <> CNever ->
  denot (kb_addb s k pre arg) k = bs ++ [compose_binding pre arg].
Proof.
  intros W Hn NC. unfold kb_addb.
  pose proof (denot_after_append s k (compose_binding pre arg) bs v c1 c2 W Hn) as E.
  destruct (cls (bfilter arg)); try exact E. congruence.
Qed.

(* F12: removing while iterating skips the element after each removed one *)
Lemma rm_loop_skips : exists m l, fst (rm_loop m l) <> filter (fun b => negb (m b)) l.
Proof.
  exists (fun b => bhandler b =? 1),
         [mkbinding [1] FAlways FNever false 1 [] true 0; mkbinding [2] FAlways FNever false 1 [] true 0].
  cbn. discriminate.
Qed.

(* ---------------------------------------------------------------- SimpleCache eviction is transparent *)
Lemma map_set_nth {T U} (f : T -> U) (l : list T) i x : map f (set_nth l i x) = set_nth (map f l) i (f x).
Proof. revert i. induction l as [|y l IH]; intros [|i]; cbn; try reflexivity. f_equal. apply IH. Qed.

Lemma core_eq_set2 s t k o o' : core_eq s t -> obj_core o = obj_core o' -> core_eq (set_nth s k o) (set_nth t k o').
Proof. unfold core_eq. intros H E. rewrite !map_set_nth, H, E. reflexivity. Qed.

Lemma core_eq_sym s t : core_eq s t -> core_eq t s.
Proof. unfold core_eq. intros H. symmetry. exact H. Qed.

Lemma core_eq_nth2 s t k : core_eq s t ->
  match nth_error s k, nth_error t k with
  | Some a, Some b => obj_core a = obj_core b
  | None, None => True
  | _, _ => False
  end.
Proof.
  unfold core_eq. intros H.
  assert (E : nth_error (map obj_core s) k = nth_error (map obj_core t) k) by (rewrite H; reflexivity).
  rewrite !nth_error_map in E.
  destruct (nth_error s k), (nth_error t k); cbn in E; try discriminate; [injection E as E; exact E|exact I].
Qed.

Lemma kb_append_core s t k b : core_eq s t -> core_eq (kb_append s k b) (kb_append t k b).
Proof.
  intros H. pose proof (core_eq_nth2 s t k H) as N. unfold kb_append.
  destruct (nth_error s k) as [[bs v c1 c2|c f p|cs p|cands sel|c p]|],
           (nth_error t k) as [[bs' v' c1' c2'|c' f' p'|cs' p'|cands' sel'|c' p']|];
    cbn in N; try discriminate; try contradiction; try exact H.
  injection N as -> ->. apply core_eq_set2; [exact H|reflexivity].
Qed.

Lemma kb_remove_core s t k bh h ks : core_eq s t ->
  core_eq (fst (kb_remove s k bh h ks)) (fst (kb_remove t k bh h ks)) /\
  snd (kb_remove s k bh h ks) = snd (kb_remove t k bh h ks).
Proof.
  intros H. pose proof (core_eq_nth2 s t k H) as N. unfold kb_remove.
  destruct (nth_error s k) as [[bs v c1 c2|c f p|cs p|cands sel|c p]|],
           (nth_error t k) as [[bs' v' c1' c2'|c' f' p'|cs' p'|cands' sel'|c' p']|];
    cbn in N; try discriminate; try contradiction; try (split; [exact H|reflexivity]).
  injection N as -> ->.
  destruct (rm_loop _ bs') as [l fd]. destruct fd; cbn [fst snd]; split; try reflexivity; try exact H.
  apply core_eq_set2; [exact H|reflexivity].
Qed.

Lemma set_dyn_core s t d sel : core_eq s t -> core_eq (set_dyn s d sel) (set_dyn t d sel).
Proof.
  intros H. pose proof (core_eq_nth2 s t d H) as N. unfold set_dyn.
  destruct (nth_error s d) as [[bs v c1 c2|c f p|cs p|cands sel0|c p]|],
           (nth_error t d) as [[bs' v' c1' c2'|c' f' p'|cs' p'|cands' sel0'|c' p']|];
    cbn in N; try discriminate; try contradiction; try exact H.
  injection N as -> _. apply core_eq_set2; [exact H|reflexivity].
Qed.

(* lookups and `.bindings` only touch caches and _last_version / _bindings2 *)
Lemma lookup_core mx w s i ks : Inv s -> core_eq s (fst (lookup mx (S (length s)) w s i ks)).
Proof.
  intros I. destruct (Nat.lt_ge_cases i (length s)) as [Hi|Hi].
  - pose proof (lookup_ok mx w ks (S (length s)) s i ltac:(lia) Hi I) as P.
    destruct (lookup mx (S (length s)) w s i ks) as [s' r]. exact (proj2 (proj2 P)).
  - cbn [lookup]. assert (E : nth_error s i = None) by (apply nth_error_None; lia). rewrite E. apply core_eq_refl.
Qed.

Lemma upd_core s i : Inv s -> core_eq s (fst (fst (upd (S (length s)) s i))).
Proof.
  intros I. destruct (Nat.lt_ge_cases i (length s)) as [Hi|Hi].
  - pose proof (upd_ok (S (length s)) s i ltac:(lia) Hi I) as P.
    destruct (upd (S (length s)) s i) as [[s' v] bs]. destruct P as [_ [_ [_ [CE _]]]]. exact CE.
  - cbn [upd]. assert (E : nth_error s i = None) by (apply nth_error_None; lia). rewrite E. apply core_eq_refl.
Qed.

Lemma rstep_core mx mx' s t o : Inv s -> Inv t -> core_eq s t -> core_eq (rstep mx s o) (rstep mx' t o).
Proof.
  intros Is It H. destruct o as [k b|k pre arg|k ks|k h|d sel|w i ks|i]; cbn [rstep].
  - unfold kb_add. destruct (cls (bfilter b)); try exact H; apply kb_append_core; exact H.
  - unfold kb_addb. destruct (cls (bfilter arg)); try exact H; apply kb_append_core; exact H.
  - exact (proj1 (kb_remove_core s t k false 0 ks H)).
  - exact (proj1 (kb_remove_core s t k true h [] H)).
  - apply set_dyn_core; exact H.
  - apply (core_eq_trans _ s); [apply core_eq_sym, lookup_core; exact Is|].
    apply (core_eq_trans _ t); [exact H|apply lookup_core; exact It].
  - apply (core_eq_trans _ s); [apply core_eq_sym, upd_core; exact Is|].
    apply (core_eq_trans _ t); [exact H|apply upd_core; exact It].
Qed.

Lemma history_core mx mx' ops : forall s t, Inv s -> Inv t -> core_eq s t ->
  core_eq (fold_left (rstep mx) ops s) (fold_left (rstep mx') ops t).
Proof.
  induction ops as [|o ops IH]; intros s t Is It H; [exact H|]. cbn [fold_left].
  apply IH; [apply rstep_inv; exact Is|apply rstep_inv; exact It|apply rstep_core; assumption].
Qed.

(* Whatever the two maxsize values are (1 entry or unbounded), every lookup and every
   `.bindings` after the same history returns the same list: eviction never changes a result. *)
Theorem eviction_transparent mx mx' s0 ops w i ks :
  Inv s0 ->
  let s := fold_left (rstep mx) ops s0 in
  let t := fold_left (rstep mx') ops s0 in
  (i < length s)%nat ->
  snd (lookup mx (S (length s)) w s i ks) = snd (lookup mx' (S (length t)) w t i ks) /\
  snd (upd (S (length s)) s i) = snd (upd (S (length t)) t i).
Proof.
  intros I0 s t Hi.
  pose proof (history_core mx mx' ops s0 s0 I0 I0 (core_eq_refl s0)) as CE. fold s t in CE.
  assert (Ht : (i < length t)%nat) by (rewrite <- (core_eq_length _ _ CE); exact Hi).
  destruct (cache_coherent mx s0 ops w i ks I0 Hi) as [A1 A2].
  destruct (cache_coherent mx' s0 ops w i ks I0 Ht) as [B1 B2].
  fold s in A1, A2. fold t in B1, B2.
  assert (D : denot s i = denot t i) by (unfold denot; rewrite (summ_core_eq _ _ CE); reflexivity).
  split; [rewrite A1, B1, D; reflexivity|rewrite A2, B2, D; reflexivity].
Qed.

Lemma removelast_cons_length {T} (c : list T) : forall x, length (removelast (x :: c)) = length c.
Proof. induction c as [|y c IH]; intros x; [reflexivity|]. change (removelast (x :: y :: c)) with (x :: removelast (y :: c)). cbn [length]. rewrite IH. reflexivity. Qed.

(* the bound itself: a cache within its maxsize stays within it *)
Lemma cache_put_length mx ks r c : (length c <= mx)%nat -> (length (cache_put mx ks r c) <= mx)%nat.
Proof.
  intros H. unfold cache_put. cbv zeta. destruct (Nat.ltb mx (length ((ks, r) :: c))) eqn:E.
  - rewrite removelast_cons_length. exact H.
  - apply Nat.ltb_ge in E. exact E.
Qed.

(* non-vacuity: with maxsize 1 the second distinct lookup evicts the first entry *)
Example eviction_happens :
  let s := fold_left (rstep (1%nat, 1%nat)) [RLookup true 0%nat [1]; RLookup true 0%nat [2]] [OKB [] 0 [] []] in
  s = [OKB [] 0 [([2], [])] []].
Proof. vm_compute. reflexivity. Qed.
