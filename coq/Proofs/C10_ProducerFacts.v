(* C10: the fragment producers never mark text "[ZeroWidthEscape]" by
   themselves: if the application's styles and the fragments it supplied carry
   no mark, no produced fragment does; displayed text only ever ends up in the
   TEXT component.  Consequence (with Proofs/C10_RenderFacts.v): for plain
   strings in buffer / prompt message / completion / toolbar every control
   character of the output stream is renderer generated. *)
From Coq Require Import ZArith List Bool Lia.
From PTK Require Import Lib.Sx Lib.Py Gen.C10_DisplayMappings Model.C10_Screen Model.C10_Producers
     Proofs.C10_TableFacts Proofs.C10_CopyFacts Proofs.C10_RenderFacts.
Import ListNotations.
Open Scope Z_scope.

Definition unmarked_style (st : list Z) : Prop := contains ZWE_MARK st = false.
Definition unmarked (f : frag) : Prop := unmarked_style (fst f).
Definition all_unmarked (fs : list frag) : Prop := Forall unmarked fs.

(* ------------------------------------------------------------ `sub in a + sep + b` *)

Lemma startswith_sep : forall p a sep b, ~ In sep p ->
  startswith (a ++ sep :: b) p = startswith a p.
Proof.
  induction p as [|y p IH]; intros a sep b Hn; [destruct a; reflexivity|].
  destruct a as [|x a]; cbn [app startswith].
  - destruct (sep =? y) eqn:E; [|reflexivity]. apply Z.eqb_eq in E. subst. exfalso. apply Hn. left. reflexivity.
  - rewrite IH; [reflexivity|]. intro H. apply Hn. right. exact H.
Qed.

Lemma contains_sep : forall p a sep b, p <> [] -> ~ In sep p ->
  contains p (a ++ sep :: b) = contains p a || contains p b.
Proof.
  intros p a sep b Hne Hn. induction a as [|x a IH].
  - cbn [app]. destruct p as [|y p]; [congruence|].
    cbn [contains startswith]. destruct (sep =? y) eqn:E; [|reflexivity].
    apply Z.eqb_eq in E. subst. exfalso. apply Hn. left. reflexivity.
  - change ((x :: a) ++ sep :: b) with (x :: (a ++ sep :: b)).
    cbn [contains]. rewrite IH.
    change (x :: a ++ sep :: b) with ((x :: a) ++ sep :: b). rewrite startswith_sep by exact Hn.
    rewrite orb_assoc. reflexivity.
Qed.

Lemma mark_no_space : ~ In 32 ZWE_MARK.
Proof. intro H. cbn in H. repeat (destruct H as [H|H]; [discriminate|]). exact H. Qed.

Lemma style_join_unmarked a b : unmarked_style a -> unmarked_style b -> unmarked_style (a ++ 32 :: b).
Proof.
  unfold unmarked_style. intros Ha Hb. rewrite contains_sep; [rewrite Ha, Hb; reflexivity | discriminate | exact mark_no_space].
Qed.

Lemma nil_unmarked : unmarked_style [].
Proof. reflexivity. Qed.
Lemma menu_unmarked : unmarked_style S_MENU.
Proof. vm_compute. reflexivity. Qed.
Lemma menu_cur_unmarked : unmarked_style S_MENU_CUR.
Proof. vm_compute. reflexivity. Qed.

(* ------------------------------------------------------------ producers *)

Lemma with_style_unmarked st fs : unmarked_style st -> all_unmarked fs -> all_unmarked (with_style st fs).
Proof.
  intros Hs Hf. unfold with_style. destruct (nonempty st); [|exact Hf].
  unfold all_unmarked in *. apply Forall_map. eapply Forall_impl; [|exact Hf].
  intros f H. unfold unmarked in *. cbn [fst]. apply style_join_unmarked; assumption.
Qed.

Lemma ft_of_str_unmarked s : all_unmarked (ft_of_str s).
Proof. constructor; [exact nil_unmarked | constructor]. Qed.

Lemma explode_unmarked fs : all_unmarked fs -> all_unmarked (explode fs).
Proof.
  intro H. unfold all_unmarked, explode in *. rewrite Forall_forall in *. intros f Hf.
  apply in_flat_map in Hf. destruct Hf as (f0 & H0 & Hf). apply in_map_iff in Hf.
  destruct Hf as (c & E & _). subst f. exact (H f0 H0).
Qed.

Lemma add_parts_unmarked st : unmarked_style st -> forall parts line acc,
  all_unmarked line -> Forall all_unmarked acc ->
  all_unmarked (fst (add_parts st parts line acc)) /\ Forall all_unmarked (snd (add_parts st parts line acc)).
Proof.
  intros Hs. induction parts as [|p r IH]; intros line acc Hl Ha; cbn [add_parts]; [split; assumption|].
  destruct r as [|q r'].
  - cbn [fst snd]. split; [|exact Ha]. apply Forall_app. split; [exact Hl | constructor; [exact Hs | constructor]].
  - apply IH; [constructor|]. apply Forall_app. split; [exact Ha|]. constructor; [|constructor].
    destruct (nonempty p); [|exact Hl]. apply Forall_app. split; [exact Hl | constructor; [exact Hs | constructor]].
Qed.

Lemma split_lines_unmarked fs : all_unmarked fs -> Forall all_unmarked (split_lines fs).
Proof.
  intro H. unfold split_lines.
  set (step := fun (la : list frag * list (list frag)) (f : frag) => add_parts (fst f) (split_on 10 (snd f)) (fst la) (snd la)).
  assert (G : forall l la, all_unmarked l -> all_unmarked (fst la) -> Forall all_unmarked (snd la) ->
              all_unmarked (fst (fold_left step l la)) /\ Forall all_unmarked (snd (fold_left step l la))).
  { induction l as [|f r IH]; intros la Hl H1 H2; cbn [fold_left]; [split; assumption|].
    inversion Hl as [|? ? Hf Hr]; subst.
    destruct (add_parts_unmarked (fst f) Hf (split_on 10 (snd f)) (fst la) (snd la) H1 H2) as [G1 G2].
    apply IH; assumption. }
  destruct (G fs ([], []) H (Forall_nil _) (Forall_nil _)) as [G1 G2].
  apply Forall_app. split; [exact G2 | constructor; [exact G1 | constructor]].
Qed.

Lemma ftc_lines_unmarked st fs : unmarked_style st -> all_unmarked fs -> Forall all_unmarked (ftc_lines st fs).
Proof. intros Hs Hf. apply split_lines_unmarked, with_style_unmarked; assumption. Qed.

Definition proc_unmarked (p : processor) : Prop :=
  match p with
  | PBeforeInput st b => unmarked_style st /\ all_unmarked b
  | PAppend st _ _ => unmarked_style st
  | _ => True
  end.

Lemma selected_unmarked st : unmarked_style st -> unmarked_style (st ++ S_SELECTED).
Proof. intro H. change S_SELECTED with (32 :: tl S_SELECTED). apply style_join_unmarked; [exact H | vm_compute; reflexivity]. Qed.

Lemma restyle_at_unmarked : forall fs i, all_unmarked fs -> all_unmarked (restyle_at i S_SELECTED fs).
Proof.
  induction fs as [|f r IH]; intros i H; cbn [restyle_at]; [constructor|].
  inversion H; subst. destruct (i =? 0); constructor; try assumption; [apply selected_unmarked; assumption | apply IH; assumption].
Qed.

Lemma select_loop_unmarked n : forall i fs, all_unmarked fs -> all_unmarked (select_loop n i fs).
Proof.
  induction n as [|k IH]; intros i fs H; cbn [select_loop]; [exact H|]. apply IH.
  destruct (i <? len fs); [apply restyle_at_unmarked; exact H|].
  destruct (i =? len fs); [|exact H].
  apply Forall_app. split; [exact H | constructor; [vm_compute; reflexivity | constructor]].
Qed.

Lemma apply_proc_unmarked p i fs : proc_unmarked p -> all_unmarked fs -> all_unmarked (apply_proc p i fs).
Proof.
  intros Hp Hf. destruct p as [|ch|st b|st tx last|sel]; cbn [apply_proc]; [exact Hf | | | |].
  - unfold all_unmarked in *. apply Forall_map. eapply Forall_impl; [|exact Hf]. intros f H. exact H.
  - destruct Hp as [Hs Hb]. destruct (i =? 0); [|exact Hf].
    apply Forall_app. split; [apply with_style_unmarked; assumption | exact Hf].
  - destruct (i =? last); [|exact Hf]. apply Forall_app. split; [exact Hf | constructor; [exact Hp | constructor]].
  - destruct (sel i) as [[from to]|]; [|exact Hf].
    destruct ((from =? 0) && (to =? 0) && (len (explode fs) =? 0)).
    + constructor; [vm_compute; reflexivity | constructor].
    + apply select_loop_unmarked, explode_unmarked. exact Hf.
Qed.

Lemma apply_procs_unmarked ps i : Forall proc_unmarked ps -> forall fs, all_unmarked fs -> all_unmarked (apply_procs ps i fs).
Proof.
  unfold apply_procs. induction ps as [|p r IH]; intros Hp fs Hf; [exact Hf|].
  inversion Hp; subst. cbn [fold_left]. apply IH; [assumption|]. apply apply_proc_unmarked; assumption.
Qed.

Lemma mapi_Forall {T U} (P : U -> Prop) (f : Z -> T -> U) : forall l i, (forall j x, P (f j x)) -> Forall P (mapi f i l).
Proof. induction l as [|x r IH]; intros i H; cbn [mapi]; constructor; [apply H | apply IH; exact H]. Qed.

Lemma buffer_lines_unmarked lexstyle ps text : unmarked_style lexstyle -> Forall proc_unmarked ps ->
  Forall all_unmarked (buffer_lines lexstyle ps text).
Proof.
  intros Hs Hp. unfold buffer_lines. apply mapi_Forall. intros j line.
  apply Forall_app. split; [|constructor; [exact nil_unmarked | constructor]].
  apply apply_procs_unmarked; [exact Hp|]. constructor; [exact Hs | constructor].
Qed.

Lemma trim_loop_unmarked wc : forall l rem acc, all_unmarked l -> all_unmarked acc ->
  all_unmarked (fst (trim_loop wc l rem acc)).
Proof.
  induction l as [|f r IH]; intros rem acc Hl Ha; cbn [trim_loop]; [exact Ha|].
  inversion Hl; subst. destruct (_ <=? rem); [|exact Ha].
  apply IH; [assumption|]. apply Forall_app. split; [exact Ha | constructor; [assumption | constructor]].
Qed.

Lemma trim_ft_unmarked wc fs mw : all_unmarked fs -> all_unmarked (fst (trim_ft wc fs mw)).
Proof.
  intro H. unfold trim_ft. destruct (_ >? mw); cbn [fst]; [|exact H].
  apply Forall_app. split; [|constructor; [exact nil_unmarked | constructor]].
  apply trim_loop_unmarked; [apply explode_unmarked; exact H | constructor].
Qed.

Lemma menu_item_unmarked wc cstyle selstyle display cur width sp :
  unmarked_style cstyle -> unmarked_style selstyle -> all_unmarked display ->
  all_unmarked (menu_item wc cstyle selstyle display cur width sp).
Proof.
  intros Hc Hs Hd. unfold menu_item. apply with_style_unmarked.
  - destruct cur; apply style_join_unmarked; try assumption;
      [exact menu_cur_unmarked | apply style_join_unmarked; assumption | exact menu_unmarked].
  - apply Forall_app. split; [constructor; [exact nil_unmarked | constructor]|].
    apply Forall_app. split; [apply trim_ft_unmarked; exact Hd | constructor; [exact nil_unmarked | constructor]].
Qed.

Lemma menu_meta_unmarked wc meta cur width : all_unmarked meta -> all_unmarked (menu_meta wc meta cur width).
Proof.
  intro H. unfold menu_meta. apply with_style_unmarked; [destruct cur; vm_compute; reflexivity|].
  apply Forall_app. split; [constructor; [exact nil_unmarked | constructor]|].
  apply Forall_app. split; [apply trim_ft_unmarked; exact H | constructor; [exact nil_unmarked | constructor]].
Qed.

Lemma until_nl_unmarked : forall l, all_unmarked l -> all_unmarked (fst (until_nl l)) /\ all_unmarked (snd (until_nl l)).
Proof.
  induction l as [|f r IH]; intro H; cbn [until_nl]; [split; constructor|].
  inversion H as [|? ? Hf Hr]; subst. destruct (is_nl f); cbn [fst snd]; [split; [constructor | assumption]|].
  destruct (IH Hr) as [G1 G2]. split; [constructor; assumption | exact G2].
Qed.

Lemma all_unmarked_rev l : all_unmarked l -> all_unmarked (rev l).
Proof. apply Forall_rev. Qed.

Lemma prompt_split_unmarked fs : all_unmarked fs ->
  all_unmarked (prompt_first_input_line fs) /\ all_unmarked (prompt_before fs).
Proof.
  intro H. unfold prompt_first_input_line, prompt_before.
  destruct (until_nl_unmarked (rev (explode fs)) (all_unmarked_rev _ (explode_unmarked fs H))) as [H1 H2].
  split; apply all_unmarked_rev; assumption.
Qed.

Lemma prompt_style_unmarked : unmarked_style S_PROMPT /\ unmarked_style S_PROMPT_CONT.
Proof. split; vm_compute; reflexivity. Qed.

(* ------------------------------------------------------------ unmarked lines through the renderer *)

Lemma unmarked_frags_marked fs : all_unmarked fs -> frags_marked [] fs.
Proof.
  intros H f Hf Hm. unfold all_unmarked in H. rewrite Forall_forall in H.
  specialize (H f Hf). unfold unmarked, unmarked_style in H. congruence.
Qed.

Lemma concat_of_nil_only t : concat_of [] t -> t = [].
Proof.
  intros (l & Hl & E). subst t. destruct l as [|p r]; [reflexivity|].
  inversion Hl as [|? ? (m & a & b & Hin & _) _]. destruct Hin.
Qed.

Definition pfx_unmarked (pfx : option (Z -> Z -> list frag)) : Prop :=
  match pfx with Some p => forall l w, all_unmarked (p l w) | None => True end.

Lemma session_prefix_unmarked message cont : all_unmarked message -> all_unmarked cont ->
  pfx_unmarked (Some (session_prefix message cont)).
Proof.
  intros Hm Hc l w. unfold session_prefix. destruct ((l =? 0) && (w =? 0)).
  - apply prompt_split_unmarked, with_style_unmarked; [apply prompt_style_unmarked | exact Hm].
  - apply with_style_unmarked; [apply prompt_style_unmarked | exact Hc].
Qed.

Lemma session_before_unmarked message : all_unmarked message -> Forall all_unmarked (session_before_lines message).
Proof.
  intro H. apply ftc_lines_unmarked; [exact nil_unmarked|].
  apply prompt_split_unmarked, with_style_unmarked; [apply prompt_style_unmarked | exact H].
Qed.

(* No fragment marked: no byte is passed through raw, and every control
   character of the stream was generated by the renderer. *)
Theorem unmarked_lines_stream wc sty g pfx lines app width ri x y last vis :
  wc_ascii wc -> pfx_unmarked pfx -> Forall all_unmarked lines ->
  forall o c, In (o, c) (tagged_stream (rendered_tokens wc sty g pfx lines app width ri x y last vis)) ->
  (o = FromZWE -> False) /\ (is_control c = true -> o = FromRenderer).
Proof.
  intros Hw Hp Hl o c Hin.
  assert (Hp' : pfx_marked [] pfx).
  { destruct pfx as [p|]; [|exact I]. intros l w. apply unmarked_frags_marked, Hp. }
  assert (Hl' : forall l, In l lines -> frags_marked [] l).
  { intros l Hin'. apply unmarked_frags_marked. rewrite Forall_forall in Hl. exact (Hl l Hin'). }
  assert (Hz : o = FromZWE -> False).
  { intro E. subst o. unfold tagged_stream in Hin. apply in_flat_map in Hin. destruct Hin as (t & Ht & Hb).
    apply in_map_iff in Hb. destruct Hb as (c' & E & Hb). inversion E as [[E1 E2]]. subst c'.
    destruct (pipeline_zwe_marked wc sty g [] pfx lines app width ri x y last vis Hw Hp' Hl' t Ht) as [H1 _].
    destruct (H1 E1) as [Hk Hc]. apply concat_of_nil_only in Hc.
    unfold tok_bytes in Hb. rewrite Hk, Hc in Hb. exact Hb. }
  split; [exact Hz|]. intro Hc.
  destruct (pipeline_stream wc sty g [] pfx lines app width ri x y last vis Hw Hp' Hl' o c Hin Hc) as [E|E];
    [exact E | exfalso; exact (Hz E)].
Qed.

(* the four placements of the property text, for plain strings *)
Theorem plain_buffer_stream wc sty g lexstyle ps text app width ri x y last vis :
  wc_ascii wc -> unmarked_style lexstyle -> Forall proc_unmarked ps ->
  forall o c, In (o, c) (tagged_stream (rendered_tokens wc sty g None (buffer_lines lexstyle ps text) app width ri x y last vis)) ->
  (o = FromZWE -> False) /\ (is_control c = true -> o = FromRenderer).
Proof.
  intros Hw Hs Hp. apply unmarked_lines_stream; [exact Hw | exact I | apply buffer_lines_unmarked; assumption].
Qed.

Theorem plain_toolbar_stream wc sty g style text app width ri x y last vis :
  wc_ascii wc -> unmarked_style style ->
  forall o c, In (o, c) (tagged_stream (rendered_tokens wc sty g None (ftc_lines style (ft_of_str text)) app width ri x y last vis)) ->
  (o = FromZWE -> False) /\ (is_control c = true -> o = FromRenderer).
Proof.
  intros Hw Hs. apply unmarked_lines_stream; [exact Hw | exact I |].
  apply ftc_lines_unmarked; [exact Hs | apply ft_of_str_unmarked].
Qed.

Theorem plain_menu_stream wc sty g cstyle selstyle display cur w sp app width ri x y last vis :
  wc_ascii wc -> unmarked_style cstyle -> unmarked_style selstyle ->
  forall o c, In (o, c) (tagged_stream (rendered_tokens wc sty g None
        [menu_item wc cstyle selstyle (ft_of_str display) cur w sp] app width ri x y last vis)) ->
  (o = FromZWE -> False) /\ (is_control c = true -> o = FromRenderer).
Proof.
  intros Hw Hc Hs. apply unmarked_lines_stream; [exact Hw | exact I |].
  constructor; [|constructor]. apply menu_item_unmarked; [exact Hc | exact Hs | apply ft_of_str_unmarked].
Qed.

(* the prompt message in front of the input: BeforeInput(message) on a BufferControl *)
Theorem plain_message_stream wc sty g lexstyle mstyle message text app width ri x y last vis :
  wc_ascii wc -> unmarked_style lexstyle -> unmarked_style mstyle ->
  forall o c, In (o, c) (tagged_stream (rendered_tokens wc sty g None
        (buffer_lines lexstyle [PBeforeInput mstyle (ft_of_str message)] text) app width ri x y last vis)) ->
  (o = FromZWE -> False) /\ (is_control c = true -> o = FromRenderer).
Proof.
  intros Hw Hs Hm. apply plain_buffer_stream; [exact Hw | exact Hs |].
  constructor; [|constructor]. split; [exact Hm | apply ft_of_str_unmarked].
Qed.

(* The prompt message the way PromptSession shows it: the part after the last
   line end as the line prefix of the input window (continuation fragments on
   the other rows), the lines before it in a FormattedTextControl above. *)
Theorem plain_session_input_stream wc sty g lexstyle ps message cont text app width ri x y last vis :
  wc_ascii wc -> unmarked_style lexstyle -> Forall proc_unmarked ps -> all_unmarked cont ->
  forall o c, In (o, c) (tagged_stream (rendered_tokens wc sty g
        (Some (session_prefix (ft_of_str message) cont)) (buffer_lines lexstyle ps text) app width ri x y last vis)) ->
  (o = FromZWE -> False) /\ (is_control c = true -> o = FromRenderer).
Proof.
  intros Hw Hs Hp Hc. apply unmarked_lines_stream;
    [exact Hw | apply session_prefix_unmarked; [apply ft_of_str_unmarked | exact Hc] | apply buffer_lines_unmarked; assumption].
Qed.

Theorem plain_session_before_stream wc sty g message app width ri x y last vis :
  wc_ascii wc ->
  forall o c, In (o, c) (tagged_stream (rendered_tokens wc sty g None
        (session_before_lines (ft_of_str message)) app width ri x y last vis)) ->
  (o = FromZWE -> False) /\ (is_control c = true -> o = FromRenderer).
Proof.
  intros Hw. apply unmarked_lines_stream; [exact Hw | exact I | apply session_before_unmarked, ft_of_str_unmarked].
Qed.

Theorem plain_meta_stream wc sty g meta cur w app width ri x y last vis :
  wc_ascii wc ->
  forall o c, In (o, c) (tagged_stream (rendered_tokens wc sty g None
        [menu_meta wc (ft_of_str meta) cur w] app width ri x y last vis)) ->
  (o = FromZWE -> False) /\ (is_control c = true -> o = FromRenderer).
Proof.
  intros Hw. apply unmarked_lines_stream; [exact Hw | exact I |].
  constructor; [|constructor]. apply menu_meta_unmarked, ft_of_str_unmarked.
Qed.
