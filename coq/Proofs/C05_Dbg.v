From Coq Require Import ZArith List Bool Lia.
From PTK Require Import Lib.Sx Lib.Py Lib.C05_Filter Gen.C05_Bindings Model.C05_Dispatch.
Import ListNotations.
Open Scope Z_scope.
Definition esc_exact := Eval vm_compute in bindings_for_keys bindings [K_Escape].
Definition esc_longer := Eval vm_compute in starting_with bindings [K_Escape].
Eval vm_compute in (map (fun ib => (fst ib, bhandler (snd ib), bkeys (snd ib))) esc_exact).
Eval vm_compute in (length esc_longer).
Definition cone := Eval vm_compute in nodup Z.eq_dec (flat_map (fun ib => fatoms (bfilter (snd ib)) ++ fatoms (beager (snd ib))) esc_exact ++ flat_map (fun b => fatoms (bfilter b)) esc_longer).
Eval vm_compute in cone.
Eval vm_compute in (length cone).
