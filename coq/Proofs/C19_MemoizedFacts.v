(* C19 - memoized get_opposite_color is transparent, eviction included *)
From Coq Require Import ZArith List Bool Lia.
From PTK Require Import Lib.Py Lib.C19_Str Model.C19_Style Model.C19_Transform Model.C19_Cache
     Model.C19_Memoized Proofs.C19_PaletteFacts Proofs.C19_CacheFacts.
Import ListNotations.
Open Scope Z_scope.

Section Bounded.
  Context {K V : Type} (eqb : K -> K -> bool) (f : K -> res V).
  Hypothesis eqb_sound : forall a b, eqb a b = true -> a = b.

  (* every stored entry is a value the function returned *)
  Definition BInv (c : list (K * V)%type) : Prop := forall (k : K) (v : V), In (k, v) c -> f k = Ok v.

  Lemma lookup_In : forall (c : list (K * V)%type) (k : K) (v : V), lookup eqb k c = Some v -> exists k', In (k', v) c /\ k = k'.
  Proof.
    induction c as [|[k0 v0] r IH]; intros k v H; [discriminate|].
    cbn [lookup] in H. destruct (eqb k k0) eqn:E.
    - inversion H; subst. exists k0. split; [left; reflexivity | apply eqb_sound; exact E].
    - destruct (IH _ _ H) as (k' & Hin & Hk). exists k'. split; [right; exact Hin | exact Hk].
  Qed.

  Lemma In_removelast {T} : forall (l : list T) x, In x (removelast l) -> In x l.
  Proof.
    induction l as [|y r IH]; intros x H; [destruct H|].
    cbn [removelast] in H. destruct r as [|z r']; [destruct H|].
    destruct H as [H | H]; [left; exact H | right; apply IH; exact H].
  Qed.

  Lemma bounded_get_spec : forall maxsize c k, BInv c ->
    fst (bounded_get eqb maxsize f c k) = f k /\ BInv (snd (bounded_get eqb maxsize f c k)).
  Proof.
    intros maxsize c k Hc. unfold bounded_get. destruct (lookup eqb k c) as [v|] eqn:E.
    - cbn [fst snd]. split; [|exact Hc]. destruct (lookup_In _ _ _ E) as (k' & Hin & ->).
      symmetry. apply Hc. exact Hin.
    - destruct (f k) as [v|e] eqn:Ef; cbn [fst snd]; [|split; [reflexivity | exact Hc]].
      split; [reflexivity|].
      assert (H1 : BInv ((k, v) :: c)).
      { intros k' v' [H | H]; [inversion H; subst; exact Ef | apply Hc; exact H]. }
      destruct (Nat.ltb maxsize (List.length ((k, v) :: c))); [|exact H1].
      intros k' v' H. apply H1. apply In_removelast. exact H.
  Qed.
End Bounded.

Lemma opp_key_sound : forall a b, opp_key_eqb a b = true -> a = b.
Proof.
  intros a b H. unfold opp_key_eqb in H. eapply opt_eqb_sound; [|exact H].
  intros x y E. apply str_eqb_eq. exact E.
Qed.

Definition opp_inv (opp : kernel) (c : opp_cache) : Prop := BInv (get_opposite_color opp) c.

Lemma swap_m_spec : forall opp c a, opp_inv opp c ->
  fst (swap_m opp c a) = transform opp (fun _ _ _ => None) TSwap a /\ opp_inv opp (snd (swap_m opp c a)).
Proof.
  intros opp c a Hc. unfold swap_m, get_opposite_color_m. cbn [transform].
  destruct (bounded_get_spec opp_key_eqb (get_opposite_color opp) opp_key_sound MEMO_SIZE c (a_color a) Hc) as [A B].
  destruct (bounded_get opp_key_eqb MEMO_SIZE (get_opposite_color opp) c (a_color a)) as [r1 c1].
  cbn [fst snd] in A, B. rewrite <- A. destruct r1 as [col|e]; [|split; [reflexivity | exact B]].
  destruct (bounded_get_spec opp_key_eqb (get_opposite_color opp) opp_key_sound MEMO_SIZE c1
                             (a_bgcolor (set_color col a)) B) as [A2 B2].
  destruct (bounded_get opp_key_eqb MEMO_SIZE (get_opposite_color opp) c1 (a_bgcolor (set_color col a))) as [r2 c2].
  cbn [fst snd] in A2, B2. rewrite <- A2. destruct r2; (split; [reflexivity | exact B2]).
Qed.

Theorem memoized_swap_transparent : forall opp l c, opp_inv opp c ->
  swap_history opp c l = map (transform opp (fun _ _ _ => None) TSwap) l.
Proof.
  intros opp. induction l as [|a r IH]; intros c Hc; cbn [swap_history map]; [reflexivity|].
  destruct (swap_m_spec opp c a Hc) as [A B]. destruct (swap_m opp c a) as [x c'].
  cbn [fst snd] in *. rewrite A, (IH c' B). reflexivity.
Qed.

Corollary memoized_swap_transparent_fresh : forall opp l,
  swap_history opp [] l = map (transform opp (fun _ _ _ => None) TSwap) l.
Proof. intros. apply memoized_swap_transparent. intros k v []. Qed.
