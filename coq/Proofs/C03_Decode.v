(* C03 - (A) every key press that is emitted carries its own sequence: the output
   of any schedule is a concatenation of groups, each group being the keys of
   get_match d with d as data of the first, one raw character, or one paste;
   (B) a sequence whose proper prefixes can all still grow and which has a match
   decodes to that match; in particular every cursor-position report and every
   mouse report (all strings of the two regexes) decodes to its key. *)
From Coq Require Import ZArith List Bool Lia.
From PTK Require Import Lib.Sx Lib.Py Lib.C03_Str Gen.C03_AnsiSequences Model.C03_Vt100Parser
  Proofs.C03_Table Proofs.C03_Process Proofs.C03_Feed Proofs.C03_Lossless Proofs.C03_Main
  Proofs.C03_Shift Proofs.C03_Regex.
Import ListNotations.
Open Scope Z_scope.

(* ---------------------------------------------------------------------- *)
(* (A) *)

Definition group (g : list event) : Prop :=
  g = []
  \/ (exists d ks, get_match d = Some ks /\ mem_Z key_BracketedPaste ks = false /\ g = expected_events d ks)
  \/ (exists c, g = [(KChar c, [c])])
  \/ (exists content, g = [(KKey key_BracketedPaste, content)]).

Inductive wf_out : list event -> Prop :=
| wf_nil : wf_out []
| wf_app : forall l g, wf_out l -> group g -> wf_out (l ++ g).

Lemma prim_group a b : prim a b -> exists g, group g /\ out b = out a ++ g.
Proof.
  intros H. destruct H as [st i ks Hm|st c tl Hp].
  - destruct (mem_Z key_BracketedPaste ks) eqn:HB.
    + destruct (get_match_bp _ _ Hm HB) as [_ ->]. rewrite call_handler_bp.
      exists []. split; [now left|]. unfold out. cbn [set_prefix enter_paste rout]. now rewrite app_nil_r.
    + rewrite call_handler_nobp by exact HB. exists (expected_events (firstn i (prefix st)) ks). split.
      * right; left. eauto.
      * unfold out. cbn [set_prefix add_out rout]. now rewrite rev_app_distr, rev_involutive.
  - exists [(KChar c, [c])]. split; [right; right; left; eauto|]. reflexivity.
Qed.

Lemma star_wf a b : star a b -> wf_out (out a) -> wf_out (out b).
Proof.
  induction 1; [auto|]. intros Hw. apply IHstar. destruct (prim_group _ _ H) as (g & Hg & E).
  rewrite E. now apply wf_app.
Qed.

Lemma step_char_wf st c : wf_out (out st) -> wf_out (out (step_char st c)).
Proof.
  intros Hw. unfold step_char. destruct (in_paste st).
  - unfold paste_char. destruct (ends_with end_mark (paste_buf st ++ [c])).
    + unfold out. cbn [leave_paste push rout rev]. apply wf_app; [exact Hw|]. right; right; right. eauto.
    + exact Hw.
  - apply (star_wf _ _ (send_char_star c st)). exact Hw.
Qed.

Lemma feed_spec_wf d : forall st, wf_out (out st) -> wf_out (out (feed_spec d st)).
Proof.
  unfold feed_spec. induction d as [|c d IH]; intros st H; [exact H|]. cbn [fold_left]. apply IH. now apply step_char_wf.
Qed.

Lemma run_ops_wf ops : forall st, Inv0 st -> wf_out (out st) -> wf_out (out (run_ops ops st)).
Proof.
  unfold run_ops. induction ops as [|o ops IH]; intros st HI Hw; [exact Hw|].
  cbn [fold_left]. destruct o as [d|]; cbn [apply_op].
  - apply IH; [now apply Inv0_feed|]. rewrite feed_eq_spec by exact HI. now apply feed_spec_wf.
  - apply IH; [now apply Inv0_flush|]. apply (star_wf _ _ (flush_star st)). exact Hw.
Qed.

Lemma emitted_keys_match_data ops : wf_out (out (run_ops ops init)).
Proof. apply run_ops_wf; [exact Inv0_init|apply wf_nil]. Qed.

(* ---------------------------------------------------------------------- *)
(* (B) *)

Lemma send_char_wait c st :
  is_prefix_longer (prefix st ++ [c]) = true -> send_char c st = set_prefix (prefix st ++ [c]) st.
Proof.
  intros H. unfold send_char. cbn [process]. cbn [set_prefix prefix].
  destruct (prefix st ++ [c]) as [|x tl] eqn:E; [now destruct (prefix st)|].
  rewrite H. reflexivity.
Qed.

Lemma send_char_emit c st ks :
  is_prefix_longer (prefix st ++ [c]) = false -> get_match (prefix st ++ [c]) = Some ks ->
  send_char c st = set_prefix [] (call_handler ks (prefix st ++ [c]) (set_prefix (prefix st ++ [c]) st)).
Proof.
  intros H Hm. unfold send_char. cbn [process]. cbn [set_prefix prefix].
  destruct (prefix st ++ [c]) as [|x tl] eqn:E; [now destruct (prefix st)|].
  rewrite H, Hm. reflexivity.
Qed.

Lemma fold_wait r : forall st,
  in_paste st = false ->
  (forall j, (1 <= j <= length r)%nat -> is_prefix_longer (prefix st ++ firstn j r) = true) ->
  fold_left step_char r st = set_prefix (prefix st ++ r) st.
Proof.
  induction r as [|c r IH]; intros st Hin H.
  - cbn [fold_left]. rewrite app_nil_r. now destruct st.
  - cbn [fold_left]. unfold step_char at 2. rewrite Hin.
    rewrite send_char_wait by (apply (H 1%nat); cbn [length]; lia).
    rewrite IH.
    + cbn [set_prefix prefix]. now rewrite <- app_assoc.
    + exact Hin.
    + intros j Hj. cbn [set_prefix prefix]. rewrite <- app_assoc. apply (H (S j)). cbn [length]. lia.
Qed.

Lemma sequence_decodes p ks :
  p <> [] ->
  (forall j, (1 <= j < length p)%nat -> is_prefix_longer (firstn j p) = true) ->
  is_prefix_longer p = false -> get_match p = Some ks -> mem_Z key_BracketedPaste ks = false ->
  feed p init = mkst [] false [] (rev (expected_events p ks)) false /\
  flush (feed p init) = mkst [] false [] (rev (expected_events p ks)) false.
Proof.
  intros Hne Hpre Hlp Hm HB.
  assert (F : feed p init = mkst [] false [] (rev (expected_events p ks)) false).
  { rewrite feed_eq_spec by exact Inv0_init. unfold feed_spec.
    destruct (exists_last Hne) as (r & c & ->). rewrite fold_left_app. cbn [fold_left].
    rewrite fold_wait.
    - cbn [init prefix app]. unfold step_char. cbn [set_prefix in_paste].
      rewrite send_char_emit with (ks := ks); cbn [set_prefix prefix]; try assumption.
      rewrite call_handler_nobp by exact HB. unfold add_out. cbn [set_prefix prefix in_paste paste_buf rout oof].
      now rewrite app_nil_r.
    - reflexivity.
    - intros j Hj. cbn [init prefix app]. specialize (Hpre j). rewrite app_length in Hpre. cbn [length] in Hpre.
      rewrite firstn_app in Hpre. replace (j - length r)%nat with 0%nat in Hpre by lia. cbn [firstn] in Hpre.
      rewrite app_nil_r in Hpre. apply Hpre. lia. }
  split; [exact F|]. rewrite F. reflexivity.
Qed.

Lemma esc_can_grow : is_prefix_longer [27] = true.
Proof. vm_compute. reflexivity. Qed.

Lemma match_not_lp p ks : get_match p = Some ks -> (2 <= length p)%nat -> is_prefix_longer p = false.
Proof.
  intros Hm L. destruct (is_prefix_longer p) eqn:E; [|reflexivity].
  rewrite (lp_long_no_match p E L) in Hm. discriminate.
Qed.

Lemma firstn_snoc {T} (A : list T) x j : (j <= length A)%nat -> firstn j (A ++ [x]) = firstn j A.
Proof. intros H. rewrite firstn_app. replace (j - length A)%nat with 0%nat by lia. cbn [firstn]. now rewrite app_nil_r. Qed.

Lemma forallb_impl {T} (P Q : T -> bool) l : (forall x, P x = true -> Q x = true) -> forallb P l = true -> forallb Q l = true.
Proof.
  intros HPQ. induction l as [|x l IH]; [reflexivity|]. cbn [forallb]. intros H. apply andb_true_iff in H.
  destruct H as [H1 H2]. rewrite (HPQ _ H1). now apply IH.
Qed.
Lemma digit_is_ds c : is_digit c = true -> is_ds c = true.
Proof. intros H. unfold is_ds. now rewrite H. Qed.

(* the body of a report is "characters that can still be part of it" + one closing character *)
Lemma csi_prefixes_cpr A x j :
  forallb is_ds A = true -> (2 <= j < length (27%Z :: 91%Z :: A ++ [x]))%nat ->
  is_prefix_longer (firstn j (27 :: 91 :: A ++ [x])) = true.
Proof.
  intros HA Hj. destruct j as [|[|j]]; try lia. cbn [firstn]. cbn [length] in Hj. rewrite app_length in Hj. cbn [length] in Hj.
  rewrite firstn_snoc by lia. unfold is_prefix_longer.
  assert (X : cpr_prefix_re (27 :: 91 :: firstn j A) = true).
  { unfold cpr_prefix_re. cbn [strip_csi]. rewrite !Z.eqb_refl. cbn [andb]. now apply forallb_firstn. }
  now rewrite X.
Qed.

Lemma cpr_shape r :
  (match digits1 r with
   | Some (c :: r2) => (c =? 59) && match digits1 r2 with Some [x] => x =? 82 | _ => false end
   | _ => false
   end) = true -> exists A, r = A ++ [82] /\ forallb is_ds A = true.
Proof.
  destruct (digits1 r) as [[|c r2]|] eqn:E1; try discriminate.
  intros H. apply andb_true_iff in H. destruct H as [Hc H]. apply Z.eqb_eq in Hc. subst.
  destruct (digits1 r2) as [[|x [|y w]]|] eqn:E2; try discriminate. apply Z.eqb_eq in H. subst.
  apply digits1_some in E1. destruct E1 as (d1 & -> & _ & D1 & _).
  apply digits1_some in E2. destruct E2 as (d2 & -> & _ & D2 & _).
  exists (d1 ++ 59 :: d2). split; [now rewrite <- app_assoc|].
  rewrite forallb_app. cbn [forallb]. rewrite (forallb_impl _ _ _ digit_is_ds D1), (forallb_impl _ _ _ digit_is_ds D2).
  reflexivity.
Qed.

Lemma cpr_decodes p :
  cpr_re p = true ->
  flush (feed p init) = mkst [] false [] [(KKey key_CPRResponse, p)] false.
Proof.
  intros H. assert (Hm : get_match p = Some [key_CPRResponse]) by (unfold get_match; now rewrite H).
  unfold cpr_re in H. destruct (strip_csi p) as [r|] eqn:E; [|discriminate]. apply strip_csi_some in E. subst.
  destruct (cpr_shape r H) as (A & -> & HA).
  assert (L : (2 <= length (27%Z :: 91%Z :: A ++ [82%Z]))%nat) by (cbn [length]; lia).
  assert (P1 : 27 :: 91 :: A ++ [82] <> []) by discriminate.
  assert (P2 : forall j, (1 <= j < length (27%Z :: 91%Z :: A ++ [82%Z]))%nat -> is_prefix_longer (firstn j (27 :: 91 :: A ++ [82])) = true).
  { intros j Hj. destruct (Nat.eq_dec j 1) as [->|Hn]; [exact esc_can_grow|]. apply csi_prefixes_cpr; [exact HA|lia]. }
  assert (P3 : is_prefix_longer (27 :: 91 :: A ++ [82]) = false) by (now apply (match_not_lp _ _ Hm)).
  assert (P4 : mem_Z key_BracketedPaste [key_CPRResponse] = false) by (cbn [mem_Z]; now rewrite cpr_not_bp).
  exact (proj2 (sequence_decodes _ _ P1 P2 P3 Hm P4)).
Qed.

(* mouse reports *)
Lemma mouse_re_unfold p :
  mouse_re p = match strip_csi p with
               | Some r => sgr_tail (strip_lt r)
                           || match r with [m; a; b; c] => (m =? 77) && not_nl a && not_nl b && not_nl c | _ => false end
               | None => false
               end.
Proof. reflexivity. Qed.

Lemma sgr_shape s : sgr_tail s = true -> exists A x, s = A ++ [x] /\ A <> [] /\ forallb is_ds A = true.
Proof.
  destruct s as [|c t]; [discriminate|]. cbn [sgr_tail]. intros H. apply andb_true_iff in H. destruct H as [Hc H].
  destruct (skip_ds_split t) as (d & E1 & E2 & _).
  destruct (skip_ds t) as [|x [|y w]] eqn:Es; try discriminate.
  exists (c :: d), x. split; [rewrite E1; reflexivity|]. split; [discriminate|]. cbn [forallb]. now rewrite Hc.
Qed.

Lemma sgr_last s : sgr_tail s = true -> exists B x, s = B ++ [x] /\ (x = 109 \/ x = 77).
Proof.
  destruct s as [|c t]; [discriminate|]. cbn [sgr_tail]. intros H. apply andb_true_iff in H. destruct H as [_ H].
  destruct (skip_ds_split t) as (d & E1 & _ & _).
  destruct (skip_ds t) as [|x [|y w]] eqn:Es; try discriminate.
  exists (c :: d), x. split; [rewrite E1; reflexivity|].
  apply orb_true_iff in H. destruct H as [H|H]; apply Z.eqb_eq in H; auto.
Qed.

Lemma mouse_prefixes_sgr r j :
  sgr_tail (strip_lt r) = true -> (2 <= j < length (27%Z :: 91%Z :: r))%nat ->
  is_prefix_longer (firstn j (27 :: 91 :: r)) = true.
Proof.
  intros H Hj. destruct j as [|[|j]]; try lia. cbn [firstn]. cbn [length] in Hj.
  destruct (sgr_shape _ H) as (A & x & E & Hne & HA).
  assert (X : mouse_prefix_re (27 :: 91 :: firstn j r) = true).
  { unfold mouse_prefix_re. cbn [strip_csi]. rewrite !Z.eqb_refl. cbn [andb]. apply orb_true_iff. left.
    unfold strip_lt in E. destruct r as [|c t]; [destruct j; reflexivity|].
    destruct (c =? 60) eqn:Ec.
    - destruct j as [|j]; [reflexivity|]. cbn [firstn strip_lt]. rewrite Ec. subst t.
      cbn [length] in Hj. rewrite app_length in Hj. cbn [length] in Hj.
      rewrite firstn_snoc by lia. now apply forallb_firstn.
    - destruct j as [|j]; [reflexivity|].
      destruct A as [|a A']; [congruence|].
      assert (Ea : c = a) by (cbn [app] in E; now injection E).
      subst a. rewrite E in Hj |- *. cbn [length] in Hj. rewrite app_length in Hj. cbn [length] in Hj.
      rewrite firstn_snoc by (cbn [length]; lia).
      cbn [firstn strip_lt]. rewrite Ec. change (c :: firstn j A') with (firstn (S j) (c :: A')). now apply forallb_firstn. }
  unfold is_prefix_longer. rewrite X. now rewrite orb_true_r.
Qed.

Lemma mouse_prefixes_x10 a b c j :
  not_nl a = true -> not_nl b = true -> (2 <= j < 6)%nat ->
  is_prefix_longer (firstn j [27; 91; 77; a; b; c]) = true.
Proof.
  intros Ha Hb Hj.
  assert (X : mouse_prefix_re (firstn j [27; 91; 77; a; b; c]) = true).
  { destruct j as [|[|[|[|[|[|j]]]]]]; try lia; cbn [firstn]; unfold mouse_prefix_re; cbn [strip_csi];
      rewrite !Z.eqb_refl; cbn [andb strip_lt forallb length Nat.leb]; rewrite ?Ha, ?Hb; try reflexivity;
      apply orb_true_r. }
  unfold is_prefix_longer. rewrite X. now rewrite orb_true_r.
Qed.

Lemma mouse_decodes p :
  mouse_re p = true ->
  flush (feed p init) = mkst [] false [] [(KKey key_Vt100MouseEvent, p)] false.
Proof.
  intros H.
  assert (Hc : cpr_re p = false).
  { destruct (cpr_re p) eqn:E; [|reflexivity]. exfalso.
    (* a string cannot be both: a CPR ends in R, a mouse report in m/M or is ESC [ M x y z *)
    unfold cpr_re in E. rewrite mouse_re_unfold in H. destruct (strip_csi p) as [r|]; [|discriminate].
    destruct (cpr_shape r E) as (A & -> & HA). apply orb_true_iff in H. destruct H as [H|H].
    - destruct (sgr_last _ H) as (B & x & E2 & Hx).
      assert (X : x = 82).
      { unfold strip_lt in E2. destruct (A ++ [82]) as [|c t] eqn:EA; [destruct A; discriminate|].
        destruct (c =? 60).
        - assert (E3 : A ++ [82] = (c :: B) ++ [x]) by (cbn [app]; rewrite <- E2; exact EA).
          apply app_inj_tail in E3. now destruct E3.
        - rewrite E2 in EA. apply app_inj_tail in EA. now destruct EA. }
      subst x. destruct Hx; discriminate.
    - destruct (A ++ [82]) as [|m [|a [|b [|c [|d r']]]]] eqn:EA; try discriminate.
      apply andb_true_iff in H. destruct H as [H _]. apply andb_true_iff in H. destruct H as [H _].
      apply andb_true_iff in H. destruct H as [Hm _]. apply Z.eqb_eq in Hm. subst m.
      destruct A as [|a0 A']; [discriminate|]. cbn [app] in EA. injection EA as -> _. cbn [forallb] in HA. rewrite c_is_ds_77 in HA. discriminate. }
  assert (Hm : get_match p = Some [key_Vt100MouseEvent]) by (unfold get_match; now rewrite Hc, H).
  rewrite mouse_re_unfold in H. destruct (strip_csi p) as [r|] eqn:E; [|discriminate]. apply strip_csi_some in E. subst.
  assert (L : (2 <= length (27%Z :: 91%Z :: r))%nat) by (cbn [length]; lia).
  assert (P1 : 27 :: 91 :: r <> []) by discriminate.
  assert (P2 : forall j, (1 <= j < length (27%Z :: 91%Z :: r))%nat -> is_prefix_longer (firstn j (27 :: 91 :: r)) = true).
  { intros j Hj. destruct (Nat.eq_dec j 1) as [->|Hn]; [exact esc_can_grow|].
    apply orb_true_iff in H. destruct H as [H|H].
    + apply mouse_prefixes_sgr; [exact H|lia].
    + destruct r as [|m [|a [|b [|c [|d r']]]]]; try discriminate.
      apply andb_true_iff in H. destruct H as [H _]. apply andb_true_iff in H. destruct H as [H Hb].
      apply andb_true_iff in H. destruct H as [Hm' Ha]. apply Z.eqb_eq in Hm'. subst m.
      apply mouse_prefixes_x10; try assumption. cbn [length] in Hj. lia. }
  assert (P3 : is_prefix_longer (27 :: 91 :: r) = false) by (now apply (match_not_lp _ _ Hm)).
  assert (P4 : mem_Z key_BracketedPaste [key_Vt100MouseEvent] = false) by (cbn [mem_Z]; now rewrite mouse_not_bp).
  exact (proj2 (sequence_decodes _ _ P1 P2 P3 Hm P4)).
Qed.
