(* C10: every token _output_screen_diff sends is (a) the control-free text of
   a screen cell through `write`, (b) a sequence from the renderer's own fixed
   repertoire, or (c) the content of a zero-width escape stored in the screen,
   through `write_raw`; hence every control character of the output stream
   belongs to a FromRenderer or FromZWE token.  Also: the row loop and "%i"
   never run out of fuel. *)
From Coq Require Import ZArith List Bool Lia.
From PTK Require Import Lib.Sx Lib.Py Gen.C10_DisplayMappings Model.C10_Screen
     Proofs.C10_TableFacts Proofs.C10_CopyFacts.
Import ListNotations.
Open Scope Z_scope.

Definition zwe_texts (s : screen) : list (list Z) := flat_map (fun yr => map snd (snd yr)) (szwe s).

(* the fixed sequences of Vt100_Output used by _output_screen_diff *)
Definition fixed_raw : list (list Z) :=
  [ CSI ++ [48; 109]; CSI ++ [74]; CSI ++ [75]; CSI ++ [63; 55; 108]; CSI ++ [63; 55; 104];
    CSI ++ [65]; CSI ++ [67]; [8];
    CSI ++ [63; 50; 53; 108]; CSI ++ [63; 49; 50; 108] ++ CSI ++ [63; 50; 53; 104] ].

Section RenderInv.
  Variable wc : Z -> Z.
  Variable sty : list Z -> styinfo.
  Variable width : Z.
  Variable ZT : list (list Z).

  (* what the renderer generates by itself: CR, CR LF * n through write;
     fixed sequences, ESC [ <n> A|C|D, and the SGR sequence of a style *)
  Definition renderer_tok (t : token) : Prop :=
    match tkind t with
    | KWrite => ttext t = [13] \/ exists n, ttext t = str_mul [13; 10] n
    | KRaw => In (ttext t) fixed_raw
              \/ (exists n l, In l [65; 67; 68] /\ ttext t = CSI ++ dec n ++ [l])
              \/ exists st, ttext t = si_sgr (sty st)
    end.

  Definition tok_ok (t : token) : Prop :=
    match torigin t with
    | FromCell => tkind t = KWrite /\ control_free (ttext t) = true
    | FromZWE => tkind t = KRaw /\ In (ttext t) ZT
    | FromRenderer => renderer_tok t
    end.

  Definition out_ok (s : rstate) : Prop := Forall tok_ok (rout s).

  Lemma emit_ok o k t s : tok_ok (mktok o k t) -> out_ok s -> out_ok (emit o k t s).
  Proof. intros Ht Hs. unfold out_ok, emit. cbn [rout]. constructor; assumption. Qed.

  Lemma raw_fixed_ok t s : In t fixed_raw -> out_ok s -> out_ok (raw t s).
  Proof. intros Ht Hs. apply emit_ok; [|exact Hs]. cbn. left. exact Ht. Qed.

  Lemma set_pos_ok x y s : out_ok s -> out_ok (set_pos x y s).
  Proof. intro H. exact H. Qed.
  Lemma set_last_ok l s : out_ok s -> out_ok (set_last l s).
  Proof. intro H. exact H. Qed.
  Lemma set_vis_ok v s : out_ok s -> out_ok (set_vis v s).
  Proof. intro H. exact H. Qed.
  Lemma set_oof_ok s : out_ok s -> out_ok (set_oof s).
  Proof. intro H. exact H. Qed.

  Ltac fixed := cbn; tauto.

  Lemma reset_attributes_ok s : out_ok s -> out_ok (reset_attributes s).
  Proof. intro H. unfold reset_attributes, vt_reset_attributes. apply set_last_ok, raw_fixed_ok; [fixed | exact H]. Qed.
  Lemma erase_down_ok s : out_ok s -> out_ok (vt_erase_down s).
  Proof. intro H. apply raw_fixed_ok; [fixed | exact H]. Qed.
  Lemma erase_eol_ok s : out_ok s -> out_ok (vt_erase_eol s).
  Proof. intro H. apply raw_fixed_ok; [fixed | exact H]. Qed.
  Lemma disable_autowrap_ok s : out_ok s -> out_ok (vt_disable_autowrap s).
  Proof. intro H. apply raw_fixed_ok; [fixed | exact H]. Qed.
  Lemma enable_autowrap_ok s : out_ok s -> out_ok (vt_enable_autowrap s).
  Proof. intro H. apply raw_fixed_ok; [fixed | exact H]. Qed.
  Lemma hide_cursor_ok s : out_ok s -> out_ok (vt_hide_cursor s).
  Proof.
    intro H. unfold vt_hide_cursor.
    destruct (rvis s) as [[|]|]; try exact H; apply set_vis_ok, raw_fixed_ok; try exact H; fixed.
  Qed.
  Lemma show_cursor_ok s : out_ok s -> out_ok (vt_show_cursor s).
  Proof.
    intro H. unfold vt_show_cursor.
    destruct (rvis s) as [[|]|]; try exact H; apply set_vis_ok, raw_fixed_ok; try exact H; fixed.
  Qed.

  Lemma vt_cursor_ok l one n s : In l [65; 67; 68] -> In one fixed_raw -> out_ok s -> out_ok (vt_cursor l one n s).
  Proof.
    intros Hl Ho H. unfold vt_cursor. destruct (n =? 0); [exact H|].
    destruct (n =? 1); [apply raw_fixed_ok; assumption|].
    apply emit_ok; [|exact H]. cbn. right. left. exists n, l. split; [exact Hl | reflexivity].
  Qed.
  Lemma cursor_up_ok n s : out_ok s -> out_ok (vt_cursor_up n s).
  Proof. intro H. apply vt_cursor_ok; [fixed | fixed | exact H]. Qed.
  Lemma cursor_forward_ok n s : out_ok s -> out_ok (vt_cursor_forward n s).
  Proof. intro H. apply vt_cursor_ok; [fixed | fixed | exact H]. Qed.
  Lemma cursor_backward_ok n s : out_ok s -> out_ok (vt_cursor_backward n s).
  Proof. intro H. apply vt_cursor_ok; [fixed | fixed | exact H]. Qed.

  Lemma move_cursor_ok nx ny s : out_ok s -> out_ok (move_cursor width nx ny s).
  Proof.
    intro H. unfold move_cursor. destruct (ny >? ry s).
    - apply set_pos_ok, cursor_forward_ok, emit_ok; [|apply reset_attributes_ok; exact H].
      cbn. right. eexists. reflexivity.
    - apply set_pos_ok.
      assert (H1 : out_ok (if ny <? ry s then vt_cursor_up (ry s - ny) s else s)).
      { destruct (ny <? ry s); [apply cursor_up_ok; exact H | exact H]. }
      destruct (rx s >=? width - 1).
      + apply cursor_forward_ok, emit_ok; [|exact H1]. cbn. left. reflexivity.
      + destruct (nx <? rx s); [apply cursor_backward_ok; exact H1|].
        destruct (nx >? rx s); [apply cursor_forward_ok; exact H1 | exact H1].
  Qed.

  Lemma output_char_ok c s : cell_ok c -> out_ok s -> out_ok (output_char sty c s).
  Proof.
    intros [Hc _] H. unfold output_char.
    assert (Hcell : forall s', out_ok s' -> out_ok (emit FromCell KWrite (cch c) s')).
    { intros s' H'. apply emit_ok; [|exact H']. cbn. split; [reflexivity | exact Hc]. }
    destruct (match rlast s with Some l => str_eqb l (cst c) | None => false end); [apply Hcell; exact H|].
    apply set_last_ok, Hcell.
    destruct (match rlast s with None => true | Some [] => true | Some (_ :: _ as l) => _ end); [|exact H].
    apply emit_ok; [|exact H]. cbn. right. right. eexists. reflexivity.
  Qed.

  Lemma row_loop_ok fuel : forall y c new_max new_row prev_row zrow s,
    row_ok new_row -> (forall x t, assoc zrow x = Some t -> In t ZT) -> out_ok s ->
    out_ok (row_loop wc sty width fuel y c new_max new_row prev_row zrow s).
  Proof.
    induction fuel as [|k IH]; intros y c new_max new_row prev_row zrow s Hr Hz H; cbn [row_loop];
      destruct (c <=? new_max); try exact H.
    apply IH; [exact Hr | exact Hz|].
    destruct (negb _ || negb _); [|exact H].
    apply set_pos_ok.
    assert (H2 : out_ok (match assoc zrow c with
                         | Some t => emit FromZWE KRaw t (move_cursor width c y s)
                         | None => move_cursor width c y s end)).
    { destruct (assoc zrow c) as [t|] eqn:E; [|apply move_cursor_ok; exact H].
      apply emit_ok; [|apply move_cursor_ok; exact H]. cbn. split; [reflexivity | exact (Hz c t E)]. }
    destruct (str_eqb _ [32] && str_eqb _ TRANSPARENT).
    - apply emit_ok; [cbn; split; reflexivity | apply reset_attributes_ok; exact H2].
    - apply output_char_ok; [apply get_cell_ok; exact Hr | exact H2].
  Qed.

  Lemma do_row_ok scr prev s y : data_ok (sdata scr) -> incl (zwe_texts scr) ZT -> out_ok s ->
    out_ok (do_row wc sty width scr prev s y).
  Proof.
    intros Hd Hz H. unfold do_row.
    set (s1 := row_loop _ _ _ _ _ _ _ _ _ _ _).
    assert (H1 : out_ok s1).
    { subst s1. apply row_loop_ok; [apply get_row_ok; exact Hd | | exact H].
      intros x t E. apply Hz. unfold zwe_texts, get_zrow in *. apply in_flat_map.
      destruct (assoc (szwe scr) y) as [r|] eqn:Er; [|discriminate].
      exists (y, r). split; [apply assoc_In; exact Er|]. cbn [snd].
      apply in_map_iff. exists (x, t). split; [reflexivity | apply assoc_In; exact E]. }
    clearbody s1. destruct (_ <? _); [|exact H1].
    apply erase_eol_ok, reset_attributes_ok, move_cursor_ok. exact H1.
  Qed.

  Lemma output_screen_diff_ok scr ri s0 : data_ok (sdata scr) -> incl (zwe_texts scr) ZT -> out_ok s0 ->
    out_ok (output_screen_diff wc sty width scr ri s0).
  Proof.
    intros Hd Hz H0. unfold output_screen_diff.
    set (noprev := match ri_prev ri with None => true | Some _ => false end).
    set (redraw := ri_done ri || noprev || negb (ri_prev_width ri =? width)).
    set (prev := if redraw then blank_screen else _).
    assert (H1 : out_ok (vt_hide_cursor s0)) by (apply hide_cursor_ok; exact H0).
    set (s2 := if noprev then reset_attributes (vt_hide_cursor s0) else vt_hide_cursor s0).
    assert (H2 : out_ok s2) by (subst s2; destruct noprev; [apply reset_attributes_ok|]; exact H1).
    set (s3 := if noprev || negb (ri_full ri) then vt_disable_autowrap s2 else s2).
    assert (H3 : out_ok s3) by (subst s3; destruct (noprev || negb (ri_full ri)); [apply disable_autowrap_ok|]; exact H2).
    set (s4 := if redraw then vt_erase_down (reset_attributes (move_cursor width 0 0 s3)) else s3).
    assert (H4 : out_ok s4).
    { subst s4; destruct redraw; [apply erase_down_ok, reset_attributes_ok, move_cursor_ok|]; exact H3. }
    set (s5 := fold_left _ _ s4).
    assert (H5 : out_ok s5).
    { subst s5. apply fold_left_inv; [|exact H4]. intros a b _ Ha. apply do_row_ok; assumption. }
    set (s6 := if _ >? _ then move_cursor width 0 _ s5 else s5).
    assert (H6 : out_ok s6) by (subst s6; destruct (_ >? _); [apply move_cursor_ok|]; exact H5).
    set (s7 := if ri_done ri then _ else _).
    assert (H7 : out_ok s7).
    { subst s7; destruct (ri_done ri); [apply erase_down_ok|]; apply move_cursor_ok; exact H6. }
    set (s8 := if ri_done ri || negb (ri_full ri) then vt_enable_autowrap s7 else s7).
    assert (H8 : out_ok s8) by (subst s8; destruct (ri_done ri || negb (ri_full ri)); [apply enable_autowrap_ok|]; exact H7).
    destruct (ri_show ri); [apply show_cursor_ok|]; apply reset_attributes_ok; exact H8.
  Qed.
End RenderInv.

(* ------------------------------------------------------------ the stream *)

Lemma control_free_In s c : control_free s = true -> In c s -> is_control c = false.
Proof.
  intros H Hc. unfold control_free in H. rewrite forallb_forall in H.
  specialize (H c Hc). destruct (is_control c); [discriminate | reflexivity].
Qed.

Lemma tagged_stream_control sty ZT toks :
  Forall (tok_ok sty ZT) toks ->
  forall o c, In (o, c) (tagged_stream toks) -> is_control c = true -> o = FromRenderer \/ o = FromZWE.
Proof.
  intros H o c Hin Hc. unfold tagged_stream in Hin. apply in_flat_map in Hin.
  destruct Hin as (t & Ht & Hin). apply in_map_iff in Hin. destruct Hin as (c' & E & Hb).
  inversion E; subst. rewrite Forall_forall in H. specialize (H t Ht). unfold tok_ok in H.
  destruct (torigin t); [|left; reflexivity | right; reflexivity].
  exfalso. destruct H as [Hk Hcf]. unfold tok_bytes in Hb. rewrite Hk in Hb.
  rewrite (vt_write_clean_id _ Hcf) in Hb. rewrite (control_free_In _ _ Hcf Hb) in Hc. discriminate.
Qed.

Lemma stream_is_tagged toks : stream toks = map snd (tagged_stream toks).
Proof.
  unfold stream, tagged_stream. induction toks as [|t r IH]; [reflexivity|].
  cbn [flat_map]. rewrite map_app, <- IH. f_equal.
  rewrite map_map. cbn [snd]. symmetry. apply map_id.
Qed.

(* ------------------------------------------------------------ fuel *)

Lemma dec_pos_fuel_enough : forall fuel n acc, 0 <= n < 2 ^ (Z.of_nat fuel + 1) ->
  dec_pos_fuel (S fuel) n acc <> None.
Proof.
  induction fuel as [|k IH]; intros n acc Hn.
  - cbn [dec_pos_fuel]. change (2 ^ (Z.of_nat 0 + 1)) with 2 in Hn.
    destruct (n <? 10) eqn:E; [discriminate|]. apply Z.ltb_ge in E. lia.
  - cbn [dec_pos_fuel]. destruct (n <? 10) eqn:E; [discriminate|]. apply Z.ltb_ge in E.
    apply IH. rewrite Nat2Z.inj_succ in Hn.
    replace (Z.succ (Z.of_nat k) + 1) with (Z.succ (Z.of_nat k + 1)) in Hn by lia.
    rewrite Z.pow_succ_r in Hn by lia.
    split; [apply Z.div_pos; lia|]. apply Z.div_lt_upper_bound; lia.
Qed.

Lemma dec_fuel_suffices : forall n, exists d,
  dec_pos_fuel (S (Z.to_nat (Z.log2 (Z.abs n)))) (Z.abs n) [] = Some d.
Proof.
  intro n. set (m := Z.abs n). assert (Hm : 0 <= m) by (subst m; lia).
  destruct (dec_pos_fuel (S (Z.to_nat (Z.log2 m))) m []) as [d|] eqn:E; [exists d; reflexivity|].
  exfalso. revert E. apply dec_pos_fuel_enough. rewrite Z2Nat.id by apply Z.log2_nonneg.
  split; [exact Hm|]. destruct (Z.eq_dec m 0) as [E0|E0]; [rewrite E0; reflexivity|].
  pose proof (Z.log2_spec m ltac:(lia)) as [_ H]. rewrite <- Z.add_1_r in H. exact H.
Qed.

Section Fuel.
  Variable wc : Z -> Z.
  Variable sty : list Z -> styinfo.
  Variable width : Z.

  Ltac roof_tac :=
    repeat match goal with
           | |- context [if ?b then _ else _] => destruct b
           | |- context [match ?x with _ => _ end] => destruct x
           end; reflexivity.

  Lemma roof_vt_cursor l one n s : roof (vt_cursor l one n s) = roof s.
  Proof. unfold vt_cursor. roof_tac. Qed.

  Lemma roof_move_cursor nx ny s : roof (move_cursor width nx ny s) = roof s.
  Proof.
    unfold move_cursor, vt_cursor_forward, vt_cursor_backward, vt_cursor_up, reset_attributes, vt_reset_attributes.
    destruct (ny >? ry s).
    - cbn [set_pos roof]. rewrite roof_vt_cursor. reflexivity.
    - cbn [set_pos roof].
      destruct (rx s >=? width - 1); [rewrite roof_vt_cursor; cbn [emit roof]|
        destruct (nx <? rx s); [rewrite roof_vt_cursor| destruct (nx >? rx s); [rewrite roof_vt_cursor|]]];
        (destruct (ny <? ry s); [rewrite roof_vt_cursor|]); reflexivity.
  Qed.

  Lemma roof_output_char c s : roof (output_char sty c s) = roof s.
  Proof. unfold output_char. roof_tac. Qed.

  Lemma row_loop_fuel fuel : forall y c new_max new_row prev_row zrow s,
    row_ok new_row -> new_max + 1 - c <= Z.of_nat fuel ->
    roof (row_loop wc sty width fuel y c new_max new_row prev_row zrow s) = roof s.
  Proof.
    induction fuel as [|k IH]; intros y c new_max new_row prev_row zrow s Hr Hf; cbn [row_loop];
      destruct (c <=? new_max) eqn:E; try reflexivity; apply Z.leb_le in E; [lia|].
    pose proof (get_cell_ok wc new_row c Hr) as [_ Hw].
    rewrite IH; [|exact Hr|].
    - destruct (negb _ || negb _); [|reflexivity].
      cbn [set_pos roof].
      destruct (str_eqb _ [32] && str_eqb _ TRANSPARENT);
        [cbn [emit roof reset_attributes set_last vt_reset_attributes raw] | rewrite roof_output_char];
        (destruct (assoc zrow c); [cbn [emit roof]|]; apply roof_move_cursor).
    - destruct (cw (get_cell wc new_row c) =? 0) eqn:E0; [lia|]. apply Z.eqb_neq in E0. lia.
  Qed.

  Lemma roof_do_row scr prev s y : data_ok (sdata scr) -> roof (do_row wc sty width scr prev s y) = roof s.
  Proof.
    intro Hd. unfold do_row.
    set (nm := Z.min (width - 1) _).
    assert (E : forall s', roof (row_loop wc sty width (Z.to_nat (nm + 1)) y 0 nm (get_row (sdata scr) y)
                                         (get_row (sdata prev) y) (get_zrow (szwe scr) y) s') = roof s').
    { intro s'. apply row_loop_fuel; [apply get_row_ok; exact Hd | lia]. }
    destruct (nm <? _); [|apply E].
    unfold vt_erase_eol, reset_attributes, vt_reset_attributes. cbn [raw emit set_last roof].
    rewrite roof_move_cursor. apply E.
  Qed.

  Lemma roof_output_screen_diff scr ri s0 : data_ok (sdata scr) ->
    roof (output_screen_diff wc sty width scr ri s0) = roof s0.
  Proof.
    intro Hd. unfold output_screen_diff.
    assert (Ereset : forall s, roof (reset_attributes s) = roof s) by reflexivity.
    assert (Ehide : forall s, roof (vt_hide_cursor s) = roof s) by (intro s; unfold vt_hide_cursor; roof_tac).
    assert (Eshow : forall s, roof (vt_show_cursor s) = roof s) by (intro s; unfold vt_show_cursor; roof_tac).
    assert (Efold : forall l s, roof (fold_left (do_row wc sty width scr
               (if ri_done ri || match ri_prev ri with None => true | Some _ => false end || negb (ri_prev_width ri =? width)
                then blank_screen else match ri_prev ri with Some p => p | None => blank_screen end)) l s) = roof s).
    { induction l as [|b r IH]; intro s; [reflexivity|]. cbn [fold_left]. rewrite IH. apply roof_do_row. exact Hd. }
    repeat match goal with
           | |- roof (if ?b then _ else _) = _ => destruct b
           | |- roof (vt_show_cursor _) = _ => rewrite Eshow
           | |- roof (reset_attributes _) = _ => rewrite Ereset
           | |- roof (vt_enable_autowrap _) = _ => change (roof (vt_enable_autowrap ?s)) with (roof s)
           | |- roof (vt_disable_autowrap _) = _ => change (roof (vt_disable_autowrap ?s)) with (roof s)
           | |- roof (vt_erase_down _) = _ => change (roof (vt_erase_down ?s)) with (roof s)
           | |- roof (move_cursor _ _ _ _) = _ => rewrite roof_move_cursor
           | |- roof (fold_left _ _ _) = _ => rewrite Efold
           | |- roof (vt_hide_cursor _) = _ => rewrite Ehide
           end; reflexivity.
  Qed.
End Fuel.

(* ------------------------------------------------------------ the whole pipeline *)

Lemma zwe_texts_ok M s : zwe_ok M (szwe s) -> forall t, In t (zwe_texts s) -> concat_of M t.
Proof.
  intros H t Ht. unfold zwe_texts in Ht. apply in_flat_map in Ht. destruct Ht as ([y r] & Hr & Ht).
  cbn [snd] in Ht. apply in_map_iff in Ht. destruct Ht as ([x t'] & E & Hx). cbn [snd] in E. subst t'.
  unfold zwe_ok in H. rewrite Forall_forall in H. specialize (H _ Hr). cbn [snd] in H.
  unfold zrow_ok in H. rewrite Forall_forall in H. exact (H _ Hx).
Qed.

(* lines -> _copy_body -> (append_style_to_content) -> _output_screen_diff *)
Definition rendered_screen wc g pfx lines (app : option (list Z)) : screen :=
  let scr0 := copy_body wc g pfx lines blank_screen in
  match app with Some a => append_style wc a scr0 | None => scr0 end.
Definition rendered_state wc sty g pfx lines app width ri x y last vis : rstate :=
  output_screen_diff wc sty width (rendered_screen wc g pfx lines app) ri (mkrs x y last vis [] false).
Definition rendered_tokens wc sty g pfx lines app width ri x y last vis : list token :=
  rev (rout (rendered_state wc sty g pfx lines app width ri x y last vis)).

Lemma rendered_screen_ok wc g M pfx lines app :
  wc_ascii wc -> pfx_marked M pfx -> (forall l, In l lines -> frags_marked M l) ->
  screen_ok M (rendered_screen wc g pfx lines app).
Proof.
  intros Hw Hp Hl. unfold rendered_screen.
  pose proof (copy_body_ok wc g M Hw pfx lines blank_screen Hp Hl (blank_screen_ok M)) as H.
  destruct app; [apply append_style_ok|]; exact H.
Qed.

Theorem pipeline_tokens_ok wc sty g M pfx lines app width ri x y last vis :
  wc_ascii wc -> pfx_marked M pfx -> (forall l, In l lines -> frags_marked M l) ->
  Forall (tok_ok sty (zwe_texts (rendered_screen wc g pfx lines app)))
         (rendered_tokens wc sty g pfx lines app width ri x y last vis).
Proof.
  intros Hw Hp Hl. unfold rendered_tokens, rendered_state. apply Forall_rev.
  destruct (rendered_screen_ok wc g M pfx lines app Hw Hp Hl) as [Hd _].
  apply output_screen_diff_ok; [exact Hd | apply incl_refl | constructor].
Qed.

Theorem pipeline_no_oof wc sty g M pfx lines app width ri x y last vis :
  wc_ascii wc -> pfx_marked M pfx -> (forall l, In l lines -> frags_marked M l) ->
  roof (rendered_state wc sty g pfx lines app width ri x y last vis) = false.
Proof.
  intros Hw Hp Hl. unfold rendered_state.
  destruct (rendered_screen_ok wc g M pfx lines app Hw Hp Hl) as [Hd _].
  rewrite roof_output_screen_diff; [reflexivity | exact Hd].
Qed.

Theorem pipeline_stream wc sty g M pfx lines app width ri x y last vis :
  wc_ascii wc -> pfx_marked M pfx -> (forall l, In l lines -> frags_marked M l) ->
  forall o c, In (o, c) (tagged_stream (rendered_tokens wc sty g pfx lines app width ri x y last vis)) ->
  is_control c = true -> o = FromRenderer \/ o = FromZWE.
Proof.
  intros Hw Hp Hl. eapply tagged_stream_control. eapply pipeline_tokens_ok; eassumption.
Qed.

(* a raw pass-through token carries only text that was marked *)
Theorem pipeline_zwe_marked wc sty g M pfx lines app width ri x y last vis :
  wc_ascii wc -> pfx_marked M pfx -> (forall l, In l lines -> frags_marked M l) ->
  forall t, In t (rendered_tokens wc sty g pfx lines app width ri x y last vis) ->
  (torigin t = FromZWE -> tkind t = KRaw /\ concat_of M (ttext t)) /\
  (torigin t = FromCell -> tkind t = KWrite /\ control_free (ttext t) = true) /\
  (tkind t = KRaw -> torigin t <> FromCell).
Proof.
  intros Hw Hp Hl t Ht.
  pose proof (pipeline_tokens_ok wc sty g M pfx lines app width ri x y last vis Hw Hp Hl) as H.
  rewrite Forall_forall in H. specialize (H t Ht). unfold tok_ok in H.
  destruct (rendered_screen_ok wc g M pfx lines app Hw Hp Hl) as [_ Hz].
  destruct (torigin t) eqn:E.
  - split; [discriminate|]. split; [intros _; exact H|].
    intros Hk _. destruct H as [H _]. congruence.
  - split; [discriminate|]. split; [discriminate|]. intros _; discriminate.
  - split; [|split; [discriminate | intros _; discriminate]].
    intros _. destruct H as [Hk H]. split; [exact Hk|]. apply (zwe_texts_ok M _ Hz). exact H.
Qed.

Lemma wc_ascii_example : wc_ascii (fun _ => 1).
Proof. intros c _. reflexivity. Qed.
