(* C10, round 6: finite facts over the tables the generator's AST scans regenerate on every run
   (gen/gen_t_c10.py): the text argument of every screen-cell store, and every write_raw call of
   output/vt100.py Vt100_Output. *)
From Coq Require Import ZArith List Bool Lia.
From PTK Require Import Lib.Sx Lib.Py Gen.C10_DisplayMappings Model.C10_Screen Proofs.C10_TableFacts.
Import ListNotations.
Open Scope Z_scope.

(* ------------------------------------------------------------ screen-cell text arguments *)

(* the Coq twin of REVIEWED_BY_HAND: an expression admitted there must be admitted here as well *)
Definition reviewed_exprs : list (list Z) :=
  [[99; 104; 97; 114; 32; 111; 114; 32; 39; 32; 39];
   [100; 105; 103; 114; 97; 112; 104; 95; 99; 104; 97; 114];
   [100; 97; 116; 97];
   [115; 101; 108; 102; 46; 117; 112; 95; 97; 114; 114; 111; 119; 95; 115; 121; 109; 98; 111; 108];
   [115; 101; 108; 102; 46; 100; 111; 119; 110; 95; 97; 114; 114; 111; 119; 95; 115; 121; 109; 98; 111; 108]].

Definition cell_site_ok (s : Z * list Z) : bool :=
  let c := fst s in
  if c =? 0 then control_free (snd s)
  else if (c =? 1) || (c =? 2) || (c =? 3) then true
  else if c =? 4 then existsb (str_eqb (snd s)) reviewed_exprs
  else false.

Lemma cell_text_sites_checked : forallb cell_site_ok cell_text_sites = true.
Proof. vm_compute. reflexivity. Qed.

Lemma cell_text_sites_reviewed_count :
  len (filter (fun s : Z * list Z => fst s =? 4) cell_text_sites) = text_args_reviewed_by_hand.
Proof. vm_compute. reflexivity. Qed.

Lemma str_eqb_eq : forall a b, str_eqb a b = true -> a = b.
Proof.
  induction a as [|x a IH]; destruct b as [|y b]; cbn [str_eqb]; intro H; try discriminate; [reflexivity|].
  apply andb_true_iff in H. destruct H as [H1 H2]. apply Z.eqb_eq in H1. subst y. rewrite (IH _ H2). reflexivity.
Qed.

(* every text that the source stores into a screen cell is a control-free literal, one element of
   an iterated fragment text (C10_cell_clean), the guarded zero-width merge (C10_merge_clean), the
   text of an existing cell (C10_rewrap_stable), or one of the five reviewed application/key-data
   expressions *)
Theorem cell_text_sites_classified : forall c t, In (c, t) cell_text_sites ->
  (c = 0 /\ control_free t = true) \/ c = 1 \/ c = 2 \/ c = 3 \/ (c = 4 /\ In t reviewed_exprs).
Proof.
  intros c t Hin. pose proof cell_text_sites_checked as H. rewrite forallb_forall in H. specialize (H _ Hin).
  unfold cell_site_ok in H. cbn [fst snd] in H.
  destruct (c =? 0) eqn:E0; [apply Z.eqb_eq in E0; left; split; assumption|].
  destruct (c =? 1) eqn:E1; [apply Z.eqb_eq in E1; right; left; exact E1|].
  destruct (c =? 2) eqn:E2; [apply Z.eqb_eq in E2; right; right; left; exact E2|].
  destruct (c =? 3) eqn:E3; [apply Z.eqb_eq in E3; right; right; right; left; exact E3|].
  cbn [orb] in H. destruct (c =? 4) eqn:E4; [|discriminate]. apply Z.eqb_eq in E4.
  right; right; right; right. split; [exact E4|].
  apply existsb_exists in H. destruct H as (e & He & Hs). apply str_eqb_eq in Hs. subst e. exact He.
Qed.

(* ------------------------------------------------------------ Vt100_Output's own sequences *)

(* after ESC [ : parameter / intermediate bytes 0x20-0x3F, then one final byte 0x40-0x7E *)
Fixpoint csi_rest (s : list Z) : option (list Z) :=
  match s with
  | [] => None
  | c :: r => if (32 <=? c) && (c <=? 63) then csi_rest r
              else if (64 <=? c) && (c <=? 126) then Some r else None
  end.
(* a concatenation of CSI sequences, BS and BEL *)
Fixpoint seqs_ok (fuel : nat) (s : list Z) : bool :=
  match fuel with
  | O => match s with [] => true | _ => false end
  | S k =>
      match s with
      | [] => true
      | 27 :: 91 :: r => match csi_rest r with Some r' => seqs_ok k r' | None => false end
      | c :: r => ((c =? 8) || (c =? 7)) && seqs_ok k r
      end
  end.
(* "%i" % n *)
Fixpoint subst_i (fmt d : list Z) : list Z :=
  match fmt with
  | 37 :: 105 :: r => d ++ subst_i r d
  | c :: r => c :: subst_i r d
  | [] => []
  end.
Definition TITLE_FMT : list Z := [27; 93; 50; 59; 123; 125; 7].
Definition vt_site_ok (s : list Z * Z * list Z) : bool :=
  let k := snd (fst s) in
  let t := snd s in
  if k =? 0 then seqs_ok (length t) t
  else if k =? 1 then seqs_ok (length t) (subst_i t [55])
  else if k =? 2 then true
  else if k =? 4 then str_eqb t TITLE_FMT
  else false.

(* every literal / format that Vt100_Output sends by itself is a run of well-formed CSI sequences,
   BS or BEL; the SGR cache (kind 2, C19) and set_title's sanitised title (kind 4, application
   data) are the only other raw writes of the class *)
Lemma vt100_raw_sites_checked : forallb vt_site_ok vt100_raw_sites = true.
Proof. vm_compute. reflexivity. Qed.

(* the constants of Model/C10_Screen.v's Vt100_Output primitives, by method *)
Definition model_vt_literals : list (list Z * Z * list Z) :=
  [([114; 101; 115; 101; 116; 95; 97; 116; 116; 114; 105; 98; 117; 116; 101; 115], 0, [27; 91; 48; 109]);
   ([101; 114; 97; 115; 101; 95; 100; 111; 119; 110], 0, [27; 91; 74]);
   ([101; 114; 97; 115; 101; 95; 101; 110; 100; 95; 111; 102; 95; 108; 105; 110; 101], 0, [27; 91; 75]);
   ([100; 105; 115; 97; 98; 108; 101; 95; 97; 117; 116; 111; 119; 114; 97; 112], 0, [27; 91; 63; 55; 108]);
   ([101; 110; 97; 98; 108; 101; 95; 97; 117; 116; 111; 119; 114; 97; 112], 0, [27; 91; 63; 55; 104]);
   ([99; 117; 114; 115; 111; 114; 95; 117; 112], 0, [27; 91; 65]);
   ([99; 117; 114; 115; 111; 114; 95; 117; 112], 1, [27; 91; 37; 105; 65]);
   ([99; 117; 114; 115; 111; 114; 95; 102; 111; 114; 119; 97; 114; 100], 0, [27; 91; 67]);
   ([99; 117; 114; 115; 111; 114; 95; 102; 111; 114; 119; 97; 114; 100], 1, [27; 91; 37; 105; 67]);
   ([99; 117; 114; 115; 111; 114; 95; 98; 97; 99; 107; 119; 97; 114; 100], 0, [8]);
   ([99; 117; 114; 115; 111; 114; 95; 98; 97; 99; 107; 119; 97; 114; 100], 1, [27; 91; 37; 105; 68]);
   ([104; 105; 100; 101; 95; 99; 117; 114; 115; 111; 114], 0, [27; 91; 63; 50; 53; 108]);
   ([115; 104; 111; 119; 95; 99; 117; 114; 115; 111; 114], 0, [27; 91; 63; 49; 50; 108; 27; 91; 63; 50; 53; 104])].

Definition site_eqb (a b : list Z * Z * list Z) : bool :=
  str_eqb (fst (fst a)) (fst (fst b)) && (snd (fst a) =? snd (fst b)) && str_eqb (snd a) (snd b).

(* ... are the ones the source has on this run *)
Lemma vt_model_tied : forallb (fun m => existsb (site_eqb m) vt100_raw_sites) model_vt_literals = true.
Proof. vm_compute. reflexivity. Qed.

Definition lit (i : nat) : list Z := snd (nth i model_vt_literals ([], 0, [])).

Lemma vt_model_uses_literals :
  (forall s, vt_reset_attributes s = raw (lit 0) s) /\
  (forall s, vt_erase_down s = raw (lit 1) s) /\
  (forall s, vt_erase_eol s = raw (lit 2) s) /\
  (forall s, vt_disable_autowrap s = raw (lit 3) s) /\
  (forall s, vt_enable_autowrap s = raw (lit 4) s) /\
  (forall n s, vt_cursor_up n s = if n =? 0 then s else if n =? 1 then raw (lit 5) s else raw (subst_i (lit 6) (dec n)) s) /\
  (forall n s, vt_cursor_forward n s = if n =? 0 then s else if n =? 1 then raw (lit 7) s else raw (subst_i (lit 8) (dec n)) s) /\
  (forall n s, vt_cursor_backward n s = if n =? 0 then s else if n =? 1 then raw (lit 9) s else raw (subst_i (lit 10) (dec n)) s) /\
  (forall s, vt_hide_cursor s = match rvis s with Some false => s | _ => set_vis (Some false) (raw (lit 11) s) end) /\
  (forall s, vt_show_cursor s = match rvis s with Some true => s | _ => set_vis (Some true) (raw (lit 12) s) end).
Proof.
  repeat split; intros; try reflexivity;
    unfold vt_cursor_up, vt_cursor_forward, vt_cursor_backward, vt_cursor; destruct (n =? 0); try reflexivity;
    destruct (n =? 1); reflexivity.
Qed.

Theorem vt100_raw_sites_classified : forall m k t, In (m, k, t) vt100_raw_sites ->
  (k = 0 /\ seqs_ok (length t) t = true) \/ (k = 1 /\ seqs_ok (length t) (subst_i t [55]) = true) \/
  k = 2 \/ (k = 4 /\ t = TITLE_FMT).
Proof.
  intros m k t Hin. pose proof vt100_raw_sites_checked as H. rewrite forallb_forall in H. specialize (H _ Hin).
  unfold vt_site_ok in H. cbn [fst snd] in H.
  destruct (k =? 0) eqn:E0; [apply Z.eqb_eq in E0; left; split; assumption|].
  destruct (k =? 1) eqn:E1; [apply Z.eqb_eq in E1; right; left; split; assumption|].
  destruct (k =? 2) eqn:E2; [apply Z.eqb_eq in E2; right; right; left; exact E2|].
  destruct (k =? 4) eqn:E4; [|discriminate]. apply Z.eqb_eq in E4. right; right; right. split; [exact E4|].
  apply str_eqb_eq. exact H.
Qed.

Lemma vt_model_tied_summary :
  forallb (fun m => existsb (site_eqb m) vt100_raw_sites) model_vt_literals = true /\
  (forall s, vt_reset_attributes s = raw (lit 0) s) /\
  (forall n s, vt_cursor_up n s = if n =? 0 then s else if n =? 1 then raw (lit 5) s else raw (subst_i (lit 6) (dec n)) s) /\
  (forall n s, vt_cursor_backward n s = if n =? 0 then s else if n =? 1 then raw (lit 9) s else raw (subst_i (lit 10) (dec n)) s).
Proof.
  exact (conj vt_model_tied (conj (proj1 vt_model_uses_literals)
    (conj (proj1 (proj2 (proj2 (proj2 (proj2 (proj2 vt_model_uses_literals))))))
          (proj1 (proj2 (proj2 (proj2 (proj2 (proj2 (proj2 (proj2 vt_model_uses_literals))))))))))).
Qed.
