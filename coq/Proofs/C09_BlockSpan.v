(* C09 round 6 - the span of a BLOCK selection (visual C-v): Document.cut_selection
   returns, joined by the separator, for every row between the two corners that
   reaches the left column, exactly line[left : right] (right column included in
   Vi mode), type BLOCK. *)
From Coq Require Import ZArith List Bool Lia PeanoNat.
From PTK Require Import Lib.Sx Lib.Py Model.Document Model.BufferEdit Proofs.BufferEditFacts
  Proofs.C02_Base Proofs.C02_Coords
  Model.C09_Kill Proofs.C09_KillFacts Proofs.C09_CutFacts Proofs.C09_BlockAccept.
Import ListNotations.
Open Scope Z_scope.

Lemma offs_nonneg ls : forall n, 0 <= offs ls n.
Proof.
  induction ls as [|l r IH]; intros [|n]; cbn [offs]; try lia.
  pose proof (IH n). pose proof (len_nonneg l). lia.
Qed.

(* row n of join [NL] ls starts at offset offs ls n *)
Lemma join_row ls : forall n,
  (n < length ls)%nat ->
  firstn (length (nth n ls [])) (skipn (Z.to_nat (offs ls n)) (join [NL] ls)) = nth n ls [].
Proof.
  induction ls as [|l r IH]; intros [|n] H; cbn [length] in H; try lia.
  - cbn [offs nth Z.to_nat skipn]. destruct r as [|b r].
    + cbn [join]. apply firstn_all.
    + rewrite join_cons_ne by discriminate. rewrite firstn_app, Nat.sub_diag, firstn_all. cbn [firstn].
      apply app_nil_r.
  - assert (Hr : r <> []) by (destruct r; [cbn [length] in H; lia|discriminate]).
    rewrite join_cons_ne by exact Hr. cbn [offs nth].
    pose proof (offs_nonneg r n) as Ho. pose proof (len_nonneg l) as Hl.
    replace (Z.to_nat (len l + 1 + offs r n)) with (length l + S (Z.to_nat (offs r n)))%nat
      by (unfold len in *; lia).
    rewrite skipn_app, skipn_all2 by lia.
    replace (length l + S (Z.to_nat (offs r n)) - length l)%nat with (S (Z.to_nat (offs r n))) by lia.
    cbn [app skipn]. apply IH. lia.
Qed.

(* a slice of the text inside one row is the slice of that row *)
Lemma slice_in_row ls n a e :
  (n < length ls)%nat -> 0 <= a <= e -> e <= len (nth n ls []) ->
  slice2 (join [NL] ls) (offs ls n + a) (offs ls n + e) =
  firstn (Z.to_nat (e - a)) (skipn (Z.to_nat a) (nth n ls [])).
Proof.
  intros Hn Ha He.
  pose proof (offs_nonneg ls n) as Ho. pose proof (join_len_ge ls n Hn) as Hg.
  rewrite slice2_in_range by (unfold str in *; lia).
  replace (offs ls n + e - (offs ls n + a)) with (e - a) by lia.
  replace (Z.to_nat (offs ls n + a)) with (Z.to_nat (offs ls n) + Z.to_nat a)%nat by lia.
  rewrite <- skipn_skipn'.
  pose proof (join_row ls n Hn) as Hj.
  set (X := skipn (Z.to_nat (offs ls n)) (join [NL] ls)) in *.
  set (line := nth n ls []) in *.
  rewrite <- Hj.
  rewrite skipn_firstn_comm, firstn_firstn.
  f_equal. unfold len in He. lia.
Qed.

Lemma cut_loop_parts t rs : forall lt nc rem parts,
  snd (cut_loop t rs lt nc rem parts) = parts ++ map (fun p => slice2 t (fst p) (snd p)) rs.
Proof.
  induction rs as [|[f to] rs IH]; intros lt nc rem parts; cbn [cut_loop map].
  - now rewrite app_nil_r.
  - rewrite IH. cbn [fst snd]. now rewrite <- app_assoc.
Qed.

Lemma range_from_in a k l : In l (range_from a k) -> a <= l < a + Z.of_nat k.
Proof.
  revert a; induction k as [|k IH]; intros a H; cbn [range_from In] in H; [contradiction|].
  destruct H as [<-|H]; [lia|]. apply IH in H. lia.
Qed.

Lemma line_at_nth d l : 0 <= l < line_count d -> line_at d l = nth (Z.to_nat l) (lines d) [].
Proof. intros H. unfold line_at. now rewrite (c02_index_nth (lines d) l []) by exact H. Qed.

(* a slice of the text inside row l, given by (row, column) coordinates *)
Lemma row_slice d l a e :
  0 <= l < line_count d -> 0 <= a <= e -> e <= len (nth (Z.to_nat l) (lines d) []) ->
  slice2 (dtext d) (translate_row_col_to_index d l a) (translate_row_col_to_index d l e) =
  firstn (Z.to_nat (e - a)) (skipn (Z.to_nat a) (nth (Z.to_nat l) (lines d) [])).
Proof.
  intros Hl Ha He.
  assert (Hn : (Z.to_nat l < length (lines d))%nat) by (unfold line_count, len in Hl; lia).
  rewrite !C02c_row_col_to_index_valid by (try exact Hl; unfold str in *; lia).
  rewrite starts_nth by exact Hn. rewrite Z.add_0_l.
  rewrite <- (join_lines d). apply slice_in_row; [exact Hn|exact Ha|exact He].
Qed.

(* the data of a BLOCK selection *)
Lemma block_cut_data t cur orig (vi : bool) :
  0 <= cur <= len t -> 0 <= orig <= len t ->
  let d := mkdoc t cur in
  let p1 := translate_index_to_position d (Z.min cur orig) in
  let p2 := translate_index_to_position d (Z.max cur orig) in
  let fc := Z.min (snd p1) (snd p2) in
  let tc := Z.max (snd p1) (snd p2) + (if vi then 1 else 0) in
  snd (doc_cut_selection d (orig, BLOCK) vi) =
  mkclip (join [NL]
            (flat_map (fun l => if fc <=? len (line_at d l) then [slice2 (line_at d l) fc tc] else [])
                      (range_from (fst p1) (Z.to_nat (fst p2 + 1 - fst p1)))))
         BLOCK.
Proof.
  intros Hc Ho d p1 p2 fc tc.
  assert (H1 : 0 <= Z.min cur orig <= len (dtext d)) by (cbn [d dtext]; lia).
  assert (H2 : 0 <= Z.max cur orig <= len (dtext d)) by (cbn [d dtext]; lia).
  destruct (translate_index_to_position d (Z.min cur orig)) as [r1 c1] eqn:E1.
  destruct (translate_index_to_position d (Z.max cur orig)) as [r2 c2] eqn:E2.
  destruct (C02c_index_to_position_spec d _ r1 c1 H1 E1) as (_ & C1 & _ & _ & R1 & _).
  destruct (C02c_index_to_position_spec d _ r2 c2 H2 E2) as (_ & C2 & _ & _ & R2 & _).
  cbn [fst snd] in *. subst p1 p2. cbn [fst snd] in fc, tc |- *.
  unfold doc_cut_selection, selection_ranges. cbn [d dcur dtext]. fold d.
  change (BLOCK =? BLOCK) with true. cbv iota. rewrite E1, E2.
  fold fc. replace (Z.max c1 c2 + (if vi then 1 else 0)) with tc by reflexivity.
  set (rows := range_from r1 (Z.to_nat (r2 + 1 - r1))).
  set (f := fun l : Z => let ll := len (line_at d l) in
              if fc <=? ll then [(translate_row_col_to_index d l fc, translate_row_col_to_index d l (Z.min ll tc))]
              else []).
  pose proof (cut_loop_parts t (flat_map f rows) 0 cur [] []) as Hp.
  destruct (cut_loop t (flat_map f rows) 0 cur [] []) as [[[lt nc] rem] parts]. cbn [snd] in Hp.
  cbn [fst snd]. change (BLOCK =? LINES) with false. cbn [andb]. f_equal.
  rewrite Hp. cbn [app]. f_equal.
  assert (Hrows : forall l, In l rows -> 0 <= l < line_count d).
  { intros l Hl. apply range_from_in in Hl. lia. }
  clearbody rows. clear Hp.
  induction rows as [|l rows IH]; [reflexivity|].
  cbn [flat_map]. rewrite map_app. rewrite IH by (intros x Hx; apply Hrows; now right). f_equal.
  assert (Hl : 0 <= l < line_count d) by (apply Hrows; now left).
  unfold f. cbv zeta. rewrite (line_at_nth d l Hl).
  set (line := nth (Z.to_nat l) (lines d) []).
  destruct (fc <=? len line) eqn:Ef; [|reflexivity].
  cbn [map fst snd]. f_equal.
  assert (Hfc : 0 <= fc) by (unfold fc; lia).
  assert (Htc : fc <= tc) by (unfold fc, tc; destruct vi; lia).
  change (slice2 t) with (slice2 (dtext d)).
  rewrite (row_slice d l fc (Z.min (len line) tc) Hl) by (fold line; lia).
  fold line. rewrite slice2_clamped by lia. f_equal. f_equal. lia.
Qed.
