(* C08 - the count bookkeeping of a Vi session (Model/C08_Session.v) and the
   patched variant of the operator wrapper. *)
From Coq Require Import ZArith List Bool Lia.
From PTK Require Import Lib.Sx Lib.Py Model.Document Model.BufferEdit Model.C02_DocQueries
  Model.C08_ViOps Model.C08_TextObjects Model.C08_Session Proofs.C08_ViFacts Proofs.C08_Failed.
Import ListNotations.
Open Scope Z_scope.

(* the number typed by a digit sequence, continuing from an optional count *)
Fixpoint typed (a : option Z) (ds : list Z) : option Z :=
  match ds with
  | [] => a
  | d :: r => typed (Some (match a with Some v => 10 * v + d | None => d end)) r
  end.

(* a digit sequence that is a count: it does not start with 0 unless a count
   is already being typed *)
Definition is_count (a : option Z) (ds : list Z) : Prop :=
  match a, ds with None, d :: _ => d <> 0 | _, _ => True end.

Definition with_arg (s : kst) (a : option Z) : kst :=
  mkks (ks_vst s) a (ks_oparg s) (ks_op s) (ks_last s) (ks_find s).

Lemma with_arg_same s : with_arg s (ks_arg s) = s.
Proof. destruct s; reflexivity. Qed.

(* a navigation-mode cursor: not after the last character of a non-empty line *)
Definition nav_cursor (b : buf) : Prop := fix_vi_cursor b = b.

(* the state the digit handlers leave the buffer in: untouched while an
   operator is pending; in navigation mode the cursor fix-up runs, which is
   the identity on a navigation cursor *)
Definition digits_ok (s : kst) : Prop := ks_op s <> None \/ nav_cursor (vbuf (ks_vst s)).

Lemma digit_buf_same s :
  digits_ok s ->
  match ks_op s with None => with_buf (ks_vst s) (fix_vi_cursor (vbuf (ks_vst s))) | Some _ => ks_vst s end
  = ks_vst s.
Proof.
  intros [H|H]; destruct (ks_op s); try reflexivity; [contradiction|].
  rewrite H. destruct (ks_vst s); reflexivity.
Qed.

(* digits only extend key_processor.arg *)
Lemma run_digits p ds : forall s rest,
  is_count (ks_arg s) ds -> vins (ks_vst s) = false -> digits_ok s ->
  run_keys_gen p s (map KD ds ++ rest) = run_keys_gen p (with_arg s (typed (ks_arg s) ds)) rest.
Proof.
  induction ds as [|d ds IH]; intros s rest Hc Hi Hok.
  - cbn [map app typed]. rewrite with_arg_same. reflexivity.
  - cbn [map app run_keys_gen]. unfold key_step_gen at 1. cbv zeta.
    rewrite (digit_buf_same s Hok).
    destruct (ks_arg s) as [a|] eqn:Ea.
    + cbn [fst snd ks_vst]. change (0 =? 0) with true. rewrite Hi. cbn [negb andb].
      rewrite IH by (cbn [ks_arg ks_vst ks_op is_count digits_ok]; first [exact I | exact Hi | exact Hok]).
      cbn [ks_arg typed with_arg ks_vst ks_oparg ks_op ks_last ks_find]. reflexivity.
    + cbn [is_count] in Hc. destruct (d =? 0) eqn:Ed; [lia|].
      cbn [fst snd ks_vst]. change (0 =? 0) with true. rewrite Hi. cbn [negb andb].
      rewrite IH by (cbn [ks_arg ks_vst ks_op is_count digits_ok]; first [exact I | exact Hi | exact Hok]).
      cbn [ks_arg typed with_arg ks_vst ks_oparg ks_op ks_last ks_find]. reflexivity.
Qed.

(* nothing pending any more; the cursor fix-up of navigation mode has run
   (KeyProcessor._fix_vi_cursor_position runs after every handler) *)
Definition cleared (s : kst) : kst :=
  mkks (with_buf (ks_vst s) (fix_vi_cursor (vbuf (ks_vst s)))) None None None (ks_last s) (ks_find s).

Lemma cleared_nav s :
  nav_cursor (vbuf (ks_vst s)) -> cleared s = mkks (ks_vst s) None None None (ks_last s) (ks_find s).
Proof.
  intros H. unfold cleared. rewrite H. destruct s as [[b c r i] a oa op l f]. reflexivity.
Qed.

(* the only thing a cancelled f F t T leaves behind: the stored search *)
Definition with_find (s : kst) (f : option (Z * bool)) : kst :=
  mkks (ks_vst s) (ks_arg s) (ks_oparg s) (ks_op s) (ks_last s) f.

Lemma with_find_same s : with_find s (ks_find s) = s.
Proof. destruct s; reflexivity. Qed.

(* <count> operator <count> Esc: nothing happens to the buffer and registers,
   and NO count or operator survives it (whatever was typed before), so the
   keys that follow behave as if the cancelled command had not been typed *)
Lemma cancelled_operator p s ds1 k keys ds2 rest :
  ks_op s = None -> vins (ks_vst s) = false -> nav_cursor (vbuf (ks_vst s)) ->
  is_count (ks_arg s) ds1 -> is_count None ds2 ->
  run_keys_gen p s (map KD ds1 ++ KO k keys :: map KD ds2 ++ KE :: rest) =
  run_keys_gen p (cleared s) rest.
Proof.
  intros Hop Hi Hnav H1 H2.
  rewrite run_digits by (try assumption; right; exact Hnav).
  cbn [run_keys_gen]. unfold key_step_gen at 1. cbn [with_arg ks_op ks_vst ks_arg ks_oparg ks_last].
  rewrite Hop. cbn [fst snd ks_vst]. change (0 =? 0) with true. rewrite Hi. cbn [negb andb].
  rewrite run_digits by (cbn [ks_arg ks_vst ks_op]; try assumption; left; discriminate).
  cbn [run_keys_gen]. unfold key_step_gen at 1. cbn [with_arg ks_vst ks_last with_buf vins].
  change (0 =? 0) with true. rewrite Hi. cbn [negb andb]. reflexivity.
Qed.

(* a completed operator command clears the bookkeeping as well *)
Lemma applied_operator_clears p s m status s' :
  ks_op s <> None -> key_step_gen p s (KM m) = (status, s') -> status <> 1 ->
  ks_arg s' = None /\ ks_oparg s' = None /\ ks_op s' = None.
Proof.
  intros Hop H Hs. unfold key_step_gen in H.
  destruct (ks_op s) as [[k keys]|]; [|contradiction].
  destruct (text_object _ _ _ _) as [o failed|].
  - destruct (p && cancelled o failed).
    + injection H as _ <-. repeat split.
    + destruct (run_op k (ks_vst s) o _) as [st0 st1]. injection H as _ <-. repeat split.
  - injection H as <- _. contradiction.
Qed.

(* the count the operator body and the text object see: product of the two
   typed counts, or 1 with "no count" when none was typed *)
Definition pending_count (oparg arg : option Z) : Z * bool :=
  let hc := is_some oparg || is_some arg in
  ((if hc then ev_arg (Some (or1 oparg * ev_arg arg)) else 1), hc).

(* an object that is neither failed nor empty goes to the operator body *)
Lemma operator_motion_step s k keys m o failed :
  ks_op s = Some (k, keys) ->
  let '(n, hc) := pending_count (ks_oparg s) (ks_arg s) in
  text_object (resolve_tok (ks_find s) m) (bdoc (vbuf (ks_vst s))) n hc = TO o failed ->
  cancelled o failed = false ->
  key_step s (KM m) =
  (let '(status, st1) := run_op k (ks_vst s) o (mkev n keys) in
   (status, mkks (if (status =? 0) && negb (vins st1) then with_buf st1 (fix_vi_cursor (vbuf st1)) else st1)
                 None None None (Some (o, failed)) (upd_find (ks_find s) m))).
Proof.
  intros Hop. unfold pending_count. intros Ht Hc. unfold key_step, key_step_gen.
  rewrite Hop, Ht, Hc. cbn [andb]. reflexivity.
Qed.

(* ---------------------------------------------------------------------- *)
(* The wrapper (fix ced036e): a failed text object, or an exclusive object
   with equal ends, cancels ANY operator *)
Lemma wrapper_cancels s k keys m o failed :
  ks_op s = Some (k, keys) ->
  let '(n, hc) := pending_count (ks_oparg s) (ks_arg s) in
  text_object (resolve_tok (ks_find s) m) (bdoc (vbuf (ks_vst s))) n hc = TO o failed ->
  cancelled o failed = true ->
  key_step s (KM m) = (0, with_find (cleared s) (upd_find (ks_find s) m)).
Proof.
  intros Hop. unfold pending_count. intros Ht Hc. unfold key_step, key_step_gen.
  rewrite Hop, Ht, Hc. reflexivity.
Qed.

Lemma failed_is_cancelled o : cancelled o true = true.
Proof. reflexivity. Qed.

(* the fix changed nothing for an object that is neither failed nor empty *)
Lemma wrapper_same_as_pinned s k keys m o failed :
  ks_op s = Some (k, keys) ->
  let '(n, hc) := pending_count (ks_oparg s) (ks_arg s) in
  text_object (resolve_tok (ks_find s) m) (bdoc (vbuf (ks_vst s))) n hc = TO o failed ->
  cancelled o failed = false ->
  key_step s (KM m) = key_step_pinned s (KM m).
Proof.
  intros Hop. unfold pending_count. intros Ht Hc. unfold key_step, key_step_pinned, key_step_gen.
  rewrite Hop, Ht, Hc. reflexivity.
Qed.

(* the wrapper of the commit before ced036e applied the operator to failed
   inclusive / linewise defaults and ran the line operators on any failed
   motion: 'ab' cursor 1 de, 'ab' dj, 'abc def' cursor 4 >Fx *)
Definition pend (text : str) (cur : Z) (k : opk) (keys : list Z) : kst :=
  mkks (mkvst (mkbuf text cur) None None false) None None (Some (k, keys)) None None.

Lemma failed_motion_pinned_not_noop :
  (text_object (T_e false) (mkdoc [97; 98] 1) 1 false = TO (mkto 0 0 INCL) true /\
   btext (vbuf (ks_vst (snd (key_step_pinned (pend [97; 98] 1 (OpDelete true false) [100]) (KM (T_e false)))))) = [97]) /\
  (text_object T_j (mkdoc [97; 98] 0) 1 false = TO (mkto 0 0 LINEW) true /\
   btext (vbuf (ks_vst (snd (key_step_pinned (pend [97; 98] 0 (OpDelete true false) [100]) (KM T_j))))) = []) /\
  (text_object (T_F 120) (mkdoc [97; 98; 99; 32; 100; 101; 102] 4) 1 false = TO (mk1 0) true /\
   btext (vbuf (ks_vst (snd (key_step_pinned (pend [97; 98; 99; 32; 100; 101; 102] 4 OpIndent [62]) (KM (T_F 120))))))
   = [32; 32; 32; 32; 97; 98; 99; 32; 100; 101; 102]).
Proof. vm_compute. repeat split. Qed.

(* the wrapper's decision in terms of what /repo tests: the ghost flag matters
   only for the text-object functions that return None on failure *)
Lemma cancelled_spec m d n hc o failed :
  text_object m d n hc = TO o failed ->
  cancelled o failed = (none_family m && failed) || (is_excl (ttype o) && (tstart o =? tend o)).
Proof.
  intros H. unfold cancelled. destruct failed.
  - destruct (failed_flag_sound m d n hc o H) as [Hn|[Ht He]].
    + rewrite Hn. reflexivity.
    + rewrite Ht, He, Z.eqb_refl. cbn [is_excl andb]. rewrite !orb_true_r. reflexivity.
  - rewrite andb_false_r. reflexivity.
Qed.
