(* C02 - find_boundaries_of_current_word / get_word_under_cursor
   (Model/C02_DocQueries.v): the returned span is exactly the maximal run of
   one non-blank class around the cursor ([is_run] of Proofs/C02_Words.v), and
   the include-whitespace variants only extend it over blanks of the same
   line.  (Proofs/C02_Lines.v has "both ends stay on the current line".) *)
From Coq Require Import ZArith List Bool Lia.
From PTK Require Import Lib.Sx Lib.Py Gen.Whitespace Model.Document Model.C02_DocQueries Proofs.C02_Base Proofs.C02_Coords Proofs.C02_Words Proofs.C02_Lines.
Import ListNotations.
Open Scope Z_scope.

(* ---------------------------------------------------------------------- *)
(* S1: span_len is the length of the maximal prefix satisfying p *)

Lemma span_len_all p s (j : nat) :
  Z.of_nat j < span_len p s -> exists x, nth_error s j = Some x /\ p x = true.
Proof.
  revert j. induction s as [|c r IH]; intros j H; cbn [span_len] in H.
  - lia.
  - destruct (p c) eqn:E; [|lia].
    destruct j as [|j].
    + exists c. split; [reflexivity|exact E].
    + cbn [nth_error]. apply IH. lia.
Qed.

Lemma span_len_stop p s x :
  nth_error s (Z.to_nat (span_len p s)) = Some x -> p x = false.
Proof.
  induction s as [|c r IH]; cbn [span_len].
  - change (Z.to_nat 0) with 0%nat. cbn [nth_error]. discriminate.
  - destruct (p c) eqn:E.
    + pose proof (span_len_bounds p r) as Hb.
      replace (Z.to_nat (1 + span_len p r)) with (S (Z.to_nat (span_len p r))) by lia.
      cbn [nth_error]. exact IH.
    + change (Z.to_nat 0) with 0%nat. cbn [nth_error]. intros H.
      apply some_inj in H. subst x. exact E.
Qed.

Lemma span_len_head p c r : p c = true -> 1 <= span_len p (c :: r).
Proof.
  intros H. cbn [span_len]. rewrite H. pose proof (span_len_bounds p r). lia.
Qed.

(* the class-k scan *)
Lemma span_len_cls cls k s :
  k <> 0 ->
  (forall j, 0 <= j < span_len (fun x => cls x =? k) s -> clsat cls s j = k) /\
  clsat cls s (span_len (fun x => cls x =? k) s) <> k.
Proof.
  intros Hk. split.
  - intros j Hj.
    destruct (span_len_all (fun x => cls x =? k) s (Z.to_nat j)) as (x & Hx & Hp); [lia|].
    cbv beta in Hp. apply Z.eqb_eq in Hp.
    rewrite (clsat_some cls s j x); [exact Hp|lia|exact Hx].
  - pose proof (span_len_bounds (fun x => cls x =? k) s) as Hb.
    destruct (nth_error s (Z.to_nat (span_len (fun x => cls x =? k) s))) as [x|] eqn:E.
    + rewrite (clsat_some cls s _ x); [|lia|exact E].
      apply span_len_stop in E. cbv beta in E. apply Z.eqb_neq in E. exact E.
    + unfold clsat. rewrite E.
      destruct (span_len (fun x => cls x =? k) s <? 0) eqn:E0; intro HH; apply Hk; now symmetry.
Qed.

(* ---------------------------------------------------------------------- *)
(* S2: cur_word_end *)

Lemma cwe_unfold WORD ws c s' :
  cur_word_end WORD ws (c :: s') =
  if word_cls WORD c =? 0 then None
  else Some (if ws
             then span_len (fun x => word_cls WORD x =? word_cls WORD c) (c :: s') +
                  span_len re_space
                    (skipn (Z.to_nat (span_len (fun x => word_cls WORD x =? word_cls WORD c) (c :: s')))
                       (c :: s'))
             else span_len (fun x => word_cls WORD x =? word_cls WORD c) (c :: s')).
Proof. reflexivity. Qed.

Lemma cur_word_end_spec WORD s e :
  cur_word_end WORD false s = Some e ->
  1 <= e <= len s /\
  exists k, k <> 0 /\ (forall j, 0 <= j < e -> clsat (word_cls WORD) s j = k) /\
            clsat (word_cls WORD) s e <> k.
Proof.
  destruct s as [|c s']; [discriminate|]. rewrite cwe_unfold.
  destruct (word_cls WORD c =? 0) eqn:E0; [discriminate|].
  intros H. apply some_inj in H. rewrite <- H. clear H e.
  assert (Hk : word_cls WORD c <> 0) by lia.
  assert (Hh : 1 <= span_len (fun x => word_cls WORD x =? word_cls WORD c) (c :: s')).
  { apply span_len_head. apply Z.eqb_refl. }
  pose proof (span_len_bounds (fun x => word_cls WORD x =? word_cls WORD c) (c :: s')) as Hb.
  split; [lia|].
  exists (word_cls WORD c). split; [exact Hk|].
  exact (span_len_cls (word_cls WORD) (word_cls WORD c) (c :: s') Hk).
Qed.

Lemma cur_word_end_none WORD ws s :
  cur_word_end WORD ws s = None <-> clsat (word_cls WORD) s 0 = 0.
Proof.
  destruct s as [|c s'].
  - split; [intros _; reflexivity|intros _; reflexivity].
  - rewrite cwe_unfold. rewrite (clsat_some (word_cls WORD) (c :: s') 0 c); [|lia|reflexivity].
    destruct (word_cls WORD c =? 0) eqn:E0.
    + split; [intros _; lia|intros _; reflexivity].
    + split; [discriminate|intros H; lia].
Qed.

Lemma cur_word_end_some_iff WORD ws ws' s :
  cur_word_end WORD ws s = None <-> cur_word_end WORD ws' s = None.
Proof. rewrite !cur_word_end_none. reflexivity. Qed.

Lemma cur_word_end_ws_spec WORD s e :
  cur_word_end WORD true s = Some e ->
  exists n, cur_word_end WORD false s = Some n /\ n <= e <= len s /\
    (forall j, n <= j < e -> exists x, nth_error s (Z.to_nat j) = Some x /\ re_space x = true) /\
    (forall x, nth_error s (Z.to_nat e) = Some x -> re_space x = false).
Proof.
  destruct s as [|c s']; [discriminate|]. rewrite !cwe_unfold.
  destruct (word_cls WORD c =? 0) eqn:E0; [discriminate|].
  remember (c :: s') as s eqn:Es. clear Es.
  remember (span_len (fun x => word_cls WORD x =? word_cls WORD c) s) as n eqn:En.
  intros H. apply some_inj in H. rewrite <- H. clear H e.
  exists n. split; [reflexivity|].
  pose proof (span_len_bounds (fun x => word_cls WORD x =? word_cls WORD c) s) as Hb1.
  rewrite <- En in Hb1.
  pose proof (span_len_bounds re_space (skipn (Z.to_nat n) s)) as Hb2.
  rewrite len_skipn in Hb2.
  split; [lia|]. split.
  - intros j Hj.
    destruct (span_len_all re_space (skipn (Z.to_nat n) s) (Z.to_nat (j - n))) as (x & Hx & Hp); [lia|].
    exists x. split; [|exact Hp].
    rewrite w_nth_error_skipn in Hx. rewrite <- Hx. f_equal. lia.
  - intros x Hx. apply (span_len_stop re_space (skipn (Z.to_nat n) s) x).
    rewrite w_nth_error_skipn. rewrite <- Hx. f_equal. lia.
Qed.

(* ---------------------------------------------------------------------- *)
(* Character classes: the newline is blank; the two classes of cls_word are
   told apart by is_wordch *)

Lemma word_cls_NL WORD : word_cls WORD NL = 0.
Proof. destruct WORD; vm_compute; reflexivity. Qed.

Lemma cls_big_01 x : cls_big x = 0 \/ cls_big x = 1.
Proof. unfold cls_big. destruct (re_space x); [left|right]; reflexivity. Qed.

Lemma cls_word_wordch x y :
  cls_word x <> 0 -> cls_word y <> 0 ->
  (cls_word x = cls_word y <-> is_wordch x = is_wordch y).
Proof.
  unfold cls_word.
  destruct (is_wordch x) eqn:Ex; destruct (is_wordch y) eqn:Ey;
  destruct (re_space x) eqn:Sx; destruct (re_space y) eqn:Sy;
  intros H1 H2; split; intros H; try reflexivity; try congruence; try lia.
Qed.

(* ---------------------------------------------------------------------- *)
(* The two scanned strings, seen in the whole text *)

Lemma nth_mem_ne c s : forall n x, nth_error s n = Some x -> mem_Z c s = false -> x <> c.
Proof.
  induction s as [|a s IH]; intros n x H Hm; destruct n as [|n]; cbn [nth_error] in H;
    try discriminate; cbn [mem_Z] in Hm; apply orb_false_elim in Hm; destruct Hm as [H1 H2].
  - apply some_inj in H. subst x. apply Z.eqb_neq in H1. exact H1.
  - exact (IH n x H H2).
Qed.

Lemma index_in_range {T} (s : list T) i :
  0 <= i < len s -> index s i = nth_error s (Z.to_nat i).
Proof.
  intros Hi. unfold index. cbv zeta.
  destruct (i <? 0) eqn:E1; [lia|]. rewrite E1. cbn [orb].
  destruct (len s <=? i) eqn:E2; [lia|reflexivity].
Qed.

Lemma clsat_nz cls s j :
  clsat cls s j <> 0 ->
  exists x, index s j = Some x /\ cls x = clsat cls s j /\ 0 <= j < len s.
Proof.
  intros H. unfold clsat in *.
  destruct (j <? 0) eqn:E0; [congruence|].
  destruct (nth_error s (Z.to_nat j)) as [x|] eqn:E; [|congruence].
  assert (Hl : (Z.to_nat j < length s)%nat) by (apply nth_error_Some; rewrite E; discriminate).
  assert (Hj : 0 <= j < len s) by (unfold len; lia).
  exists x. split; [|split; [reflexivity|exact Hj]].
  rewrite index_in_range by exact Hj. exact E.
Qed.

Lemma after_nth d j :
  valid d -> 0 <= j < len (current_line_after_cursor d) ->
  nth_error (current_line_after_cursor d) (Z.to_nat j) =
  nth_error (dtext d) (Z.to_nat (dcur d + j)).
Proof.
  intros Hv Hj. destruct (cla_split d) as (q & Hq & _).
  rewrite (ta_skipn d Hv) in Hq.
  transitivity (nth_error (skipn (Z.to_nat (dcur d)) (dtext d)) (Z.to_nat j)).
  - rewrite Hq. symmetry. apply nth_error_app1. unfold len in Hj. lia.
  - rewrite w_nth_error_skipn. f_equal. destruct Hv as [Hv0 Hv1]. lia.
Qed.

Lemma after_end cls d :
  valid d -> cls NL = 0 ->
  clsat cls (dtext d) (dcur d + len (current_line_after_cursor d)) = 0.
Proof.
  intros Hv HNL. destruct (cla_split d) as (q & Hq & Hd).
  rewrite (ta_skipn d Hv) in Hq.
  pose proof (len_nonneg (current_line_after_cursor d)) as Hn.
  destruct Hv as [Hv0 Hv1].
  replace (dcur d + len (current_line_after_cursor d))
    with (Z.of_nat (Z.to_nat (dcur d)) + len (current_line_after_cursor d)) by lia.
  rewrite <- clsat_skipn by exact Hn. rewrite Hq.
  destruct Hd as [->|[q' ->]].
  - apply clsat_high. rewrite app_nil_r. lia.
  - unfold clsat. destruct (len (current_line_after_cursor d) <? 0) eqn:E; [reflexivity|].
    rewrite Z2N_len. rewrite nth_error_app2 by lia. rewrite Nat.sub_diag.
    cbn [nth_error]. exact HNL.
Qed.

Lemma after_clsat cls d j :
  valid d -> cls NL = 0 -> 0 <= j <= len (current_line_after_cursor d) ->
  clsat cls (current_line_after_cursor d) j = clsat cls (dtext d) (dcur d + j).
Proof.
  intros Hv HNL Hj. destruct (Z.eq_dec j (len (current_line_after_cursor d))) as [->|Hne].
  - rewrite clsat_high by lia. symmetry. apply after_end; assumption.
  - unfold clsat. pose proof Hv as [Hv0 Hv1].
    destruct (j <? 0) eqn:E1; [lia|]. destruct (dcur d + j <? 0) eqn:E2; [lia|].
    rewrite after_nth by (assumption || lia). reflexivity.
Qed.

Lemma before_nth d j :
  valid d -> 0 <= j < len (current_line_before_cursor d) ->
  nth_error (rev (current_line_before_cursor d)) (Z.to_nat j) =
  nth_error (dtext d) (Z.to_nat (dcur d - 1 - j)).
Proof.
  intros Hv Hj. destruct (clb_split d) as (p & Hp & _).
  pose proof (len_tb d Hv) as HL. rewrite Hp, len_app in HL.
  rewrite (tb_firstn d Hv) in Hp.
  pose proof (len_nonneg p) as Hpn.
  rewrite w_nth_error_rev by (unfold len in Hj; lia).
  transitivity (nth_error (firstn (Z.to_nat (dcur d)) (dtext d)) (Z.to_nat (dcur d - 1 - j))).
  - rewrite Hp. rewrite nth_error_app2 by (unfold len in *; lia).
    f_equal. unfold len in *. lia.
  - apply w_nth_error_firstn. lia.
Qed.

Lemma before_end cls d :
  valid d -> cls NL = 0 ->
  clsat cls (dtext d) (dcur d - 1 - len (current_line_before_cursor d)) = 0.
Proof.
  intros Hv HNL. destruct (clb_split d) as (p & Hp & Hd).
  pose proof (len_tb d Hv) as HL. rewrite Hp, len_app in HL.
  rewrite (tb_firstn d Hv) in Hp.
  destruct Hd as [->|[p' ->]].
  - change (len (@nil Z)) with 0 in HL. apply clsat_neg. lia.
  - rewrite len_app in HL. change (len [NL]) with 1 in HL.
    pose proof (len_nonneg p') as Hpn.
    pose proof (len_nonneg (current_line_before_cursor d)) as Hbn.
    replace (dcur d - 1 - len (current_line_before_cursor d)) with (len p') by lia.
    rewrite <- (clsat_firstn cls (dtext d) (Z.to_nat (dcur d))) by lia.
    rewrite Hp. rewrite <- !app_assoc.
    unfold clsat. destruct (len p' <? 0) eqn:E; [reflexivity|].
    rewrite Z2N_len. rewrite nth_error_app2 by lia. rewrite Nat.sub_diag.
    cbn [app nth_error]. exact HNL.
Qed.

Lemma before_clsat cls d j :
  valid d -> cls NL = 0 -> 0 <= j <= len (current_line_before_cursor d) ->
  clsat cls (rev (current_line_before_cursor d)) j = clsat cls (dtext d) (dcur d - 1 - j).
Proof.
  intros Hv HNL Hj. destruct (Z.eq_dec j (len (current_line_before_cursor d))) as [->|Hne].
  - rewrite clsat_high by (rewrite len_rev; lia). symmetry. apply before_end; assumption.
  - pose proof (len_clb_le d Hv) as Hle.
    unfold clsat.
    destruct (j <? 0) eqn:E1; [lia|]. destruct (dcur d - 1 - j <? 0) eqn:E2; [lia|].
    rewrite before_nth by (assumption || lia). reflexivity.
Qed.

(* ---------------------------------------------------------------------- *)
(* What the two searches say about the text around the cursor *)

Lemma ma_some d WORD ea :
  valid d -> cur_word_end WORD false (current_line_after_cursor d) = Some ea ->
  1 <= ea /\ dcur d + ea <= len (dtext d) /\
  exists k, k <> 0 /\
    (forall j, dcur d <= j < dcur d + ea -> clsat (word_cls WORD) (dtext d) j = k) /\
    clsat (word_cls WORD) (dtext d) (dcur d + ea) <> k.
Proof.
  intros Hv H. apply cur_word_end_spec in H. destruct H as (Hb & k & Hk & Hall & Hstop).
  pose proof (len_cla_le d Hv) as Hle.
  split; [lia|]. split; [lia|]. exists k. split; [exact Hk|]. split.
  - intros j Hj. replace j with (dcur d + (j - dcur d)) by lia.
    rewrite <- after_clsat; [apply Hall; lia|exact Hv|apply word_cls_NL|lia].
  - rewrite <- after_clsat; [exact Hstop|exact Hv|apply word_cls_NL|lia].
Qed.

Lemma ma_none d WORD ws :
  valid d -> cur_word_end WORD ws (current_line_after_cursor d) = None ->
  clsat (word_cls WORD) (dtext d) (dcur d) = 0.
Proof.
  intros Hv H. apply cur_word_end_none in H.
  pose proof (len_nonneg (current_line_after_cursor d)) as Hn.
  replace (dcur d) with (dcur d + 0) by lia.
  rewrite <- after_clsat; [exact H|exact Hv|apply word_cls_NL|lia].
Qed.

Lemma mb_some d WORD eb :
  valid d -> cur_word_end WORD false (rev (current_line_before_cursor d)) = Some eb ->
  1 <= eb /\ 0 <= dcur d - eb /\
  exists k, k <> 0 /\
    (forall j, dcur d - eb <= j < dcur d -> clsat (word_cls WORD) (dtext d) j = k) /\
    clsat (word_cls WORD) (dtext d) (dcur d - eb - 1) <> k.
Proof.
  intros Hv H. apply cur_word_end_spec in H. destruct H as (Hb & k & Hk & Hall & Hstop).
  rewrite len_rev in Hb.
  pose proof (len_clb_le d Hv) as Hle.
  split; [lia|]. split; [lia|]. exists k. split; [exact Hk|]. split.
  - intros j Hj. replace j with (dcur d - 1 - (dcur d - 1 - j)) by lia.
    rewrite <- before_clsat; [apply Hall; lia|exact Hv|apply word_cls_NL|lia].
  - replace (dcur d - eb - 1) with (dcur d - 1 - eb) by lia.
    rewrite <- before_clsat; [exact Hstop|exact Hv|apply word_cls_NL|lia].
Qed.

Lemma mb_none d WORD ws :
  valid d -> cur_word_end WORD ws (rev (current_line_before_cursor d)) = None ->
  clsat (word_cls WORD) (dtext d) (dcur d - 1) = 0.
Proof.
  intros Hv H. apply cur_word_end_none in H.
  pose proof (len_nonneg (current_line_before_cursor d)) as Hn.
  replace (dcur d - 1) with (dcur d - 1 - 0) by lia.
  rewrite <- before_clsat; [exact H|exact Hv|apply word_cls_NL|lia].
Qed.

Lemma is_run_intro cls t st en k :
  0 <= st < en -> en <= len t -> k <> 0 ->
  (forall j, st <= j < en -> clsat cls t j = k) ->
  clsat cls t (st - 1) <> k -> clsat cls t en <> k -> is_run cls t st en.
Proof.
  intros H1 H2 H3 H4 H5 H6. unfold is_run. split; [exact H1|]. split; [exact H2|].
  exists k. auto.
Qed.

(* ---------------------------------------------------------------------- *)
(* S3: the span is the maximal run around the cursor *)

Theorem C02y_boundaries_is_run d WORD s e :
  valid d -> find_boundaries_of_current_word d WORD false false = (s, e) ->
  (s, e) <> (0, 0) ->
  is_run (word_cls WORD) (dtext d) (dcur d + s) (dcur d + e).
Proof.
  intros Hv H Hne. unfold find_boundaries_of_current_word in H. cbv zeta in H.
  destruct (cur_word_end WORD false (rev (current_line_before_cursor d))) as [eb|] eqn:Eb;
  destruct (cur_word_end WORD false (current_line_after_cursor d)) as [ea|] eqn:Ea.
  - destruct (mb_some d WORD eb Hv Eb) as (Hb1 & Hb2 & kb & Hkb & Hallb & Hstopb).
    destruct (ma_some d WORD ea Hv Ea) as (Ha1 & Ha2 & ka & Hka & Halla & Hstopa).
    assert (Hcb : clsat (word_cls WORD) (dtext d) (dcur d - 1) = kb) by (apply Hallb; lia).
    assert (Hca : clsat (word_cls WORD) (dtext d) (dcur d) = ka) by (apply Halla; lia).
    assert (Hjoin : ka = kb -> is_run (word_cls WORD) (dtext d) (dcur d + - eb) (dcur d + ea)).
    { intros <-. apply (is_run_intro _ _ _ _ ka); [lia|lia|exact Hka| | |exact Hstopa].
      - intros j Hj. destruct (Z_lt_le_dec j (dcur d)) as [Hlt|Hge].
        + apply Hallb. lia.
        + apply Halla. lia.
      - replace (dcur d + - eb - 1) with (dcur d - eb - 1) by lia. exact Hstopb. }
    assert (Hdrop : ka <> kb -> is_run (word_cls WORD) (dtext d) (dcur d + 0) (dcur d + ea)).
    { intros Hd. apply (is_run_intro _ _ _ _ ka); [lia|lia|exact Hka| | |exact Hstopa].
      - intros j Hj. apply Halla. lia.
      - replace (dcur d + 0 - 1) with (dcur d - 1) by lia. rewrite Hcb.
        intro HH. apply Hd. now symmetry. }
    destruct WORD.
    + injection H as <- <-. apply Hjoin.
      cbn [word_cls] in Hca, Hcb.
      destruct (clsat_nz cls_big (dtext d) (dcur d)) as (c2 & _ & Hc2 & _); [lia|].
      destruct (clsat_nz cls_big (dtext d) (dcur d - 1)) as (c1 & _ & Hc1 & _); [lia|].
      destruct (cls_big_01 c1); destruct (cls_big_01 c2); lia.
    + cbn [word_cls] in Hca, Hcb.
      destruct (clsat_nz cls_word (dtext d) (dcur d)) as (c2 & Hi2 & Hc2 & _); [lia|].
      destruct (clsat_nz cls_word (dtext d) (dcur d - 1)) as (c1 & Hi1 & Hc1 & _); [lia|].
      rewrite Hi1, Hi2 in H.
      assert (Hiff : cls_word c1 = cls_word c2 <-> is_wordch c1 = is_wordch c2)
        by (apply cls_word_wordch; lia).
      destruct (xorb (is_wordch c1) (is_wordch c2)) eqn:X.
      * injection H as <- <-. apply Hdrop.
        intro HH. assert (HE : is_wordch c1 = is_wordch c2) by (apply Hiff; lia).
        rewrite HE, xorb_nilpotent in X. discriminate.
      * injection H as <- <-. apply Hjoin.
        apply xorb_eq in X. apply Hiff in X. lia.
  - destruct (mb_some d WORD eb Hv Eb) as (Hb1 & Hb2 & kb & Hkb & Hallb & Hstopb).
    pose proof (ma_none d WORD false Hv Ea) as Hca.
    injection H as <- <-.
    apply (is_run_intro _ _ _ _ kb); [lia|destruct Hv; lia|exact Hkb| | |].
    + intros j Hj. apply Hallb. lia.
    + replace (dcur d + - eb - 1) with (dcur d - eb - 1) by lia. exact Hstopb.
    + replace (dcur d + 0) with (dcur d) by lia. rewrite Hca. intro HH. apply Hkb. now symmetry.
  - destruct (ma_some d WORD ea Hv Ea) as (Ha1 & Ha2 & ka & Hka & Halla & Hstopa).
    pose proof (mb_none d WORD false Hv Eb) as Hcb.
    injection H as <- <-.
    apply (is_run_intro _ _ _ _ ka); [destruct Hv; lia|lia|exact Hka| | |].
    + intros j Hj. apply Halla. lia.
    + replace (dcur d + 0 - 1) with (dcur d - 1) by lia. rewrite Hcb.
      intro HH. apply Hka. now symmetry.
    + exact Hstopa.
  - injection H as <- <-. exfalso. apply Hne. reflexivity.
Qed.

(* not on a word: nothing under the cursor (blank, newline or end of text) *)
Theorem C02y_boundaries_none d WORD :
  valid d -> find_boundaries_of_current_word d WORD false false = (0, 0) ->
  clsat (word_cls WORD) (dtext d) (dcur d) = 0.
Proof.
  intros Hv H. unfold find_boundaries_of_current_word in H. cbv zeta in H.
  destruct (cur_word_end WORD false (current_line_after_cursor d)) as [ea|] eqn:Ea.
  - destruct (ma_some d WORD ea Hv Ea) as (Ha1 & _).
    injection H as _ He. lia.
  - exact (ma_none d WORD false Hv Ea).
Qed.

(* S5 *)
Theorem C02y_word_under_cursor d WORD :
  valid d ->
  let '(s, e) := find_boundaries_of_current_word d WORD false false in
  get_word_under_cursor d WORD =
  firstn (Z.to_nat (e - s)) (skipn (Z.to_nat (dcur d + s)) (dtext d)).
Proof.
  intros Hv. unfold get_word_under_cursor.
  destruct (find_boundaries_of_current_word d WORD false false) as [s e] eqn:E.
  pose proof (boundaries_in_bounds d WORD false false s e Hv E) as Hb.
  rewrite slice2_in_range by lia. f_equal. f_equal. lia.
Qed.

(* ---------------------------------------------------------------------- *)
(* S4: the include-whitespace variants *)

(* include_trailing_whitespace: the start is unchanged (dropping the before
   match depends on whether the after match exists, not on its value); the end
   is extended over the blanks that follow the word on the same line *)
Theorem C02y_boundaries_trailing_ws d WORD lead s e :
  valid d -> find_boundaries_of_current_word d WORD lead true = (s, e) ->
  exists e0,
    find_boundaries_of_current_word d WORD lead false = (s, e0) /\
    e0 <= e /\
    (forall j, dcur d + e0 <= j < dcur d + e ->
       exists x, nth_error (dtext d) (Z.to_nat j) = Some x /\ re_space x = true /\ x <> NL) /\
    (e0 = 0 -> e = 0) /\
    (forall x, index (dtext d) (dcur d + e) = Some x -> e0 <> 0 -> re_space x = false \/ x = NL).
Proof.
  intros Hv H. unfold find_boundaries_of_current_word in H. cbv zeta in H.
  destruct (cur_word_end WORD true (current_line_after_cursor d)) as [et|] eqn:Et.
  - destruct (cur_word_end_ws_spec _ _ _ Et) as (n & Ef & Hn & Hbl & Hstop).
    injection H as Hs He. subst e.
    destruct (cur_word_end_spec _ _ _ Ef) as (Hn1 & _).
    pose proof (len_cla_le d Hv) as Hle.
    exists n. split; [|split; [lia|split; [|split; [lia|]]]].
    + unfold find_boundaries_of_current_word. cbv zeta. rewrite Ef. f_equal. exact Hs.
    + intros j Hj. destruct (Hbl (j - dcur d)) as (x & Hx & Hp); [lia|].
      exists x. split; [|split; [exact Hp|]].
      * rewrite after_nth in Hx by (assumption || lia). rewrite <- Hx. f_equal. lia.
      * exact (nth_mem_ne NL _ _ _ Hx (cla_no_nl d)).
    + intros x Hx _. destruct (Z.eq_dec et (len (current_line_after_cursor d))) as [Heq|Hlt].
      * right. destruct Hv as [Hv0 Hv1].
        assert (Hr : 0 <= dcur d + et < len (dtext d)).
        { split; [lia|]. destruct (Z_lt_le_dec (dcur d + et) (len (dtext d))) as [Hl|Hg]; [exact Hl|].
          unfold index in Hx. cbv zeta in Hx.
          destruct (dcur d + et <? 0) eqn:E1; [lia|]. rewrite E1 in Hx. cbn [orb] in Hx.
          destruct (len (dtext d) <=? dcur d + et) eqn:E2; [discriminate|lia]. }
        rewrite index_in_range in Hx by exact Hr.
        pose proof (after_end (fun y => if y =? NL then 0 else 1) d (conj Hv0 Hv1) eq_refl) as HE.
        rewrite <- Heq in HE. unfold clsat in HE.
        destruct (dcur d + et <? 0) eqn:E1; [lia|]. rewrite Hx in HE.
        destruct (x =? NL) eqn:E3; [lia|discriminate].
      * left. apply Hstop. rewrite after_nth by (assumption || lia).
        rewrite <- Hx. symmetry. apply index_in_range. destruct Hv. lia.
  - injection H as Hs He. subst e.
    assert (Ef : cur_word_end WORD false (current_line_after_cursor d) = None).
    { apply (cur_word_end_some_iff WORD true false). exact Et. }
    exists 0. split; [|split; [lia|split; [|split; [lia|]]]].
    + unfold find_boundaries_of_current_word. cbv zeta. rewrite Ef. f_equal. exact Hs.
    + intros j Hj. lia.
    + intros x _ HH. exfalso. apply HH. reflexivity.
Qed.

(* include_leading_whitespace: the end is unchanged; the start is extended to
   the left over the blanks that precede the word on the same line (and stays
   0 when the before match is dropped or absent) *)
Definition lead_ext (d : doc) (s s0 : Z) : Prop :=
  s <= s0 <= 0 /\
  (forall j, dcur d + s <= j < dcur d + s0 ->
     exists x, nth_error (dtext d) (Z.to_nat j) = Some x /\ re_space x = true /\ x <> NL) /\
  (s0 = 0 -> s = 0) /\
  (forall x, 0 <= dcur d + s - 1 -> nth_error (dtext d) (Z.to_nat (dcur d + s - 1)) = Some x ->
     s0 <> 0 -> re_space x = false \/ x = NL).

Lemma lead_ext_00 d : lead_ext d 0 0.
Proof.
  unfold lead_ext. split; [lia|]. split; [intros j Hj; lia|]. split; [intros _; reflexivity|].
  intros x _ _ HH. exfalso. apply HH. reflexivity.
Qed.

Lemma lead_ext_some d WORD et :
  valid d -> cur_word_end WORD true (rev (current_line_before_cursor d)) = Some et ->
  exists n, cur_word_end WORD false (rev (current_line_before_cursor d)) = Some n /\
            lead_ext d (- et) (- n).
Proof.
  intros Hv Et.
  destruct (cur_word_end_ws_spec _ _ _ Et) as (n & Ef & Hn & Hbl & Hstop).
  rewrite len_rev in Hn.
  destruct (cur_word_end_spec _ _ _ Ef) as (Hn1 & _).
  pose proof (len_clb_le d Hv) as Hle.
  exists n. split; [exact Ef|]. unfold lead_ext.
  split; [lia|]. split; [|split; [lia|]].
  - intros j Hj. destruct (Hbl (dcur d - 1 - j)) as (x & Hx & Hp); [lia|].
    exists x. split; [|split; [exact Hp|]].
    + rewrite before_nth in Hx by (assumption || lia). rewrite <- Hx. f_equal. lia.
    + apply (nth_mem_ne NL _ _ _ Hx). rewrite mem_Z_rev. apply clb_no_nl.
  - intros x H0 Hx _.
    destruct (Z.eq_dec et (len (current_line_before_cursor d))) as [Heq|Hlt].
    + right.
      pose proof (before_end (fun y => if y =? NL then 0 else 1) d Hv eq_refl) as HE.
      rewrite <- Heq in HE. unfold clsat in HE.
      destruct (dcur d - 1 - et <? 0) eqn:E1; [lia|].
      replace (dcur d - 1 - et) with (dcur d + - et - 1) in HE by lia.
      rewrite Hx in HE. destruct (x =? NL) eqn:E3; [lia|discriminate].
    + left. apply Hstop. rewrite before_nth by (assumption || lia).
      rewrite <- Hx. f_equal. lia.
Qed.

Theorem C02y_boundaries_leading_ws d WORD trail s e :
  valid d -> find_boundaries_of_current_word d WORD true trail = (s, e) ->
  exists s0,
    find_boundaries_of_current_word d WORD false trail = (s0, e) /\
    s <= s0 <= 0 /\
    (forall j, dcur d + s <= j < dcur d + s0 ->
       exists x, nth_error (dtext d) (Z.to_nat j) = Some x /\ re_space x = true /\ x <> NL) /\
    (s0 = 0 -> s = 0) /\
    (forall x, 0 <= dcur d + s - 1 -> nth_error (dtext d) (Z.to_nat (dcur d + s - 1)) = Some x ->
       s0 <> 0 -> re_space x = false \/ x = NL).
Proof.
  intros Hv H.
  change (exists s0, find_boundaries_of_current_word d WORD false trail = (s0, e) /\ lead_ext d s s0).
  pose proof (lead_ext_00 d) as H00.
  unfold find_boundaries_of_current_word in H |- *. cbv zeta in H |- *.
  destruct (cur_word_end WORD true (rev (current_line_before_cursor d))) as [et|] eqn:Et.
  - destruct (lead_ext_some d WORD et Hv Et) as (n & Ef & Hext). rewrite Ef.
    revert H.
    destruct (cur_word_end WORD trail (current_line_after_cursor d)) as [ea|];
      [destruct WORD;
       [|destruct (index (dtext d) (dcur d - 1)) as [c1|];
         [destruct (index (dtext d) (dcur d)) as [c2|];
          [destruct (xorb (is_wordch c1) (is_wordch c2))|]|]]|];
      intros H; injection H as <- <-; eexists; (split; [reflexivity|]); assumption.
  - assert (Ef : cur_word_end WORD false (rev (current_line_before_cursor d)) = None).
    { apply (cur_word_end_some_iff WORD true false). exact Et. }
    rewrite Ef. revert H.
    destruct (cur_word_end WORD trail (current_line_after_cursor d)) as [ea|];
      intros H; injection H as <- <-; eexists; (split; [reflexivity|]); assumption.
Qed.

(* both flags: start from the leading variant, end from the trailing one *)
Corollary C02y_boundaries_both_ws d WORD s e :
  valid d -> find_boundaries_of_current_word d WORD true true = (s, e) ->
  exists s0 e0,
    find_boundaries_of_current_word d WORD false false = (s0, e0) /\
    s <= s0 <= 0 /\ 0 <= e0 <= e /\ (s0 = 0 -> s = 0) /\ (e0 = 0 -> e = 0).
Proof.
  intros Hv H.
  destruct (C02y_boundaries_leading_ws d WORD true s e Hv H) as (s0 & H1 & Hs & _ & Hs0 & _).
  destruct (C02y_boundaries_trailing_ws d WORD false s0 e Hv H1) as (e0 & H2 & He & _ & He0 & _).
  exists s0, e0. split; [exact H2|]. split; [exact Hs|].
  pose proof (boundaries_same_line d WORD false false s0 e0 H2) as Hb.
  split; [lia|]. split; [exact Hs0|exact He0].
Qed.

(* "hello  world" and "a.b" (same answers as /repo) *)
Example C02y_boundaries_example :
  find_boundaries_of_current_word (mkdoc [104;101;108;108;111;32;32;119;111;114;108;100] 2) false false false = (-2, 3) /\
  find_boundaries_of_current_word (mkdoc [104;101;108;108;111;32;32;119;111;114;108;100] 2) false false true = (-2, 5) /\
  find_boundaries_of_current_word (mkdoc [104;101;108;108;111;32;32;119;111;114;108;100] 9) false true false = (-4, 3) /\
  find_boundaries_of_current_word (mkdoc [97;46;98] 1) false false false = (0, 1) /\
  find_boundaries_of_current_word (mkdoc [97;46;98] 1) true false false = (-1, 2).
Proof. vm_compute. repeat split. Qed.
