(* C07 - facts about the key-level model (Model/C07_Keys.v), for any table. *)
From Coq Require Import ZArith List Bool Lia.
From PTK Require Import Lib.Sx Lib.Py Lib.C07_Lemmas Model.C07_Undo Model.C07_Keys Proofs.C07_UndoFacts.
Import ListNotations.
Open Scope Z_scope.

(* ------------------------------------------------------------------ *)
(* A key session IS a buffer-level operation list *)

Lemma urun_app a b s : urun s (a ++ b) = urun (urun s a) b.
Proof. unfold urun. apply fold_left_app. Qed.

Lemma urun_repeat o k : forall s, urun s (repeat o k) = iter_op o k s.
Proof. induction k as [|k IH]; intros s; [reflexivity|]. cbn [repeat urun fold_left iter_op]. apply IH. Qed.

Lemma set_same s : set_state s (utext s) (ucur s) = s.
Proof. destruct s; reflexivity. Qed.

Lemma expand_key_run tbl s h n t c :
  urun (kbuf s) (expand_key tbl s h n t c) = set_state (kbody tbl s h n) t c.
Proof.
  unfold expand_key, kbody.
  change (urun (kbuf s) (?o :: ?l)) with (urun (ustep (kbuf s) o) l).
  rewrite urun_app. cbn [ustep].
  set (s1 := if save_before tbl (kprev s) h then save_to_undo_stack (kbuf s) true else kbuf s).
  assert (E : set_state s1 (utext (kbuf s)) (ucur (kbuf s)) = s1).
  { subst s1. destruct (save_before tbl (kprev s) h); [reflexivity|apply set_same]. }
  rewrite E.
  destruct (r_act (lookup tbl h) =? 1); [rewrite urun_repeat; reflexivity|].
  destruct (r_act (lookup tbl h) =? 2); [rewrite urun_repeat; reflexivity|reflexivity].
Qed.

Lemma kstep_expand tbl s e : kbuf (kstep tbl s e) = urun (kbuf s) (expand tbl s e).
Proof.
  destruct e as [h n t c| |h n nav| |t c]; cbn [kstep kbuf expand]; try reflexivity.
  - symmetry. apply expand_key_run.
  - symmetry. apply expand_key_run.
Qed.

Lemma krun_expand_all tbl evs : forall s,
  kbuf (krun tbl s evs) = urun (kbuf s) (expand_all tbl s evs).
Proof.
  induction evs as [|e evs IH]; intros s; [reflexivity|].
  cbn [krun fold_left expand_all]. change (fold_left (kstep tbl) evs (kstep tbl s e)) with (krun tbl (kstep tbl s e) evs).
  rewrite IH, urun_app, kstep_expand. reflexivity.
Qed.

Lemma Forall_repeat {A} (P : A -> Prop) x k : P x -> Forall P (repeat x k).
Proof. intros H. induction k; constructor; assumption. Qed.

Lemma wf_iter o k : forall s, wf s -> op_ok o -> wf (iter_op o k s).
Proof. induction k as [|k IH]; intros s H Ho; [exact H|]. cbn [iter_op]. apply IH; [apply wf_step|]; assumption. Qed.

Lemma wf_kbody tbl s h n : wf (kbuf s) -> wf (kbody tbl s h n).
Proof.
  intros Hwf. unfold kbody.
  set (s1 := if save_before tbl (kprev s) h then save_to_undo_stack (kbuf s) true else kbuf s).
  assert (H1 : wf s1) by (subst s1; destruct (save_before tbl (kprev s) h); [apply wf_save|]; exact Hwf).
  destruct (r_act (lookup tbl h) =? 1); [apply wf_iter; [exact H1|exact I]|].
  destruct (r_act (lookup tbl h) =? 2); [apply wf_iter; [exact H1|exact I]|exact H1].
Qed.

Lemma index_some_lt {T} (l : list T) (i : Z) (x : T) : 0 <= i -> index l i = Some x -> i < len l.
Proof.
  intros Hi H. unfold index in H.
  destruct (i <? 0) eqn:E; [apply Z.ltb_lt in E; lia|].
  destruct ((i <? 0) || (len l <=? i)) eqn:E2; [discriminate|].
  apply orb_false_iff in E2. destruct E2 as [_ E2]. apply Z.leb_gt in E2. exact E2.
Qed.

Lemma fix_vi_cursor_range nav b :
  0 <= ucur b <= len (utext b) -> 0 <= fix_vi_cursor nav b <= len (utext b).
Proof.
  intros H. unfold fix_vi_cursor.
  destruct (nav && _ && ((0 <? ucur b) && _)) eqn:E; [|exact H].
  apply andb_true_iff in E. destruct E as [_ E]. apply andb_true_iff in E. destruct E as [E _].
  apply Z.ltb_lt in E. lia.
Qed.

Lemma wf_set_cursor b c : wf b -> 0 <= c <= len (utext b) -> wf (set_state b (utext b) c).
Proof.
  intros (Hh & Hu & Hr & Hb) Hc. unfold wf, set_state, here; cbn [utext ucur ustack rstack ubad].
  repeat split; try assumption; apply Hc.
Qed.

Lemma wf_kstep tbl s e : wf (kbuf s) -> kev_ok e -> wf (kbuf (kstep tbl s e)).
Proof.
  intros Hwf Hok. destruct e as [h n t c| |h n nav| |t c]; cbn [kstep kbuf].
  - destruct (wf_kbody tbl s h n Hwf) as (Hh & Hu & Hr & Hb). destruct Hok as [Hc _].
    unfold wf, set_state, here; cbn [utext ucur ustack rstack ubad]. repeat split; try assumption; apply Hc.
  - apply wf_redo. exact Hwf.
  - pose proof (wf_kbody tbl s h n Hwf) as Hb. apply wf_set_cursor; [exact Hb|].
    apply fix_vi_cursor_range. destruct Hb as (Hh & _). exact Hh.
  - exact Hwf.
  - apply wf_step; [exact Hwf|exact Hok].
Qed.

Lemma wf_krun tbl evs : forall s, wf (kbuf s) -> Forall kev_ok evs -> wf (kbuf (krun tbl s evs)).
Proof.
  induction evs as [|e evs IH]; intros s Hwf Hok; [exact Hwf|].
  inversion Hok; subst. cbn [krun fold_left]. apply IH; [apply wf_kstep|]; assumption.
Qed.

(* the expansion of well-formed events is a list of well-formed operations *)
Lemma expand_key_ok tbl s h n t c :
  wf (kbuf s) -> 0 <= c <= len t -> Forall op_ok (expand_key tbl s h n t c).
Proof.
  intros Hwf Hc. unfold expand_key.
  constructor; [destruct Hwf as (Hh & _); exact Hh|].
  apply Forall_app. split.
  - destruct (r_act (lookup tbl h) =? 1); [apply Forall_repeat; exact I|].
    destruct (r_act (lookup tbl h) =? 2); [apply Forall_repeat; exact I|constructor].
  - constructor; [exact Hc|constructor].
Qed.

Lemma expand_ok tbl s e : wf (kbuf s) -> kev_ok e -> Forall op_ok (expand tbl s e).
Proof.
  intros Hwf Hok. destruct e as [h n t c| |h n nav| |t c]; cbn [expand].
  - apply expand_key_ok; [exact Hwf|apply Hok].
  - repeat constructor.
  - apply expand_key_ok; [exact Hwf|].
    apply fix_vi_cursor_range. destruct (wf_kbody tbl s h n Hwf) as (Hh & _). exact Hh.
  - constructor.
  - constructor; [exact Hok|constructor].
Qed.

Lemma expand_all_ok tbl evs : forall s,
  wf (kbuf s) -> Forall kev_ok evs -> Forall op_ok (expand_all tbl s evs).
Proof.
  induction evs as [|e evs IH]; intros s Hwf Hok; [constructor|].
  inversion Hok; subst. cbn [expand_all]. apply Forall_app. split.
  - apply expand_ok; assumption.
  - apply IH; [apply wf_kstep|]; assumption.
Qed.

(* ------------------------------------------------------------------ *)
(* Grouping: a run of one if_no_repeat binding takes exactly one snapshot *)

Definition is_key_of (h : Z) (e : kev) : Prop :=
  match e with Key h' _ _ _ => h' = h | _ => False end.

(* the events of a run as the terminal delivers them: invocations of the one
   binding, with cursor position reports arriving in between *)
Definition in_run_of (h : Z) (e : kev) : Prop :=
  match e with Key h' _ _ _ => h' = h | Cpr => True | _ => False end.

Lemma is_key_in_run h e : is_key_of h e -> in_run_of h e.
Proof. destruct e; cbn; auto. Qed.

Lemma Forall_is_key_in_run h evs : Forall (is_key_of h) evs -> Forall (in_run_of h) evs.
Proof. intros H. eapply Forall_impl; [|exact H]. apply is_key_in_run. Qed.

(* A cursor position report changes nothing the undo machinery looks at. *)
Lemma cpr_is_invisible tbl s : kstep tbl s Cpr = s.
Proof. destruct s; reflexivity. Qed.

Lemma save_before_first tbl prev h :
  r_cls (lookup tbl h) = 2 -> prev <> Some h -> save_before tbl prev h = true.
Proof.
  intros Hc Hp. unfold save_before. rewrite Hc. cbn [Z.eqb Pos.eqb].
  destruct prev as [p|]; cbn [is_repeat negb]; [|reflexivity].
  destruct (p =? h) eqn:E; [apply Z.eqb_eq in E; congruence|reflexivity].
Qed.

Lemma save_before_repeat tbl h :
  r_cls (lookup tbl h) = 2 -> save_before tbl (Some h) h = false.
Proof.
  intros Hc. unfold save_before. rewrite Hc. cbn [Z.eqb Pos.eqb is_repeat]. now rewrite Z.eqb_refl.
Qed.

Lemma kbody_plain tbl s h n :
  r_act (lookup tbl h) = 0 ->
  kbody tbl s h n = if save_before tbl (kprev s) h then save_to_undo_stack (kbuf s) true else kbuf s.
Proof. intros Ha. unfold kbody. rewrite Ha. reflexivity. Qed.

(* repeats (and reports in between) keep both stacks *)
Lemma group_repeats tbl h evs : forall s,
  r_cls (lookup tbl h) = 2 -> r_act (lookup tbl h) = 0 ->
  kprev s = Some h -> Forall (in_run_of h) evs ->
  ustack (kbuf (krun tbl s evs)) = ustack (kbuf s) /\
  rstack (kbuf (krun tbl s evs)) = rstack (kbuf s) /\
  kprev (krun tbl s evs) = Some h.
Proof.
  induction evs as [|e evs IH]; intros s Hc Ha Hp Hall; [repeat split; exact Hp|].
  inversion Hall as [|? ? He Hrest]; subst.
  cbn [krun fold_left]. change (fold_left (kstep tbl) evs ?x) with (krun tbl x evs).
  destruct e as [h' n t c| |h' n nav| |t' c']; cbn [in_run_of] in He.
  - subst h'.
    destruct (IH (kstep tbl s (Key h n t c)) Hc Ha eq_refl Hrest) as (I1 & I2 & I3).
    rewrite I1, I2, I3. cbn [kstep kbuf]. rewrite kbody_plain by exact Ha.
    rewrite Hp, save_before_repeat by exact Hc. repeat split.
  - contradiction.
  - contradiction.
  - rewrite cpr_is_invisible. apply IH; assumption.
  - contradiction.
Qed.

Theorem group_one_snapshot_cpr tbl h s n t c evs :
  r_cls (lookup tbl h) = 2 -> r_act (lookup tbl h) = 0 ->
  kprev s <> Some h -> Forall (in_run_of h) evs ->
  let s' := krun tbl s (Key h n t c :: evs) in
  ustack (kbuf s') = ustack (save_to_undo_stack (kbuf s) true) /\
  rstack (kbuf s') = [] /\ kprev s' = Some h.
Proof.
  intros Hc Ha Hp Hrest. cbn zeta.
  cbn [krun fold_left]. change (fold_left (kstep tbl) evs ?x) with (krun tbl x evs).
  destruct (group_repeats tbl h evs (kstep tbl s (Key h n t c)) Hc Ha eq_refl Hrest) as (I1 & I2 & I3).
  rewrite I1, I2, I3. cbn [kstep kbuf]. rewrite kbody_plain by exact Ha.
  rewrite save_before_first by assumption. repeat split.
Qed.

Theorem group_one_snapshot tbl h s e evs :
  r_cls (lookup tbl h) = 2 -> r_act (lookup tbl h) = 0 ->
  kprev s <> Some h -> Forall (is_key_of h) (e :: evs) ->
  let s' := krun tbl s (e :: evs) in
  ustack (kbuf s') = ustack (save_to_undo_stack (kbuf s) true) /\
  rstack (kbuf s') = [] /\ kprev s' = Some h.
Proof.
  intros Hc Ha Hp Hall. inversion Hall as [|? ? He Hrest]; subst.
  destruct e as [h' n t c| |h' n nav| |t' c']; cbn [is_key_of] in He; try contradiction. subst h'.
  apply group_one_snapshot_cpr; try assumption. apply Forall_is_key_in_run. exact Hrest.
Qed.

Lemma undo_after_one_snapshot b b' :
  wf b -> ustack b' = ustack (save_to_undo_stack b true) -> rstack b' = [] ->
  utext b' <> utext b ->
  here (undo b') = here b /\ rstack (undo b') = [here b'].
Proof.
  intros Hwf Hu Hr Hne.
  destruct (save_ustack_top b true) as [r Er]. rewrite Er in Hu.
  unfold undo. rewrite Hu. cbn [undo_loop]. unfold here at 1. cbn [fst snd].
  assert (Ef : str_eqb (utext b) (utext b') = false).
  { apply c07_str_eqb_neq. congruence. }
  unfold here in Er |- *.
  rewrite Ef. destruct Hwf as (Hh & _). rewrite set_document_ok by exact Hh.
  cbn [utext ucur rstack]. rewrite Hr. split; reflexivity.
Qed.

(* One undo after a run restores the pre-run text and cursor - also when
   cursor position reports arrived between the keys of the run. *)
Theorem group_one_undo_cpr tbl h s n t c evs :
  r_cls (lookup tbl h) = 2 -> r_act (lookup tbl h) = 0 ->
  kprev s <> Some h -> Forall (in_run_of h) evs ->
  wf (kbuf s) ->
  let s' := krun tbl s (Key h n t c :: evs) in
  utext (kbuf s') <> utext (kbuf s) ->
  here (undo (kbuf s')) = here (kbuf s) /\
  rstack (undo (kbuf s')) = [here (kbuf s')].
Proof.
  intros Hc Ha Hp Hall Hwf. cbn zeta. intros Hne.
  destruct (group_one_snapshot_cpr tbl h s n t c evs Hc Ha Hp Hall) as (Hu & Hr & _).
  apply undo_after_one_snapshot; assumption.
Qed.

(* ... so ONE undo after the run restores the text and cursor from before the
   run (when the run changed the text at all). *)
Theorem group_one_undo tbl h s e evs :
  r_cls (lookup tbl h) = 2 -> r_act (lookup tbl h) = 0 ->
  kprev s <> Some h -> Forall (is_key_of h) (e :: evs) ->
  wf (kbuf s) ->
  let s' := krun tbl s (e :: evs) in
  utext (kbuf s') <> utext (kbuf s) ->
  here (undo (kbuf s')) = here (kbuf s) /\
  rstack (undo (kbuf s')) = [here (kbuf s')].
Proof.
  intros Hc Ha Hp Hall Hwf. cbn zeta. intros Hne.
  destruct (group_one_snapshot tbl h s e evs Hc Ha Hp Hall) as (Hu & Hr & _).
  apply undo_after_one_snapshot; assumption.
Qed.

(* ------------------------------------------------------------------ *)
(* Any edit dispatched through a binding that snapshots (class 1 or 2)
   leaves the redo stack empty - repeats of an if_no_repeat binding included *)

Definition redo_inv (tbl : list row) (s : kst) : Prop :=
  forall h, kprev s = Some h -> r_cls (lookup tbl h) = 2 -> r_act (lookup tbl h) = 0 ->
            rstack (kbuf s) = [].

Lemma save_before_cases tbl prev h :
  r_cls (lookup tbl h) <> 0 ->
  save_before tbl prev h = true \/
  (r_cls (lookup tbl h) = 2 /\ prev = Some h /\ save_before tbl prev h = false).
Proof.
  intros Hc. unfold save_before.
  destruct (r_cls (lookup tbl h) =? 0) eqn:E0; [apply Z.eqb_eq in E0; contradiction|].
  destruct (r_cls (lookup tbl h) =? 2) eqn:E2; [|left; reflexivity].
  apply Z.eqb_eq in E2. destruct prev as [p|]; cbn [is_repeat negb]; [|left; reflexivity].
  destruct (p =? h) eqn:E; [|left; reflexivity].
  apply Z.eqb_eq in E. subst p. right. repeat split. exact E2.
Qed.

Lemma kbody_clears tbl s h n :
  redo_inv tbl s -> r_act (lookup tbl h) = 0 -> r_cls (lookup tbl h) <> 0 ->
  rstack (kbody tbl s h n) = [].
Proof.
  intros Hinv Ha Hc. rewrite kbody_plain by exact Ha.
  destruct (save_before_cases tbl (kprev s) h Hc) as [E|(E2 & Ep & E)]; rewrite E.
  - reflexivity.
  - apply (Hinv h Ep E2 Ha).
Qed.

Lemma edit_step_clears tbl s h n t c :
  redo_inv tbl s -> r_act (lookup tbl h) = 0 -> r_cls (lookup tbl h) <> 0 ->
  rstack (kbuf (kstep tbl s (Key h n t c))) = [].
Proof.
  intros Hinv Ha Hc. cbn [kstep kbuf set_state rstack]. apply kbody_clears; assumption.
Qed.

Lemma redo_inv_step tbl s e : redo_inv tbl s -> redo_inv tbl (kstep tbl s e).
Proof.
  intros Hinv. destruct e as [h n t c| |h n nav| |t c].
  - intros h' Hp Hc Ha. cbn [kstep kprev] in Hp. injection Hp as <-.
    apply edit_step_clears; [exact Hinv|exact Ha|]. rewrite Hc. discriminate.
  - intros h Hp Hc Ha. cbn [kstep kprev kbuf] in *.
    pose proof (Hinv h Hp Hc Ha) as Hr.
    destruct (redo_spec (kbuf s)) as [[_ Heq]|(t & pos & r & Hr' & _)]; [rewrite Heq; exact Hr|].
    rewrite Hr in Hr'. discriminate.
  - intros h' Hp Hc Ha. cbn [kstep kprev] in Hp. injection Hp as <-.
    cbn [kstep kbuf set_state rstack]. apply kbody_clears; [exact Hinv|exact Ha|]. rewrite Hc. discriminate.
  - rewrite cpr_is_invisible. exact Hinv.
  - intros h Hp. cbn [kstep kprev] in Hp. discriminate.
Qed.

Lemma redo_inv_run tbl evs : forall s, redo_inv tbl s -> redo_inv tbl (krun tbl s evs).
Proof.
  induction evs as [|e evs IH]; intros s H; [exact H|].
  cbn [krun fold_left]. apply IH. apply redo_inv_step. exact H.
Qed.

Theorem key_edit_clears_redo tbl t0 c0 evs h n t c :
  r_act (lookup tbl h) = 0 -> r_cls (lookup tbl h) <> 0 ->
  rstack (kbuf (kstep tbl (krun tbl (kfresh t0 c0) evs) (Key h n t c))) = [].
Proof.
  intros Ha Hc. apply edit_step_clears; [|exact Ha|exact Hc].
  apply redo_inv_run. intros h' Hp. discriminate.
Qed.

(* ------------------------------------------------------------------ *)
(* Repeated undo reaches the initial text, for the bindings as they are
   dispatched: the only unsnapshotted edits are repeats inside a run. *)

Definition stack_inv (tbl : list row) (s : kst) : Prop :=
  forall h, kprev s = Some h -> r_cls (lookup tbl h) = 2 -> ustack (kbuf s) <> [].

Lemma bottom_iter o k : forall s,
  wf s -> (o = Undo \/ o = Redo) -> bottom_text (iter_op o k s) = bottom_text s.
Proof.
  induction k as [|k IH]; intros s Hwf Ho; [reflexivity|].
  cbn [iter_op]. rewrite IH; [|apply wf_step; [exact Hwf|destruct Ho; subst; exact I]|exact Ho].
  destruct Ho; subst; cbn [ustep]; [apply bottom_undo|apply bottom_redo]; exact Hwf.
Qed.

Lemma bottom_kbody tbl s h n : wf (kbuf s) -> bottom_text (kbody tbl s h n) = bottom_text (kbuf s).
Proof.
  intros Hwf. unfold kbody.
  set (s1 := if save_before tbl (kprev s) h then save_to_undo_stack (kbuf s) true else kbuf s).
  assert (H1 : wf s1) by (subst s1; destruct (save_before tbl (kprev s) h); [apply wf_save|]; exact Hwf).
  assert (B1 : bottom_text s1 = bottom_text (kbuf s))
    by (subst s1; destruct (save_before tbl (kprev s) h); [apply bottom_save|reflexivity]).
  destruct (r_act (lookup tbl h) =? 1); [rewrite bottom_iter; auto|].
  destruct (r_act (lookup tbl h) =? 2); [rewrite bottom_iter; auto|exact B1].
Qed.

Lemma redo_keeps_nonempty s : ustack s <> [] -> ustack (redo s) <> [].
Proof.
  intros H. destruct (redo_spec s) as [[_ Heq]|(t & pos & r & _ & Heq)]; rewrite Heq; [exact H|].
  rewrite set_document_ustack. cbn [ustack]. apply save_nonempty.
Qed.

Lemma kbody_stack_inv tbl s h n :
  tbl_sane tbl -> stack_inv tbl s -> r_cls (lookup tbl h) = 2 -> ustack (kbody tbl s h n) <> [].
Proof.
  intros Hsane Hinv Hc. pose proof (Hsane h Hc) as Ha. rewrite kbody_plain by exact Ha.
  assert (Hc0 : r_cls (lookup tbl h) <> 0) by (rewrite Hc; discriminate).
  destruct (save_before_cases tbl (kprev s) h Hc0) as [E|(E2 & Ep & E)]; rewrite E.
  - apply save_nonempty.
  - apply (Hinv h Ep E2).
Qed.

Lemma reach_step tbl s e :
  tbl_sane tbl -> wf (kbuf s) -> kev_ok e -> quiet tbl s e -> stack_inv tbl s ->
  bottom_text (kbuf (kstep tbl s e)) = match e with KReset t _ => t | _ => bottom_text (kbuf s) end
  /\ stack_inv tbl (kstep tbl s e).
Proof.
  intros Hsane Hwf Hok Hq Hinv. destruct e as [h n t c| |h n nav| |t c].
  - cbn [kstep kbuf]. cbn [quiet] in Hq.
    destruct (Z.eq_dec (r_act (lookup tbl h)) 0) as [Ha|Ha].
    2:{ (* an undo/redo handler: the dispatch ends on the text the handler left *)
        split.
        - rewrite (Hq (or_introl Ha)). rewrite <- (bottom_kbody tbl s h n Hwf).
          unfold bottom_text, set_state; reflexivity.
        - intros h' Hp Hc. cbn [kprev] in Hp. injection Hp as <-. apply Hsane in Hc. contradiction. }
    destruct (Z.eq_dec (r_cls (lookup tbl h)) 0) as [Hc|Hc].
    { split.
      - rewrite (Hq (or_intror Hc)). rewrite <- (bottom_kbody tbl s h n Hwf).
        unfold bottom_text, set_state; reflexivity.
      - intros h' Hp Hc'. cbn [kprev] in Hp. injection Hp as <-. congruence. }
    (* a plain handler behind a snapshotting binding: arbitrary effect *)
    rewrite kbody_plain by exact Ha.
    destruct (save_before_cases tbl (kprev s) h Hc) as [E|(E2 & Ep & E)]; rewrite E.
    + split.
      * rewrite bottom_set_state_nonempty by apply save_nonempty. apply bottom_save.
      * intros h' _ _. cbn [kbuf set_state ustack]. apply save_nonempty.
    + pose proof (Hinv h Ep E2) as Hne. split.
      * apply bottom_set_state_nonempty. exact Hne.
      * intros h' _ _. cbn [kbuf set_state ustack]. exact Hne.
  - cbn [kstep kbuf]. split; [apply bottom_redo; exact Hwf|].
    intros h Hp Hc. cbn [kprev kbuf] in *. apply redo_keeps_nonempty. apply (Hinv h Hp Hc).
  - (* an undo key, effect computed by the handler model: the text is the one undo() left *)
    cbn [kstep kbuf]. split.
    + rewrite <- (bottom_kbody tbl s h n Hwf). unfold bottom_text, set_state; reflexivity.
    + intros h' Hp Hc. cbn [kprev] in Hp. injection Hp as <-.
      cbn [kbuf set_state ustack]. apply kbody_stack_inv; assumption.
  - rewrite cpr_is_invisible. split; [reflexivity|exact Hinv].
  - split; [reflexivity|]. intros h Hp. cbn [kstep kprev] in Hp. discriminate.
Qed.

Lemma reach_run tbl evs : forall s,
  tbl_sane tbl -> wf (kbuf s) -> Forall kev_ok evs -> all_quiet tbl s evs -> stack_inv tbl s ->
  bottom_text (kbuf (krun tbl s evs)) = ksession_start (bottom_text (kbuf s)) evs.
Proof.
  induction evs as [|e evs IH]; intros s Hsane Hwf Hok Hq Hinv; [reflexivity|].
  inversion Hok; subst. destruct Hq as [Hq Hrest].
  destruct (reach_step tbl s e Hsane Hwf H1 Hq Hinv) as [Hb Hi].
  cbn [krun fold_left]. change (fold_left (kstep tbl) evs ?x) with (krun tbl x evs).
  unfold ksession_start. cbn [fold_left].
  fold (ksession_start (match e with KReset t _ => t | _ => bottom_text (kbuf s) end) evs).
  rewrite IH; [rewrite Hb; reflexivity|exact Hsane|apply wf_kstep; assumption|assumption|exact Hrest|exact Hi].
Qed.

Theorem key_reaches_start tbl t0 c0 evs k :
  tbl_sane tbl -> 0 <= c0 <= len t0 -> Forall kev_ok evs -> all_quiet tbl (kfresh t0 c0) evs ->
  let s := kbuf (krun tbl (kfresh t0 c0) evs) in
  (length (ustack s) <= k)%nat ->
  utext (iter_op Undo k s) = ksession_start t0 evs.
Proof.
  intros Hsane Hc Hok Hq. cbn zeta. intros Hk.
  assert (Hwf0 : wf (kbuf (kfresh t0 c0))) by (apply wf_fresh; exact Hc).
  rewrite undo_all_reaches_bottom; [|apply wf_krun; assumption|exact Hk].
  rewrite reach_run; [reflexivity|exact Hsane|exact Hwf0|exact Hok|exact Hq|].
  intros h Hp. discriminate.
Qed.

(* ------------------------------------------------------------------ *)
(* Sessions made of modelled events only need no [all_quiet] hypothesis *)

(* a generic (payload) key event is only used for plain handlers behind a
   binding that snapshots; undo keys are [UndoKey], reports are [Cpr] *)
Definition modelled (tbl : list row) (e : kev) : Prop :=
  match e with
  | Key h _ _ _ => r_act (lookup tbl h) = 0 /\ r_cls (lookup tbl h) <> 0
  | _ => True
  end.

Lemma modelled_quiet tbl evs : forall s, Forall (modelled tbl) evs -> all_quiet tbl s evs.
Proof.
  induction evs as [|e evs IH]; intros s H; [exact I|].
  inversion H as [|? ? He Hrest]; subst. cbn [all_quiet]. split; [|apply IH; exact Hrest].
  destruct e as [h n t c| |h n nav| |t c]; cbn [quiet]; try exact I.
  destruct He as [Ha Hc]. intros [Hx|Hx]; contradiction.
Qed.

Theorem key_reaches_start_modelled tbl t0 c0 evs k :
  tbl_sane tbl -> 0 <= c0 <= len t0 -> Forall kev_ok evs -> Forall (modelled tbl) evs ->
  let s := kbuf (krun tbl (kfresh t0 c0) evs) in
  (length (ustack s) <= k)%nat ->
  utext (iter_op Undo k s) = ksession_start t0 evs.
Proof.
  intros Hsane Hc Hok Hm. apply key_reaches_start; try assumption. apply modelled_quiet. exact Hm.
Qed.

(* An undo key that never snapshots IS n calls of Buffer.undo followed by the
   Vi cursor fix-up: same text, same stacks. *)
Theorem undo_key_is_n_undos tbl s h n nav :
  r_act (lookup tbl h) = 1 -> r_cls (lookup tbl h) = 0 ->
  let b := iter_op Undo (Z.to_nat n) (kbuf s) in
  kbuf (kstep tbl s (UndoKey h n nav)) = set_state b (utext b) (fix_vi_cursor nav b).
Proof.
  intros Ha Hc. cbn zeta. cbn [kstep kbuf]. unfold kbody, save_before. rewrite Ha, Hc. reflexivity.
Qed.

(* ------------------------------------------------------------------ *)
(* One undo right after ANY snapshotted edit restores the state before it *)

Theorem undo_restores_pre_command s t c :
  wf s -> t <> utext s ->
  here (undo (ustep s (Cmd true t c))) = here s /\
  rstack (undo (ustep s (Cmd true t c))) = [(t, c)].
Proof.
  intros Hwf Hne. cbn [ustep].
  apply (undo_after_one_snapshot s (set_state (save_to_undo_stack s true) t c)); try assumption; reflexivity.
Qed.

Theorem key_edit_undo tbl s h n t c :
  r_act (lookup tbl h) = 0 -> save_before tbl (kprev s) h = true ->
  wf (kbuf s) -> t <> utext (kbuf s) ->
  here (undo (kbuf (kstep tbl s (Key h n t c)))) = here (kbuf s) /\
  rstack (undo (kbuf (kstep tbl s (Key h n t c)))) = [(t, c)].
Proof.
  intros Ha Hsv Hwf Hne. cbn [kstep kbuf]. rewrite kbody_plain by exact Ha. rewrite Hsv.
  apply (undo_after_one_snapshot (kbuf s) (set_state (save_to_undo_stack (kbuf s) true) t c)); try assumption; reflexivity.
Qed.

Lemma save_before_always tbl prev h : r_cls (lookup tbl h) = 1 -> save_before tbl prev h = true.
Proof. intros Hc. unfold save_before. rewrite Hc. reflexivity. Qed.

(* ------------------------------------------------------------------ *)
(* A new prompt on the same session *)

(* Whatever came before: both stacks empty, no previous handler. *)
Theorem kreset_restarts tbl s t c :
  kstep tbl s (KReset t c) = mkkst (mkust t c [] [] (ubad (kbuf s))) None.
Proof. reflexivity. Qed.

(* so the rest of the session is a session from a fresh prompt *)
Theorem krun_after_reset tbl s t c evs :
  ubad (kbuf s) = false -> krun tbl s (KReset t c :: evs) = krun tbl (kfresh t c) evs.
Proof. intros Hb. cbn [krun fold_left kstep ustep]. rewrite Hb. reflexivity. Qed.

(* and the first key of the new prompt, if its binding is if_no_repeat, is not
   a repeat: it snapshots the start text, and one undo after the run it starts
   gives the start text and cursor back - even when the very same binding
   handled the last key of the previous prompt. *)
Theorem first_run_after_reset tbl h s t0 c0 n t c evs :
  r_cls (lookup tbl h) = 2 -> r_act (lookup tbl h) = 0 ->
  Forall (in_run_of h) evs -> 0 <= c0 <= len t0 -> ubad (kbuf s) = false ->
  let s' := krun tbl s (KReset t0 c0 :: Key h n t c :: evs) in
  utext (kbuf s') <> t0 ->
  here (undo (kbuf s')) = (t0, c0).
Proof.
  intros Hc Ha Hall Hc0 Hb. cbn zeta. rewrite krun_after_reset by exact Hb. intros Hne.
  assert (Hp : kprev (kfresh t0 c0) <> Some h) by discriminate.
  destruct (group_one_undo_cpr tbl h (kfresh t0 c0) n t c evs Hc Ha Hp Hall (wf_fresh t0 c0 Hc0) Hne) as [H _].
  exact H.
Qed.

Theorem new_prompt_restarts tbl s t c evs :
  ubad (kbuf s) = false ->
  kstep tbl s (KReset t c) = mkkst (mkust t c [] [] false) None /\
  krun tbl s (KReset t c :: evs) = krun tbl (kfresh t c) evs.
Proof.
  intros Hb. split; [rewrite kreset_restarts, Hb; reflexivity|exact (krun_after_reset tbl s t c evs Hb)].
Qed.
